//go:build verif

// Package crashfs freezes crash images: sparse-aware copies of a directory tree, de-duplicated by a
// content hash (DESIGN.md §2.2). It has no dependency on the repository.
package crashfs

import (
	"crypto/sha1"
	"encoding/hex"
	"fmt"
	"io"
	"os"
	"path/filepath"
	"sort"
	"syscall"
)

const (
	seekData = 3
	seekHole = 4
)

// CopyTree copies src to dst (dst must not exist), keeping holes as holes, and returns a digest of
// (relative path, size, data extents) of every file and directory.
func CopyTree(src, dst string) (string, error) {
	h := sha1.New()
	var paths []string
	err := filepath.Walk(src, func(p string, info os.FileInfo, err error) error {
		if err != nil {
			if os.IsNotExist(err) {
				return nil // removed concurrently by an un-hooked writer
			}
			return err
		}
		paths = append(paths, p)
		return nil
	})
	if err != nil {
		return "", err
	}
	sort.Strings(paths)
	for _, p := range paths {
		rel, _ := filepath.Rel(src, p)
		info, err := os.Lstat(p)
		if err != nil {
			if os.IsNotExist(err) {
				continue
			}
			return "", err
		}
		target := filepath.Join(dst, rel)
		if info.IsDir() {
			fmt.Fprintf(h, "D %s\n", rel)
			if err := os.MkdirAll(target, 0o755); err != nil {
				return "", err
			}
			continue
		}
		if !info.Mode().IsRegular() {
			continue
		}
		fmt.Fprintf(h, "F %s %d\n", rel, info.Size())
		if err := copySparse(p, target, info.Size(), h); err != nil {
			if os.IsNotExist(err) {
				continue
			}
			return "", err
		}
	}
	return hex.EncodeToString(h.Sum(nil)), nil
}

func copySparse(src, dst string, size int64, h io.Writer) error {
	in, err := os.Open(src)
	if err != nil {
		return err
	}
	defer in.Close()
	if err := os.MkdirAll(filepath.Dir(dst), 0o755); err != nil {
		return err
	}
	out, err := os.OpenFile(dst, os.O_CREATE|os.O_WRONLY|os.O_TRUNC, 0o644)
	if err != nil {
		return err
	}
	defer out.Close()
	if err := out.Truncate(size); err != nil {
		return err
	}
	fd := int(in.Fd())
	off := int64(0)
	buf := make([]byte, 256<<10)
	for off < size {
		ds, err := syscall.Seek(fd, off, seekData)
		if err != nil {
			if err == syscall.ENXIO {
				break // only a hole remains
			}
			// filesystem without SEEK_DATA: copy everything
			ds = off
		}
		he, err := syscall.Seek(fd, ds, seekHole)
		if err != nil {
			he = size
		}
		if he > size {
			he = size
		}
		for pos := ds; pos < he; {
			n := int64(len(buf))
			if he-pos < n {
				n = he - pos
			}
			m, err := in.ReadAt(buf[:n], pos)
			if m > 0 {
				// skip all-zero blocks in the digest so that allocation details do not matter
				if !allZero(buf[:m]) {
					fmt.Fprintf(h, "@%d+%d:", pos, m)
					_, _ = h.Write(buf[:m])
					if _, werr := out.WriteAt(buf[:m], pos); werr != nil {
						return werr
					}
				}
				pos += int64(m)
			}
			if err != nil {
				if err == io.EOF {
					break
				}
				return err
			}
			if m == 0 {
				break
			}
		}
		off = he
	}
	return nil
}

func allZero(b []byte) bool {
	for _, c := range b {
		if c != 0 {
			return false
		}
	}
	return true
}

// Listing returns the sorted relative paths (files with sizes) under root, for evidence/debugging.
func Listing(root string) []string {
	var out []string
	_ = filepath.Walk(root, func(p string, info os.FileInfo, err error) error {
		if err != nil || info.IsDir() {
			return nil
		}
		rel, _ := filepath.Rel(root, p)
		out = append(out, fmt.Sprintf("%s(%d)", rel, info.Size()))
		return nil
	})
	sort.Strings(out)
	return out
}
