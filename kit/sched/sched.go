//go:build verif

// Package sched is a controlled scheduler for real goroutines (DESIGN.md §2.3), run inside one
// testing/synctest bubble. Threads are real goroutines that stop at every Point (lock acquisition in
// the shimmed packages, thread start); the scheduler holds the token, hands it to one enabled thread,
// and uses synctest.Wait to learn when that thread has reached its next Point, finished, or blocked
// in an un-instrumented primitive. Exploration is a preemption-bounded depth-first search over the
// choices (iterated bound 0,1,2…). It has no dependency on the repository.
package sched

import (
	"bytes"
	"fmt"
	"runtime"
	"sort"
	"strconv"
	"strings"
	"sync"
	"sync/atomic"
	"testing/synctest"
	"time"
)

type Kind uint8

const (
	KStart Kind = iota
	KLock
	KRLock
	KTry
	KYield
)

func (k Kind) String() string { return [...]string{"start", "lock", "rlock", "try", "yield"}[k] }

// LockState lives inside every shim mutex and is kept up to date in every mode.
type LockState struct {
	Writer  atomic.Int32
	Readers atomic.Int32
}

type thread struct {
	id      int
	name    string
	resume  chan struct{}
	parked  bool // at a Point, waiting for the token
	done    bool
	root    bool
	kind    Kind
	obj     *LockState
	site    uintptr
	nspawn  int
	chain   string // call chain of the pending operation (part of the point signature)
	pending bool // resumed, has not parked/finished since
}

// PointInfo describes one scheduling decision of an execution.
type PointInfo struct {
	Enabled  []int // thread ids, canonical order: previous thread first if enabled, then ascending
	Names    []string
	Sites    []uintptr
	Chosen   int  // index into Enabled; len(Enabled) = "let 100 ms of virtual time pass now"
	TimeAlt  bool // the time-step alternative was on offer at this point
	PrevOK   bool // previous thread was still enabled (choosing another one is a preemption)
	Shared   bool // the pending op of the previous thread is on a lock site known to be shared
	Sig      string
	TimeStep bool
}

type Scheduler struct {
	mu          sync.Mutex
	active      atomic.Bool
	threads     []*thread
	byG         map[int64]*thread
	prev        *thread
	points      []PointInfo
	prefix      []int
	expect      []string // signatures of the parent's points (divergence check while replaying the prefix)
	err         string
	touched     map[*LockState]map[int]bool
	objSites    map[*LockState]map[uintptr]bool
	nAnon       int
	steps       int
	maxSteps    int
	horizon     int // virtual 100ms steps the clock may be advanced when nothing is enabled
	panics      []string
	timeAlts    int // explicit time-step choices taken so far
	maxTimeAlts int
	familyFirst bool
}

var cur atomic.Pointer[Scheduler]

// TimeStep is the amount of virtual time one time step lets pass.
var TimeStep = 200 * time.Millisecond

// Trace prints every point with its call chain.
var Trace bool

// Debug prints where unregistered goroutines first meet the scheduler.
var Debug bool

var siteCache sync.Map

func siteName(pc uintptr) string {
	if pc == 0 {
		return "-"
	}
	if v, ok := siteCache.Load(pc); ok {
		return v.(string)
	}
	name := "?"
	if f := runtime.FuncForPC(pc - 1); f != nil {
		file, line := f.FileLine(pc - 1)
		if i := strings.LastIndex(file, "/"); i >= 0 {
			file = file[i+1:]
		}
		name = fmt.Sprintf("%s:%d", file, line)
	}
	siteCache.Store(pc, name)
	return name
}

var chainCache sync.Map

func chainName(pcs []uintptr) string {
	if len(pcs) == 0 {
		return "-"
	}
	key := [5]uintptr{}
	copy(key[:], pcs)
	if v, ok := chainCache.Load(key); ok {
		return v.(string)
	}
	parts := make([]string, len(pcs))
	for i, pc := range pcs {
		parts[i] = siteName(pc)
	}
	name := strings.Join(parts, "<")
	chainCache.Store(key, name)
	return name
}

func goid() int64 {
	var buf [64]byte
	b := buf[:runtime.Stack(buf[:], false)]
	b = bytes.TrimPrefix(b, []byte("goroutine "))
	if i := bytes.IndexByte(b, ' '); i > 0 {
		n, _ := strconv.ParseInt(string(b[:i]), 10, 64)
		return n
	}
	return -1
}

// Point results.
const (
	Inactive = 0 // no controlled execution is running: behave like plain sync
	Thread   = 1 // the caller is a thread of the harness and now holds the token
	Outsider = 2 // a controlled execution is running but the caller is not one of its threads
)

// Point is called by the shims before an acquire-type operation.
func Point(kind Kind, obj *LockState) int {
	s := cur.Load()
	if s == nil || !s.active.Load() {
		return Inactive
	}
	g := goid()
	s.mu.Lock()
	t := s.byG[g]
	if t == nil {
		// A goroutine the scheduler did not start (created before activation, by a package that is not
		// rewritten, or outside the synctest bubble such as the package-level file GC): it is not a
		// thread of the harness and passes through. The LockState it maintains is still seen.
		s.nAnon++
		s.mu.Unlock()
		return Outsider
	}
	var pcs [5]uintptr
	nf := runtime.Callers(3, pcs[:])
	t.chain = chainName(pcs[:nf])
	if Trace {
		var tp [6]uintptr
		n := runtime.Callers(3, tp[:])
		var b strings.Builder
		for _, pc := range tp[:n] {
			b.WriteString(siteName(pc) + " < ")
		}
		fmt.Printf("SCHED-TRACE %s %s %s\n", t.name, kind, b.String())
	}
	t.kind, t.obj, t.site = kind, obj, pcs[0]
	t.parked, t.pending = true, false
	if obj != nil {
		if s.touched[obj] == nil {
			s.touched[obj] = map[int]bool{}
			s.objSites[obj] = map[uintptr]bool{}
		}
		s.touched[obj][t.id] = true
		s.objSites[obj][pcs[0]] = true
	}
	s.mu.Unlock()
	<-t.resume
	return Thread
}

// Go starts fn as a child thread of the calling thread (rewritten `go` statements call this).
func Go(fn func()) {
	s := cur.Load()
	if s == nil || !s.active.Load() {
		go fn()
		return
	}
	g := goid()
	s.mu.Lock()
	parent := s.byG[g]
	name := ""
	if parent == nil {
		// spawned by a goroutine that is not a thread of the harness: stays outside the scheduler
		s.mu.Unlock()
		go fn()
		return
	}
	parent.nspawn++
	name = fmt.Sprintf("%s.%d", parent.name, parent.nspawn)
	t := &thread{id: len(s.threads), name: name, resume: make(chan struct{})}
	s.threads = append(s.threads, t)
	s.mu.Unlock()
	if Debug {
		_, file, line, _ := runtime.Caller(1)
		fmt.Printf("SCHED-DEBUG spawn %s at %s:%d\n", name, file, line)
	}
	s.start(t, fn)
}

func (s *Scheduler) start(t *thread, fn func()) {
	ready := make(chan struct{})
	go func() {
		s.mu.Lock()
		s.byG[goid()] = t
		t.kind, t.obj, t.parked = KStart, nil, true
		s.mu.Unlock()
		close(ready)
		<-t.resume
		defer func() {
			r := recover()
			s.mu.Lock()
			if r != nil {
				buf := make([]byte, 16<<10)
				buf = buf[:runtime.Stack(buf, false)]
				s.panics = append(s.panics, fmt.Sprintf("thread %s panicked: %v\n%s", t.name, r, buf))
			}
			t.done, t.parked, t.pending = true, false, false
			s.mu.Unlock()
		}()
		fn()
	}()
	<-ready
}

func enabledOp(t *thread) bool {
	if !t.parked {
		return false
	}
	switch t.kind {
	case KLock:
		return t.obj.Writer.Load() == 0 && t.obj.Readers.Load() == 0
	case KRLock:
		return t.obj.Writer.Load() == 0
	}
	return true
}

// Exec is one controlled execution.
type Exec struct {
	s        *Scheduler
	e        *Explorer
	Points   []PointInfo
	Choices  []int
	Deadlock string
	Panics   []string
	Err      string
	Steps    int
	TimeAdv  int
}

// Thread registers a root thread; it starts running when Run is called.
func (x *Exec) Thread(name string, fn func()) {
	s := x.s
	s.mu.Lock()
	t := &thread{id: len(s.threads), name: name, resume: make(chan struct{}), root: true}
	s.threads = append(s.threads, t)
	s.mu.Unlock()
	// roots are started while the scheduler is already current but not yet active
	s.start(t, fn)
}

// Background registers a non-root thread (a service loop that never returns, e.g. a ticker-driven
// collector). It is scheduled like any other thread but quiescence does not wait for it to finish.
func (x *Exec) Background(name string, fn func()) {
	s := x.s
	s.mu.Lock()
	t := &thread{id: len(s.threads), name: name, resume: make(chan struct{})}
	s.threads = append(s.threads, t)
	s.mu.Unlock()
	s.start(t, fn)
}

// SpawnService starts fn (a service loop that never returns) as a plain goroutine and returns a
// handle with which every later execution can adopt it as a scheduled background thread. One service
// goroutine per process avoids leaking one per execution.
func SpawnService(fn func()) int64 {
	ch := make(chan int64)
	go func() {
		ch <- goid()
		fn()
	}()
	return <-ch
}

// Adopt registers an existing goroutine (see SpawnService) as a non-root thread of this execution. It
// is considered blocked outside the scheduler until it reaches its next Point.
func (x *Exec) Adopt(g int64, name string) {
	s := x.s
	s.mu.Lock()
	t := &thread{id: len(s.threads), name: name, resume: make(chan struct{})}
	s.threads = append(s.threads, t)
	s.byG[g] = t
	s.mu.Unlock()
}

// Run activates the scheduler and drives the threads to quiescence.
func (x *Exec) Run() {
	s := x.s
	synctest.Wait()
	s.active.Store(true)
	defer func() {
		s.active.Store(false)
		// release whatever is still parked (pass-through from now on) - unless a thread panicked: then the system
		// under test is broken, and its remaining threads, released, would run on uncontrolled (their `go` statements
		// are plain goroutines without recover once the scheduler is inactive) and can bring the process down before
		// the report is written. They stay parked for good; the caller must treat the instance as dead.
		s.mu.Lock()
		if len(s.panics) == 0 {
			for _, t := range s.threads {
				if t.parked {
					t.parked = false
					close(t.resume)
				}
			}
		}
		s.mu.Unlock()
		synctest.Wait()
		x.Points, x.Steps = s.points, s.steps
		for _, p := range s.points {
			x.Choices = append(x.Choices, p.Chosen)
		}
		x.Err = s.err
		x.Panics = s.panics
	}()
	idle := 0
	sinceLast := 0
	for {
		synctest.Wait()
		s.mu.Lock()
		if len(s.panics) > 0 {
			s.mu.Unlock()
			return
		}
		var en []*thread
		rootsLeft, parkedAny := 0, false
		for _, t := range s.threads {
			if t.root && !t.done {
				rootsLeft++
			}
			if t.parked {
				parkedAny = true
				if enabledOp(t) {
					en = append(en, t)
				}
			}
		}
		if len(en) == 0 {
			if rootsLeft == 0 && !parkedAny {
				s.mu.Unlock()
				return // quiescent: every root finished, nothing waits for the token
			}
			s.mu.Unlock()
			if idle >= s.horizon {
				x.Deadlock = s.describeStuck()
				return
			}
			// nothing can run now: let virtual time pass (timers, tickers, sleeps of blocked threads)
			idle++
			x.TimeAdv++
			sinceLast++
			if Debug && x.TimeAdv == 1 {
				buf := make([]byte, 4<<20)
				buf = buf[:runtime.Stack(buf, true)]
				fmt.Printf("SCHED-DEBUG first time step, all stacks:\n%s\nSCHED-DEBUG end stacks\n", buf)
			}
			time.Sleep(TimeStep)
			continue
		}
		idle = 0
		// canonical order: previous thread first if it is enabled, then ascending ids; with familyFirst the
		// threads related to the previous one come before the others (its descendants, then the rest of its
		// root's family), so that choice 0 everywhere runs one operation with its helpers to the end before the
		// next operation - the deterministic scheduler that the delay bound (Explorer.FreeBound) is relative to
		if s.familyFirst && s.prev != nil {
			pn := s.prev.name
			rank := func(t *thread) int {
				switch {
				case strings.HasPrefix(t.name, pn+"."):
					return 1
				case rootName(t.name) == rootName(pn):
					return 2
				}
				return 3
			}
			sort.Slice(en, func(i, j int) bool {
				ri, rj := rank(en[i]), rank(en[j])
				if ri != rj {
					return ri < rj
				}
				return en[i].id < en[j].id
			})
		} else {
			sort.Slice(en, func(i, j int) bool { return en[i].id < en[j].id })
		}
		prevOK := false
		if s.prev != nil {
			for i, t := range en {
				if t == s.prev {
					prevOK = true
					copy(en[1:i+1], en[:i])
					en[0] = t
					break
				}
			}
		}
		p := PointInfo{PrevOK: prevOK}
		var sig strings.Builder
		for _, t := range en {
			p.Enabled = append(p.Enabled, t.id)
			p.Names = append(p.Names, t.name)
			p.Sites = append(p.Sites, t.site)
			if t.kind == KStart {
				fmt.Fprintf(&sig, "%s:start ", t.name)
			} else {
				fmt.Fprintf(&sig, "%s:%s@%s ", t.name, t.kind, t.chain)
			}
		}
		if sinceLast > 0 {
			fmt.Fprintf(&sig, "after %d time steps", sinceLast)
			sinceLast = 0
		}
		p.Sig = sig.String()
		if prevOK && s.prev.obj != nil {
			p.Shared = x.e.isShared(s.prev.site)
		} else {
			p.Shared = true
		}
		i := len(s.points)
		choice := 0
		if i < len(s.prefix) {
			choice = s.prefix[i]
			if i < len(s.expect) && s.expect[i] != p.Sig {
				prevs := ""
				for j := i - 3; j < i; j++ {
					if j >= 0 {
						prevs += fmt.Sprintf(" | #%d [%s] chose %d", j, s.points[j].Sig, s.points[j].Chosen)
					}
				}
				s.err = fmt.Sprintf("replay diverged at point %d: expected enabled [%s], got [%s]; before:%s", i, s.expect[i], p.Sig, prevs)
				s.mu.Unlock()
				return
			}
			if choice > len(en) || (choice == len(en) && s.timeAlts >= s.maxTimeAlts) {
				s.err = fmt.Sprintf("replay diverged at point %d: choice %d of %d enabled [%s]", i, choice, len(en), p.Sig)
				s.mu.Unlock()
				return
			}
		}
		p.Chosen = choice
		p.TimeAlt = s.timeAlts < s.maxTimeAlts
		s.points = append(s.points, p)
		if choice == len(en) {
			// environment choice: a timer lands first
			s.timeAlts++
			s.steps++
			s.mu.Unlock()
			x.TimeAdv++
			time.Sleep(TimeStep)
			continue
		}
		t := en[choice]
		s.prev = t
		t.parked, t.pending = false, true
		s.steps++
		if s.steps > s.maxSteps {
			s.err = fmt.Sprintf("step cap %d exceeded (livelock or harness too large)", s.maxSteps)
			s.mu.Unlock()
			return
		}
		s.mu.Unlock()
		t.resume <- struct{}{}
	}
}

func rootName(n string) string {
	if i := strings.IndexByte(n, '.'); i >= 0 {
		return n[:i]
	}
	return n
}

func (s *Scheduler) describeStuck() string {
	s.mu.Lock()
	defer s.mu.Unlock()
	var b strings.Builder
	for _, t := range s.threads {
		switch {
		case t.done:
		case t.parked:
			fmt.Fprintf(&b, "%s waits for %s (writer=%d readers=%d); ", t.name, t.kind, t.obj.Writer.Load(), t.obj.Readers.Load())
		case t.root:
			fmt.Fprintf(&b, "%s blocked outside the scheduler; ", t.name)
		}
	}
	return b.String()
}

// Schedule returns the choices in a compact printable form.
func (x *Exec) Schedule() string {
	var b strings.Builder
	for i, p := range x.Points {
		if p.Chosen == len(p.Enabled) {
			fmt.Fprintf(&b, "@%d:+time ", i)
		} else if p.Chosen != 0 {
			fmt.Fprintf(&b, "@%d:%s ", i, p.Names[p.Chosen])
		}
	}
	if b.Len() == 0 {
		return "default"
	}
	return strings.TrimSpace(b.String())
}

// Preemptions counts the choices that switched away from a still-enabled thread.
func (x *Exec) Preemptions() int {
	n := 0
	for _, p := range x.Points {
		if (p.PrevOK && p.Chosen != 0) || p.Chosen == len(p.Enabled) {
			n++
		}
	}
	return n
}

// ---- exploration -----------------------------------------------------------------------------

type Explorer struct {
	Bound        int // preemption bound
	MaxExec      int // cap on executions (0 = none)
	Horizon      int // virtual 100 ms steps
	TimeChoices  int // explicit "timer fires now" environment choices allowed per execution (each costs one deviation)
	MaxSteps     int
	FilterShared bool // branch only where the previous thread's pending lock site is shared
	Stop         func() bool
	Share        int // this worker's index among the workers exploring the same scenario
	NShare       int // number of such workers (level-1 subtrees are dealt round-robin)
	// FamilyFirst changes the canonical order of the enabled threads (see Run): relatives of the previous
	// thread first. Choice indices of recorded schedules are relative to the order in force.
	FamilyFirst bool
	// FreeLimited/FreeBound: delay bound. A non-default choice at a point where the previous thread is NOT
	// enabled (it blocked or finished, so the switch is not a preemption) costs one "free deviation"; at most
	// FreeBound of them per execution are explored when FreeLimited is set (otherwise all of them).
	FreeLimited bool
	FreeBound   int
	// PreemptSite, if set, restricts where preemptions are offered: only where the call site (pc of the caller
	// of Lock/RLock) of the pending operation of the thread that would be pre-empted is accepted.
	PreemptSite func(pc uintptr) bool

	shared     map[uintptr]bool
	pending    []item // what an exploration cut by Stop/MaxExec had left to do (see Resumable)
	Executions int
	MaxPoints  int
	Capped     bool
	Diverged   string
	Divergences int
}

func (e *Explorer) isShared(site uintptr) bool {
	if e.PreemptSite != nil && !e.PreemptSite(site) {
		return false
	}
	if !e.FilterShared {
		return true
	}
	return e.shared[site]
}

// SiteFunc returns the name of the function containing a call site (for PreemptSite filters).
func SiteFunc(pc uintptr) string {
	if pc == 0 {
		return ""
	}
	if f := runtime.FuncForPC(pc - 1); f != nil {
		return f.Name()
	}
	return ""
}

// SharedSites returns the number of lock call sites seen on objects touched by >= 2 threads.
func (e *Explorer) SharedSites() int { return len(e.shared) }

// Resumable reports whether the last Explore was cut by Stop or MaxExec with work left; the next Explore call then
// continues that exploration (same Bound and filters expected) instead of starting over. Restart discards it.
func (e *Explorer) Resumable() bool { return len(e.pending) > 0 }
func (e *Explorer) Restart()        { e.pending = nil }

type item struct {
	prefix []int
	expect []string
}

// Explore runs body once per execution. body must build a fresh system, register threads with
// x.Thread, call x.Run, and evaluate its oracle. Returns when the bounded space is exhausted.
func (e *Explorer) Explore(body func(x *Exec)) {
	if e.shared == nil {
		e.shared = map[uintptr]bool{}
	}
	if e.Horizon == 0 {
		e.Horizon = 100
	}
	if e.MaxSteps == 0 {
		e.MaxSteps = 200000
	}
	stack := e.pending
	e.pending = nil
	if stack == nil {
		stack = []item{{}}
	}
	for len(stack) > 0 {
		if e.Stop != nil && e.Stop() {
			e.Capped, e.pending = true, stack
			return
		}
		if e.MaxExec > 0 && e.Executions >= e.MaxExec {
			e.Capped, e.pending = true, stack
			return
		}
		it := stack[len(stack)-1]
		stack = stack[:len(stack)-1]
		x := e.runOne(it, body)
		if x.Err != "" && strings.HasPrefix(x.Err, "replay diverged") {
			// The same choices did not lead to the same enabled sets: some nondeterminism is not owned by
			// the scheduler. The execution is abandoned and its subtree is not expanded; the run is then
			// not exhaustive and says so. Too many of these make the exploration meaningless.
			e.Divergences++
			e.Diverged = x.Err
			if e.Divergences > 20 && e.Divergences*10 > e.Executions {
				e.Capped = true
				return
			}
			continue
		}
		// children: deviate at every later point
		expect := make([]string, len(x.Points))
		for i := range x.Points {
			expect[i] = x.Points[i].Sig
		}
		cost, fcost := 0, 0
		nchild := 0
		for i := 0; i < len(x.Points); i++ {
			p := x.Points[i]
			if i >= len(it.prefix) {
				nalt := len(p.Enabled)
				if p.TimeAlt {
					nalt++
				}
				for alt := 1; alt < nalt; alt++ {
					c, f := cost, fcost
					if p.PrevOK || alt == len(p.Enabled) {
						c++
						if !p.Shared && alt != len(p.Enabled) {
							continue
						}
					} else {
						f++
					}
					if c > e.Bound || (e.FreeLimited && f > e.FreeBound) {
						continue
					}
					if len(it.prefix) == 0 && e.NShare > 1 {
						nchild++
						if nchild%e.NShare != e.Share {
							continue
						}
					}
					np := append(append([]int{}, x.Choices[:i]...), alt)
					stack = append(stack, item{prefix: np, expect: expect[:i+1]})
				}
			}
			if (p.PrevOK && p.Chosen != 0) || p.Chosen == len(p.Enabled) {
				cost++
			} else if p.Chosen != 0 {
				fcost++
			}
		}
	}
}

func (e *Explorer) runOne(it item, body func(x *Exec)) *Exec {
	s := &Scheduler{byG: map[int64]*thread{}, prefix: it.prefix, expect: it.expect,
		touched: map[*LockState]map[int]bool{}, objSites: map[*LockState]map[uintptr]bool{},
		maxSteps: e.MaxSteps, horizon: e.Horizon, maxTimeAlts: e.TimeChoices, familyFirst: e.FamilyFirst}
	x := &Exec{s: s, e: e}
	cur.Store(s)
	body(x)
	cur.Store(nil)
	e.Executions++
	if len(x.Points) > e.MaxPoints {
		e.MaxPoints = len(x.Points)
	}
	for obj, ths := range s.touched {
		if len(ths) >= 2 {
			for site := range s.objSites[obj] {
				e.shared[site] = true
			}
		}
	}
	return x
}

// Replay runs exactly one schedule.
func (e *Explorer) Replay(choices []int, body func(x *Exec)) *Exec {
	if e.shared == nil {
		e.shared = map[uintptr]bool{}
	}
	if e.Horizon == 0 {
		e.Horizon = 100
	}
	if e.MaxSteps == 0 {
		e.MaxSteps = 200000
	}
	return e.runOne(item{prefix: choices}, body)
}
