//go:build verif

// Package vsync replaces "sync" in the packages explored by the controlled scheduler (DESIGN.md §2.3):
// Mutex and RWMutex call sched.Point before every acquisition and keep a LockState the scheduler reads
// to decide whether a parked thread is enabled; everything else is the real thing.
package vsync

import (
	"sync"
	"time"

	"github.com/openGemini/openGemini/lib/verifkit/sched"
)

type (
	WaitGroup = sync.WaitGroup
	Once      = sync.Once
	Map       = sync.Map
	Cond      = sync.Cond
	Locker    = sync.Locker
)

func NewCond(l Locker) *Cond { return sync.NewCond(l) }

// Pool never retains anything: Get always builds a fresh object. A real sync.Pool is process-global state that
// survives from one explored execution into the next (and depends on the garbage collector), which made the
// out-of-order merge take different paths for the same schedule; executions must be replayable.
type Pool struct {
	New func() any
}

func (p *Pool) Get() any {
	if p.New != nil {
		return p.New()
	}
	return nil
}

func (p *Pool) Put(any) {}

func OnceFunc(f func()) func()                                 { return sync.OnceFunc(f) }
func OnceValue[T any](f func() T) func() T                     { return sync.OnceValue(f) }
func OnceValues[T1, T2 any](f func() (T1, T2)) func() (T1, T2) { return sync.OnceValues(f) }

type Mutex struct {
	mu sync.Mutex
	st sched.LockState
}

// An outsider (a goroutine that is not a thread of the running harness, e.g. a ticker-driven service
// loop) must never block on a real mutex while a controlled execution is running: inside the synctest
// bubble a goroutine blocked on a mutex is not "durably" blocked, so virtual time could not advance and
// the holder - a parked thread - would never be scheduled. Outsiders therefore poll with a (virtual)
// sleep, which is a durable block.
func outsiderWait() { time.Sleep(time.Millisecond) }

func (m *Mutex) Lock() {
	if sched.Point(sched.KLock, &m.st) == sched.Outsider {
		for !m.mu.TryLock() {
			outsiderWait()
		}
	} else {
		m.mu.Lock()
	}
	m.st.Writer.Store(1)
}

func (m *Mutex) TryLock() bool {
	sched.Point(sched.KTry, &m.st)
	if m.mu.TryLock() {
		m.st.Writer.Store(1)
		return true
	}
	return false
}

func (m *Mutex) Unlock() {
	m.st.Writer.Store(0)
	m.mu.Unlock()
}

type RWMutex struct {
	mu sync.RWMutex
	st sched.LockState
}

func (m *RWMutex) Lock() {
	if sched.Point(sched.KLock, &m.st) == sched.Outsider {
		for !m.mu.TryLock() {
			outsiderWait()
		}
	} else {
		m.mu.Lock()
	}
	m.st.Writer.Store(1)
}

func (m *RWMutex) TryLock() bool {
	sched.Point(sched.KTry, &m.st)
	if m.mu.TryLock() {
		m.st.Writer.Store(1)
		return true
	}
	return false
}

func (m *RWMutex) Unlock() {
	m.st.Writer.Store(0)
	m.mu.Unlock()
}

func (m *RWMutex) RLock() {
	if sched.Point(sched.KRLock, &m.st) == sched.Outsider {
		for !m.mu.TryRLock() {
			outsiderWait()
		}
	} else {
		m.mu.RLock()
	}
	m.st.Readers.Add(1)
}

func (m *RWMutex) TryRLock() bool {
	sched.Point(sched.KTry, &m.st)
	if m.mu.TryRLock() {
		m.st.Readers.Add(1)
		return true
	}
	return false
}

func (m *RWMutex) RUnlock() {
	m.st.Readers.Add(-1)
	m.mu.RUnlock()
}

func (m *RWMutex) RLocker() Locker { return (*rlocker)(m) }

type rlocker RWMutex

func (r *rlocker) Lock()   { (*RWMutex)(r).RLock() }
func (r *rlocker) Unlock() { (*RWMutex)(r).RUnlock() }
