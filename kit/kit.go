//go:build verif

// Package verifkit is overlaid into the repository as
// github.com/openGemini/openGemini/lib/verifkit (it does not exist in /repo).
// It carries what every worker needs: sharding, deadline, report writing.
package verifkit

import (
	"encoding/binary"
	"encoding/json"
	"fmt"
	"hash/fnv"
	"os"
	"sort"
	"strconv"
	"sync"
	"sync/atomic"
	"time"
)

type Violation struct {
	Kind   string `json:"kind"`   // classification evaluated by the oracle (matched against KNOWN_FINDINGS signatures)
	Key    string `json:"key"`    // the specific input / history / call site that fails
	Detail string `json:"detail"` // expected vs observed
	Replay any    `json:"replay"` // the case, replayable with `bin/check <ID> replay <file>`
}

type Report struct {
	mu          sync.Mutex
	Property    string           `json:"property"`
	Tier        string           `json:"tier"`
	Shard       int              `json:"shard"`
	NShard      int              `json:"nshard"`
	Evaluations int64            `json:"evaluations"`
	Distinct    int64            `json:"distinct"`
	Samples     []any            `json:"samples"`
	Violations  []Violation      `json:"violations"`
	NViolations int64            `json:"n_violations"`
	Counters    map[string]int64 `json:"counters"`
	Exhaustive  bool             `json:"exhaustive"`
	Notes       []string         `json:"notes"`
	WallS       float64          `json:"wall_s"`

	distinct  map[uint64]struct{}
	vioKeys   map[string]int
	start     time.Time
	deadline  time.Time
	realMs    atomic.Int64
	deadlineS int
	expired   atomic.Bool // set by a real-time goroutine (works inside a synctest bubble, where time.Now is virtual)
	holding   bool        // RunConfirmed: violations are buffered in held
	held      []Violation
}

func Getenv(k, def string) string {
	if v := os.Getenv(k); v != "" {
		return v
	}
	return def
}

func atoi(s string, def int) int {
	n, err := strconv.Atoi(s)
	if err != nil {
		return def
	}
	return n
}

func Tier() string   { return Getenv("VERIF_TIER", "quick") }
func Thorough() bool { return Tier() == "thorough" }
func Seed() int      { return atoi(os.Getenv("VERIF_SEED"), 0) }
func Shard() int     { return atoi(os.Getenv("VERIF_SHARD"), 0) }
func NShard() int {
	n := atoi(os.Getenv("VERIF_NSHARD"), 1)
	if n < 1 {
		n = 1
	}
	return n
}
func ReplayPath() string { return os.Getenv("VERIF_REPLAY") }
func Scratch() string {
	d := Getenv("VERIF_SCRATCH", "")
	if d == "" {
		d, _ = os.MkdirTemp("", "verif-scratch-")
	}
	_ = os.MkdirAll(d, 0o755)
	return d
}

// Mine reports whether work item i belongs to this worker (seed rotates the assignment only).
func Mine(i int) bool { return (i+Seed())%NShard() == Shard() }

func NewReport(property string) *Report {
	r := &Report{Property: property, Tier: Tier(), Shard: Shard(), NShard: NShard(),
		Counters: map[string]int64{}, Exhaustive: true,
		distinct: map[uint64]struct{}{}, vioKeys: map[string]int{}, start: time.Now()}
	dl := atoi(os.Getenv("VERIF_DEADLINE_S"), 0)
	r.deadlineS = dl
	if dl > 0 {
		r.deadline = r.start.Add(time.Duration(dl) * time.Second)
	}
	// real-time tick, usable from inside a synctest bubble (NewReport must be called outside the bubble)
	go func() {
		for {
			time.Sleep(250 * time.Millisecond)
			// this goroutine lives outside any synctest bubble: its clock is the real one. Measure elapsed time instead of
			// counting wake-ups, which lag badly on a loaded machine with GOMAXPROCS=1
			ms := time.Since(r.start).Milliseconds()
			r.realMs.Store(ms)
			if dl > 0 && ms >= int64(dl)*1000 {
				r.expired.Store(true)
			}
		}
	}()
	return r
}

// Expired reports whether the internal deadline passed; the caller stops exploring and the
// report is marked non-exhaustive (never a verdict).
func (r *Report) Expired() bool {
	if r.deadline.IsZero() || !r.expired.Load() {
		return false
	}
	r.mu.Lock()
	if r.Exhaustive {
		r.Exhaustive = false
		r.Notes = append(r.Notes, "internal deadline reached; exploration cut")
	}
	r.mu.Unlock()
	return true
}

// RealSeconds is the real time since the report was created (also valid inside a synctest bubble).
func (r *Report) RealSeconds() float64 { return float64(r.realMs.Load()) / 1000 }

// DeadlineSeconds is the internal deadline of this run (0 = none).
func (r *Report) DeadlineSeconds() int { return r.deadlineS }

func (r *Report) Cut(note string) {
	r.mu.Lock()
	r.Exhaustive = false
	r.Notes = append(r.Notes, note)
	r.mu.Unlock()
}

func (r *Report) Note(format string, a ...any) {
	r.mu.Lock()
	r.Notes = append(r.Notes, fmt.Sprintf(format, a...))
	r.mu.Unlock()
}

func (r *Report) Eval(n int64) { r.mu.Lock(); r.Evaluations += n; r.mu.Unlock() }

func (r *Report) Count(name string, n int64) { r.mu.Lock(); r.Counters[name] += n; r.mu.Unlock() }

func (r *Report) Max(name string, n int64) {
	r.mu.Lock()
	if r.Counters[name] < n {
		r.Counters[name] = n
	}
	r.mu.Unlock()
}

func Hash(parts ...string) uint64 {
	h := fnv.New64a()
	for _, p := range parts {
		_, _ = h.Write([]byte(p))
		_, _ = h.Write([]byte{0})
	}
	return h.Sum64()
}

// DistinctNontrivial records one non-trivial case identified by hash.
func (r *Report) DistinctNontrivial(h uint64) bool {
	r.mu.Lock()
	_, ok := r.distinct[h]
	if !ok {
		r.distinct[h] = struct{}{}
	}
	r.mu.Unlock()
	return !ok
}

// Sample keeps up to max samples under the given label.
func (r *Report) Sample(max int, s any) {
	r.mu.Lock()
	if len(r.Samples) < max {
		r.Samples = append(r.Samples, s)
	}
	r.mu.Unlock()
}

// Violation records a violation. At most 8 per (kind) are kept with full detail, all are counted.
// RunConfirmed executes run, which reports violations on r. If it reported any, run is executed a second time from
// scratch and only the violations (kind, key) reported by BOTH executions are kept (DESIGN 2.1: a failure that does not
// repeat is a harness or environment effect - a layout that depended on timing on a loaded machine - never a verdict).
// The others are counted (violations_not_reproduced) and the report is marked non-exhaustive.
func (r *Report) RunConfirmed(run func()) {
	r.mu.Lock()
	if r.holding {
		r.mu.Unlock()
		run()
		return
	}
	r.holding, r.held = true, nil
	r.mu.Unlock()
	run()
	r.mu.Lock()
	first := r.held
	r.held = nil
	r.mu.Unlock()
	var second []Violation
	if len(first) > 0 {
		run()
		r.mu.Lock()
		second = r.held
		r.mu.Unlock()
	}
	r.mu.Lock()
	r.holding, r.held = false, nil
	r.mu.Unlock()
	again := map[string]bool{}
	for _, v := range second {
		again[v.Kind+"\x00"+v.Key] = true
	}
	lost := 0
	for _, v := range first {
		if again[v.Kind+"\x00"+v.Key] {
			r.Violation(v.Kind, v.Key, v.Detail, v.Replay)
		} else {
			lost++
		}
	}
	if lost > 0 {
		r.Count("violations_not_reproduced", int64(lost))
		r.Cut(fmt.Sprintf("%d violation(s) of one execution did not repeat when the case was executed again from scratch; not reported", lost))
	}
}

func (r *Report) Violation(kind, key, detail string, replay any) {
	r.mu.Lock()
	if r.holding {
		if len(r.held) < 4096 {
			r.held = append(r.held, Violation{Kind: kind, Key: key, Detail: detail, Replay: replay})
		}
		r.mu.Unlock()
		return
	}
	r.NViolations++
	r.vioKeys[kind]++
	if r.vioKeys[kind] <= 8 {
		r.Violations = append(r.Violations, Violation{Kind: kind, Key: key, Detail: detail, Replay: replay})
	}
	r.mu.Unlock()
}

func (r *Report) Save() {
	r.mu.Lock()
	defer r.mu.Unlock()
	r.WallS = time.Since(r.start).Seconds()
	if r.WallS < 0 {
		r.WallS = 0 // saved from inside a synctest bubble (virtual clock)
	}
	r.Distinct = int64(len(r.distinct))
	out := os.Getenv("VERIF_OUT")
	if out == "" {
		b, _ := json.MarshalIndent(r, "", " ")
		fmt.Println(string(b))
		return
	}
	b, err := json.Marshal(r)
	if err != nil {
		panic(err)
	}
	hs := make([]uint64, 0, len(r.distinct))
	for h := range r.distinct {
		hs = append(hs, h)
	}
	sort.Slice(hs, func(i, j int) bool { return hs[i] < hs[j] })
	buf := make([]byte, 8*len(hs))
	for i, h := range hs {
		binary.LittleEndian.PutUint64(buf[8*i:], h)
	}
	if err := os.WriteFile(out+".distinct", buf, 0o644); err != nil {
		panic(err)
	}
	if err := os.WriteFile(out+".tmp", b, 0o644); err != nil {
		panic(err)
	}
	if err := os.Rename(out+".tmp", out); err != nil {
		panic(err)
	}
}

// LoadReplay decodes the replay artefact's "replay" member into v.
func LoadReplay(v any) error {
	b, err := os.ReadFile(ReplayPath())
	if err != nil {
		return err
	}
	var w struct {
		Replay json.RawMessage `json:"replay"`
	}
	if err := json.Unmarshal(b, &w); err != nil {
		return err
	}
	return json.Unmarshal(w.Replay, v)
}

// Odometer enumerates all tuples over the given radices, least significant digit last.
func Odometer(radix []int, f func(d []int) bool) {
	for _, r := range radix {
		if r == 0 {
			return
		}
	}
	d := make([]int, len(radix))
	for {
		if !f(d) {
			return
		}
		i := len(d) - 1
		for ; i >= 0; i-- {
			d[i]++
			if d[i] < radix[i] {
				break
			}
			d[i] = 0
		}
		if i < 0 {
			return
		}
	}
}

// Sequences enumerates every sequence over [0,n) of length exactly l.
func Sequences(n, l int, f func(seq []int) bool) {
	r := make([]int, l)
	for i := range r {
		r[i] = n
	}
	if l == 0 {
		f(nil)
		return
	}
	Odometer(r, f)
}
