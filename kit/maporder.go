//go:build verif

package verifkit

// Map-order adversary.  ovgen/maporder rewrites `for k, v := range m` (m a map with an ordered key
// type) in the packages under test into
//
//	for it := verifkit.MapIter(m); it.Next(); { k, v := it.KV(); ... }
//
// so that the order in which the entries are visited is chosen by the harness (SetMapOrder) instead of
// by the runtime's per-map random seed: ascending keys, descending keys, or the runtime's own order.
// The semantics of a Go range over a map are kept: the operand is evaluated once, an entry that is
// deleted before it is reached is not produced, an entry added during the iteration is not produced
// (the language allows either), the value is read when the entry is reached.

import (
	"cmp"
	"slices"
	"sync/atomic"
)

const (
	MapOrderNative     int32 = 0 // whatever the runtime picks (the behaviour of the unrewritten code)
	MapOrderAscending  int32 = 1
	MapOrderDescending int32 = 2
)

var (
	mapOrderMode   atomic.Int32
	mapOrderRanges [3]atomic.Int64 // per mode: iterations started over maps with >= 2 entries (only there order matters)
)

// SetMapOrder selects the order for every rewritten range statement of the process from now on and
// returns the previous mode.  The mode is process global: a harness that drives several instances
// switches it around each call into the instance.
func SetMapOrder(mode int32) (old int32) {
	if mode < 0 || mode > 2 {
		panic("verifkit: bad map order mode")
	}
	return mapOrderMode.Swap(mode)
}

func MapOrder() int32 { return mapOrderMode.Load() }

// MapOrderRanges returns how many rewritten range statements were started over maps with at least two
// entries under each mode (index = mode).
func MapOrderRanges() [3]int64 {
	return [3]int64{mapOrderRanges[0].Load(), mapOrderRanges[1].Load(), mapOrderRanges[2].Load()}
}

// MapKeys returns the keys of m in the order the current mode prescribes.
func MapKeys[M ~map[K]V, K cmp.Ordered, V any](m M) []K {
	n := len(m)
	if n == 0 {
		return nil
	}
	keys := make([]K, 0, n)
	for k := range m {
		keys = append(keys, k)
	}
	if n < 2 {
		return keys
	}
	mode := mapOrderMode.Load()
	mapOrderRanges[mode].Add(1)
	switch mode {
	case MapOrderAscending:
		slices.Sort(keys)
	case MapOrderDescending:
		slices.SortFunc(keys, func(a, b K) int { return cmp.Compare(b, a) })
	}
	return keys
}

// MapIterator is the state of one rewritten range statement.
type MapIterator[K cmp.Ordered, V any] struct {
	m    map[K]V
	keys []K
	i    int
	k    K
	v    V
}

func MapIter[M ~map[K]V, K cmp.Ordered, V any](m M) *MapIterator[K, V] {
	return &MapIterator[K, V]{m: m, keys: MapKeys(m)}
}

// Next advances to the next entry that is still in the map.
func (it *MapIterator[K, V]) Next() bool {
	for it.i < len(it.keys) {
		k := it.keys[it.i]
		it.i++
		if v, ok := it.m[k]; ok {
			it.k, it.v = k, v
			return true
		}
	}
	return false
}

func (it *MapIterator[K, V]) Key() K     { return it.k }
func (it *MapIterator[K, V]) Value() V   { return it.v }
func (it *MapIterator[K, V]) KV() (K, V) { return it.k, it.v }
