//go:build verif && c07

package compress

// C07 seam 1b: lib/compress float coder, both selectable algorithms
// (default adaptive: raw/snappy/gorilla/same/RLE; config float-compress-algorithm = "mlf": raw/snappy/same/RLE/MLF).

import (
	"bytes"
	"fmt"
	"math"
	"runtime/debug"
	"testing"

	"github.com/openGemini/openGemini/lib/util"
	kit "github.com/openGemini/openGemini/lib/verifkit"
	gen "github.com/openGemini/openGemini/lib/verifkit/c07gen"
)

type c07Case struct {
	Seam    string    `json:"seam"`
	Algo    string    `json:"algo"` // adaptive|mlf
	Kind    string    `json:"kind"` // seq|shape
	Seq     []int     `json:"seq,omitempty"`
	Shape   gen.Shape `json:"shape,omitempty"`
	Variant int       `json:"variant"`
}

func (c *c07Case) key() string {
	if c.Kind == "seq" {
		n := make([]string, len(c.Seq))
		for i, x := range c.Seq {
			n[i] = gen.FloatNames[x]
		}
		return fmt.Sprintf("compress/%s/seq%v", c.Algo, n)
	}
	return fmt.Sprintf("compress/%s/%s/v%d", c.Algo, c.Shape.String(), c.Variant)
}

func c07Bits(c *c07Case) []uint64 {
	if c.Kind == "seq" {
		b := make([]uint64, 0, len(c.Seq))
		for _, i := range c.Seq {
			b = append(b, gen.FloatBits[i])
		}
		return b
	}
	return gen.GenFloatBits(c.Shape, c.Variant)
}

func c07BothInfNoNaN(b []uint64) bool {
	var p, n bool
	for _, x := range b {
		f := math.Float64frombits(x)
		if math.IsNaN(f) {
			return false
		}
		p = p || math.IsInf(f, 1)
		n = n || math.IsInf(f, -1)
	}
	return p && n
}

func c07OnlyZeroSignDiffers(w, g []uint64) bool {
	if len(w) != len(g) {
		return false
	}
	for i := range w {
		if w[i] != g[i] && !(w[i] == 1<<63 && g[i] == 0) {
			return false
		}
	}
	return true
}

func c07Stack() string {
	s := string(debug.Stack())
	if len(s) > 1800 {
		s = s[:1800]
	}
	return s
}

// c07Once returns (mode, kind, failure).
func c07Once(c *c07Case, fc *Float, bitsIn []uint64) (mode int, kind, failure string) {
	mode = -1
	in := append([]byte(nil), util.Uint64Slice2byte(bitsIn)...)
	inCopy := append([]byte(nil), in...)
	var enc []byte
	var err error
	func() {
		defer func() {
			if r := recover(); r != nil {
				kind = "encoder_panic"
				if c07BothInfNoNaN(bitsIn) {
					kind = "float_encoder_panic_pos_and_neg_inf"
				}
				failure = fmt.Sprintf("encoder panic: %v\n%s", r, c07Stack())
			}
		}()
		if c.Algo == "mlf" {
			enc, err = fc.adaptiveEncodingWithMLF(in, make([]byte, 0, 16))
		} else {
			enc, err = fc.adaptiveEncoding(in, make([]byte, 0, 16))
		}
	}()
	if failure != "" {
		return
	}
	if err != nil {
		return mode, "encoder_error", "encoder returned an error on accepted values: " + err.Error()
	}
	if !bytes.Equal(in, inCopy) {
		return mode, "encoder_modified_input", "encoder changed its input"
	}
	if len(enc) == 0 {
		return mode, "encoder_empty_output", "no bytes produced for a non-empty column"
	}
	mode = int(enc[0] >> 4)
	enc = append([]byte(nil), enc...)
	var dec []byte
	func() {
		defer func() {
			if r := recover(); r != nil {
				kind = "decoder_panic"
				failure = fmt.Sprintf("decoder panic (mode %d): %v\n%s", mode, r, c07Stack())
			}
		}()
		dec, err = fc.AdaptiveDecoding(enc, nil)
	}()
	if failure != "" {
		return
	}
	if err != nil {
		return mode, "decoder_error", fmt.Sprintf("decoder rejected the encoder's output (mode %d): %v", mode, err)
	}
	if !bytes.Equal(dec, in) {
		kind = "float_value_mismatch"
		if len(dec) != len(in) {
			return mode, kind, fmt.Sprintf("mode %d: %d values written, %d read", mode, len(in)/8, len(dec)/8)
		}
		got := util.Bytes2Uint64Slice(dec)
		if c07OnlyZeroSignDiffers(bitsIn, got) {
			kind = "float_negative_zero_sign_lost"
			if c.Algo == "mlf" && mode == int(floatCompressMLF) {
				kind = "mlf_negative_zero_sign_lost" // the MLF block format has no place for the sign of zero
			}
		}
		for i := range got {
			if got[i] != bitsIn[i] {
				return mode, kind, fmt.Sprintf("mode %d value %d: wrote bits %016x (%v), read %016x (%v)", mode, i,
					bitsIn[i], math.Float64frombits(bitsIn[i]), got[i], math.Float64frombits(got[i]))
			}
		}
	}
	return
}

type c07Runner struct {
	rep  *kit.Report
	live *Float
}

func (r *c07Runner) run(c *c07Case) {
	rep := r.rep
	rep.Eval(1)
	b := c07Bits(c)
	if len(b) == 0 {
		return // the block coder never sees an empty column (lib/encoding returns early)
	}
	mode, kind, failure := c07Once(c, r.live, b)
	if failure != "" {
		_, k2, f2 := c07Once(c, NewFloat(), b)
		if f2 != "" {
			rep.Violation(k2, c.key(), f2, c)
		} else {
			rep.Violation("coder_state_dependent_"+kind, c.key(), "fails only on a reused coder: "+failure, c)
		}
		r.live = NewFloat()
	}
	rep.Count(fmt.Sprintf("mode_%sfloat_%d", c.Algo, mode), 1)
	if rep.DistinctNontrivial(kit.Hash("compress", c.Algo, fmt.Sprint(mode), string(util.Uint64Slice2byte(b)))) {
		rep.Sample(2, map[string]any{"seam": "lib/compress", "case": c.key(), "mode": mode})
	}
}

func TestVerifC07Float(t *testing.T) {
	rep := kit.NewReport("C07")
	defer rep.Save()
	r := &c07Runner{rep: rep, live: NewFloat()}
	if kit.ReplayPath() != "" {
		var c c07Case
		if err := kit.LoadReplay(&c); err != nil {
			t.Fatal(err)
		}
		if c.Seam == "compress" {
			r.run(&c)
		}
		return
	}
	maxLen, maxSegs := 5, 3 // the float coder compresses only above 4 values: length 5 also in quick
	if kit.Thorough() {
		maxLen = 6
	}
	item := 0
	for _, algo := range []string{"adaptive", "mlf"} {
		for l := 1; l <= maxLen; l++ {
			kit.Sequences(len(gen.FloatBits), l, func(seq []int) bool {
				item++
				if !kit.Mine(item / 64) {
					return true
				}
				r.run(&c07Case{Seam: "compress", Algo: algo, Kind: "seq", Seq: append([]int(nil), seq...)})
				return !rep.Expired()
			})
		}
		ns := gen.NumShapes(maxSegs)
		for variant := 0; variant < 2; variant++ {
			for i := 0; i < ns; i++ {
				item++
				if !kit.Mine(item) {
					continue
				}
				if rep.Expired() {
					return
				}
				r.run(&c07Case{Seam: "compress", Algo: algo, Kind: "shape", Shape: gen.ShapeAt(i), Variant: variant})
			}
		}
	}
}
