//go:build verif && c07

// Package c07gen holds the deterministic input grammar shared by all C07 harnesses
// (lib/encoding, lib/compress, lib/record, protoparser/influx, engine/immutable, engine).
// Nothing here is random: every value is a function of enumeration indices.
package c07gen

import (
	"fmt"
	"math"
	"strings"
)

// ---------------------------------------------------------------- alphabets

var Ints = []int64{0, 1, -1, 1 << 31, 1 << 62, -(1 << 62), math.MinInt64, math.MaxInt64}

const (
	NaNCanon   = uint64(0x7ff8000000000001)
	NaNPayload = uint64(0xfff4dead0000beef)
)

// FloatBits: 0, -0, 1, 1.5, NaN, NaN with payload (negative, signalling pattern), +Inf, -Inf, smallest subnormal.
var FloatBits = []uint64{
	0, 1 << 63, math.Float64bits(1), math.Float64bits(1.5), NaNCanon, NaNPayload,
	math.Float64bits(math.Inf(1)), math.Float64bits(math.Inf(-1)), 1,
}

var FloatNames = []string{"0", "-0", "1", "1.5", "NaN", "NaNp", "+Inf", "-Inf", "sub"}

var Strings = []string{"", "a", "b", "aa", strings.Repeat("x", 300), "\xff\xfe\x00\x80", "\x00", "日本"}

var Bools = []bool{false, true}

// TimeDeltas is the alphabet of steps between consecutive timestamps (wrapping int64 arithmetic):
// constant (0), unit, 1s, 1s±1 jitter, 2^60 (first value simple8b cannot hold), MaxInt64 (overflowing), -1 (descending).
var TimeDeltas = []int64{0, 1, 1e9, 1e9 + 1, 1e9 - 1, 1 << 60, math.MaxInt64, -1}

// TimeStarts are the first timestamps used with TimeDeltas.
var TimeStarts = []int64{0, 1600000000000000000, math.MinInt64}

func FloatsFromBits(b []uint64) []float64 {
	out := make([]float64, len(b))
	for i := range b {
		out[i] = math.Float64frombits(b[i])
	}
	return out
}

// ---------------------------------------------------------------- shapes

const (
	KConst = iota
	KDelta
	KJitter
	KRaw
	NKinds
)

var KindNames = []string{"const", "delta", "jitter", "raw"}

var SegLens = []int{1, 7, 8, 9, 239, 240, 241, 1000}

type Seg struct {
	Kind int `json:"k"`
	Len  int `json:"n"`
}

type Shape []Seg

func (s Shape) String() string {
	var b strings.Builder
	for i, g := range s {
		if i > 0 {
			b.WriteByte('+')
		}
		fmt.Fprintf(&b, "%s%d", KindNames[g.Kind], g.Len)
	}
	return b.String()
}

func (s Shape) Rows() int {
	n := 0
	for _, g := range s {
		n += g.Len
	}
	return n
}

// NumSegChoices is the number of (kind,len) pairs.
func NumSegChoices() int { return NKinds * len(SegLens) }

func SegChoice(i int) Seg { return Seg{Kind: i / len(SegLens), Len: SegLens[i%len(SegLens)]} }

// NumShapes returns the number of shapes with 1..maxSegs segments.
func NumShapes(maxSegs int) int {
	n, p := 0, 1
	for k := 1; k <= maxSegs; k++ {
		p *= NumSegChoices()
		n += p
	}
	return n
}

// ShapeAt decodes index i (0 <= i < NumShapes(maxSegs)) into a shape: first all 1-segment shapes, then 2, ...
func ShapeAt(i int) Shape {
	c := NumSegChoices()
	p := c
	k := 1
	for i >= p {
		i -= p
		p *= c
		k++
	}
	s := make(Shape, k)
	for j := k - 1; j >= 0; j-- {
		s[j] = SegChoice(i % c)
		i /= c
	}
	return s
}

func mix(x uint64) uint64 { // splitmix64 finaliser: a fixed bijection, used as "arbitrary bits of index"
	x += 0x9e3779b97f4a7c15
	x = (x ^ (x >> 30)) * 0xbf58476d1ce4e5b9
	x = (x ^ (x >> 27)) * 0x94d049bb133111eb
	return x ^ (x >> 31)
}

// GenInts: variant 0 = small magnitudes (simple8b territory), variant 1 = large steps / extremes (zstd, raw, overflow).
func GenInts(s Shape, variant int) []int64 {
	out := make([]int64, 0, s.Rows())
	var cur int64 = 1000
	if variant == 1 {
		cur = math.MaxInt64 - 5
	}
	for si, g := range s {
		for i := 0; i < g.Len; i++ {
			switch g.Kind {
			case KConst:
				// value stays at the previous one (first segment: start value)
			case KDelta:
				if variant == 0 {
					cur += int64(10 * (si + 1))
				} else {
					cur += (1 << 59) + int64(si) // zig-zag(2^59) = 2^60 > simple8b max; wraps around
				}
			case KJitter:
				d := int64(i%3) - 1
				if variant == 0 {
					cur += 1000 + d
				} else {
					cur += (1 << 59) - 1 + d // straddles the simple8b limit 2^60-1 after zig-zag
				}
			case KRaw:
				if variant == 0 {
					cur = int64(mix(uint64(i)+uint64(si)<<32) % 100000)
				} else {
					if i%2 == 0 {
						cur = Ints[(i/2)%len(Ints)]
					} else {
						cur = int64(mix(uint64(i) + uint64(si)<<32))
					}
				}
			}
			out = append(out, cur)
		}
	}
	return out
}

// GenTimes: ascending timestamps except where variant 1 wraps. variant 0: second-aligned steps (scale>1), variant 1: ns-level / huge gaps.
func GenTimes(s Shape, variant int) []int64 {
	out := make([]int64, 0, s.Rows())
	var cur int64 = 1600000000000000000
	if variant == 1 {
		cur = -(1 << 62)
	}
	for si, g := range s {
		for i := 0; i < g.Len; i++ {
			switch g.Kind {
			case KConst:
				if variant == 0 {
					cur += 1e9
				} else {
					cur += 1
				}
			case KDelta:
				if variant == 0 {
					cur += int64(si+2) * 1e9
				} else {
					cur += int64(si+2)*1e6 + 7
				}
			case KJitter:
				d := int64(i%3) - 1
				if variant == 0 {
					cur += 1e9 + d*1e6 // ms jitter: scale drops to 1e6
				} else {
					cur += 1e9 + d // ns jitter: scale 1
				}
			case KRaw:
				if variant == 0 {
					cur += int64(mix(uint64(i)+uint64(si)<<32)%1e12) + 1
				} else {
					if i == 0 {
						cur += 1 << 60 // not representable by simple8b -> snappy / raw path
					} else {
						cur += int64(mix(uint64(i)+uint64(si)<<32)%(1<<40)) + 1
					}
				}
			}
			out = append(out, cur)
		}
	}
	return out
}

var rawFloatCycle = []uint64{0, 1 << 63, math.Float64bits(1), math.Float64bits(1.5), math.Float64bits(math.Inf(1)),
	math.Float64bits(math.Inf(-1)), 1, math.Float64bits(math.MaxFloat64), math.Float64bits(-math.MaxFloat64), math.Float64bits(1e-300)}

// GenFloatBits: variant 0 = decimals / arbitrary bit patterns (incl. NaN), variant 1 = integers / special values without NaN.
func GenFloatBits(s Shape, variant int) []uint64 {
	out := make([]uint64, 0, s.Rows())
	cur := 1.5
	n := 0
	for si, g := range s {
		for i := 0; i < g.Len; i++ {
			var b uint64
			switch g.Kind {
			case KConst:
				if variant == 0 {
					b = math.Float64bits(cur)
				} else {
					b = []uint64{math.Float64bits(math.Inf(1)), math.Float64bits(math.Inf(-1)), 1 << 63}[si%3]
				}
			case KDelta:
				if variant == 0 {
					cur = 100 + 0.25*float64(n)
				} else {
					cur = float64(1000 + 3*n)
				}
				b = math.Float64bits(cur)
			case KJitter:
				if variant == 0 {
					cur = 1e6/3 + float64(n) + float64(i%3)*1e-9
				} else {
					cur = float64(5000 + n + i%3 - 1)
				}
				b = math.Float64bits(cur)
			case KRaw:
				if variant == 0 {
					b = mix(uint64(i) + uint64(si)<<32)
				} else {
					b = rawFloatCycle[i%len(rawFloatCycle)]
				}
			}
			out = append(out, b)
			n++
		}
	}
	return out
}

func GenBools(s Shape, variant int) []bool {
	out := make([]bool, 0, s.Rows())
	for si, g := range s {
		for i := 0; i < g.Len; i++ {
			var v bool
			switch g.Kind {
			case KConst:
				v = (si+variant)%2 == 0
			case KDelta:
				v = (i+variant)%2 == 0
			case KJitter:
				v = i%3 == variant
			case KRaw:
				v = mix(uint64(i)+uint64(si)<<32+uint64(variant)<<48)&1 == 1
			}
			out = append(out, v)
		}
	}
	return out
}

func GenStrings(s Shape, variant int) []string {
	out := make([]string, 0, s.Rows())
	for si, g := range s {
		for i := 0; i < g.Len; i++ {
			var v string
			switch g.Kind {
			case KConst:
				if variant == 0 {
					v = "host-const"
				} else {
					v = ""
				}
			case KDelta:
				v = fmt.Sprintf("host-%d-%d", si, i)
			case KJitter:
				v = strings.Repeat("ab", (i+variant)%17)
			case KRaw:
				m := mix(uint64(i) + uint64(si)<<32 + uint64(variant)<<48)
				switch m % 4 {
				case 0:
					v = Strings[(m>>8)%uint64(len(Strings))]
				default:
					l := int((m >> 16) % 24)
					bs := make([]byte, l)
					for k := range bs {
						bs[k] = byte(mix(m + uint64(k)))
					}
					v = string(bs)
				}
			}
			out = append(out, v)
		}
	}
	return out
}

// ---------------------------------------------------------------- null patterns for long columns

const NNullPatterns = 8

var NullPatternNames = []string{"none", "even", "odd", "first-only-valid", "first-9-null", "only-first-null", "only-last-null", "only-middle-null"}

// IsNull reports whether row i of a column of n rows is null under pattern p.
func IsNull(p, i, n int) bool {
	switch p {
	case 1:
		return i%2 == 0
	case 2:
		return i%2 == 1
	case 3:
		return i != 0
	case 4:
		return i < 9
	case 5:
		return i == 0
	case 6:
		return i == n-1
	case 7:
		return i == n/2
	}
	return false
}

// ---------------------------------------------------------------- typed schemas

// Field types (values of influx.Field_Type_*): Int=1, Float=3, String=4 ... are package constants of the repo;
// harnesses map these indices to them.
const (
	TInt = iota
	TFloat
	TBool
	TString
	NTypes
)

var TypeNames = []string{"int", "float", "bool", "string"}

// NumSchemas = number of ordered type lists of length 1..maxCols.
func NumSchemas(maxCols int) int {
	n, p := 0, 1
	for k := 1; k <= maxCols; k++ {
		p *= NTypes
		n += p
	}
	return n
}

func SchemaAt(i int) []int {
	p := NTypes
	k := 1
	for i >= p {
		i -= p
		p *= NTypes
		k++
	}
	s := make([]int, k)
	for j := k - 1; j >= 0; j-- {
		s[j] = i % NTypes
		i /= NTypes
	}
	return s
}

func SchemaName(s []int) string {
	n := make([]string, len(s))
	for i, t := range s {
		n[i] = TypeNames[t]
	}
	return strings.Join(n, ",")
}
