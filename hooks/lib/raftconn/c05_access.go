//go:build verif

package raftconn

import (
	"go.etcd.io/etcd/raft/v3"
)

// Read-only accessors for the C05 harness (package engine). No behaviour is changed.

// VerifStatus returns the raft status of the node (zero value once the node is stopped).
func (n *RaftNode) VerifStatus() raft.Status { return n.node.Status() }

// VerifStopped reports whether Stop was called.
func (n *RaftNode) VerifStopped() bool { return n.ctx.Err() != nil }
