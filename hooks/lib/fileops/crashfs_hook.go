//go:build verif

package fileops

// Crash-recorder hook (DESIGN.md §2.2). Overlaid into lib/fileops by the verification harness only.
// VerifInstall wraps the package's local VFS so that every file-system MUTATION issued through
// lib/fileops calls VerifHook before it is applied; a data write additionally calls it after each
// torn prefix chosen by VerifTornCuts has been physically written. Reads are passed through.

import (
	"bytes"
	"os"
	"runtime"
	"strconv"
	"sync"
	"sync/atomic"
)

type VerifMutation struct {
	Kind  string // create open-trunc write truncate rename remove removeall mkdir writefile copyfile sync ack
	Path  string
	Path2 string // rename target
	Len   int    // write length
	Torn  int    // -1: the mutation has not started; n>0: the first n bytes of a write have been written
}

var (
	// VerifHook is called with the mutation lock held (so no other hooked mutation runs concurrently).
	VerifHook func(m *VerifMutation)
	// VerifTornCuts returns increasing cut points strictly inside (0,n) for a write of n bytes to path.
	VerifTornCuts func(path string, n int) []int

	// VerifDeferRemove, when set and returning true for a path, makes Remove(path) a no-op: models an asynchronous
	// remover (mergeset's transaction-file deleter) that is still pending when the process dies.
	VerifDeferRemove func(path string) bool

	verifMu        verifReMutex
	verifInstalled bool
)

// verifReMutex is re-entrant per goroutine: the local VFS implements some operations by calling the
// package-level functions again (CreateV2 -> Create), which come back through the wrapper. A nested
// call is part of the outer mutation and is not reported again.
type verifReMutex struct {
	mu    sync.Mutex
	owner atomic.Int64
	depth int
}

func verifGoID() int64 {
	var buf [64]byte
	b := buf[:runtime.Stack(buf[:], false)]
	b = bytes.TrimPrefix(b, []byte("goroutine "))
	if i := bytes.IndexByte(b, ' '); i > 0 {
		n, _ := strconv.ParseInt(string(b[:i]), 10, 64)
		return n
	}
	return -1
}

// Lock returns true if this is the outermost acquisition by the calling goroutine.
func (m *verifReMutex) Lock() bool {
	id := verifGoID()
	if m.owner.Load() == id {
		m.depth++
		return false
	}
	m.mu.Lock()
	m.owner.Store(id)
	m.depth = 1
	return true
}

func (m *verifReMutex) Unlock() {
	m.depth--
	if m.depth == 0 {
		m.owner.Store(0)
		m.mu.Unlock()
	}
}

func verifCall(m *VerifMutation) {
	if h := VerifHook; h != nil {
		h(m)
	}
}

// VerifInstall wraps localFS (idempotent).
func VerifInstall() {
	verifMu.Lock()
	defer verifMu.Unlock()
	if verifInstalled {
		return
	}
	once.Do(SetLogger)
	localFS = &verifVFS{VFS: localFS}
	verifInstalled = true
}

// VerifAck lets the harness put a marker into the mutation stream (an API call returned).
func VerifAck(label string) {
	verifMu.Lock()
	defer verifMu.Unlock()
	verifCall(&VerifMutation{Kind: "ack", Path: label, Torn: -1})
}

type verifVFS struct{ VFS }

func (v *verifVFS) wrap(f File, err error) (File, error) {
	if err != nil || f == nil {
		return f, err
	}
	return &verifFile{File: f}, nil
}

func (v *verifVFS) mutate(kind, p, p2 string, f func() error) error {
	outer := verifMu.Lock()
	defer verifMu.Unlock()
	if outer {
		verifCall(&VerifMutation{Kind: kind, Path: p, Path2: p2, Torn: -1})
	}
	return f()
}

func (v *verifVFS) Open(name string, opt ...FSOption) (File, error) {
	return v.wrap(v.VFS.Open(name, opt...))
}

func (v *verifVFS) OpenFile(name string, flag int, perm os.FileMode, opt ...FSOption) (File, error) {
	if flag&(os.O_CREATE|os.O_TRUNC) != 0 {
		var f File
		err := v.mutate("open-create", name, "", func() error {
			var e error
			f, e = v.VFS.OpenFile(name, flag, perm, opt...)
			return e
		})
		return v.wrap(f, err)
	}
	return v.wrap(v.VFS.OpenFile(name, flag, perm, opt...))
}

func (v *verifVFS) create(kind, name string, fn func() (File, error)) (File, error) {
	var f File
	err := v.mutate(kind, name, "", func() error {
		var e error
		f, e = fn()
		return e
	})
	return v.wrap(f, err)
}

func (v *verifVFS) Create(name string, opt ...FSOption) (File, error) {
	return v.create("create", name, func() (File, error) { return v.VFS.Create(name, opt...) })
}
func (v *verifVFS) CreateV1(name string, opt ...FSOption) (File, error) {
	return v.create("create", name, func() (File, error) { return v.VFS.CreateV1(name, opt...) })
}
func (v *verifVFS) CreateV2(name string, opt ...FSOption) (File, error) {
	return v.create("create", name, func() (File, error) { return v.VFS.CreateV2(name, opt...) })
}
func (v *verifVFS) Remove(name string, opt ...FSOption) error {
	if d := VerifDeferRemove; d != nil && d(name) {
		// environment choice "the goroutine that removes this file has not run yet": the file stays, the caller
		// is told nothing went wrong (it only logs the result)
		return nil
	}
	return v.mutate("remove", name, "", func() error { return v.VFS.Remove(name, opt...) })
}
func (v *verifVFS) RemoveLocal(name string, opt ...FSOption) error {
	return v.mutate("remove", name, "", func() error { return v.VFS.RemoveLocal(name, opt...) })
}
func (v *verifVFS) RemoveAll(p string, opt ...FSOption) error {
	return v.mutate("removeall", p, "", func() error { return v.VFS.RemoveAll(p, opt...) })
}
func (v *verifVFS) RemoveAllWithOutDir(p string, opt ...FSOption) error {
	return v.mutate("removeall", p, "", func() error { return v.VFS.RemoveAllWithOutDir(p, opt...) })
}
func (v *verifVFS) Mkdir(p string, perm os.FileMode, opt ...FSOption) error {
	return v.mutate("mkdir", p, "", func() error { return v.VFS.Mkdir(p, perm, opt...) })
}
func (v *verifVFS) MkdirAll(p string, perm os.FileMode, opt ...FSOption) error {
	return v.mutate("mkdir", p, "", func() error { return v.VFS.MkdirAll(p, perm, opt...) })
}
func (v *verifVFS) RenameFile(oldPath, newPath string, opt ...FSOption) error {
	return v.mutate("rename", oldPath, newPath, func() error { return v.VFS.RenameFile(oldPath, newPath, opt...) })
}
func (v *verifVFS) WriteFile(filename string, data []byte, perm os.FileMode, opt ...FSOption) error {
	return v.mutate("writefile", filename, "", func() error { return v.VFS.WriteFile(filename, data, perm, opt...) })
}
func (v *verifVFS) CopyFile(srcFile, dstFile string, opt ...FSOption) (int64, error) {
	var n int64
	err := v.mutate("copyfile", dstFile, srcFile, func() error {
		var e error
		n, e = v.VFS.CopyFile(srcFile, dstFile, opt...)
		return e
	})
	return n, err
}
func (v *verifVFS) Truncate(name string, size int64, opt ...FSOption) error {
	return v.mutate("truncate", name, "", func() error { return v.VFS.Truncate(name, size, opt...) })
}

type verifFile struct{ File }

func (f *verifFile) Write(p []byte) (int, error) {
	outer := verifMu.Lock()
	defer verifMu.Unlock()
	if !outer {
		return f.File.Write(p)
	}
	name := f.File.Name()
	verifCall(&VerifMutation{Kind: "write", Path: name, Len: len(p), Torn: -1})
	var cuts []int
	if c := VerifTornCuts; c != nil && VerifHook != nil {
		cuts = c(name, len(p))
	}
	done := 0
	for _, c := range cuts {
		if c <= done || c >= len(p) {
			continue
		}
		n, err := f.File.Write(p[done:c])
		done += n
		if err != nil {
			return done, err
		}
		verifCall(&VerifMutation{Kind: "write", Path: name, Len: len(p), Torn: done})
	}
	n, err := f.File.Write(p[done:])
	return done + n, err
}

func (f *verifFile) Truncate(size int64) error {
	outer := verifMu.Lock()
	defer verifMu.Unlock()
	if outer {
		verifCall(&VerifMutation{Kind: "truncate", Path: f.File.Name(), Torn: -1})
	}
	return f.File.Truncate(size)
}

func (f *verifFile) Sync() error {
	outer := verifMu.Lock()
	defer verifMu.Unlock()
	if outer {
		verifCall(&VerifMutation{Kind: "sync", Path: f.File.Name(), Torn: -1})
	}
	return f.File.Sync()
}

func (f *verifFile) SyncUpdateLength() error {
	outer := verifMu.Lock()
	defer verifMu.Unlock()
	if outer {
		verifCall(&VerifMutation{Kind: "sync", Path: f.File.Name(), Torn: -1})
	}
	return f.File.SyncUpdateLength()
}
