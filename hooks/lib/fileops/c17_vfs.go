//go:build verif

package fileops

// C17SwapLocalFS replaces the process-wide local VFS and returns the previous one.
// Used only by the C17 harness (lib/raftlog) to observe every file-system mutation of the raft
// log store (crash images) — production code never calls it.
func C17SwapLocalFS(v VFS) VFS {
	old := localFS
	localFS = v
	return old
}
