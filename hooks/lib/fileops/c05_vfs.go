//go:build verif

package fileops

import "os"

// C05NoFsync wraps the process-wide local VFS so that fsync is skipped. Failure model of C05: the process
// dies, the operating system survives, so fsync has no observable effect; skipping it only saves wall time.
// Used only by the C05 harness (package engine).
func C05NoFsync() {
	if _, ok := localFS.(*c05VFS); ok {
		return
	}
	once.Do(SetLogger)
	localFS = &c05VFS{VFS: localFS}
}

type c05VFS struct{ VFS }

type c05File struct{ File }

func (f *c05File) Sync() error             { return nil }
func (f *c05File) SyncUpdateLength() error { return nil }

func c05Wrap(f File, err error) (File, error) {
	if err != nil || f == nil {
		return f, err
	}
	return &c05File{File: f}, nil
}

func (v *c05VFS) Open(name string, opt ...FSOption) (File, error) {
	return c05Wrap(v.VFS.Open(name, opt...))
}
func (v *c05VFS) OpenFile(name string, flag int, perm os.FileMode, opt ...FSOption) (File, error) {
	return c05Wrap(v.VFS.OpenFile(name, flag, perm, opt...))
}
func (v *c05VFS) Create(name string, opt ...FSOption) (File, error) {
	return c05Wrap(v.VFS.Create(name, opt...))
}
func (v *c05VFS) CreateV1(name string, opt ...FSOption) (File, error) {
	return c05Wrap(v.VFS.CreateV1(name, opt...))
}
func (v *c05VFS) CreateV2(name string, opt ...FSOption) (File, error) {
	return c05Wrap(v.VFS.CreateV2(name, opt...))
}
