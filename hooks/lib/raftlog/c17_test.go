//go:build verif

package raftlog

// C17 — the replication log store honours the Raft storage contract, across reopen and process death.
//
// Bounded exhaustive history exploration of the real RaftDiskStorage, differential against
// go.etcd.io/etcd/raft/v3 MemoryStorage fed the same operations; every file-system mutation of the store
// is intercepted through lib/fileops (C17SwapLocalFS) to take crash images.  See /verif/notes/C17.md.

import (
	"bytes"
	"encoding/json"
	"fmt"
	"io"
	"math"
	"os"
	"path/filepath"
	"sort"
	"strings"
	"testing"

	"github.com/openGemini/openGemini/lib/config"
	"github.com/openGemini/openGemini/lib/fileops"
	"github.com/openGemini/openGemini/lib/logger"
	kit "github.com/openGemini/openGemini/lib/verifkit"
	"go.etcd.io/etcd/raft/v3"
	"go.etcd.io/etcd/raft/v3/raftpb"
	"go.uber.org/zap"
)

// ---------------------------------------------------------------------------------------------
// file-system interception

type c17Img struct {
	Dir  string
	Mut  int // 1-based number of the mutation the image was taken BEFORE (within the armed operation)
	Cut  int // >0: the image additionally contains the first Cut bytes of that write
	What string
}

type c17Rec struct {
	armed    bool
	root     string // directory handed to Init (parent of __raft_entries__)
	imgRoot  string
	n        int
	imgs     []c17Img
	only     *c17CrashPt // replay: freeze just this point
	realSync bool
	muts     int64
	syncs    int64
}

var c17R = &c17Rec{}

func (r *c17Rec) arm(root, imgRoot string) {
	r.armed, r.root, r.imgRoot, r.n, r.imgs = true, root, imgRoot, 0, nil
}

func (r *c17Rec) disarm() []c17Img {
	r.armed = false
	im := r.imgs
	r.imgs = nil
	return im
}

func (r *c17Rec) inScope(name string) bool {
	return r.armed && strings.HasPrefix(filepath.Clean(name), filepath.Clean(r.root)+string(os.PathSeparator))
}

// before is called before every mutation of a file below the armed root.
func (r *c17Rec) before(name, what string) int {
	r.muts++
	if !r.inScope(name) {
		return 0
	}
	r.n++
	r.freeze(r.n, 0, what)
	return r.n
}

func (r *c17Rec) freeze(mut, cut int, what string) {
	if r.only != nil && (r.only.Mut != mut || r.only.Cut != cut) {
		return
	}
	dst := filepath.Join(r.imgRoot, fmt.Sprintf("img-%03d-%d", mut, cut))
	if err := c17CopyTree(r.root, dst); err != nil {
		panic(fmt.Sprintf("c17: cannot freeze crash image: %v", err))
	}
	r.imgs = append(r.imgs, c17Img{Dir: dst, Mut: mut, Cut: cut, What: what})
}

func c17CopyTree(src, dst string) error {
	return filepath.Walk(src, func(p string, fi os.FileInfo, err error) error {
		if err != nil {
			return err
		}
		rel, _ := filepath.Rel(src, p)
		t := filepath.Join(dst, rel)
		if fi.IsDir() {
			return os.MkdirAll(t, 0o750)
		}
		in, err := os.Open(p)
		if err != nil {
			return err
		}
		defer in.Close()
		out, err := os.OpenFile(t, os.O_CREATE|os.O_WRONLY|os.O_TRUNC, 0o600)
		if err != nil {
			return err
		}
		if _, err = io.Copy(out, in); err != nil {
			out.Close()
			return err
		}
		return out.Close()
	})
}

type c17FS struct {
	fileops.VFS
}

func (v *c17FS) OpenFile(name string, flag int, perm os.FileMode, opt ...fileops.FSOption) (fileops.File, error) {
	if flag&os.O_CREATE != 0 {
		if _, err := os.Stat(name); err != nil {
			c17R.before(name, "create "+filepath.Base(name))
		}
	}
	f, err := v.VFS.OpenFile(name, flag, perm, opt...)
	if err != nil {
		return f, err
	}
	return &c17File{File: f, name: name}, nil
}

func (v *c17FS) Remove(name string, opt ...fileops.FSOption) error {
	c17R.before(name, "remove "+filepath.Base(name))
	return v.VFS.Remove(name, opt...)
}

func (v *c17FS) RemoveAll(name string, opt ...fileops.FSOption) error {
	c17R.before(name, "removeall "+filepath.Base(name))
	return v.VFS.RemoveAll(name, opt...)
}

func (v *c17FS) RenameFile(o, n string, opt ...fileops.FSOption) error {
	c17R.before(o, "rename "+filepath.Base(o))
	return v.VFS.RenameFile(o, n, opt...)
}

func (v *c17FS) Truncate(name string, size int64, opt ...fileops.FSOption) error {
	c17R.before(name, "truncate "+filepath.Base(name))
	return v.VFS.Truncate(name, size, opt...)
}

type c17File struct {
	fileops.File
	name string
}

const c17Page = 4096

// Write: image before the write; a process killed inside one write(2) can leave the bytes up to a page
// boundary of the file (the kernel checks for a fatal signal between pages), so torn variants are taken at
// the first, the middle and the last page boundary inside the written range.
func (f *c17File) Write(b []byte) (int, error) {
	mut := c17R.before(f.name, fmt.Sprintf("write %s len=%d", filepath.Base(f.name), len(b)))
	if mut == 0 || len(b) <= 1 {
		return f.File.Write(b)
	}
	pos, err := f.File.Seek(0, io.SeekCurrent)
	if err != nil {
		return f.File.Write(b)
	}
	var cuts []int
	firstB := int((c17Page - pos%c17Page) % c17Page)
	if firstB == 0 {
		firstB = c17Page
	}
	if firstB < len(b) {
		cuts = append(cuts, firstB)
		nb := (len(b) - firstB - 1) / c17Page // further boundaries strictly inside
		if nb >= 1 {
			if mid := firstB + (nb/2)*c17Page; mid > firstB && mid < len(b) {
				cuts = append(cuts, mid)
			}
			if last := firstB + nb*c17Page; last < len(b) && last > cuts[len(cuts)-1] {
				cuts = append(cuts, last)
			}
		}
	}
	done := 0
	for _, c := range cuts {
		n, err := f.File.Write(b[done:c])
		done += n
		if err != nil {
			return done, err
		}
		c17R.freeze(mut, c, fmt.Sprintf("torn write %s %d/%d", filepath.Base(f.name), c, len(b)))
	}
	n, err := f.File.Write(b[done:])
	return done + n, err
}

func (f *c17File) Truncate(size int64) error {
	c17R.before(f.name, fmt.Sprintf("ftruncate %s %d", filepath.Base(f.name), size))
	return f.File.Truncate(size)
}

// Sync: the failure model of the property is process death, the OS survives, so fsync has no observable
// effect; it is skipped (counted) unless VERIF_C17_REALSYNC=1.
func (f *c17File) Sync() error {
	c17R.syncs++
	if c17R.realSync {
		return f.File.Sync()
	}
	return nil
}

func (f *c17File) SyncUpdateLength() error { return f.Sync() }

// ---------------------------------------------------------------------------------------------
// cases

type c17Op struct {
	Kind  string    `json:"kind"` // save | hs | snap | del | reopen | create (only as in-flight op of the empty history)
	Start uint64    `json:"start,omitempty"`
	Terms []uint64  `json:"terms,omitempty"`
	Bigs  []bool    `json:"bigs,omitempty"`
	HS    []uint64  `json:"hs,omitempty"` // term, vote, commit
	I     uint64    `json:"i,omitempty"`
	Legal bool      `json:"legal,omitempty"` // snap: the index is one the contract accepts
	Abs   string    `json:"abs,omitempty"`
}

func (o c17Op) String() string {
	switch o.Kind {
	case "save":
		ts := make([]string, len(o.Terms))
		for i, t := range o.Terms {
			ts[i] = fmt.Sprint(t)
			if len(o.Bigs) > i && o.Bigs[i] {
				ts[i] += "B"
			}
		}
		s := fmt.Sprintf("Save(%d:t%s)", o.Start, strings.Join(ts, ","))
		if o.HS != nil {
			s += fmt.Sprintf("+hs%v", o.HS)
		}
		return s
	case "hs":
		return fmt.Sprintf("HS%v", o.HS)
	case "snap":
		return fmt.Sprintf("Snap(%d)", o.I)
	case "del":
		return fmt.Sprintf("Del(%d)", o.I)
	case "reopen":
		return "Reopen"
	}
	return o.Kind
}

type c17CrashPt struct {
	Mut int `json:"mut"`
	Cut int `json:"cut"`
}

type c17Case struct {
	Mode  string      `json:"mode"` // count: maxNumEntries shrunk by overlay; size: unmodified constants
	RW    int         `json:"rw"`   // config.EntryFileRWType
	Ops   []c17Op     `json:"ops"`
	From  int         `json:"compare_from"` // the contract queries are asked after every step >= From (reads warm the store's caches, so they are part of the case)
	Crash *c17CrashPt `json:"crash,omitempty"` // image taken during the LAST op
}

func c17Key(ops []c17Op, from int) string {
	return fmt.Sprintf("rw%d %s  [queried after steps >= %d]", config.EntryFileRWType, c17Hist(ops), from+1)
}

func c17Hist(ops []c17Op) string {
	s := make([]string, len(ops))
	for i, o := range ops {
		s[i] = o.String()
	}
	return strings.Join(s, " ")
}

// abstract operation, resolved against the reference state when it is applied
type c17Abs struct {
	Kind   string
	Back   int // save: first index = last+1-Back
	N      int
	TermUp int // 0: existing entries keep their term (re-send), new ones get the last term; 1: all get last term+1 (+ hard state)
	Big    bool
	Sel    string // snap/del index selector; hs variant
}

func (a c17Abs) String() string {
	switch a.Kind {
	case "save":
		b := ""
		if a.Big {
			b = "B"
		}
		return fmt.Sprintf("S-%dx%dt%d%s", a.Back, a.N, a.TermUp, b)
	case "reopen":
		return "R"
	}
	return a.Kind + ":" + a.Sel
}

const c17BigLen = 11 << 20

var c17BigCache = map[[2]uint64][]byte{}

func c17Entry(idx, term uint64, big bool) raftpb.Entry {
	e := raftpb.Entry{Index: idx, Term: term}
	if (idx+term)%5 == 0 {
		e.Type = raftpb.EntryConfChange
	}
	pat := []byte(fmt.Sprintf("e%d.%d|", idx, term))
	if big {
		k := [2]uint64{idx, term}
		d, ok := c17BigCache[k]
		if !ok {
			d = make([]byte, c17BigLen+int(idx%7))
			n := copy(d, pat)
			for n < len(d) {
				n += copy(d[n:], d[:n])
			}
			c17BigCache[k] = d
		}
		e.Data = d
		return e
	}
	if (idx*7+term*3)%6 == 0 {
		return e // empty payload (raft's own empty entries)
	}
	n := 3 + int((idx*5+term*11)%17)
	e.Data = bytes.Repeat(pat, n/len(pat)+1)[:n]
	return e
}

func (o c17Op) entries() []raftpb.Entry {
	es := make([]raftpb.Entry, len(o.Terms))
	for i, t := range o.Terms {
		es[i] = c17Entry(o.Start+uint64(i), t, len(o.Bigs) > i && o.Bigs[i])
	}
	return es
}

func (o c17Op) hardState() *raftpb.HardState {
	if len(o.HS) != 3 {
		return nil
	}
	return &raftpb.HardState{Term: o.HS[0], Vote: o.HS[1], Commit: o.HS[2]}
}

var c17CS = raftpb.ConfState{Voters: []uint64{1, 2, 3}, Learners: []uint64{4}}

func c17SnapData(i uint64, step int) []byte { return []byte(fmt.Sprintf("snapshot@%d/step%d", i, step)) }

// ---------------------------------------------------------------------------------------------
// expected view (everything in it is read from MemoryStorage through the raft.Storage interface)

type c17View struct {
	first, last uint64
	ents        []raftpb.Entry // ents[k].Index == first+k
	prevTerm    uint64         // term at first-1 (MemoryStorage's dummy)
	hs          raftpb.HardState
	snap        raftpb.Snapshot
	virgin      bool // nothing was ever appended
}

func c17ViewOf(ms *raft.MemoryStorage) c17View {
	var v c17View
	v.first, _ = ms.FirstIndex()
	v.last, _ = ms.LastIndex()
	if v.last >= v.first {
		es, err := ms.Entries(v.first, v.last+1, math.MaxUint64)
		if err != nil {
			panic(fmt.Sprintf("c17: reference Entries(%d,%d): %v", v.first, v.last+1, err))
		}
		v.ents = es
	}
	v.prevTerm, _ = ms.Term(v.first - 1)
	v.hs, _, _ = ms.InitialState()
	v.snap, _ = ms.Snapshot()
	v.virgin = v.first == 1 && v.last == 0
	return v
}

func (v c17View) compactTo(f uint64) c17View {
	if f <= v.first {
		return v
	}
	w := v
	w.prevTerm = v.ents[f-1-v.first].Term
	w.ents = v.ents[f-v.first:]
	w.first = f
	return w
}

// truncAppend: entries >= start are discarded, es appended.
func (v c17View) truncAppend(start uint64, es []raftpb.Entry) c17View {
	w := v
	w.ents = append(append([]raftpb.Entry{}, v.ents[:start-v.first]...), es...)
	w.last = v.first + uint64(len(w.ents)) - 1
	w.virgin = len(w.ents) == 0 && w.first == 1 // every slot wiped: indistinguishable from a store nothing was saved to
	return w
}

func (v c17View) lastTerm() uint64 {
	if len(v.ents) > 0 {
		return v.ents[len(v.ents)-1].Term
	}
	return v.prevTerm
}

func (v c17View) digest() string {
	var b strings.Builder
	fmt.Fprintf(&b, "%d-%d:", v.first, v.last)
	for _, e := range v.ents {
		fmt.Fprintf(&b, "%d/%d,", e.Term, len(e.Data))
	}
	fmt.Fprintf(&b, "|%v|%d.%d.%s", v.hs, v.snap.Metadata.Index, v.snap.Metadata.Term, v.snap.Data)
	return b.String()
}

// ---------------------------------------------------------------------------------------------
// comparison of the store with an expected view

type c17Diff struct {
	Kind   string
	Detail string
}

func c17ErrName(err error) string {
	switch err {
	case nil:
		return "nil"
	case raft.ErrCompacted:
		return "ErrCompacted"
	case raft.ErrUnavailable:
		return "ErrUnavailable"
	case raft.ErrSnapOutOfDate:
		return "ErrSnapOutOfDate"
	}
	return "err(" + err.Error() + ")"
}

func c17EntEq(a, b raftpb.Entry) bool {
	return a.Index == b.Index && a.Term == b.Term && a.Type == b.Type && bytes.Equal(a.Data, b.Data)
}

func c17EntStr(e raftpb.Entry) string {
	d := e.Data
	if len(d) > 24 {
		return fmt.Sprintf("{i%d t%d ty%d data[%d]%q…}", e.Index, e.Term, e.Type, len(d), d[:24])
	}
	return fmt.Sprintf("{i%d t%d ty%d data[%d]%q}", e.Index, e.Term, e.Type, len(d), d)
}

type c17Cmp struct {
	diffs   []c17Diff
	queries int64
	limDiff int64 // size-limited answers whose length differs from MemoryStorage's (legal, counted)
}

func (c *c17Cmp) add(kind, format string, a ...any) {
	if len(c.diffs) < 12 {
		c.diffs = append(c.diffs, c17Diff{kind, fmt.Sprintf(format, a...)})
	}
}

// c17Compare asks the store every contract question in the window and compares with the view.
// The view must already be aligned to the store's first index. heavy: 11 MiB payloads, fewer range pairs.
// ms (optional) is queried directly as a cross-check of the view-derived expectations.
func c17Compare(rds *RaftDiskStorage, v c17View, ms *raft.MemoryStorage, heavy bool) *c17Cmp {
	c := &c17Cmp{}
	defer func() {
		if r := recover(); r != nil {
			c.add("panic_in_query", "panic: %v", r)
		}
	}()
	f, err := rds.FirstIndex()
	c.queries++
	if err != nil || f != v.first {
		c.add("first_index_mismatch", "FirstIndex()=%d,%s want %d", f, c17ErrName(err), v.first)
	}
	l, err := rds.LastIndex()
	c.queries++
	if err != nil || l != v.last {
		c.add("last_index_mismatch", "LastIndex()=%d,%s want %d", l, c17ErrName(err), v.last)
	}
	si := v.snap.Metadata.Index
	hasSnap := !raft.IsEmptySnap(v.snap)

	// Term
	idxs := map[uint64]bool{}
	for i := v.first - 1; i <= v.last+1; i++ {
		idxs[i] = true
	}
	if hasSnap {
		idxs[si] = true
		if si > 1 {
			idxs[si-1] = true
		}
	}
	keys := make([]uint64, 0, len(idxs))
	for i := range idxs {
		keys = append(keys, i)
	}
	sort.Slice(keys, func(a, b int) bool { return keys[a] < keys[b] })
	for _, i := range keys {
		if i == 0 {
			continue // the initial dummy entry is not compared
		}
		t, err := rds.Term(i)
		c.queries++
		switch {
		case i >= v.first && i <= v.last:
			want := v.ents[i-v.first].Term
			if err != nil || t != want {
				c.add("term_mismatch", "Term(%d)=%d,%s want %d,nil", i, t, c17ErrName(err), want)
			}
			if ms != nil {
				if mt, merr := ms.Term(i); merr != nil || mt != want {
					panic(fmt.Sprintf("c17 oracle self-check: MemoryStorage.Term(%d)=%d,%v view %d", i, mt, merr, want))
				}
			}
		case i > v.last:
			if v.virgin && err == raft.ErrCompacted {
				break // nothing was ever saved: the store's own initial dummy, not compared (DESIGN §3a)
			}
			if err != raft.ErrUnavailable {
				c.add("term_beyond_last", "Term(%d)=%d,%s want ErrUnavailable (last=%d)", i, t, c17ErrName(err), v.last)
			}
			if ms != nil {
				if _, merr := ms.Term(i); merr != raft.ErrUnavailable {
					panic(fmt.Sprintf("c17 oracle self-check: MemoryStorage.Term(%d) err=%v", i, merr))
				}
			}
		default: // i < first
			okSnap := hasSnap && i == si && err == nil && t == v.snap.Metadata.Term
			okPrev := i == v.first-1 && err == nil && t == v.prevTerm
			okComp := err == raft.ErrCompacted
			switch {
			case hasSnap && i == si && i == v.first-1:
				if !okSnap {
					c.add("term_at_snapshot_index", "Term(%d)=%d,%s want snapshot term %d", i, t, c17ErrName(err), v.snap.Metadata.Term)
				}
			case hasSnap && i == si:
				if !okSnap && !okComp {
					c.add("term_at_snapshot_index", "Term(%d)=%d,%s want snapshot term %d or ErrCompacted", i, t, c17ErrName(err), v.snap.Metadata.Term)
				}
			default:
				if !okComp && !okPrev {
					c.add("term_below_first", "Term(%d)=%d,%s want ErrCompacted (first=%d)", i, t, c17ErrName(err), v.first)
				}
			}
		}
	}

	// Entries
	lo0 := v.first - 1
	if lo0 == 0 {
		lo0 = 1
	}
	for lo := lo0; lo <= v.last+1; lo++ {
		var his []uint64
		if heavy {
			his = []uint64{lo, lo + 1, v.last + 1, v.last + 2}
		} else {
			for hi := lo; hi <= v.last+2; hi++ {
				his = append(his, hi)
			}
		}
		seen := map[uint64]bool{}
		for _, hi := range his {
			if hi < lo || seen[hi] {
				continue
			}
			seen[hi] = true
			var one uint64
			if lo >= v.first && lo <= v.last {
				one = uint64(v.ents[lo-v.first].Size())
			}
			maxes := []uint64{math.MaxUint64, 0, one}
			if heavy || one == 0 {
				maxes = maxes[:2]
			}
			for _, mx := range maxes {
				got, err := rds.Entries(lo, hi, mx)
				c.queries++
				tag := fmt.Sprintf("Entries(%d,%d,%d)", lo, hi, mx)
				switch {
				case lo < v.first:
					if err != raft.ErrCompacted {
						c.add("entries_below_first", "%s=%d entries,%s want ErrCompacted (first=%d)", tag, len(got), c17ErrName(err), v.first)
					}
				case hi > v.last+1:
					if err != raft.ErrUnavailable {
						c.add("entries_beyond_last", "%s=%d entries,%s want ErrUnavailable (last=%d)", tag, len(got), c17ErrName(err), v.last)
					}
				case lo == hi:
					if !(err == nil && len(got) == 0) && !(v.virgin && err == raft.ErrUnavailable) {
						c.add("entries_empty_range", "%s=%d entries,%s want none,nil", tag, len(got), c17ErrName(err))
					}
				default:
					full := v.ents[lo-v.first : hi-v.first]
					if err != nil {
						c.add("entries_error", "%s=%s want %d entries", tag, c17ErrName(err), len(full))
						continue
					}
					if mx == math.MaxUint64 {
						if ms != nil && !heavy {
							me, merr := ms.Entries(lo, hi, mx)
							if merr != nil || len(me) != len(full) {
								panic(fmt.Sprintf("c17 oracle self-check: MemoryStorage.%s=%d,%v view %d", tag, len(me), merr, len(full)))
							}
						}
						if len(got) != len(full) {
							c.add("entries_count_mismatch", "%s returned %d entries want %d", tag, len(got), len(full))
						}
					} else {
						if len(got) == 0 {
							c.add("entries_limit_returned_nothing", "%s returned no entry, at least one is required", tag)
						}
						if len(got) > len(full) {
							c.add("entries_count_mismatch", "%s returned %d entries, the range has %d", tag, len(got), len(full))
						}
						if ms != nil && !heavy {
							if me, merr := ms.Entries(lo, hi, mx); merr == nil && len(me) != len(got) {
								c.limDiff++
							}
						}
					}
					for k := 0; k < len(got) && k < len(full); k++ {
						if c17EntEq(got[k], full[k]) {
							continue
						}
						kind := "entries_content_mismatch"
						if got[k].Index == full[k].Index && got[k].Term == full[k].Term && got[k].Type == full[k].Type {
							kind = "entries_payload_mismatch"
							if len(got[k].Data) == 0 {
								kind = "entries_payload_lost"
								if _, slot := rds.entryLog.slotGe(got[k].Index); slot == 0 {
									kind = "first_slot_payload_lost"
								}
							}
						}
						c.add(kind, "%s[%d]=%s want %s", tag, k, c17EntStr(got[k]), c17EntStr(full[k]))
						break
					}
				}
			}
		}
	}

	// Snapshot, InitialState
	sn, err := rds.Snapshot()
	c.queries++
	if err != nil || sn.Metadata.Index != v.snap.Metadata.Index || sn.Metadata.Term != v.snap.Metadata.Term ||
		!bytes.Equal(sn.Data, v.snap.Data) || sn.Metadata.ConfState.String() != v.snap.Metadata.ConfState.String() {
		c.add("snapshot_mismatch", "Snapshot()={i%d t%d cs{%s} data %q},%s want {i%d t%d cs{%s} data %q}",
			sn.Metadata.Index, sn.Metadata.Term, sn.Metadata.ConfState.String(), sn.Data, c17ErrName(err),
			v.snap.Metadata.Index, v.snap.Metadata.Term, v.snap.Metadata.ConfState.String(), v.snap.Data)
	}
	hs, cs, err := rds.InitialState()
	c.queries++
	if err != nil || hs != v.hs {
		c.add("hardstate_mismatch", "InitialState() hard state=%v,%s want %v", hs, c17ErrName(err), v.hs)
	}
	if cs.String() != v.snap.Metadata.ConfState.String() {
		c.add("confstate_mismatch", "InitialState() conf state={%s} want {%s}", cs.String(), v.snap.Metadata.ConfState.String())
	}
	return c
}

// ---------------------------------------------------------------------------------------------
// running one history

type c17Viol struct {
	Kind, Key, Detail string
	Case              c17Case
}

type c17Runner struct {
	mode  string
	rw    int
	heavy bool
	rep   *kit.Report
	dir   string
	rds   *RaftDiskStorage
	ms    *raft.MemoryStorage
	ops   []c17Op // concrete history so far
	lastR bool    // previous op was a reopen (or nothing happened yet)
	feat  map[string]bool
}

var c17DirSeq int

func c17NewDir() string {
	c17DirSeq++
	d := filepath.Join(kit.Scratch(), fmt.Sprintf("h%08d", c17DirSeq))
	_ = os.RemoveAll(d)
	if err := os.MkdirAll(d, 0o750); err != nil {
		panic(err)
	}
	return d
}

func c17Init(dir string) (rds *RaftDiskStorage, err error) {
	defer func() {
		if r := recover(); r != nil {
			rds, err = nil, fmt.Errorf("panic in Init: %v", r)
		}
	}()
	return Init(dir, 0)
}

func c17Start(rep *kit.Report, mode string, rw int) (*c17Runner, error) {
	config.SetEntryFileRWType(rw)
	r := &c17Runner{mode: mode, rw: rw, heavy: mode == "size", rep: rep, dir: c17NewDir(), ms: raft.NewMemoryStorage(), lastR: true, feat: map[string]bool{}}
	var err error
	r.rds, err = c17Init(r.dir)
	return r, err
}

func (r *c17Runner) close() {
	if r.rds != nil {
		func() {
			defer func() { _ = recover() }()
			_ = r.rds.Close()
		}()
		r.rds = nil
	}
	_ = os.RemoveAll(r.dir)
}

func (r *c17Runner) layout() string {
	l := r.rds.entryLog
	var b strings.Builder
	for _, f := range l.files {
		fmt.Fprintf(&b, "%d:%d:%d;", f.fid, f.firstIndex(), f.firstEmptySlot())
	}
	fmt.Fprintf(&b, "cur%d:%d:%d", l.current.fid, l.current.firstIndex(), l.nextEntryIdx)
	return b.String()
}

// resolve turns an abstract op into a concrete one for the current reference state (ok=false: not applicable).
func (r *c17Runner) resolve(a c17Abs) (c17Op, bool) {
	v := c17ViewOf(r.ms)
	n := uint64(len(v.ents))
	op := c17Op{Kind: a.Kind, Abs: a.String()}
	pick := func(sel string) (uint64, bool) {
		if n == 0 {
			return 0, false
		}
		switch sel {
		case "first":
			return v.first, true
		case "mid":
			m := (v.first + v.last) / 2
			return m, m != v.first && m != v.last
		case "last":
			return v.last, v.last != v.first
		case "next":
			return v.last + 1, true
		case "below":
			return v.first - 1, v.first > 1
		}
		panic("selector " + sel)
	}
	switch a.Kind {
	case "save":
		if uint64(a.Back) > n {
			return op, false
		}
		op.Start = v.last + 1 - uint64(a.Back)
		if op.Start <= v.snap.Metadata.Index {
			return op, false // a snapshot covers committed entries; raft never overwrites those
		}
		lt := v.lastTerm()
		if lt == 0 {
			lt = 1
		}
		for k := 0; k < a.N; k++ {
			idx := op.Start + uint64(k)
			t, big := lt+uint64(a.TermUp), a.Big
			if a.TermUp == 0 && idx <= v.last {
				e := v.ents[idx-v.first]
				t, big = e.Term, len(e.Data) >= c17BigLen
			}
			op.Terms = append(op.Terms, t)
			op.Bigs = append(op.Bigs, big)
		}
		anyBig := false
		for _, b := range op.Bigs {
			anyBig = anyBig || b
		}
		if !anyBig {
			op.Bigs = nil
		}
		if a.TermUp == 1 {
			op.HS = []uint64{lt + 1, 1 + (lt+1)%3, v.hs.Commit}
		}
		return op, true
	case "hs":
		lt := v.lastTerm()
		if lt == 0 {
			lt = 1
		}
		switch a.Sel {
		case "commit":
			op.HS = []uint64{lt, 1, v.last}
		case "term":
			op.HS = []uint64{v.hs.Term + lt + 1, 2, v.hs.Commit}
		}
		return op, true
	case "snap":
		i, ok := pick(a.Sel)
		if !ok {
			return op, false
		}
		op.I = i
		op.Legal = i >= v.first && i <= v.last
		if op.Legal && i <= v.snap.Metadata.Index {
			return op, false // raft never creates a snapshot older than the one it has; the contract is silent
		}
		return op, true
	case "del":
		i, ok := pick(a.Sel)
		if !ok {
			return op, false
		}
		op.I = i
		return op, true
	case "reopen":
		return op, true
	}
	panic("kind " + a.Kind)
}

type c17StepRes struct {
	diffs []c17Diff
	noop  bool
	// for the crash oracle
	before c17View
	winHi  uint64
}

// apply executes one concrete op on the store and on the reference, then (if check) compares everything.
func (r *c17Runner) apply(op c17Op, check bool) (res c17StepRes) {
	before := c17ViewOf(r.ms)
	res.before = before
	lay0 := r.layout()
	dig0 := before.digest()
	add := func(kind, format string, a ...any) {
		res.diffs = append(res.diffs, c17Diff{kind, fmt.Sprintf(format, a...)})
	}
	step := len(r.ops)
	r.ops = append(r.ops, op)
	winHi := before.first // the first index may legally end anywhere in [before.first, winHi]
	var opErr error
	func() {
		defer func() {
			if p := recover(); p != nil {
				add("panic_in_operation", "%s panicked: %v", op, p)
			}
		}()
		switch op.Kind {
		case "save":
			es := op.entries()
			if op.Start <= before.last {
				if fidx, slot := r.rds.entryLog.slotGe(op.Start); fidx >= 0 && slot >= 1 {
					r.feat["conflict_into_older_file"] = true
				}
			}
			opErr = r.rds.SaveEntries(op.hardState(), es, nil)
			if opErr != nil {
				add("operation_failed", "%s: %v", op, opErr)
			}
			if err := r.ms.Append(es); err != nil {
				panic(err)
			}
			if h := op.hardState(); h != nil {
				_ = r.ms.SetHardState(*h)
			}
			if op.Start <= before.last {
				r.feat["conflict"] = true
			}
		case "hs":
			opErr = r.rds.Save(op.hardState(), nil, nil)
			if opErr != nil {
				add("operation_failed", "%s: %v", op, opErr)
			}
			_ = r.ms.SetHardState(*op.hardState())
		case "snap":
			cs := c17CS
			data := c17SnapData(op.I, step)
			opErr = r.rds.CreateSnapshot(op.I, &cs, data)
			if op.Legal {
				if opErr != nil {
					add("operation_failed", "%s: %v", op, opErr)
				}
				if _, err := r.ms.CreateSnapshot(op.I, &cs, data); err != nil {
					panic(err)
				}
				r.feat["snapshot"] = true
			} else if opErr == nil {
				add("snapshot_outside_log_accepted", "%s returned nil, index is outside [first=%d,last=%d]", op, before.first, before.last)
			}
		case "del":
			opErr = r.rds.DeleteBefore(op.I)
			if opErr != nil {
				add("operation_failed", "%s: %v", op, opErr)
			}
			winHi = op.I
			if winHi > before.last {
				winHi = before.last
			}
		case "reopen":
			if err := r.rds.Close(); err != nil {
				add("close_failed", "Close: %v", err)
			}
			r.rds = nil
			rds, err := c17Init(r.dir)
			if err != nil {
				add("reopen_failed", "Init after close: %v", err)
				return
			}
			r.rds = rds
			// recovery may drop what the snapshot covers: first index anywhere up to snapshot index + 1
			if s := before.snap.Metadata.Index; s > 0 && s+1 > winHi {
				winHi = s + 1
				if winHi > before.last+1 {
					winHi = before.last + 1
				}
			}
			r.feat["reopen"] = true
		default:
			panic("op kind " + op.Kind)
		}
	}()
	res.winHi = winHi
	if r.rds == nil {
		return res
	}
	// align the reference to the first index the implementation chose, inside the legal window
	f, _ := r.rds.FirstIndex()
	switch {
	case f < before.first || f > winHi:
		if len(res.diffs) == 0 || f != before.first {
			add("first_index_outside_window", "after %s FirstIndex()=%d, legal window [%d,%d]", op, f, before.first, winHi)
		}
	case f > before.first:
		if err := r.ms.Compact(f - 1); err != nil {
			panic(fmt.Sprintf("c17: reference Compact(%d): %v", f-1, err))
		}
		r.feat["compaction"] = true
	}
	after := c17ViewOf(r.ms)
	lay1 := r.layout()
	if len(r.rds.entryLog.files) > 0 {
		r.feat["rotated"] = true
	}
	if op.Kind == "reopen" {
		res.noop = r.lastR
	} else {
		res.noop = lay0 == lay1 && dig0 == after.digest()
	}
	r.lastR = op.Kind == "reopen"
	if len(res.diffs) > 0 || !check {
		return res
	}
	cmp := c17Compare(r.rds, after, r.ms, r.heavy)
	r.rep.Count("contract_queries", cmp.queries)
	r.rep.Count("limited_answers_shorter_or_longer_than_reference", cmp.limDiff)
	res.diffs = cmp.diffs
	return res
}

func c17Detail(diffs []c17Diff) string {
	s := make([]string, len(diffs))
	for i, d := range diffs {
		s[i] = d.Kind + ": " + d.Detail
	}
	return strings.Join(s, "\n  ")
}

// c17Classify refines the kind of the first difference using the history (specific defects get specific kinds).
func c17Classify(diffs []c17Diff, feat map[string]bool) string {
	k := diffs[0].Kind
	if k == "first_slot_payload_lost" && feat["conflict_into_older_file"] {
		// the payload of the FIRST entry of a file reads back empty, and earlier in this history a conflicting
		// append landed in a non-first slot of an already rotated file (whose tail was then wiped)
		return "first_slot_payload_lost_after_conflict_into_older_file"
	}
	return k
}

func c17CrashKey(ops []c17Op, im c17Img) string {
	return fmt.Sprintf("rw%d %s  [crash inflight=%s before mutation #%d %q cut %d]", config.EntryFileRWType, c17Hist(ops), ops[len(ops)-1].Kind, im.Mut, im.What, im.Cut)
}

// ---------------------------------------------------------------------------------------------
// crash images

// candidates: the contract states a store reopened from an image taken during op may show.
// The in-flight operation was never acknowledged. For a Save the legal outcomes are: nothing of it (absent); the
// discarded suffix removed only partly or completely and nothing appended yet (every entry >= the batch's first index
// is being discarded by the caller, so any shorter suffix is as safe as the full one); the suffix removed and a
// prefix of the batch appended; all of it. The hard state is old or new independently of the entries.
type c17Cand struct {
	name string
	v    c17View
}

func c17Candidates(before c17View, op c17Op, step int) []c17Cand {
	cands := []c17Cand{{"absent", before}}
	switch op.Kind {
	case "save":
		es := op.entries()
		hss := []raftpb.HardState{before.hs}
		if h := op.hardState(); h != nil {
			hss = append(hss, *h)
		}
		for hi, h := range hss {
			if hi == 1 {
				w := before
				w.hs = h
				cands = append(cands, c17Cand{"hardstate_only", w})
			}
			for m := before.last; m >= op.Start && m > 0; m-- { // suffix (m, last] gone, [start, m] still there
				if m == before.last {
					continue
				}
				w := before.truncAppend(m+1, nil)
				w.hs = h
				cands = append(cands, c17Cand{"suffix_partly_discarded", w})
			}
			for j := 0; j <= len(es); j++ {
				w := before.truncAppend(op.Start, es[:j])
				w.hs = h
				name := "batch_prefix"
				switch {
				case j == 0 && op.Start > before.last:
					continue // nothing discarded, nothing appended: "absent"/"hardstate_only"
				case j == 0:
					name = "suffix_discarded_nothing_appended"
				case j == len(es) && hi == len(hss)-1:
					name = "complete"
				case j == len(es):
					name = "entries_complete_hardstate_old"
				}
				cands = append(cands, c17Cand{name, w})
			}
		}
	case "hs":
		w := before
		w.hs = *op.hardState()
		cands = append(cands, c17Cand{"complete", w})
	case "snap":
		if op.Legal {
			w := before
			w.snap = raftpb.Snapshot{Data: c17SnapData(op.I, step), Metadata: raftpb.SnapshotMetadata{Index: op.I, Term: before.ents[op.I-before.first].Term, ConfState: c17CS}}
			cands = append(cands, c17Cand{"complete", w})
		}
	}
	return cands
}

// c17CheckImage reopens one crash image with the real Init and compares with every candidate.
func c17CheckImage(rep *kit.Report, img c17Img, cands []c17Cand, winHi uint64) (diffs []c17Diff) {
	defer os.RemoveAll(img.Dir)
	rds, err := c17Init(img.Dir)
	if err != nil {
		kind := "crash_image_cannot_be_opened"
		switch {
		case strings.Contains(err.Error(), "cannot parse snapshot"):
			kind = "crash_snapshot_blob_torn_store_cannot_open"
		case strings.Contains(err.Error(), "snap index:"):
			kind = "crash_snapshot_index_and_blob_disagree_store_cannot_open"
		case strings.Contains(err.Error(), "error while reading meta file"), strings.Contains(err.Error(), "error while reading raftlog file"):
			kind = "crash_short_file_store_cannot_open"
		}
		return []c17Diff{{kind, fmt.Sprintf("Init on the image taken before mutation #%d (%s, cut %d) fails: %v", img.Mut, img.What, img.Cut, err)}}
	}
	defer func() {
		defer func() { _ = recover() }()
		_ = rds.Close()
	}()
	f, _ := rds.FirstIndex()
	var best []c17Diff
	for _, cd := range cands {
		cand := cd.v
		hi := winHi
		if s := cand.snap.Metadata.Index; s > 0 && s+1 > hi {
			hi = s + 1 // Init drops what the snapshot covers
		}
		if hi > cand.last+1 {
			hi = cand.last + 1
		}
		var d []c17Diff
		if f < cand.first || (f > cand.first && f > hi) {
			d = []c17Diff{{"first_index_outside_window", fmt.Sprintf("FirstIndex()=%d, legal window [%d,%d]", f, cand.first, hi)}}
		} else {
			cmp := c17Compare(rds, cand.compactTo(f), nil, false)
			rep.Count("contract_queries", cmp.queries)
			d = cmp.diffs
		}
		if len(d) == 0 {
			rep.Count("crash_images_inflight_"+cd.name, 1)
			return nil
		}
		if best == nil || len(d) < len(best) {
			best = d
		}
	}
	special := ""
	func() {
		defer func() { _ = recover() }()
		if _, _, err := rds.InitialState(); err != nil && strings.Contains(err.Error(), "cannot parse hardState") {
			special = "crash_hardstate_torn_unparsable"
			return
		}
		if sn, err := rds.Snapshot(); err == nil && rds.Uint(SnapshotIndex) != sn.Metadata.Index {
			// the index field of the meta file was rewritten, the snapshot it belongs to was not (yet):
			// Init compacts up to an index no stored snapshot covers
			special = "crash_snapshot_index_field_without_its_snapshot"
			return
		}
		l, _ := rds.LastIndex()
		if es, err := rds.Entries(f, l+1, math.MaxUint64); err == nil {
			for _, e := range es {
				if e.Term>>32 != 0 {
					special = "crash_length_prefix_left_in_term_of_live_entry"
				}
			}
		}
	}()
	out := make([]c17Diff, len(best))
	for i, d := range best {
		if special != "" && i == 0 {
			out[i] = c17Diff{special, fmt.Sprintf("[image before mutation #%d (%s) cut %d; closest of %d legal states] %s: %s", img.Mut, img.What, img.Cut, len(cands), d.Kind, d.Detail)}
			continue
		}
		out[i] = c17Diff{"crash_" + d.Kind, fmt.Sprintf("[image before mutation #%d (%s) cut %d; closest of %d legal states] %s", img.Mut, img.What, img.Cut, len(cands), d.Detail)}
	}
	return out
}

// ---------------------------------------------------------------------------------------------
// executing a whole case (explorer and replay share this)

type c17Outcome struct {
	stop     int // index of the step at which the subtree is cut (len(abs) if the sequence ran to the end)
	invalid  bool
	viol     *c17Viol
	executed int
	checked  int // number of leading steps whose full comparison is known to be clean
}

// c17RunAbs runs the abstract sequence; steps < verified were compared in an earlier run of the same prefix.
// crash: take and check crash images during the LAST step (only if the sequence is applicable to the end).
func c17RunAbs(rep *kit.Report, mode string, rw int, abs []c17Abs, verified int, crash bool) (out c17Outcome) {
	r, err := c17Start(rep, mode, rw)
	defer r.close()
	if err != nil {
		out.viol = &c17Viol{Kind: "init_failed", Key: "(fresh directory)", Detail: err.Error(), Case: c17Case{Mode: mode, RW: rw}}
		return out
	}
	out.stop = len(abs)
	for i, a := range abs {
		op, ok := r.resolve(a)
		if !ok {
			out.stop, out.invalid = i, true
			return out
		}
		last := i == len(abs)-1
		var imgRoot string
		if crash && last {
			imgRoot = r.dir + ".img"
			_ = os.RemoveAll(imgRoot)
			c17R.arm(r.dir, imgRoot)
		}
		res := r.apply(op, i >= verified && !(crash && last))
		var imgs []c17Img
		if crash && last {
			imgs = c17R.disarm()
		}
		out.executed = i + 1
		if len(res.diffs) == 0 && !(crash && last) {
			out.checked = i + 1
		}
		if len(res.diffs) > 0 {
			out.stop = i
			out.viol = &c17Viol{Kind: c17Classify(res.diffs, r.feat), Key: c17Key(r.ops, verified), Detail: c17Detail(res.diffs),
				Case: c17Case{Mode: mode, RW: rw, Ops: append([]c17Op{}, r.ops...), From: verified}}
			for _, im := range imgs {
				_ = os.RemoveAll(im.Dir)
			}
			_ = os.RemoveAll(imgRoot)
			return out
		}
		if crash && last {
			cands := c17Candidates(res.before, op, i)
			for _, im := range imgs {
				rep.Count("crash_images", 1)
				d := c17CheckImage(rep, im, cands, res.winHi)
				if len(d) > 0 && out.viol == nil {
					out.viol = &c17Viol{Kind: d[0].Kind, Key: c17CrashKey(r.ops, im),
						Detail: c17Detail(d), Case: c17Case{Mode: mode, RW: rw, Ops: append([]c17Op{}, r.ops...), From: verified, Crash: &c17CrashPt{im.Mut, im.Cut}}}
				}
			}
			_ = os.RemoveAll(imgRoot)
		}
		if res.noop && !last {
			out.stop = i
			rep.Count("pruned_noop_prefixes", 1)
			return out
		}
	}
	if len(abs) > 0 {
		nontrivial := r.feat["conflict"] || r.feat["rotated"] || r.feat["compaction"] || r.feat["reopen"]
		if nontrivial {
			key := c17Hist(r.ops)
			if crash {
				key = "crash:" + key
			}
			if rep.DistinctNontrivial(kit.Hash(mode, fmt.Sprint(rw), key)) {
				rep.Sample(2, map[string]any{"mode": mode, "rw": rw, "history": c17Hist(r.ops), "crash_images": crash})
			}
		}
		for k := range r.feat {
			rep.Count("histories_with_"+k, 1)
		}
	}
	return out
}

// c17RunCase replays a concrete case (replay file, or the determinism re-execution of a failing history).
func c17RunCase(rep *kit.Report, cs c17Case) *c17Viol {
	r, err := c17Start(rep, cs.Mode, cs.RW)
	defer r.close()
	if err != nil {
		return &c17Viol{Kind: "init_failed", Key: "(fresh directory)", Detail: err.Error(), Case: cs}
	}
	if cs.Crash != nil && len(cs.Ops) == 1 && cs.Ops[0].Kind == "create" {
		return c17CrashCreate(rep, cs.Mode, cs.RW, cs.Crash)
	}
	for i, op := range cs.Ops {
		last := i == len(cs.Ops)-1
		crash := cs.Crash != nil && last
		var imgRoot string
		if crash {
			imgRoot = r.dir + ".img"
			_ = os.RemoveAll(imgRoot)
			c17R.only = cs.Crash
			c17R.arm(r.dir, imgRoot)
		}
		res := r.apply(op, !crash && i >= cs.From)
		var imgs []c17Img
		if crash {
			imgs = c17R.disarm()
			c17R.only = nil
			defer os.RemoveAll(imgRoot)
		}
		if len(res.diffs) > 0 {
			return &c17Viol{Kind: c17Classify(res.diffs, r.feat), Key: c17Key(r.ops, cs.From), Detail: c17Detail(res.diffs), Case: cs}
		}
		if crash {
			cands := c17Candidates(res.before, op, i)
			for _, im := range imgs {
				if d := c17CheckImage(rep, im, cands, res.winHi); len(d) > 0 {
					return &c17Viol{Kind: d[0].Kind, Key: c17CrashKey(r.ops, im), Detail: c17Detail(d), Case: cs}
				}
			}
		}
	}
	return nil
}

// c17CrashCreate: the empty history — crash images of the very first Init (file creation).
func c17CrashCreate(rep *kit.Report, mode string, rw int, only *c17CrashPt) *c17Viol {
	config.SetEntryFileRWType(rw)
	dir := c17NewDir()
	defer os.RemoveAll(dir)
	imgRoot := dir + ".img"
	defer os.RemoveAll(imgRoot)
	c17R.only = only
	c17R.arm(dir, imgRoot)
	rds, err := c17Init(dir)
	imgs := c17R.disarm()
	c17R.only = nil
	cs := c17Case{Mode: mode, RW: rw, Ops: []c17Op{{Kind: "create"}}}
	if err != nil {
		return &c17Viol{Kind: "init_failed", Key: "(fresh directory)", Detail: err.Error(), Case: cs}
	}
	_ = rds.Close()
	empty := c17ViewOf(raft.NewMemoryStorage())
	var v *c17Viol
	for _, im := range imgs {
		rep.Count("crash_images", 1)
		if d := c17CheckImage(rep, im, []c17Cand{{"absent", empty}}, 0); len(d) > 0 && v == nil {
			c := cs
			c.Crash = &c17CrashPt{im.Mut, im.Cut}
			v = &c17Viol{Kind: d[0].Kind, Key: fmt.Sprintf("rw%d (first Init of an empty directory)  [crash inflight=create before mutation #%d %q cut %d]", rw, im.Mut, im.What, im.Cut), Detail: c17Detail(d), Case: c}
		}
	}
	return v
}

var c17Reported = map[string]int{}

// c17Report re-executes a failing case twice more from scratch (determinism rule) and records it.
func c17Report(t *testing.T, rep *kit.Report, v *c17Viol) {
	c17Reported[v.Kind]++
	if c17Reported[v.Kind] <= 8 { // the report keeps 8 cases per kind in full; those are re-executed
		for k := 0; k < 2; k++ {
			w := c17RunCase(rep, v.Case)
			if w == nil || w.Kind != v.Kind {
				got := "passes"
				if w != nil {
					got = w.Kind + ": " + w.Detail
				}
				t.Fatalf("c17 harness bug: failing case is not deterministic\ncase: %s\nfirst: %s: %s\nre-run: %s", v.Key, v.Kind, v.Detail, got)
			}
		}
	}
	rep.Violation(v.Kind, v.Key, v.Detail, v.Case)
}

// ---------------------------------------------------------------------------------------------
// exploration

func c17Alphabet(mode string, level int) []c17Abs {
	var a []c17Abs
	if mode == "size" {
		// unmodified constants: two 11 MiB payloads fill a 32 MiB file, the third rotates it
		for _, back := range []int{0, 1, 2, 3} {
			a = append(a, c17Abs{Kind: "save", Back: back, N: 1, TermUp: btoi(back > 0), Big: true})
		}
		a = append(a, c17Abs{Kind: "save", Back: 0, N: 3, TermUp: 0}, c17Abs{Kind: "save", Back: 2, N: 1, TermUp: 1})
		a = append(a, c17Abs{Kind: "reopen"}, c17Abs{Kind: "del", Sel: "last"}, c17Abs{Kind: "snap", Sel: "mid"})
		return a
	}
	if level == 0 { // reduced alphabet for the deepest level: three files, conflicts one and two files back, reopen, compaction
		return []c17Abs{
			{Kind: "save", Back: 0, N: 3, TermUp: 0}, {Kind: "save", Back: 0, N: 3, TermUp: 1}, {Kind: "save", Back: 1, N: 1, TermUp: 1},
			{Kind: "save", Back: 3, N: 3, TermUp: 1}, {Kind: "save", Back: 5, N: 1, TermUp: 1},
			{Kind: "reopen"}, {Kind: "del", Sel: "last"}, {Kind: "snap", Sel: "mid"},
		}
	}
	backs := []int{0, 1, 2, 3, 5}
	if level >= 2 {
		backs = []int{0, 1, 2, 3, 4, 5, 6}
	}
	for _, back := range backs {
		for _, n := range []int{1, 3} {
			for _, tu := range []int{0, 1} {
				a = append(a, c17Abs{Kind: "save", Back: back, N: n, TermUp: tu})
			}
		}
	}
	a = append(a, c17Abs{Kind: "reopen"})
	for _, s := range []string{"mid", "last", "next"} {
		a = append(a, c17Abs{Kind: "del", Sel: s})
	}
	for _, s := range []string{"first", "mid", "last", "next", "below"} {
		a = append(a, c17Abs{Kind: "snap", Sel: s})
	}
	a = append(a, c17Abs{Kind: "hs", Sel: "commit"}, c17Abs{Kind: "hs", Sel: "term"})
	return a
}

func btoi(b bool) int {
	if b {
		return 1
	}
	return 0
}

// c17Explore: DFS in odometer order over all sequences of exactly `depth` abstract ops; a sequence is cut at the
// first step that is inapplicable, a no-op, or fails (shorter sequences are thereby covered as prefixes).
func c17Explore(t *testing.T, rep *kit.Report, name, mode string, rw int, alpha []c17Abs, depth int, crash bool) {
	A := len(alpha)
	d := make([]int, depth)
	shardDepth := 3
	if depth < shardDepth {
		shardDepth = depth
	}
	var prev []int
	prevChecked := 0
	var runs int64
	for {
		if rep.Expired() {
			rep.Note("phase %s cut by the deadline after %d runs", name, runs)
			return
		}
		// sharding on the first shardDepth digits
		idx := 0
		for i := 0; i < shardDepth; i++ {
			idx = idx*A + d[i]
		}
		stop := shardDepth - 1
		if kit.Mine(idx) {
			abs := make([]c17Abs, depth)
			for i := range d {
				abs[i] = alpha[d[i]]
			}
			verified := 0
			for verified < len(prev) && verified < prevChecked && prev[verified] == d[verified] {
				verified++
			}
			out := c17RunAbs(rep, mode, rw, abs, verified, crash)
			prev, prevChecked = append(prev[:0], d...), out.checked
			runs++
			rep.Eval(1)
			rep.Count("steps_executed", int64(out.executed))
			rep.Count("runs_"+name, 1)
			if out.viol != nil {
				c17Report(t, rep, out.viol)
			}
			stop = out.stop
			if stop >= depth {
				stop = depth - 1
			}
		}
		// advance digit `stop`, reset the ones after it
		i := stop
		for ; i >= 0; i-- {
			d[i]++
			if d[i] < A {
				break
			}
			d[i] = 0
		}
		if i < 0 {
			return
		}
		for j := i + 1; j < depth; j++ {
			d[j] = 0
		}
	}
}

func TestVerifC17(t *testing.T) {
	logger.SetLogger(zap.NewNop())
	rep := kit.NewReport("C17")
	defer rep.Save()
	mode := kit.Getenv("VERIF_C17_MODE", "count")
	wantMax := map[string]int{"count": 4, "size": 30000}[mode]
	if maxNumEntries != wantMax {
		t.Fatalf("c17: mode %s expects maxNumEntries=%d, binary has %d (overlay not applied?)", mode, wantMax, maxNumEntries)
	}
	c17R.realSync = os.Getenv("VERIF_C17_REALSYNC") == "1"
	old := fileops.C17SwapLocalFS(nil)
	fileops.C17SwapLocalFS(&c17FS{VFS: old})
	defer fileops.C17SwapLocalFS(old)
	defer func() {
		rep.Count("fs_mutations_intercepted", c17R.muts)
		rep.Count("fsync_calls_skipped", c17R.syncs)
	}()

	if kit.ReplayPath() != "" {
		var cs c17Case
		if err := kit.LoadReplay(&cs); err != nil {
			t.Fatalf("replay: %v", err)
		}
		if cs.Mode != mode {
			t.Fatalf("replay case is for mode %q, this binary runs mode %q", cs.Mode, mode)
		}
		rep.Eval(1)
		if v := c17RunCase(rep, cs); v != nil {
			rep.Violation(v.Kind, v.Key, v.Detail, v.Case)
		}
		return
	}

	thorough := kit.Thorough()
	if mode == "size" {
		c17Explore(t, rep, "size_rw2", "size", 2, c17Alphabet("size", 1), 5, false)
		c17BigCache = map[[2]uint64][]byte{}
		c17Explore(t, rep, "size_rw1", "size", 1, c17Alphabet("size", 1), 4, false)
		return
	}
	type phase struct {
		name  string
		rw    int
		level int
		depth int
		crash bool
	}
	var phases []phase
	if !thorough {
		phases = []phase{
			{"explore_rw2_d4", 2, 1, 4, false},
			{"explore_rw1_d3", 1, 1, 3, false},
			{"crash_rw2_d1", 2, 1, 1, true},
			{"crash_rw2_d2", 2, 1, 2, true},
			{"crash_rw1_d2", 1, 1, 2, true},
		}
	} else {
		phases = []phase{
			{"crash_rw2_d1", 2, 2, 1, true},
			{"crash_rw2_d2", 2, 2, 2, true},
			{"crash_rw2_d3", 2, 2, 3, true},
			{"crash_rw1_d2", 1, 2, 2, true},
			{"crash_rw1_d3", 1, 1, 3, true},
			{"explore_rw2_d4", 2, 2, 4, false},
			{"explore_rw1_d4", 1, 1, 4, false},
			{"explore_rw2_d5", 2, 1, 5, false},
			{"explore_rw2_d6_reduced", 2, 0, 6, false},
			{"explore_rw1_d5", 1, 1, 5, false},
		}
	}
	// the empty history: crash during the very first Init
	if kit.Mine(0) {
		for _, rw := range []int{2, 1} {
			rep.Eval(1)
			if v := c17CrashCreate(rep, mode, rw, nil); v != nil {
				c17Report(t, rep, v)
			}
		}
	}
	for _, p := range phases {
		c17Explore(t, rep, p.name, mode, p.rw, c17Alphabet(mode, p.level), p.depth, p.crash)
	}
}

var _ = json.Marshal
