//go:build verif && c07

package encoding

// C07 seam 1: block coders of lib/encoding as used by engine/immutable/column_builder.go (Encode*Block)
// and engine/immutable/reader.go (Decode*Block). Bounded exhaustive enumeration, bit-identical oracle.

import (
	"bytes"
	"fmt"
	"math"
	"runtime/debug"
	"testing"

	"github.com/openGemini/openGemini/lib/util"
	kit "github.com/openGemini/openGemini/lib/verifkit"
	gen "github.com/openGemini/openGemini/lib/verifkit/c07gen"
)

type c07Case struct {
	Seam    string    `json:"seam"`
	Type    string    `json:"type"` // int|float|time|bool|string
	Kind    string    `json:"kind"` // seq|shape
	Seq     []int     `json:"seq,omitempty"`
	Start   int       `json:"start,omitempty"`
	Shape   gen.Shape `json:"shape,omitempty"`
	Variant int       `json:"variant"`
	Algo    int       `json:"algo,omitempty"` // string compressor 1 snappy, 2 zstd, 3 lz4
	BigCap  bool      `json:"bigcap"`
	Prev    *c07Case  `json:"prev,omitempty"` // only for coder-state-dependent failures
}

func (c *c07Case) key() string {
	if c.Kind == "seq" {
		return fmt.Sprintf("enc/%s/seq%v/start%d/algo%d", c.Type, c.Seq, c.Start, c.Algo)
	}
	return fmt.Sprintf("enc/%s/%s/v%d/algo%d", c.Type, c.Shape.String(), c.Variant, c.Algo)
}

// input is the logical column content.
type c07Input struct {
	val  []byte   // value bytes as the column builder hands them to the coder
	offs []uint32 // strings only
	desc string
}

func c07Build(c *c07Case) c07Input {
	switch c.Type {
	case "int":
		var v []int64
		if c.Kind == "seq" {
			for _, i := range c.Seq {
				v = append(v, gen.Ints[i])
			}
		} else {
			v = gen.GenInts(c.Shape, c.Variant)
		}
		return c07Input{val: append([]byte(nil), util.Int64Slice2byte(v)...)}
	case "time":
		var v []int64
		if c.Kind == "seq" {
			cur := gen.TimeStarts[c.Start]
			v = append(v, cur)
			for _, i := range c.Seq {
				cur += gen.TimeDeltas[i]
				v = append(v, cur)
			}
		} else {
			v = gen.GenTimes(c.Shape, c.Variant)
		}
		return c07Input{val: append([]byte(nil), util.Int64Slice2byte(v)...)}
	case "float":
		var b []uint64
		if c.Kind == "seq" {
			for _, i := range c.Seq {
				b = append(b, gen.FloatBits[i])
			}
		} else {
			b = gen.GenFloatBits(c.Shape, c.Variant)
		}
		return c07Input{val: append([]byte(nil), util.Uint64Slice2byte(b)...)}
	case "bool":
		var v []bool
		if c.Kind == "seq" {
			for _, i := range c.Seq {
				v = append(v, gen.Bools[i])
			}
		} else {
			v = gen.GenBools(c.Shape, c.Variant)
		}
		out := make([]byte, len(v))
		for i := range v {
			if v[i] {
				out[i] = 1
			}
		}
		return c07Input{val: out}
	case "string":
		var v []string
		if c.Kind == "seq" {
			for _, i := range c.Seq {
				v = append(v, gen.Strings[i])
			}
		} else {
			v = gen.GenStrings(c.Shape, c.Variant)
		}
		in := c07Input{val: []byte{}}
		for _, s := range v {
			in.offs = append(in.offs, uint32(len(in.val)))
			in.val = append(in.val, s...)
		}
		return in
	}
	panic("bad type " + c.Type)
}

type c07Ctxs struct {
	enc, dec *CoderContext
	dirty    []byte
}

func c07NewCtxs() *c07Ctxs {
	d := make([]byte, 1<<16)
	for i := range d {
		d[i] = 0xAA
	}
	return &c07Ctxs{enc: NewCoderContext(), dec: NewCoderContext(), dirty: d}
}

var c07Prefix = []byte{0xF1, 0xF2, 0xF3, 0xF4, 0xF5, 0xF6, 0xF7, 0xF8, 0xF9}

type c07Result struct {
	mode    int    // first byte >> 4 of the block, -1 if block empty
	failure string // "" = round trip ok
	kind    string
}

func c07Recover(kind *string, failure *string, what string) {
	if r := recover(); r != nil {
		*kind = what
		*failure = fmt.Sprintf("%s: %v\n%s", what, r, c07Stack())
	}
}

func c07Stack() string {
	s := string(debug.Stack())
	if len(s) > 1800 {
		s = s[:1800]
	}
	return s
}

// c07Once runs one encode + two decodes (fresh output buffer, dirty reused buffer) on the given contexts.
func c07Once(c *c07Case, in c07Input, cx *c07Ctxs) (res c07Result) {
	res.mode = -1
	defer func() { // restore the dirty pattern of the reused output buffer for the next case
		for i := range cx.dirty {
			cx.dirty[i] = 0xAA
		}
	}()
	var out []byte
	if c.BigCap {
		out = append(make([]byte, 0, 4096), c07Prefix...)
	} else {
		out = append(make([]byte, 0, len(c07Prefix)), c07Prefix...)
	}
	inCopy := append([]byte(nil), in.val...)
	var block []byte
	var err error
	func() {
		defer c07Recover(&res.kind, &res.failure, "encoder_panic")
		switch c.Type {
		case "int":
			block, err = EncodeIntegerBlock(in.val, out, cx.enc)
		case "time":
			block, err = EncodeTimestampBlock(in.val, out, cx.enc)
		case "float":
			block, err = EncodeFloatBlock(in.val, out, cx.enc)
		case "bool":
			block, err = EncodeBooleanBlock(in.val, out, cx.enc)
		case "string":
			if cx.enc.stringCoder == nil {
				cx.enc.stringCoder = GetStringCoder()
			}
			cx.enc.stringCoder.SetEncodingType(c.Algo)
			block, err = EncodeStringBlock(in.val, in.offs, out, cx.enc)
		}
	}()
	if res.failure != "" {
		if c.Type == "float" && c07BothInfNoNaN(in.val) {
			res.kind = "float_encoder_panic_pos_and_neg_inf"
		}
		return
	}
	if err != nil {
		res.kind, res.failure = "encoder_error", "encoder returned error on accepted values: "+err.Error()
		return
	}
	if !bytes.Equal(inCopy, in.val) {
		res.kind, res.failure = "encoder_modified_input", "encoder changed its input slice"
		return
	}
	if len(block) < len(c07Prefix) || !bytes.Equal(block[:len(c07Prefix)], c07Prefix) {
		res.kind, res.failure = "encoder_clobbered_prefix", fmt.Sprintf("bytes already in the output buffer were changed: % x", block[:min(len(block), 9)])
		return
	}
	block = append([]byte(nil), block[len(c07Prefix):]...) // what lands in the file
	if len(block) > 0 {
		res.mode = int(block[0] >> 4)
	}
	for pass := 0; pass < 2; pass++ {
		var buf []byte
		if pass == 1 {
			buf = cx.dirty[:0]
		}
		var got []byte
		var gotOffs []uint32
		func() {
			defer c07Recover(&res.kind, &res.failure, "decoder_panic")
			switch c.Type {
			case "int":
				var v []int64
				v, err = DecodeIntegerBlock(block, &buf, cx.dec)
				got = util.Int64Slice2byte(v)
			case "time":
				var v []int64
				v, err = DecodeTimestampBlock(block, &buf, cx.dec)
				got = util.Int64Slice2byte(v)
			case "float":
				var v []float64
				v, err = DecodeFloatBlock(block, &buf, cx.dec)
				got = util.Float64Slice2byte(v)
			case "bool":
				var v []bool
				v, err = DecodeBooleanBlock(block, &buf, cx.dec)
				got = util.BooleanSlice2byte(v)
			case "string":
				var offs []uint32
				if pass == 1 {
					offs = make([]uint32, 0, 4096)
				}
				got, gotOffs, err = DecodeStringBlock(block, &buf, &offs, cx.dec)
			}
		}()
		if res.failure != "" {
			return
		}
		if err != nil {
			res.kind, res.failure = "decoder_error", fmt.Sprintf("decoder rejected the encoder's own output (mode %d, pass %d): %v", res.mode, pass, err)
			return
		}
		if !bytes.Equal(got, in.val) {
			res.kind = "value_mismatch"
			if c.Type == "float" && c07OnlyZeroSignDiffers(in.val, got) {
				res.kind = "float_negative_zero_sign_lost"
			}
			res.failure = fmt.Sprintf("mode %d pass %d: %s", res.mode, pass, c07Diff(c.Type, in.val, got))
			return
		}
		if c.Type == "string" {
			if len(gotOffs) != len(in.offs) {
				res.kind, res.failure = "value_mismatch", fmt.Sprintf("mode %d: %d strings written, %d read", res.mode, len(in.offs), len(gotOffs))
				return
			}
			for i := range gotOffs {
				if gotOffs[i] != in.offs[i] {
					res.kind, res.failure = "value_mismatch", fmt.Sprintf("mode %d: string %d starts at %d, written at %d", res.mode, i, gotOffs[i], in.offs[i])
					return
				}
			}
		}
	}
	return
}

func c07Diff(typ string, want, got []byte) string {
	w := 8
	if typ == "bool" || typ == "string" {
		w = 1
	}
	if len(want) != len(got) {
		return fmt.Sprintf("%d values written, %d read back", len(want)/w, len(got)/w)
	}
	for i := 0; i+w <= len(want); i += w {
		if !bytes.Equal(want[i:i+w], got[i:i+w]) {
			if w == 8 {
				a, b := util.Bytes2Uint64Slice(want[i : i+8])[0], util.Bytes2Uint64Slice(got[i : i+8])[0]
				if typ == "float" {
					return fmt.Sprintf("value %d: wrote bits %016x (%v), read %016x (%v)", i/8, a, math.Float64frombits(a), b, math.Float64frombits(b))
				}
				return fmt.Sprintf("value %d: wrote %d, read %d", i/8, int64(a), int64(b))
			}
			return fmt.Sprintf("byte %d: wrote %02x read %02x", i, want[i], got[i])
		}
	}
	return "equal"
}

// c07BothInfNoNaN: the column holds +Inf and -Inf (and no NaN, which is routed to another compressor).
func c07BothInfNoNaN(val []byte) bool {
	var p, n bool
	for _, f := range util.Bytes2Float64Slice(val) {
		if math.IsNaN(f) {
			return false
		}
		p = p || math.IsInf(f, 1)
		n = n || math.IsInf(f, -1)
	}
	return p && n
}

// c07OnlyZeroSignDiffers: same length and every differing position was written as -0.0 and read as +0.0.
func c07OnlyZeroSignDiffers(want, got []byte) bool {
	if len(want) != len(got) {
		return false
	}
	w, g := util.Bytes2Uint64Slice(want), util.Bytes2Uint64Slice(got)
	for i := range w {
		if w[i] != g[i] && !(w[i] == 1<<63 && g[i] == 0) {
			return false
		}
	}
	return true
}

type c07Runner struct {
	rep  *kit.Report
	live *c07Ctxs
	prev *c07Case
}

func (r *c07Runner) run(c *c07Case) {
	rep := r.rep
	rep.Eval(1)
	in := c07Build(c)
	res := c07Once(c, in, r.live)
	if res.failure != "" {
		// confirm on fresh coders: the verdict must be a function of the case alone
		fresh := c07Once(c, in, c07NewCtxs())
		if fresh.failure != "" {
			rep.Violation(fresh.kind, c.key(), fresh.failure, c)
		} else {
			cc := *c
			cc.Prev = r.prev
			rep.Violation("coder_state_dependent_"+res.kind, c.key(), "fails only on a reused coder: "+res.failure, &cc)
		}
		r.live = c07NewCtxs()
	}
	rows := len(in.val)
	if c.Type == "string" {
		rows = len(in.offs)
	}
	if rows > 0 {
		rep.Count(fmt.Sprintf("mode_%s_%d", c.Type, res.mode), 1)
		if rep.DistinctNontrivial(kit.Hash("enc", c.Type, fmt.Sprint(c.Algo), fmt.Sprint(res.mode), string(in.val), fmt.Sprint(in.offs))) {
			rep.Sample(4, map[string]any{"seam": "lib/encoding", "case": c.key(), "mode": res.mode})
		}
	}
	cp := *c
	cp.Prev = nil
	r.prev = &cp
}

func TestVerifC07Enc(t *testing.T) {
	rep := kit.NewReport("C07")
	defer rep.Save()
	r := &c07Runner{rep: rep, live: c07NewCtxs()}
	if kit.ReplayPath() != "" {
		var c c07Case
		if err := kit.LoadReplay(&c); err != nil {
			t.Fatal(err)
		}
		if c.Seam != "enc" {
			return
		}
		if c.Prev != nil {
			p := *c.Prev
			r.run(&p)
		}
		c.Prev = nil
		r.run(&c)
		return
	}
	maxLen, maxSegs := 4, 3
	if kit.Thorough() {
		maxLen = 6
	}
	item := 0
	types := []struct {
		name  string
		alpha int
		algos []int
	}{
		{"int", len(gen.Ints), []int{0}},
		{"float", len(gen.FloatBits), []int{0}},
		{"bool", len(gen.Bools), []int{0}},
		{"string", len(gen.Strings), []int{stringCompressedSnappy, StringCompressedZstd, StringCompressedLz4}},
		{"time", len(gen.TimeDeltas), []int{0}},
	}
	// Part A: every sequence over the alphabet up to maxLen (bools: up to maxLen+6, they are cheap and cross the byte boundary)
	for _, ty := range types {
		ml := maxLen
		if ty.name == "bool" {
			ml = maxLen + 6
		}
		for _, algo := range ty.algos {
			for l := 0; l <= ml; l++ {
				starts := 1
				if ty.name == "time" {
					starts = len(gen.TimeStarts)
					if l == ml {
						continue // a time column of n values has n-1 deltas
					}
				}
				for st := 0; st < starts; st++ {
					kit.Sequences(ty.alpha, l, func(seq []int) bool {
						item++
						if !kit.Mine(item / 64) {
							return true
						}
						c := &c07Case{Seam: "enc", Type: ty.name, Kind: "seq", Seq: append([]int(nil), seq...), Start: st, Algo: algo, BigCap: item%2 == 0}
						r.run(c)
						return !rep.Expired()
					})
				}
			}
		}
	}
	// Part B: every concatenation of <= maxSegs shape segments, two value variants
	ns := gen.NumShapes(maxSegs)
	for _, ty := range types {
		for _, algo := range ty.algos {
			for variant := 0; variant < 2; variant++ {
				for i := 0; i < ns; i++ {
					item++
					if !kit.Mine(item) {
						continue
					}
					if rep.Expired() {
						return
					}
					c := &c07Case{Seam: "enc", Type: ty.name, Kind: "shape", Shape: gen.ShapeAt(i), Variant: variant, Algo: algo, BigCap: item%2 == 0}
					r.run(c)
				}
			}
		}
	}
}
