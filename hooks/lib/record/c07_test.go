//go:build verif && c07

package record

// C07 seam 2: Record.Marshal / Record.Unmarshal (record_codec.go, column_codec.go, schema_codec.go) -
// the codec of column batches on the store RPC and in the WAL (arrow-flight records).

import (
	"bytes"
	"fmt"
	"math"
	"runtime/debug"
	"testing"

	"github.com/openGemini/openGemini/lib/util/lifted/vm/protoparser/influx"
	kit "github.com/openGemini/openGemini/lib/verifkit"
	gen "github.com/openGemini/openGemini/lib/verifkit/c07gen"
)

type c07Case struct {
	Seam   string `json:"seam"`
	Kind   string `json:"kind"`   // cells|shape
	Schema []int  `json:"schema"` // gen.T* per field column (a time column is appended)
	// cells: Rows x len(Schema) digits in {0 null, 1 first value, 2 second value}
	Rows  int   `json:"rows,omitempty"`
	Cells []int `json:"cells,omitempty"`
	// shape
	Shape   gen.Shape `json:"shape,omitempty"`
	Variant int       `json:"variant,omitempty"`
	NullRot int       `json:"nullrot,omitempty"` // column j uses null pattern (NullRot+j) mod 5
	Slice   int       `json:"slice,omitempty"`   // >0: marshal rec[Slice:] obtained with SliceFromRecord
}

func (c *c07Case) key() string {
	if c.Kind == "cells" {
		return fmt.Sprintf("record/%s/rows%d/cells%v", gen.SchemaName(c.Schema), c.Rows, c.Cells)
	}
	return fmt.Sprintf("record/%s/%s/v%d/nulls%d/slice%d", gen.SchemaName(c.Schema), c.Shape.String(), c.Variant, c.NullRot, c.Slice)
}

var c07FieldNames = []string{"a", "b c,=\"", "温度"}

var c07Types = []int{influx.Field_Type_Int, influx.Field_Type_Float, influx.Field_Type_Boolean, influx.Field_Type_String}

var c07CellInts = []int64{math.MinInt64, -1}
var c07CellFloats = []uint64{gen.NaNPayload, 1 << 63}
var c07CellBools = []bool{false, true}
var c07CellStrings = []string{"", gen.Strings[5]}

func c07Build(c *c07Case) *Record {
	schema := make(Schemas, 0, len(c.Schema)+1)
	for j, t := range c.Schema {
		schema = append(schema, Field{Name: c07FieldNames[j], Type: c07Types[t]})
	}
	schema = append(schema, Field{Name: TimeField, Type: influx.Field_Type_Int})
	rec := NewRecordBuilder(schema)
	if c.Kind == "cells" {
		for i := 0; i < c.Rows; i++ {
			for j, t := range c.Schema {
				c07AppendCell(&rec.ColVals[j], t, c.Cells[i*len(c.Schema)+j])
			}
			rec.ColVals[len(c.Schema)].AppendInteger(int64(i)*1e9 - 5)
		}
		return rec
	}
	n := c.Shape.Rows()
	for j, t := range c.Schema {
		col := &rec.ColVals[j]
		p := (c.NullRot + j) % gen.NNullPatterns
		switch t {
		case gen.TInt:
			v := gen.GenInts(c.Shape, (c.Variant+j)%2)
			for i := 0; i < n; i++ {
				if gen.IsNull(p, i, n) {
					col.AppendIntegerNull()
				} else {
					col.AppendInteger(v[i])
				}
			}
		case gen.TFloat:
			v := gen.GenFloatBits(c.Shape, (c.Variant+j)%2)
			for i := 0; i < n; i++ {
				if gen.IsNull(p, i, n) {
					col.AppendFloatNull()
				} else {
					col.AppendFloat(math.Float64frombits(v[i]))
				}
			}
		case gen.TBool:
			v := gen.GenBools(c.Shape, (c.Variant+j)%2)
			for i := 0; i < n; i++ {
				if gen.IsNull(p, i, n) {
					col.AppendBooleanNull()
				} else {
					col.AppendBoolean(v[i])
				}
			}
		case gen.TString:
			v := gen.GenStrings(c.Shape, (c.Variant+j)%2)
			for i := 0; i < n; i++ {
				if gen.IsNull(p, i, n) {
					col.AppendStringNull()
				} else {
					col.AppendString(v[i])
				}
			}
		}
	}
	rec.ColVals[len(c.Schema)].AppendIntegers(gen.GenTimes(c.Shape, c.Variant)...)
	return rec
}

func c07AppendCell(col *ColVal, t, d int) {
	switch t {
	case gen.TInt:
		if d == 0 {
			col.AppendIntegerNull()
		} else {
			col.AppendInteger(c07CellInts[d-1])
		}
	case gen.TFloat:
		if d == 0 {
			col.AppendFloatNull()
		} else {
			col.AppendFloat(math.Float64frombits(c07CellFloats[d-1]))
		}
	case gen.TBool:
		if d == 0 {
			col.AppendBooleanNull()
		} else {
			col.AppendBoolean(c07CellBools[d-1])
		}
	case gen.TString:
		if d == 0 {
			col.AppendStringNull()
		} else {
			col.AppendString(c07CellStrings[d-1])
		}
	}
}

// c07Logical renders column content row by row: what a reader of the column sees.
func c07Logical(col *ColVal, typ int) []string {
	out := make([]string, 0, col.Len)
	k := 0
	for i := 0; i < col.Len; i++ {
		if col.IsNil(i) {
			out = append(out, "null")
			continue
		}
		switch typ {
		case influx.Field_Type_Int, influx.Field_Type_Float:
			if 8*k+8 > len(col.Val) {
				out = append(out, "<missing value bytes>")
			} else {
				out = append(out, fmt.Sprintf("%x", col.Val[8*k:8*k+8]))
			}
		case influx.Field_Type_Boolean:
			if k >= len(col.Val) {
				out = append(out, "<missing value bytes>")
			} else {
				out = append(out, fmt.Sprintf("%x", col.Val[k:k+1]))
			}
		default:
			if i >= len(col.Offset) {
				out = append(out, "<missing offset>")
			} else {
				v, _ := col.StringValue(i)
				out = append(out, fmt.Sprintf("%q", v))
			}
		}
		k++
	}
	return out
}

func c07Compare(want, got *Record) (kind, detail string, rawDiff bool) {
	if len(got.Schema) != len(want.Schema) || len(got.ColVals) != len(want.ColVals) {
		return "record_mismatch", fmt.Sprintf("schema/columns: wrote %d/%d, read %d/%d", len(want.Schema), len(want.ColVals), len(got.Schema), len(got.ColVals)), true
	}
	for j := range want.Schema {
		if want.Schema[j].Name != got.Schema[j].Name || want.Schema[j].Type != got.Schema[j].Type {
			return "record_mismatch", fmt.Sprintf("field %d: wrote %q/%d, read %q/%d", j, want.Schema[j].Name, want.Schema[j].Type, got.Schema[j].Name, got.Schema[j].Type), true
		}
	}
	for j := range want.ColVals {
		w, g := &want.ColVals[j], &got.ColVals[j]
		raw := w.Len == g.Len && w.NilCount == g.NilCount && w.BitMapOffset == g.BitMapOffset &&
			bytes.Equal(w.Val, g.Val) && bytes.Equal(w.Bitmap, g.Bitmap) && len(w.Offset) == len(g.Offset)
		if raw {
			for i := range w.Offset {
				if w.Offset[i] != g.Offset[i] {
					raw = false
					break
				}
			}
		}
		if raw {
			continue
		}
		rawDiff = true
		lw, lg := c07Logical(w, want.Schema[j].Type), c07Logical(g, want.Schema[j].Type)
		if len(lw) != len(lg) {
			return "record_mismatch", fmt.Sprintf("column %d (%s): %d rows written, %d read", j, want.Schema[j].Name, len(lw), len(lg)), true
		}
		for i := range lw {
			if lw[i] != lg[i] {
				return "record_mismatch", fmt.Sprintf("column %d (%s) row %d: wrote %s, read %s", j, want.Schema[j].Name, i, lw[i], lg[i]), true
			}
		}
		if w.NilCount != g.NilCount {
			return "record_mismatch", fmt.Sprintf("column %d: NilCount wrote %d read %d", j, w.NilCount, g.NilCount), true
		}
	}
	return "", "", rawDiff
}

type c07Runner struct {
	rep   *kit.Report
	dirty *Record // reused destination, as the RPC/WAL readers reuse records
	buf   []byte
}

func (r *c07Runner) run(c *c07Case) {
	rep := r.rep
	rep.Eval(1)
	full := c07Build(c)
	src := full
	if c.Slice > 0 {
		if c.Slice >= full.RowNums() {
			return
		}
		s := &Record{}
		s.SliceFromRecord(full, c.Slice, full.RowNums())
		src = s
	}
	var data []byte
	failed := func() bool {
		defer func() {
			if p := recover(); p != nil {
				rep.Violation("record_marshal_panic", c.key(), fmt.Sprintf("%v\n%s", p, c07Stack()), c)
				data = nil
			}
		}()
		data = src.Marshal(r.buf[:0])
		return false
	}()
	if failed || data == nil {
		return
	}
	r.buf = data
	if n := src.CodecSize(); n != len(data) {
		rep.Violation("record_codec_size_mismatch", c.key(), fmt.Sprintf("CodecSize()=%d, Marshal wrote %d bytes", n, len(data)), c)
		return
	}
	wire := append([]byte(nil), data...)
	for pass := 0; pass < 2; pass++ {
		dst := &Record{}
		if pass == 1 {
			dst = r.dirty
		}
		ok := func() (ok bool) {
			defer func() {
				if p := recover(); p != nil {
					rep.Violation("record_unmarshal_panic", c.key(), fmt.Sprintf("pass %d: %v\n%s", pass, p, c07Stack()), c)
					r.dirty = &Record{}
					ok = false
				}
			}()
			dst.Unmarshal(wire)
			return true
		}()
		if !ok {
			return
		}
		kind, detail, rawDiff := c07Compare(src, dst)
		if kind != "" {
			if pass == 1 {
				kind = "record_mismatch_on_reused_record"
				r.dirty = &Record{}
			}
			rep.Violation(kind, c.key(), fmt.Sprintf("pass %d: %s", pass, detail), c)
			return
		}
		if rawDiff {
			rep.Count("record_raw_layout_differs_content_equal", 1)
		}
	}
	if src.RowNums() > 0 {
		if rep.DistinctNontrivial(kit.Hash("record", string(wire))) {
			rep.Sample(2, map[string]any{"seam": "lib/record", "case": c.key(), "bytes": len(wire)})
		}
	}
}

func c07Stack() string {
	s := string(debug.Stack())
	if len(s) > 1800 {
		s = s[:1800]
	}
	return s
}

func TestVerifC07Record(t *testing.T) {
	rep := kit.NewReport("C07")
	defer rep.Save()
	r := &c07Runner{rep: rep, dirty: &Record{}}
	if kit.ReplayPath() != "" {
		var c c07Case
		if err := kit.LoadReplay(&c); err != nil {
			t.Fatal(err)
		}
		if c.Seam == "record" {
			// the reused destination of the explorer held an earlier record: model it with a fixed one
			warm := &c07Case{Seam: "record", Kind: "shape", Schema: []int{3, 0, 1}, Shape: gen.Shape{{Kind: gen.KRaw, Len: 9}}, NullRot: 1}
			r.run(warm)
			r.run(&c)
		}
		return
	}
	maxRows, maxSegs := 2, 1
	if kit.Thorough() {
		maxRows, maxSegs = 3, 2
	}
	item := 0
	nsch := gen.NumSchemas(3)
	// Part A: every schema of <= 3 typed columns x every assignment of {null, v1, v2} to <= maxRows rows
	for si := 0; si < nsch; si++ {
		sch := gen.SchemaAt(si)
		for rows := 0; rows <= maxRows; rows++ {
			kit.Sequences(3, rows*len(sch), func(cells []int) bool {
				item++
				if !kit.Mine(item / 32) {
					return true
				}
				r.run(&c07Case{Seam: "record", Kind: "cells", Schema: sch, Rows: rows, Cells: append([]int(nil), cells...)})
				return !rep.Expired()
			})
		}
	}
	// Part B: every schema x every shape of <= maxSegs segments x 5 null-pattern rotations x 2 variants x {whole, sliced at row 3}
	ns := gen.NumShapes(maxSegs)
	for si := 0; si < nsch; si++ {
		sch := gen.SchemaAt(si)
		for i := 0; i < ns; i++ {
			for rot := 0; rot < gen.NNullPatterns; rot++ {
				for variant := 0; variant < 2; variant++ {
					for _, sl := range []int{0, 3} {
						item++
						if !kit.Mine(item) {
							continue
						}
						if rep.Expired() {
							return
						}
						r.run(&c07Case{Seam: "record", Kind: "shape", Schema: sch, Shape: gen.ShapeAt(i), Variant: variant, NullRot: rot, Slice: sl})
					}
				}
			}
		}
	}
}
