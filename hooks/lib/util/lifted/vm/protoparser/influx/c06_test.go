//go:build verif

// C06 part (a): line protocol text -> PointRows.Unmarshal (through unmarshalWork.Unmarshal, the code the
// HTTP write handler schedules) -> Row -> index key + column record -> typed read back, compared with an
// independent reference reader of the documented InfluxDB v1 line-protocol grammar (strconv based).
package influx_test

import (
	"fmt"
	"math"
	"math/big"
	"os"
	"sort"
	"strconv"
	"strings"
	"testing"
	"time"

	"github.com/openGemini/openGemini/lib/record"
	"github.com/openGemini/openGemini/lib/util/lifted/vm/protoparser/influx"
	kit "github.com/openGemini/openGemini/lib/verifkit"
)

// ---------------------------------------------------------------------------------------------
// Reference reader (independent of the code under test: own scanner + strconv only)
// ---------------------------------------------------------------------------------------------

const (
	c06Valid   = 0 // canonical line protocol: must be accepted, exact values
	c06Odd     = 1 // unusual but unambiguous spelling: may be rejected; if accepted the meaning is fixed
	c06Invalid = 2 // not line protocol: must be rejected, nothing stored
)

// c06Conv: the two places where the documented grammar is ambiguous; either reading is accepted,
// but one reading must explain the whole line.
type c06Conv struct {
	CollapseBS bool // `\\` in measurement / tag key / tag value / field key means one backslash (else two)
	MstEq      bool // `\=` in a measurement means `=` (else backslash + `=`; docs list only `,` and space)
	QuoteKeys  bool // loose quotes: an unescaped `"` in a field key also protects spaces and commas (upstream: only in
	// field values), and an unclosed quote protects everything up to the end of the line (upstream: error)
}

var c06Convs = func() (out []c06Conv) {
	for _, q := range []bool{false, true} {
		for _, m := range []bool{true, false} {
			for _, b := range []bool{true, false} {
				out = append(out, c06Conv{b, m, q})
			}
		}
	}
	return out
}()

type c06Val struct {
	Kind byte // 'i' integer, 'u' unsigned, 'f' float, 's' string, 'b' boolean
	I    int64
	U    uint64
	F    float64
	S    string
	B    bool
	Tok  string
}

func (v c06Val) String() string {
	switch v.Kind {
	case 'i':
		return fmt.Sprintf("int:%d", v.I)
	case 'u':
		return fmt.Sprintf("uint:%d", v.U)
	case 'f':
		return fmt.Sprintf("float:%s(%016x)", strconv.FormatFloat(v.F, 'g', -1, 64), math.Float64bits(v.F))
	case 's':
		return fmt.Sprintf("string:%q", v.S)
	case 'b':
		return fmt.Sprintf("bool:%v", v.B)
	}
	return "none"
}

type c06KV struct{ K, V string }

type c06Field struct {
	Key string
	Val c06Val
}

type c06Point struct {
	Status int
	Reason string   // why invalid
	Odd    []string // lenient rules used
	Mst    string
	Tags   []c06KV // sorted by key; tags with empty key or value removed
	Fields []c06Field
	HasTS  bool
	TS     int64 // already in nanoseconds
	RawTS  int64
	Dup    bool
}

func (p *c06Point) String() string {
	if p.Status == c06Invalid {
		return "INVALID(" + p.Reason + ")"
	}
	var b strings.Builder
	fmt.Fprintf(&b, "mst=%q tags=[", p.Mst)
	for _, t := range p.Tags {
		fmt.Fprintf(&b, "%q=%q ", t.K, t.V)
	}
	b.WriteString("] fields=[")
	for _, f := range p.Fields {
		fmt.Fprintf(&b, "%q=%s ", f.Key, f.Val)
	}
	if p.HasTS {
		fmt.Fprintf(&b, "] ts=%d", p.TS)
	} else {
		b.WriteString("] ts=<server time>")
	}
	if len(p.Odd) > 0 {
		fmt.Fprintf(&b, " odd=%v", p.Odd)
	}
	return b.String()
}

// c06Scan: advance from i to the first unescaped byte of stops (backslash + any byte is a pair).
func c06Scan(s string, i int, stops string) int {
	for i < len(s) {
		c := s[i]
		if c == '\\' && i+1 < len(s) {
			i += 2
			continue
		}
		if strings.IndexByte(stops, c) >= 0 {
			return i
		}
		i++
	}
	return i
}

func c06HasUnescaped(s string, ch byte) bool {
	return c06Scan(s, 0, string(ch)) < len(s)
}

// c06Unescape: identifiers. ctx 'm' = measurement (escapes `,` and space), 'k' = tag key / tag value /
// field key (escapes `,` `=` space). A backslash before any other byte is a literal backslash.
func c06Unescape(raw string, ctx byte, cv c06Conv) string {
	if strings.IndexByte(raw, '\\') < 0 {
		return raw
	}
	out := make([]byte, 0, len(raw))
	for i := 0; i < len(raw); i++ {
		c := raw[i]
		if c == '\\' && i+1 < len(raw) {
			n := raw[i+1]
			switch {
			case n == ',' || n == ' ':
				out = append(out, n)
				i++
				continue
			case n == '=':
				if ctx != 'm' || cv.MstEq {
					out = append(out, '=')
				} else {
					out = append(out, '\\', '=')
				}
				i++
				continue
			case n == '\\':
				if cv.CollapseBS {
					out = append(out, '\\')
				} else {
					out = append(out, '\\', '\\')
				}
				i++
				continue
			}
		}
		out = append(out, c)
	}
	return string(out)
}

func c06Digits(s string) bool {
	if len(s) == 0 {
		return false
	}
	for i := 0; i < len(s); i++ {
		if s[i] < '0' || s[i] > '9' {
			return false
		}
	}
	return true
}

// c06FloatGrammar: [+-]? ( d+ ( . d* )? | . d+ ) ( [eE] [+-]? d+ )?
func c06FloatGrammar(s string) (ok bool, odd []string) {
	i := 0
	if i < len(s) && (s[i] == '+' || s[i] == '-') {
		if s[i] == '+' {
			odd = append(odd, "plus_sign")
		}
		i++
	}
	a := i
	for i < len(s) && s[i] >= '0' && s[i] <= '9' {
		i++
	}
	nInt := i - a
	if nInt > 1 && s[a] == '0' {
		odd = append(odd, "leading_zero")
	}
	nFrac := -1
	if i < len(s) && s[i] == '.' {
		i++
		b := i
		for i < len(s) && s[i] >= '0' && s[i] <= '9' {
			i++
		}
		nFrac = i - b
	}
	if nInt == 0 && nFrac <= 0 {
		return false, nil
	}
	if nInt == 0 {
		odd = append(odd, "no_integer_digits")
	}
	if nFrac == 0 {
		odd = append(odd, "no_fraction_digits")
	}
	if i < len(s) && (s[i] == 'e' || s[i] == 'E') {
		i++
		if i < len(s) && (s[i] == '+' || s[i] == '-') {
			i++
		}
		b := i
		for i < len(s) && s[i] >= '0' && s[i] <= '9' {
			i++
		}
		if i == b {
			return false, nil
		}
	}
	if i != len(s) {
		return false, nil
	}
	return true, odd
}

// c06Scalar classifies an unquoted field value.
func c06Scalar(tok string) (v c06Val, status int, why []string) {
	v.Tok = tok
	switch tok {
	case "t", "T", "true", "True", "TRUE":
		v.Kind, v.B = 'b', true
		return v, c06Valid, nil
	case "f", "F", "false", "False", "FALSE":
		v.Kind, v.B = 'b', false
		return v, c06Valid, nil
	}
	last := tok[len(tok)-1]
	body := tok[:len(tok)-1]
	switch last {
	case 'i':
		d := body
		if len(d) > 0 && (d[0] == '+' || d[0] == '-') {
			if d[0] == '+' {
				why = append(why, "plus_sign")
			}
			d = d[1:]
		}
		if !c06Digits(d) {
			return v, c06Invalid, []string{"bad_integer"}
		}
		n, err := strconv.ParseInt(body, 10, 64)
		if err != nil {
			return v, c06Invalid, []string{"integer_out_of_range"}
		}
		if len(d) > 1 && d[0] == '0' {
			why = append(why, "leading_zero")
		}
		v.Kind, v.I = 'i', n
		if len(why) > 0 {
			return v, c06Odd, why
		}
		return v, c06Valid, nil
	case 'u':
		d := body
		if len(d) > 0 && d[0] == '+' {
			d = d[1:]
		}
		if !c06Digits(d) {
			return v, c06Invalid, []string{"bad_unsigned"}
		}
		n, err := strconv.ParseUint(d, 10, 64)
		if err != nil {
			return v, c06Invalid, []string{"unsigned_out_of_range"}
		}
		v.Kind, v.U = 'u', n
		return v, c06Odd, []string{"unsigned_suffix"}
	case 'f':
		ok, _ := c06FloatGrammar(body)
		if !ok {
			return v, c06Invalid, []string{"bad_float_with_f_suffix"}
		}
		f, err := strconv.ParseFloat(body, 64)
		if err != nil || math.IsInf(f, 0) || math.IsNaN(f) {
			return v, c06Invalid, []string{"float_out_of_range"}
		}
		v.Kind, v.F = 'f', f
		return v, c06Odd, []string{"f_suffix"}
	}
	ok, odd := c06FloatGrammar(tok)
	if !ok {
		return v, c06Invalid, []string{"bad_number"}
	}
	f, err := strconv.ParseFloat(tok, 64)
	if err != nil || math.IsInf(f, 0) || math.IsNaN(f) {
		return v, c06Invalid, []string{"float_out_of_range"}
	}
	v.Kind, v.F = 'f', f
	if len(odd) > 0 {
		return v, c06Odd, odd
	}
	return v, c06Valid, nil
}

func c06MulCheck(a, b int64) (int64, bool) {
	var x, y, z big.Int
	x.SetInt64(a)
	y.SetInt64(b)
	z.Mul(&x, &y)
	if !z.IsInt64() {
		return 0, false
	}
	return z.Int64(), true
}

// c06RefLine reads one line. mult = nanoseconds per timestamp unit.
func c06RefLine(line string, mult int64, cv c06Conv) (p c06Point) {
	inv := func(r string) c06Point {
		p.Status = c06Invalid
		p.Reason = r
		return p
	}
	odd := func(r ...string) { p.Odd = append(p.Odd, r...) }
	i := 0
	for i < len(line) && (line[i] == ' ' || line[i] == '\t') {
		i++
	}
	if i > 0 {
		odd("leading_space") // upstream skips blanks and tabs before the measurement
	}
	ms := i
	i = c06Scan(line, i, ", ")
	if i >= len(line) {
		return inv("no_field_section")
	}
	rawM := line[ms:i]
	if rawM == "" {
		return inv("empty_measurement")
	}
	p.Mst = c06Unescape(rawM, 'm', cv)
	if line[i] == ',' {
		for {
			i++
			ks := i
			i = c06Scan(line, i, "=, ")
			if i >= len(line) || line[i] != '=' {
				return inv("tag_without_value")
			}
			rawK := line[ks:i]
			i++
			vs := i
			i = c06Scan(line, i, ", ")
			if i >= len(line) {
				return inv("no_field_section")
			}
			rawV := line[vs:i]
			if c06HasUnescaped(rawV, '=') {
				odd("unescaped_eq_in_tag_value")
			}
			k, v := c06Unescape(rawK, 'k', cv), c06Unescape(rawV, 'k', cv)
			switch {
			case k == "":
				odd("empty_tag_key")
			case v == "":
				odd("empty_tag_value")
			default:
				p.Tags = append(p.Tags, c06KV{k, v})
			}
			if line[i] == ' ' {
				break
			}
		}
	}
	j := i
	for i < len(line) && line[i] == ' ' {
		i++
	}
	if i-j > 1 {
		odd("multiple_spaces")
	}
	if i >= len(line) {
		return inv("no_field_section")
	}
	// Field section. Quotes toggle a "quoted" state in which spaces and commas do not separate
	// (upstream tokenisation); a value token that starts with a quote must end with one and is a
	// string: its content is everything between the first and the last quote.
	par := false
	for {
		ks := i
		for i < len(line) {
			c := line[i]
			if c == '\\' && i+1 < len(line) {
				i += 2
				continue
			}
			if c == '"' && cv.QuoteKeys {
				par = !par
				i++
				continue
			}
			if c == '=' || ((c == ',' || c == ' ') && !par) {
				break
			}
			i++
		}
		if i >= len(line) || line[i] != '=' {
			return inv("field_without_value")
		}
		rawK := line[ks:i]
		if rawK == "" {
			return inv("empty_field_key")
		}
		if c06HasUnescaped(rawK, '"') {
			odd("quote_in_field_key")
		}
		key := c06Unescape(rawK, 'k', cv)
		i++
		if !cv.QuoteKeys {
			par = false
		}
		vs := i
		for i < len(line) {
			c := line[i]
			if c == '\\' && i+1 < len(line) {
				i += 2
				continue
			}
			if c == '"' {
				par = !par
				i++
				continue
			}
			if (c == ',' || c == ' ') && !par {
				break
			}
			i++
		}
		if par {
			if !cv.QuoteKeys {
				return inv("unbalanced_quotes")
			}
			odd("unbalanced_quotes")
		}
		tok := line[vs:i]
		if tok == "" {
			return inv("empty_field_value")
		}
		var val c06Val
		if tok[0] == '"' {
			if len(tok) < 2 || tok[len(tok)-1] != '"' {
				return inv("garbage_after_string")
			}
			inner := tok[1 : len(tok)-1]
			sb := make([]byte, 0, len(inner))
			for k := 0; k < len(inner); k++ {
				c := inner[k]
				if c == '\\' && k+1 < len(inner) && (inner[k+1] == '"' || inner[k+1] == '\\') {
					sb = append(sb, inner[k+1])
					k++
					continue
				}
				if c == '"' {
					odd("unescaped_inner_quote")
				}
				sb = append(sb, c)
			}
			val = c06Val{Kind: 's', S: string(sb), Tok: tok}
		} else {
			v, st, why := c06Scalar(tok)
			if st == c06Invalid {
				p.Fields = append(p.Fields, c06Field{key, v})
				return inv("bad_value:" + why[0])
			}
			if st == c06Odd {
				odd(why...)
			}
			val = v
		}
		p.Fields = append(p.Fields, c06Field{key, val})
		if i >= len(line) {
			break
		}
		if line[i] == ',' {
			i++
			if i >= len(line) {
				return inv("field_without_value")
			}
			continue
		}
		break
	}
	if i < len(line) {
		j = i
		for i < len(line) && (line[i] == ' ' || line[i] == '\t') {
			if line[i] == '\t' {
				odd("tab_before_timestamp") // upstream skips blanks and tabs before the timestamp
			}
			i++
		}
		rest := strings.TrimRight(line[i:], " \t")
		if rest == "" {
			if len(line)-j > 0 {
				odd("trailing_space")
			}
		} else {
			if i-j > 1 {
				odd("multiple_spaces")
			}
			if len(rest) != len(line)-i {
				odd("trailing_space")
			}
			d := rest
			if d[0] == '-' {
				odd("negative_timestamp")
				d = d[1:]
			} else if d[0] == '+' {
				odd("plus_sign_timestamp")
				d = d[1:]
			}
			if !c06Digits(d) {
				return inv("bad_timestamp")
			}
			n, err := strconv.ParseInt(rest, 10, 64)
			if err != nil {
				return inv("timestamp_out_of_range")
			}
			prod, ok := c06MulCheck(n, mult)
			if !ok {
				p.RawTS = n
				return inv("timestamp_precision_overflow")
			}
			p.HasTS, p.TS, p.RawTS = true, prod, n
		}
	}
	seen := map[string]bool{}
	for _, t := range p.Tags {
		if seen[t.K] {
			p.Dup = true
		}
		seen[t.K] = true
	}
	seen = map[string]bool{}
	for _, f := range p.Fields {
		if seen[f.Key] {
			p.Dup = true
		}
		seen[f.Key] = true
	}
	if p.Dup {
		odd("duplicate_keys")
	}
	sort.SliceStable(p.Tags, func(a, b int) bool { return p.Tags[a].K < p.Tags[b].K })
	if len(p.Odd) > 0 {
		p.Status = c06Odd
	}
	return p
}

// c06RefLines: a request body is a sequence of lines separated by \n (optional \r before it);
// empty lines and lines starting with # carry no point. ends[i] = offset just after line i's newline.
func c06RefLines(text string) (out []string, ends []int) {
	pos := 0
	for pos < len(text) {
		n := strings.IndexByte(text[pos:], '\n')
		l, end := text[pos:], len(text)
		if n >= 0 {
			l, end = text[pos:pos+n], pos+n+1
		}
		pos = end
		l = strings.TrimSuffix(l, "\r")
		if l == "" || l[0] == '#' {
			continue
		}
		out = append(out, l)
		ends = append(ends, end)
	}
	return out, ends
}

// ---------------------------------------------------------------------------------------------
// The pipeline under test
// ---------------------------------------------------------------------------------------------

// c06Multiplier is a copy of the precision switch of serveWrite (httpd/handler.go); the black-box
// stage exercises the real one.
func c06Multiplier(precision string) int64 {
	switch precision {
	case "u", "us", "µ":
		return 1e3
	case "ms":
		return 1e6
	case "s":
		return 1e9
	case "m":
		return 60e9
	case "h":
		return 3600e9
	}
	return 1
}

type c06Obs struct {
	Mst    string
	Tags   []c06KV
	Fields []c06Field
	TS     int64
}

func (o *c06Obs) String() string {
	var b strings.Builder
	fmt.Fprintf(&b, "mst=%q tags=[", o.Mst)
	for _, t := range o.Tags {
		fmt.Fprintf(&b, "%q=%q ", t.K, t.V)
	}
	b.WriteString("] fields=[")
	for _, f := range o.Fields {
		fmt.Fprintf(&b, "%q=%s ", f.Key, f.Val)
	}
	fmt.Fprintf(&b, "] ts=%d", o.TS)
	return b.String()
}

// c06Store does what happens to an accepted row on its way into a shard: index key, fields sorted,
// column record; then reads everything back from the index key and the record columns.
func c06Store(row *influx.Row) (o c06Obs, err error) { return c06StoreKeyed(row, true) }

func c06StoreKeyed(row *influx.Row, buildKey bool) (o c06Obs, err error) {
	if buildKey {
		row.UnmarshalIndexKeys(nil)
	}
	name, _, err := influx.MeasurementName(row.IndexKey)
	if err != nil {
		return o, fmt.Errorf("index key: %w", err)
	}
	o.Mst = string(name)
	var pts influx.PointTags
	if _, err = influx.IndexKeyToTags(row.IndexKey, true, &pts); err != nil {
		return o, fmt.Errorf("index key tags: %w", err)
	}
	for _, t := range pts {
		o.Tags = append(o.Tags, c06KV{t.Key, t.Value})
	}
	sort.Stable(&row.Fields)
	rec := &record.Record{}
	if err = record.AppendRowToRecord(rec, row); err != nil {
		return o, fmt.Errorf("record: %w", err)
	}
	n := len(rec.Schema)
	if n != len(row.Fields)+1 || len(rec.ColVals) != n {
		return o, fmt.Errorf("record has %d columns for %d fields", n, len(row.Fields))
	}
	for c := 0; c < n-1; c++ {
		cv := &rec.ColVals[c]
		if cv.Len != 1 {
			return o, fmt.Errorf("column %q has %d rows", rec.Schema[c].Name, cv.Len)
		}
		f := c06Field{Key: rec.Schema[c].Name}
		if cv.IsNil(0) {
			f.Val.Kind = 'n'
			o.Fields = append(o.Fields, f)
			continue
		}
		switch rec.Schema[c].Type {
		case influx.Field_Type_Int, influx.Field_Type_UInt:
			f.Val.Kind, f.Val.I = 'i', cv.IntegerValues()[0]
		case influx.Field_Type_Float:
			f.Val.Kind, f.Val.F = 'f', cv.FloatValues()[0]
		case influx.Field_Type_Boolean:
			f.Val.Kind, f.Val.B = 'b', cv.BooleanValues()[0]
		case influx.Field_Type_String:
			s, _ := cv.StringValue(0)
			f.Val.Kind, f.Val.S = 's', string(s)
		default:
			return o, fmt.Errorf("column %q has type %d", rec.Schema[c].Name, rec.Schema[c].Type)
		}
		o.Fields = append(o.Fields, f)
	}
	ts := rec.Times()
	if len(ts) != 1 {
		return o, fmt.Errorf("time column has %d rows", len(ts))
	}
	o.TS = ts[0]
	return o, nil
}

type c06Real struct {
	Err    error
	Rows   []c06Obs
	Lo, Hi int64 // server time window of the call
	Panic  string
	Hop    string // non-empty: the store hop (row batch codec into a reused decoder) changed a point
}

// c06Pools is the reusable state of the store-side decoder (lib/pointsdecoder.DecoderWork: rows and pools are
// truncated to length 0 between requests, never cleared).
type c06Pools struct {
	rows []influx.Row
	tags []influx.Tag
	flds []influx.Field
	opts []influx.IndexOption
	keys []byte
	buf  []byte
}

var c06Hop = &c06Pools{}

// c06StoreHop ships accepted rows the way the sql node ships them to a store node (FastMarshalMultiRows), decodes them into the
// reused decoder state and reads every point back from the decoded row (index key as decoded, tags as decoded, fields).
func c06StoreHop(rows []influx.Row, direct []c06Obs) (diff string) {
	defer func() {
		if x := recover(); x != nil {
			diff = fmt.Sprintf("panic in the row batch codec: %v", x)
		}
	}()
	p := c06Hop
	data, err := influx.FastMarshalMultiRows(p.buf[:0], rows)
	if err != nil {
		return "FastMarshalMultiRows of accepted rows: " + err.Error()
	}
	p.buf = data
	p.rows, p.tags, p.flds, p.opts, p.keys, err = influx.FastUnmarshalMultiRows(data, p.rows[:0], p.tags[:0], p.flds[:0], p.opts[:0], p.keys[:0])
	if err != nil {
		return "FastUnmarshalMultiRows of shipped rows: " + err.Error()
	}
	if len(p.rows) != len(direct) {
		return fmt.Sprintf("%d rows shipped, %d rows decoded", len(direct), len(p.rows))
	}
	for i := range p.rows {
		row := &p.rows[i]
		var kt influx.PointTags
		if _, err := influx.IndexKeyToTags(row.IndexKey, true, &kt); err != nil {
			return fmt.Sprintf("row %d: decoded index key: %v", i, err)
		}
		if len(kt) != len(row.Tags) {
			return fmt.Sprintf("row %d: decoded row has tags %v but index key %q", i, row.Tags, row.IndexKey)
		}
		for j := range kt {
			if kt[j].Key != row.Tags[j].Key || kt[j].Value != row.Tags[j].Value {
				return fmt.Sprintf("row %d: decoded row has tags %v but index key %q", i, row.Tags, row.IndexKey)
			}
		}
		o, err := c06StoreKeyed(row, false)
		if err != nil {
			return fmt.Sprintf("row %d after the store hop: %v", i, err)
		}
		if o.String() != direct[i].String() {
			return fmt.Sprintf("row %d: stored directly %s, stored after the store hop %s", i, direct[i].String(), o.String())
		}
	}
	return ""
}

func c06RunReal(text string, mult int64) (r c06Real) {
	defer func() {
		if x := recover(); x != nil {
			r.Panic = fmt.Sprint(x)
		}
	}()
	called := false
	uw := influx.GetUnmarshalWork()
	uw.Callback = func(db string, rows []influx.Row, err error) {
		called = true
		if err != nil {
			r.Err = err // the handler stores nothing of this block and answers 400
			return
		}
		for i := range rows {
			o, e := c06Store(&rows[i])
			if e != nil {
				r.Err = e
				r.Rows = nil
				return
			}
			r.Rows = append(r.Rows, o)
		}
		if len(rows) > 0 {
			r.Hop = c06StoreHop(rows, r.Rows)
		}
	}
	uw.Db = "db0"
	uw.TsMultiplier = mult
	uw.ReqBuf = append(uw.ReqBuf[:0], text...)
	uw.EnableTagArray = false
	r.Lo = time.Now().UnixNano()
	uw.Unmarshal()
	r.Hi = time.Now().UnixNano()
	if !called {
		r.Err = fmt.Errorf("callback not called")
	}
	return r
}

// ---------------------------------------------------------------------------------------------
// Oracle
// ---------------------------------------------------------------------------------------------

type c06Case struct {
	Stage     string `json:"stage"`
	Group     string `json:"group"`
	Text      string `json:"text"`
	Precision string `json:"precision"`
}

// c06IntRounded: the value an int64 takes when it is carried through a float64.
func c06IntRounded(v int64) (int64, bool) {
	f := float64(v)
	if f >= 9223372036854775808.0 {
		return math.MinInt64, int64(f) != v // amd64: out-of-range conversion yields MinInt64
	}
	r := int64(f)
	return r, r != v
}

func c06UlpDistance(a, b float64) uint64 {
	ord := func(f float64) int64 {
		u := int64(math.Float64bits(f))
		if u < 0 {
			u = math.MinInt64 - u
		}
		return u
	}
	x, y := ord(a), ord(b)
	if x > y {
		x, y = y, x
	}
	return uint64(y - x)
}

// c06ComparePoint: "" if the stored point is what the text says.
func c06ComparePoint(p *c06Point, o *c06Obs, lo, hi int64) (kind, detail string) {
	if p.Mst != o.Mst {
		return "measurement_mismatch", fmt.Sprintf("measurement %q stored as %q", p.Mst, o.Mst)
	}
	if p.HasTS {
		if p.TS != o.TS {
			return "timestamp_mismatch", fmt.Sprintf("timestamp %d stored as %d", p.TS, o.TS)
		}
	} else if o.TS < lo || o.TS > hi {
		return "timestamp_mismatch", fmt.Sprintf("no timestamp in text; stored %d is outside the call window [%d,%d]", o.TS, lo, hi)
	}
	if p.Dup {
		// duplicate tag or field keys: which one wins is not defined by the statement; every stored
		// pair must still be one that the text contains.
		for _, t := range o.Tags {
			ok := false
			for _, q := range p.Tags {
				ok = ok || q == t
			}
			if !ok {
				return "tag_mismatch", fmt.Sprintf("stored tag %q=%q is not in the text", t.K, t.V)
			}
		}
		for _, f := range o.Fields {
			ok := false
			for _, q := range p.Fields {
				if q.Key == f.Key {
					if k, _ := c06CompareValue(&q.Val, &f.Val); k == "" {
						ok = true
					}
				}
			}
			if !ok {
				return "field_mismatch", fmt.Sprintf("stored field %q=%s is not in the text", f.Key, f.Val)
			}
		}
		return "", ""
	}
	if len(p.Tags) != len(o.Tags) {
		return "tag_mismatch", fmt.Sprintf("%d tags in text, %d stored", len(p.Tags), len(o.Tags))
	}
	for i := range p.Tags {
		if p.Tags[i] != o.Tags[i] {
			return "tag_mismatch", fmt.Sprintf("tag %q=%q stored as %q=%q", p.Tags[i].K, p.Tags[i].V, o.Tags[i].K, o.Tags[i].V)
		}
	}
	if len(p.Fields) != len(o.Fields) {
		return "field_mismatch", fmt.Sprintf("%d fields in text, %d stored", len(p.Fields), len(o.Fields))
	}
	want := map[string]*c06Val{}
	for i := range p.Fields {
		want[p.Fields[i].Key] = &p.Fields[i].Val
	}
	for i := range o.Fields {
		w, ok := want[o.Fields[i].Key]
		if !ok {
			return "field_key_mismatch", fmt.Sprintf("stored field key %q is not in the text", o.Fields[i].Key)
		}
		if k, d := c06CompareValue(w, &o.Fields[i].Val); k != "" {
			return k, fmt.Sprintf("field %q: %s", o.Fields[i].Key, d)
		}
	}
	return "", ""
}

func c06CompareValue(w, g *c06Val) (kind, detail string) {
	if w.Kind == 'u' {
		// unsigned is stored in an integer column; only values that fit are representable
		if g.Kind == 'i' && w.U <= math.MaxInt64 && g.I == int64(w.U) {
			return "", ""
		}
		return "unsigned_mismatch", fmt.Sprintf("text %s stored as %s", w, g)
	}
	if w.Kind != g.Kind {
		return "type_mismatch", fmt.Sprintf("text %s stored as %s", w, g)
	}
	switch w.Kind {
	case 'i':
		if w.I != g.I {
			if r, inexact := c06IntRounded(w.I); inexact && (g.I == r || (r == math.MinInt64 && g.I == math.MaxInt64)) {
				return "int_not_float64_exact", fmt.Sprintf("integer %d is not representable in float64 and was stored as %d", w.I, g.I)
			}
			return "int_mismatch", fmt.Sprintf("integer %d stored as %d", w.I, g.I)
		}
	case 'f':
		if math.Float64bits(w.F) != math.Float64bits(g.F) {
			d := c06UlpDistance(w.F, g.F)
			mant := strings.TrimSuffix(w.Tok, "f")
			if k := strings.IndexAny(mant, "eE"); k >= 0 {
				mant = mant[:k]
			}
			if strings.HasPrefix(w.Tok, "+") && g.F == 0 && w.F != 0 {
				return "float_leading_plus_stored_as_zero", fmt.Sprintf("float text %q = %s stored as %s", w.Tok, w, g)
			}
			if strings.HasPrefix(w.Tok, "-") && strings.HasSuffix(mant, ".") && math.Float64bits(g.F) == math.Float64bits(-w.F) {
				return "float_trailing_point_sign_lost", fmt.Sprintf("float text %q = %s stored as %s", w.Tok, w, g)
			}
			if d <= 2 && !math.IsNaN(g.F) && !math.IsInf(g.F, 0) {
				return "float_not_correctly_rounded", fmt.Sprintf("float text %q = %s stored as %s (%d ulp off)", w.Tok, w, g, d)
			}
			return "float_mismatch", fmt.Sprintf("float text %q = %s stored as %s", w.Tok, w, g)
		}
	case 's':
		if w.S != g.S {
			return "string_mismatch", fmt.Sprintf("string %q stored as %q", w.S, g.S)
		}
	case 'b':
		if w.B != g.B {
			return "bool_mismatch", fmt.Sprintf("boolean %v stored as %v", w.B, g.B)
		}
	}
	return "", ""
}

type c06Verdict struct {
	Kind, Detail string   // Kind "" = holds
	Lenient      []string // leniency rules that were needed
	RefAccepts   bool
}

// c06Judge compares the real outcome with the reference reading under one convention.
func c06Judge(c *c06Case, lines []string, ends []int, mult int64, cv c06Conv, real *c06Real) (v c06Verdict) {
	refs := make([]c06Point, len(lines))
	nInvalid, nOdd := 0, 0
	for i, l := range lines {
		refs[i] = c06RefLine(l, mult, cv)
		switch refs[i].Status {
		case c06Invalid:
			nInvalid++
		case c06Odd:
			nOdd++
		}
	}
	v.RefAccepts = nInvalid == 0 && len(refs) > 0
	describe := func() string {
		var b strings.Builder
		for i := range refs {
			fmt.Fprintf(&b, "\n  text line %d %q means %s", i, lines[i], refs[i].String())
		}
		if real.Err != nil {
			fmt.Fprintf(&b, "\n  real: error %v", real.Err)
		} else {
			for i := range real.Rows {
				fmt.Fprintf(&b, "\n  real row %d: %s", i, real.Rows[i].String())
			}
			if len(real.Rows) == 0 {
				b.WriteString("\n  real: no error, no rows")
			}
		}
		return b.String()
	}
	if real.Err != nil {
		if nInvalid > 0 || len(refs) == 0 {
			return v
		}
		if nOdd > 0 {
			for i := range refs {
				for _, o := range refs[i].Odd {
					v.Lenient = append(v.Lenient, "rejected_"+o)
				}
			}
			return v
		}
		v.Kind, v.Detail = "valid_line_rejected", "every line is valid line protocol but the write is rejected"+describe()
		return v
	}
	if len(refs) > 1 || (len(refs) == 1 && lines[0] != c.Text) {
		// A body of several physical lines that reports success. Lines that the write path rejects on
		// their own must have made the write fail; find them by probing every line alone.
		var kept []int
		dropped, allHidden := -1, true
		for i := range refs {
			single := c06RunReal(lines[i], mult)
			if single.Err != nil || single.Panic != "" {
				if dropped < 0 {
					dropped = i
				}
				// hidden = some text follows the newline that ends this line
				allHidden = allHidden && ends[i] < len(c.Text)
				continue
			}
			if refs[i].Status == c06Invalid && len(single.Rows) == 1 {
				// the defect is that this line is accepted at all; name it as for the single line
				v.Kind = c06ClassifyAccepted(lines[i], &refs[i], &single.Rows[0], mult)
				v.Detail = fmt.Sprintf("line %d is not valid line protocol (%s) but accepted and stored", i, refs[i].Reason) + describe()
				return v
			}
			kept = append(kept, i)
		}
		if dropped >= 0 {
			same := len(kept) == len(real.Rows)
			for k := 0; same && k < len(kept); k++ {
				if refs[kept[k]].Status == c06Invalid {
					same = false
				} else if kd, _ := c06ComparePoint(&refs[kept[k]], &real.Rows[k], real.Lo, real.Hi); kd != "" {
					same = false
				}
			}
			if same && allHidden {
				v.Kind = "rejected_line_hidden_by_later_line"
				v.Detail = fmt.Sprintf("line %d is rejected when written alone; followed by more text its error is lost: it is skipped and the write reports success (the other lines are stored)", dropped) + describe()
				return v
			}
			if same {
				v.Kind = "rejected_line_dropped_without_error"
				v.Detail = fmt.Sprintf("line %d is rejected when written alone, but here it is skipped and the write reports success", dropped) + describe()
				return v
			}
			v.Kind, v.Detail = "batch_mismatch", "the rows stored for the batch are not the lines that are accepted alone"+describe()
			return v
		}
	}
	if nInvalid > 0 {
		for i := range refs {
			if refs[i].Status == c06Invalid {
				v.Kind = "invalid_line_accepted"
				if len(refs) == 1 && len(real.Rows) == 1 {
					v.Kind = c06ClassifyAccepted(lines[i], &refs[i], &real.Rows[0], mult)
				} else if len(refs) == 1 && len(real.Rows) == 0 {
					v.Kind = "invalid_line_dropped_without_error"
				}
				v.Detail = "not valid line protocol (" + refs[i].Reason + ") but accepted" + describe()
				return v
			}
		}
	}
	if len(real.Rows) != len(refs) {
		v.Kind, v.Detail = "row_count_mismatch", fmt.Sprintf("%d lines, %d rows stored", len(refs), len(real.Rows))+describe()
		return v
	}
	for i := range refs {
		if k, d := c06ComparePoint(&refs[i], &real.Rows[i], real.Lo, real.Hi); k != "" {
			v.Kind, v.Detail = k, d+describe()
			return v
		}
		for _, o := range refs[i].Odd {
			v.Lenient = append(v.Lenient, "accepted_"+o)
		}
	}
	return v
}

// c06ClassifyAccepted names the defect behind one accepted invalid line.
func c06ClassifyAccepted(line string, p *c06Point, o *c06Obs, mult int64) string {
	if p.Reason == "timestamp_precision_overflow" && o.TS == p.RawTS*mult { // wrapping product
		return "timestamp_precision_overflow_wraps"
	}
	if strings.HasPrefix(p.Reason, "bad_value:") {
		bad := p.Fields[len(p.Fields)-1]
		tok := bad.Val.Tok
		for _, f := range o.Fields {
			if f.Key == bad.Key && len(tok) > 1 && tok[len(tok)-1] == 'f' && f.Val.Kind == 'f' && strings.IndexByte(tok, '"') < 0 {
				return "f_suffix_value_not_validated"
			}
		}
	}
	// a value that does not start with a quote but contains one, stored as the empty string
	if strings.HasPrefix(p.Reason, "bad_value:") {
		bad := p.Fields[len(p.Fields)-1]
		tok := bad.Val.Tok
		if tok[0] != '"' && strings.IndexByte(tok, '"') > 0 {
			for _, f := range o.Fields {
				if f.Key == bad.Key && f.Val.Kind == 's' && f.Val.S == "" {
					return "unquoted_value_with_quote_stored_as_empty_string"
				}
			}
		}
	}
	if p.Reason == "unbalanced_quotes" {
		return "unbalanced_quotes_accepted"
	}
	return "invalid_line_accepted"
}

func c06KindRank(k string) int {
	switch k {
	case "invalid_line_accepted":
		return 0
	case "unbalanced_quotes_accepted":
		return 1
	case "f_suffix_value_not_validated", "unquoted_value_with_quote_stored_as_empty_string", "timestamp_precision_overflow_wraps":
		return 3
	}
	return 2
}

var c06Sampled = map[string]bool{}

// debugging aid: C06_DUMP=<file> lists every violating case
var c06Dump = func() *os.File {
	if p := os.Getenv("C06_DUMP"); p != "" {
		f, _ := os.OpenFile(p, os.O_CREATE|os.O_APPEND|os.O_WRONLY, 0o644)
		return f
	}
	return nil
}()

func c06Check(rep *kit.Report, c *c06Case) {
	rep.Eval(1)
	mult := c06Multiplier(c.Precision)
	// the store-side decoder state: fresh for an ordinary case (so that a case replays alone), primed by the first body
	// of a "hopseq" case (Text = body A, 0x1e, body B: B is judged after A went through the same decoder)
	c06Hop = &c06Pools{}
	orig := c
	if c.Stage == "hopseq" {
		if k := strings.IndexByte(c.Text, 0x1e); k >= 0 {
			c06RunReal(c.Text[:k], mult)
			c = &c06Case{Stage: "pure", Group: c.Group, Text: c.Text[k+1:], Precision: c.Precision}
		}
	}
	real := c06RunReal(c.Text, mult)
	if real.Panic == "" && real.Hop != "" {
		rep.Count("violation_store_hop_changes_point", 1)
		rep.Violation("store_hop_changes_point", orig.Precision+"|"+orig.Stage+"|"+strings.Replace(orig.Text, "\x1e", " ; then ; ", 1), real.Hop, orig)
		return
	}
	if real.Panic != "" {
		rep.Violation("panic", c.Precision+"|"+c.Text, "panic in the write path: "+real.Panic, c)
		return
	}
	lines, ends := c06RefLines(c.Text)
	convs := c06Convs
	hasBS, hasQ := strings.IndexByte(c.Text, '\\') >= 0, strings.IndexByte(c.Text, '"') >= 0
	if !hasBS || !hasQ {
		convs = nil
		for _, cv := range c06Convs {
			if (!hasBS && !(cv.CollapseBS && cv.MstEq)) || (!hasQ && cv.QuoteKeys) {
				continue
			}
			convs = append(convs, cv)
		}
	}
	var first c06Verdict
	var chosen *c06Verdict
	refAccepts := false
	for i, cv := range convs {
		v := c06Judge(c, lines, ends, mult, cv, &real)
		refAccepts = refAccepts || v.RefAccepts
		if i == 0 || (v.Kind != "" && c06KindRank(v.Kind) > c06KindRank(first.Kind)) {
			first = v // the most specific name any reading gives to the failure
		}
		if v.Kind == "" {
			chosen = &v
			if i > 0 {
				v.Lenient = append(v.Lenient, fmt.Sprintf("convention_collapse%v_msteq%v_loosequotes%v", cv.CollapseBS, cv.MstEq, cv.QuoteKeys))
			}
			break
		}
	}
	if real.Err == nil && len(real.Rows) > 0 || refAccepts {
		if rep.DistinctNontrivial(kit.Hash(c.Precision, c.Text)) {
			rep.Count("nontrivial_"+c.Group, 1)
			if real.Err == nil && len(real.Rows) > 0 && !c06Sampled[c.Group] {
				c06Sampled[c.Group] = true // one real case per group and worker
				rep.Sample(32, map[string]any{"group": c.Group, "text": c.Text, "precision": c.Precision, "stored": real.Rows[0].String()})
			}
		}
	}
	if real.Err != nil {
		rep.Count("real_rejected", 1)
	} else {
		rep.Count("real_accepted", 1)
	}
	if chosen != nil {
		for _, l := range chosen.Lenient {
			rep.Count("lenient_"+l, 1)
		}
		return
	}
	rep.Count("violation_"+first.Kind, 1)
	if c06Dump != nil {
		fmt.Fprintf(c06Dump, "%s\t%s\t%q\t%q\n", first.Kind, c.Group, c.Precision, c.Text)
	}
	rep.Violation(first.Kind, c.Precision+"|"+c.Text, first.Detail, c)
}

// ---------------------------------------------------------------------------------------------
// Enumeration
// ---------------------------------------------------------------------------------------------

// c06Texts: every string over alpha of length <= n (as written on the wire; the reference decides what it means).
func c06Texts(alpha []string, n int, f func(s string) bool) {
	var rec func(prefix string, left int) bool
	rec = func(prefix string, left int) bool {
		if !f(prefix) {
			return false
		}
		if left == 0 {
			return true
		}
		for _, a := range alpha {
			if !rec(prefix+a, left-1) {
				return false
			}
		}
		return true
	}
	rec("", n)
}

var c06Alpha = []string{"a", ",", " ", "=", `"`, `\`, "é"}
var c06AlphaWide = []string{"a", ",", " ", "=", `"`, `\`, "é", "\t", "#", "1", "i"}

// X marks the enumerated position
var c06IdentTemplates = []struct{ Group, T string }{
	{"measurement", "X,t=v f=1i 7"},
	{"measurement", "X f=1i 7"},
	{"tagkey", "m,X=v f=1i 7"},
	{"tagvalue", "m,t=X f=1i 7"},
	{"tagvalue", "m,t=X,u=w f=1i 7"},
	{"fieldkey", "m,t=v X=1i 7"},
	{"fieldkey", "m X=1i,g=2i"},
	{"string", `m,t=v f="X" 7`},
	{"string", `m f="X",g=2i`},
	{"string", `m f="X"`},
}

var c06PairTemplates = []struct{ Group, T string }{
	{"pair_mst_tagvalue", "X,t=Y f=1i 7"},
	{"pair_tagkey_tagvalue", "m,X=Y f=1i 7"},
	{"pair_tagvalue_string", `m,t=X f="Y" 7`},
	{"pair_fieldkey_string", `m X="Y" 7`},
	{"pair_fieldkeys", "m X=1i,Y=2i"},
	{"pair_strings", `m f="X",g="Y"`},
	{"pair_mst_fieldkey", "X Y=1i"},
}

var c06DigitStrings = func() []string {
	d := []string{"0", "1", "9"}
	out := []string{""}
	out = append(out, d...)
	for _, a := range d {
		for _, b := range d {
			out = append(out, a+b)
		}
	}
	return out
}()

// c06Numbers: every spelling of [+-]? d* (. d*)? ([eE][+-]? d*)? [iuf]? with <= 2 digits per part.
func c06Numbers(f func(s string) bool) {
	signs := []string{"", "+", "-"}
	for _, sg := range signs {
		for _, ip := range c06DigitStrings {
			fracs := []string{""}
			for _, d := range c06DigitStrings {
				fracs = append(fracs, "."+d)
			}
			for _, fr := range fracs {
				exps := []string{""}
				for _, e := range []string{"e", "E"} {
					for _, es := range signs {
						for _, d := range c06DigitStrings {
							exps = append(exps, e+es+d)
						}
					}
				}
				for _, ex := range exps {
					for _, suf := range []string{"", "i", "u", "f"} {
						if !f(sg + ip + fr + ex + suf) {
							return
						}
					}
				}
			}
		}
	}
}

var c06BoundaryInts = []string{
	"0", "1", "-1", "-0", "9007199254740991", "-9007199254740991", "9007199254740992", "-9007199254740992",
	"9007199254740993", "-9007199254740993", "9007199254740995", "18014398509481985", "1152921504606846977",
	"4611686018427387905", "-4611686018427387905",
	"9223372036854775807", "9223372036854775806", "9223372036854774784", "9223372036854775296", "-9223372036854775808", "-9223372036854775807",
	"9223372036854775808", "-9223372036854775809", "18446744073709551615", "18446744073709551616",
	"123456789012345678", "1234567890123456789", "999999999999999999", "-999999999999999999",
	"99999999999999999999", "000000000000000000001", "0000000000000000000000009223372036854775807",
}

var c06NearMisses = []string{
	// booleans and near misses
	"t", "T", "true", "True", "TRUE", "f", "F", "false", "False", "FALSE",
	"tRUE", "tr", "tru", "TRue", "truE", "yes", "no", "on", "off", "fALSE", "fa", "fals", "falsE", "FAlse",
	"tt", "ff", "tf", "ft", "Tf", "Ff", "truef", "falsef", "TRUEf", "ti", "fi", "truei", "tu", "nil", "null", "NULL", "y", "n", "Y", "N",
	// not numbers
	"x", "1x", "x1", "1xf", "1xi", "0x10", "0x1f", "0x1p-2", "1_0", "1_0i", "1_0f", "1,0", "1 0",
	"NaN", "nan", "Inf", "inf", "+Inf", "-Inf", "-inf", "infinity", "Infinity", "nanf", "inff", "-inff", "+inff", "infinityf", "NaNf", "infi", "nani",
	"1e", "1e+", "1e-", "1ef", "1e+f", "1ei", "e", "e1", "E1", ".", "+", "-", "+.", "-.", ".e1", "-e1", ".f", "-f", "+f", "ef", "e1f", ".i", "-i", "+i", "i", "u", "-u",
	"--1", "++1", "+-1", "-+1", "1-", "1+", "1.2.3", "1..2", "1e1e1", "1e1.5", "1.5i", "1e3i", "1.0i", "1.i", ".1i", "1iu", "1ii", "1ui", "1fi", "1if", "1uf", "1ff",
	"１", "١", "1é", "é", "1\x00", "\x001", "1\t", "\t1",
	// large / small floats
	"1e308", "1.7976931348623157e308", "1.7976931348623159e308", "1.8e308", "1e309", "-1e309", "1e999", "1e309f", "1e-323", "4.9e-324", "2.4e-324", "1e-400", "1e-400f",
	"0.1", "0.2", "0.3", "0.7", "1.1", "2.675", "0.30000000000000004", "123456789.123456789", "0.000001", "1e-7", "1.5e-7", "9.9e-5", "1.9e-1", "3.3e-3", "7.7e22", "8.5e23", "1e23",
	"9007199254740993", "9007199254740993.0", "900719925474099.3", "9.007199254740993", "90071992547.40993", "12345678901234567890", "0.1234567890123456789", "1234567890123456.7", "179769313486231570000000000000000000000000000000000000000000000000000000000000000000000000000000000000000000000000000000000000000000000000000000000000000000000000000000000000000000000000000000000000000000000000000000000000000000000000000000000000000000000000000000000000000000000000000000000000000",
	"-0", "-0.0", "+0", "0e0", "-0e0", "00", "01", "007", "1.", ".5", "-.5", "+.5", "5.e3", "1.e+78", "1.E+78",
}

var c06Timestamps = []string{
	"", "0", "1", "7", "100", "-1", "-100", "-9223372036854775808", "9223372036854775807", "9223372036854775808", "-9223372036854775809",
	"9223372036", "9223372037", "9223372036854", "9223372036855", "9223372036854775", "9223372036854776", "153722867", "153722868", "2562047", "2562048",
	"4611686018427387904", "1622851200000000000", "1622851200", "007", "+1", "abc", "1.5", "1e3", "1i", "0x10", "1 2", "1a", "a1", "１", " ", "  7", "7 ", "\t7", "7\t", " \t 7 \t", "7\t8", "-", "--1",
}

var c06Precisions = []string{"", "ns", "u", "us", "µ", "ms", "s", "m", "h", "x"}

// lines for the batches; the reference decides which are valid
var c06BatchLines = []string{
	`m,t=v f=1i 7`, `m f=1i`, `m,t=v,u=w f=1.5,g="s",h=true 8`, `m\ x,t\,k=v\=w f\ k="a\"b\\" 9`, `m f="a b,c=d" 10`,
	`m2 f=-0.5e-1 11`, `m,t=é f="é" 12`, `m f=F`, `m f=2i,g=3i 13`,
	// odd
	`m f=1f 14`, ` m f=1i 15`, `m,t= f=1i 16`,
	// invalid
	`m`, `m `, `m f`, `m f=`, `m f=x`, `m f=1u`, `m f=1e`, `m f=1i x`, `m f=1i 1.5`, `m,t f=1i`, `m,t=v`, `,t=v f=1i`, ` f=1i`, `m f="a`, `m f=1i,`, `m =1i`,
	`m f=9223372036854775808i`, `m f=1xf`, `m f=1i 9223372036854775808`, `f=1i`, `=`, `,`, `"`, `\`, `m f=tru`, `m f=1i 7 8`, `m,=v`, `m f="a"b`,
}

func TestVerifC06(t *testing.T) {
	rep := kit.NewReport("C06")
	defer rep.Save()
	if kit.ReplayPath() != "" {
		var c c06Case
		if err := kit.LoadReplay(&c); err != nil {
			t.Fatal(err)
		}
		c06Check(rep, &c)
		return
	}
	idx := 0
	stop := false
	emit := func(group, text, precision string) bool {
		if stop {
			return false
		}
		if idx&0xfff == 0 && rep.Expired() {
			stop = true
			return false
		}
		if kit.Mine(idx) {
			c06Check(rep, &c06Case{Stage: "pure", Group: group, Text: text, Precision: precision})
		}
		idx++
		return true
	}
	thorough := kit.Thorough()

	// 1. numbers
	for _, tmpl := range []string{"m f=X 7", "m,t=v g=1i,f=X"} {
		c06Numbers(func(s string) bool { return emit("number", strings.Replace(tmpl, "X", s, 1), "") })
		for _, s := range c06NearMisses {
			emit("number", strings.Replace(tmpl, "X", s, 1), "")
		}
		for _, b := range c06BoundaryInts {
			for _, sg := range []string{"", "+"} {
				for _, suf := range []string{"i", "u", "", "f", ".0", "e0"} {
					emit("boundary", strings.Replace(tmpl, "X", sg+b+suf, 1), "")
				}
			}
		}
	}
	// 2. timestamps x precisions
	for _, ts := range c06Timestamps {
		for _, p := range c06Precisions {
			for _, head := range []string{"m f=1i", `m,t=v f="a b"`, "m f=1.5,g=t"} {
				text := head
				if ts != "" {
					text += " " + ts
				}
				emit("timestamp", text, p)
			}
		}
	}
	// 3. batches: every ordered pair of lines, three separators
	for _, a := range c06BatchLines {
		for _, b := range c06BatchLines {
			for _, sep := range []string{"\n", "\r\n", "\n\n"} {
				for _, tail := range []string{"", "\n"} {
					emit("batch", a+sep+b+tail, "")
				}
			}
		}
		for _, tail := range []string{"\n", "\r\n", "\n\n", "\n\r\n", "\n#", "\n# x\n", "\n \n"} {
			emit("batch", a+tail, "")
			emit("batch", "\n"+a+tail, "")
		}
		emit("batch", a+"\n# comment\n"+a, "ms")
		emit("batch", "# comment\n"+a+"\r\n", "s")
	}
	if thorough {
		for _, a := range c06BatchLines {
			for _, b := range c06BatchLines {
				for _, c := range c06BatchLines[:16] {
					emit("batch3", a+"\n"+b+"\n"+c, "")
				}
			}
		}
	}
	// 4. identifiers, tag values, string field values: every written form
	n := 6
	if thorough {
		n = 7
	}
	for _, tm := range c06IdentTemplates {
		tm := tm
		c06Texts(c06Alpha, n, func(s string) bool { return emit(tm.Group, strings.Replace(tm.T, "X", s, 1), "") })
	}
	if thorough {
		for _, tm := range c06IdentTemplates {
			tm := tm
			c06Texts(c06AlphaWide, 5, func(s string) bool { return emit(tm.Group+"_wide", strings.Replace(tm.T, "X", s, 1), "") })
		}
	}
	// 5. two enumerated positions at once (the slow paths are switched per body / per line by the presence
	// of a backslash or a quote anywhere, so positions interact)
	m := 2
	if thorough {
		m = 3
	}
	for _, tm := range c06PairTemplates {
		tm := tm
		c06Texts(c06Alpha, m, func(x string) bool {
			base := strings.Replace(tm.T, "X", x, 1)
			c06Texts(c06Alpha, m, func(y string) bool { return emit(tm.Group, strings.Replace(base, "Y", y, 1), "") })
			return !stop
		})
	}
	// 6. store hop with a reused decoder: every ordered pair of request bodies (one or two lines each, lines differing in
	// number of tags, fields, measurement) goes through ONE store-side decoder; the second body is judged
	var hopLines []string
	for _, mst := range []string{"m", "mm"} {
		for _, tags := range []string{"", ",t=v", ",t=v,u=w", ",u=x"} {
			for _, flds := range []string{" f=1i", ` f=1.5,g="s"`, " g=t 7"} {
				hopLines = append(hopLines, mst+tags+flds)
			}
		}
	}
	hopBodies := append([]string{}, hopLines...)
	for i, a := range hopLines {
		for j, b := range hopLines {
			if (i+j)%3 == 0 || thorough { // quick: a third of the two-line bodies
				hopBodies = append(hopBodies, a+"\n"+b)
			}
		}
	}
	for _, a := range hopBodies {
		for _, b := range hopBodies {
			if stop {
				break
			}
			if idx&0xfff == 0 && rep.Expired() {
				stop = true
				break
			}
			if kit.Mine(idx) {
				c06Check(rep, &c06Case{Stage: "hopseq", Group: "hopseq", Text: a + "\x1e" + b})
			}
			idx++
		}
	}
	rep.Count("hop_bodies", int64(len(hopBodies)))
	rep.Count("cases_generated", int64(idx)/int64(kit.NShard()))
	rep.Max("max_text_length", int64(n))
	if stop {
		rep.Note("stopped at case %d", idx)
	}
}
