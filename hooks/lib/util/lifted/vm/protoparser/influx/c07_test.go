//go:build verif && c07

package influx

// C07 seam 3: FastMarshalMultiRows / FastUnmarshalMultiRows - the row-batch codec shared by the WAL
// (line-protocol records) and the store write RPC.

import (
	"bytes"
	"fmt"
	"math"
	"runtime/debug"
	"strings"
	"testing"

	kit "github.com/openGemini/openGemini/lib/verifkit"
	gen "github.com/openGemini/openGemini/lib/verifkit/c07gen"
)

// A row of the grammar is a tuple of small indices.
type c07RowSpec struct {
	Name   int   `json:"name"`   // 0 short, 1 250-byte
	Tags   int   `json:"tags"`   // index into c07TagSets
	Schema []int `json:"schema"` // field types
	Var    int   `json:"var"`    // value variant 0/1
	TS     int   `json:"ts"`     // index into c07Times
	Idx    int   `json:"idx"`    // index into c07IdxSets
	SK     int   `json:"sk"`     // 0 empty shard key, 1 "m,host=a", 2 non-empty but SkipMarshalShardKey()
}

type c07Case struct {
	Seam    string         `json:"seam"`
	Kind    string         `json:"kind"` // batch | history
	Batches [][]c07RowSpec `json:"batches"`
	// batch: one batch, round trip with fresh pools + every byte prefix.
	// history: the batches are decoded one after the other with the same reused pools (WAL replay / RPC server do that).
}

func (c *c07Case) key() string {
	var b strings.Builder
	b.WriteString("rows/" + c.Kind)
	for _, bt := range c.Batches {
		b.WriteString("/[")
		for i, r := range bt {
			if i > 0 {
				b.WriteByte(' ')
			}
			fmt.Fprintf(&b, "n%dt%df%s.%dts%di%ds%d", r.Name, r.Tags, gen.SchemaName(r.Schema), r.Var, r.TS, r.Idx, r.SK)
		}
		b.WriteString("]")
	}
	return b.String()
}

var c07Names = []string{"m_0000", strings.Repeat("M", 245) + "_0000"}

var c07TagSets = [][]Tag{
	nil,
	{{Key: "host", Value: "a"}},
	{{Key: "host", Value: ""}, {Key: "region", Value: "\xff\x00,= "}},
	{{Key: strings.Repeat("k", 300), Value: strings.Repeat("v", 1000)}, {Key: "z", Value: "日本"}, {Key: "zz", Value: "1"}},
}

var c07Times = []int64{math.MinInt64, 0, math.MaxInt64}

var c07IdxSets = [][]IndexOption{
	nil,
	{{Oid: 7, IndexList: []uint16{}}},
	{{Oid: 7, IndexList: []uint16{0, 1, 2}}},
	{{Oid: 1, IndexList: []uint16{0, 1, 2, 3}}, {Oid: 4000000000, IndexList: []uint16{65535}}},
}

var c07FieldKeys = []string{"f", "g h,=\"", "字段"}

func c07MakeRow(s c07RowSpec) Row {
	var r Row
	r.Name = c07Names[s.Name]
	r.Tags = append(PointTags(nil), c07TagSets[s.Tags]...)
	for j, t := range s.Schema {
		f := Field{Key: c07FieldKeys[j]}
		v := (s.Var + j) % 2
		switch t {
		case gen.TInt:
			f.Type = Field_Type_Int
			f.NumValue = []float64{-1, 9007199254740992}[v] // ints travel as float64 in a Row (C06's subject, not C07's)
		case gen.TFloat:
			f.Type = Field_Type_Float
			f.NumValue = math.Float64frombits([]uint64{gen.NaNPayload, 1 << 63}[v])
		case gen.TBool:
			f.Type = Field_Type_Boolean
			f.NumValue = float64(v)
		case gen.TString:
			f.Type = Field_Type_String
			f.StrValue = []string{"", gen.Strings[4] + gen.Strings[5]}[v]
		}
		r.Fields = append(r.Fields, f)
	}
	r.Timestamp = c07Times[s.TS]
	for _, o := range c07IdxSets[s.Idx] {
		r.IndexOptions = append(r.IndexOptions, IndexOption{Oid: o.Oid, IndexList: append([]uint16{}, o.IndexList...)})
	}
	switch s.SK {
	case 1:
		r.ShardKey = []byte("m,host=a")
	case 2:
		r.ShardKey = []byte("m,host=a")
		r.SkipMarshalShardKey()
	}
	return r
}

// c07Canon renders what a consumer of a decoded row can observe.
func c07Canon(r *Row, expectSK []byte, decoded bool) string {
	var b strings.Builder
	fmt.Fprintf(&b, "name=%q ts=%d sk=%q tags=[", r.Name, r.Timestamp, func() []byte {
		if decoded {
			return r.ShardKey
		}
		return expectSK
	}())
	for _, t := range r.Tags {
		fmt.Fprintf(&b, "%q=%q/%v ", t.Key, t.Value, t.IsArray)
	}
	b.WriteString("] fields=[")
	for _, f := range r.Fields {
		if f.Type == Field_Type_String {
			fmt.Fprintf(&b, "%q:%d:%q ", f.Key, f.Type, f.StrValue)
		} else {
			fmt.Fprintf(&b, "%q:%d:%016x ", f.Key, f.Type, math.Float64bits(f.NumValue))
		}
	}
	b.WriteString("] idx=[")
	for _, o := range r.IndexOptions {
		fmt.Fprintf(&b, "%d:%v ", o.Oid, o.IndexList)
	}
	b.WriteString("]")
	return b.String()
}

func c07Expect(specs []c07RowSpec) ([]Row, []string) {
	rows := make([]Row, len(specs))
	want := make([]string, len(specs))
	for i, s := range specs {
		rows[i] = c07MakeRow(s)
		sk := rows[i].ShardKey
		if s.SK == 2 {
			sk = nil
		}
		want[i] = c07Canon(&rows[i], sk, false)
	}
	return rows, want
}

type c07Pools struct {
	rows []Row
	tags []Tag
	flds []Field
	opts []IndexOption
	keys []byte
}

func (p *c07Pools) truncate() { // what engine.putWalRowsObjects does between records
	p.rows, p.tags, p.flds, p.opts, p.keys = p.rows[:0], p.tags[:0], p.flds[:0], p.opts[:0], p.keys[:0]
}

func c07Stack() string {
	s := string(debug.Stack())
	if len(s) > 1500 {
		s = s[:1500]
	}
	return s
}

// c07Decode returns (rows, err, panicText).
func c07Decode(data []byte, p *c07Pools) (rows []Row, err error, pan string) {
	defer func() {
		if r := recover(); r != nil {
			pan = fmt.Sprintf("%v\n%s", r, c07Stack())
		}
	}()
	rows, p.tags, p.flds, p.opts, p.keys, err = FastUnmarshalMultiRows(data, p.rows, p.tags, p.flds, p.opts, p.keys)
	p.rows = rows
	return
}

func c07CheckDecoded(rows []Row, want []string) string {
	if len(rows) != len(want) {
		return fmt.Sprintf("%d rows written, %d rows read", len(want), len(rows))
	}
	for i := range rows {
		got := c07Canon(&rows[i], nil, true)
		if got != want[i] {
			return fmt.Sprintf("row %d:\n  wrote %s\n  read  %s", i, want[i], got)
		}
		ik := MakeIndexKey(rows[i].Name, rows[i].Tags, nil)
		if !bytes.Equal(ik, rows[i].IndexKey) {
			return fmt.Sprintf("row %d: IndexKey % x is not the key of the decoded name and tags % x", i, rows[i].IndexKey, ik)
		}
	}
	return ""
}

type c07Runner struct {
	rep *kit.Report
	buf []byte
}

func (r *c07Runner) marshal(c *c07Case, specs []c07RowSpec) ([]byte, []string, bool) {
	rows, want := c07Expect(specs)
	var data []byte
	var err error
	pan := ""
	func() {
		defer func() {
			if p := recover(); p != nil {
				pan = fmt.Sprintf("%v\n%s", p, c07Stack())
			}
		}()
		data, err = FastMarshalMultiRows(r.buf[:0], rows)
	}()
	if pan != "" {
		r.rep.Violation("rows_marshal_panic", c.key(), pan, c)
		return nil, nil, false
	}
	if err != nil {
		r.rep.Violation("rows_marshal_error", c.key(), "marshal of accepted rows failed: "+err.Error(), c)
		return nil, nil, false
	}
	r.buf = data
	return append([]byte(nil), data...), want, true
}

func (r *c07Runner) runBatch(c *c07Case) {
	rep := r.rep
	rep.Eval(1)
	data, want, ok := r.marshal(c, c.Batches[0])
	if !ok {
		return
	}
	rows, err, pan := c07Decode(data, &c07Pools{})
	switch {
	case pan != "":
		rep.Violation("rows_unmarshal_panic", c.key(), pan, c)
		return
	case err != nil:
		rep.Violation("rows_unmarshal_error", c.key(), "decoder rejected the encoder's output: "+err.Error(), c)
		return
	}
	if d := c07CheckDecoded(rows, want); d != "" {
		rep.Violation("rows_mismatch", c.key(), d, c)
		return
	}
	if len(want) > 0 && rep.DistinctNontrivial(kit.Hash("rows", string(data))) {
		rep.Sample(2, map[string]any{"seam": "protoparser/influx", "case": c.key(), "bytes": len(data)})
	}
	// every strict byte prefix must be refused
	panics, firstPanic, firstPanicAt := 0, "", -1
	for cut := 0; cut < len(data); cut++ {
		pre := append(make([]byte, 0, cut), data[:cut]...) // exact capacity: reading past the cut faults as a panic, not silently
		rows, err, pan := c07Decode(pre, &c07Pools{})
		rep.Count("prefixes", 1)
		if pan != "" {
			panics++
			if firstPanicAt < 0 {
				firstPanicAt, firstPanic = cut, pan
			}
			continue
		}
		if err != nil {
			rep.Count("prefix_refused_with_error", 1)
			continue
		}
		// accepted: that is only tolerable if nothing is delivered
		d := c07CheckDecoded(rows, want)
		kind := "rows_prefix_decoded_as_complete_batch"
		if len(rows) > 0 && d != "" {
			kind = "rows_prefix_decoded_into_fabricated_rows"
		}
		rep.Violation(kind, fmt.Sprintf("%s/cut%d", c.key(), cut),
			fmt.Sprintf("prefix of %d/%d bytes accepted without error, %d rows returned; %s", cut, len(data), len(rows), d), c)
		return
	}
	if panics > 0 {
		rep.Count("prefix_refused_with_panic", int64(panics))
		rep.Violation("rows_truncated_input_panics", fmt.Sprintf("%s/cut%d", c.key(), firstPanicAt),
			fmt.Sprintf("%d of %d prefixes make FastUnmarshalMultiRows panic instead of returning an error (no rows are delivered); first at %d bytes: %s",
				panics, len(data), firstPanicAt, firstPanic), c)
	}
}

func (r *c07Runner) runHistory(c *c07Case) {
	rep := r.rep
	rep.Eval(1)
	pools := &c07Pools{}
	var h []string
	for bi, specs := range c.Batches {
		data, want, ok := r.marshal(c, specs)
		if !ok {
			return
		}
		h = append(h, string(data))
		pools.truncate()
		rows, err, pan := c07Decode(data, pools)
		switch {
		case pan != "":
			rep.Violation("rows_unmarshal_panic_on_reused_pools", c.key(), fmt.Sprintf("batch %d: %s", bi, pan), c)
			return
		case err != nil:
			rep.Violation("rows_unmarshal_error_on_reused_pools", c.key(), fmt.Sprintf("batch %d: %v", bi, err), c)
			return
		}
		if d := c07CheckDecoded(rows, want); d != "" {
			rep.Violation("rows_mismatch_on_reused_pools", c.key(), fmt.Sprintf("batch %d: %s", bi, d), c)
			return
		}
	}
	rep.DistinctNontrivial(kit.Hash(append([]string{"rows-history"}, h...)...))
}

func c07Templates() []c07RowSpec {
	var t []c07RowSpec
	schemas := [][]int{{gen.TInt}, {gen.TString, gen.TFloat}, {gen.TBool, gen.TInt, gen.TString}}
	for tags := 0; tags < 3; tags++ {
		for si, sch := range schemas {
			for idx := 0; idx < len(c07IdxSets); idx++ {
				t = append(t, c07RowSpec{Name: 0, Tags: tags, Schema: sch, Var: (tags + si + idx) % 2, TS: (tags + idx) % 3, Idx: idx, SK: (si + idx) % 3})
			}
		}
	}
	return t
}

func TestVerifC07Rows(t *testing.T) {
	rep := kit.NewReport("C07")
	defer rep.Save()
	r := &c07Runner{rep: rep}
	if kit.ReplayPath() != "" {
		var c c07Case
		if err := kit.LoadReplay(&c); err != nil {
			t.Fatal(err)
		}
		if c.Seam == "rows" {
			if c.Kind == "history" {
				r.runHistory(&c)
			} else {
				r.runBatch(&c)
			}
		}
		return
	}
	item := 0
	// Part A: every single-row batch of the full grammar (+ the empty batch)
	r.runBatch(&c07Case{Seam: "rows", Kind: "batch", Batches: [][]c07RowSpec{{}}})
	nsch := gen.NumSchemas(3)
	kit.Odometer([]int{len(c07Names), len(c07TagSets), nsch, 2, len(c07Times), len(c07IdxSets), 3}, func(d []int) bool {
		item++
		if !kit.Mine(item / 8) {
			return true
		}
		spec := c07RowSpec{Name: d[0], Tags: d[1], Schema: gen.SchemaAt(d[2]), Var: d[3], TS: d[4], Idx: d[5], SK: d[6]}
		r.runBatch(&c07Case{Seam: "rows", Kind: "batch", Batches: [][]c07RowSpec{{spec}}})
		return !rep.Expired()
	})
	// Part B: every batch of 2..maxRows rows over the template set; Part C: every history of 2..3 decodes on reused pools
	T := c07Templates()
	maxRows := 2
	histLen := 3
	if kit.Thorough() {
		maxRows = 3
	}
	for l := 2; l <= maxRows; l++ {
		kit.Sequences(len(T), l, func(seq []int) bool {
			item++
			if !kit.Mine(item / 4) {
				return true
			}
			b := make([]c07RowSpec, l)
			for i, x := range seq {
				b[i] = T[x]
			}
			r.runBatch(&c07Case{Seam: "rows", Kind: "batch", Batches: [][]c07RowSpec{b}})
			return !rep.Expired()
		})
	}
	for l := 2; l <= histLen; l++ {
		kit.Sequences(len(T), l, func(seq []int) bool {
			item++
			if !kit.Mine(item / 16) {
				return true
			}
			c := &c07Case{Seam: "rows", Kind: "history"}
			for i, x := range seq {
				// batches of one row, the middle one of two rows
				if i == 1 {
					c.Batches = append(c.Batches, []c07RowSpec{T[x], T[(x+7)%len(T)]})
				} else {
					c.Batches = append(c.Batches, []c07RowSpec{T[x]})
				}
			}
			r.runHistory(c)
			return !rep.Expired()
		})
	}
	rep.Max("max_row_templates", int64(len(T)))
}
