//go:build verif

// C18 — storage-layout dimension. The property speaks about "samples ingested through the remote-write endpoint" and is
// silent about where the store keeps them, so the answer must not depend on it. Every sample set is ingested under each
// layout of a small menu into its own database of a second ts-server whose segments hold 8 rows
// (`max-rows-per-segment = 8`, memtable never flushed behind our back, compaction and out-of-order merge switched off),
// so that a series of 50–81 samples reaches the prom cursors as 7–11 storage records per file, and the part of the
// grammar that reads raw samples (c18Gram.raw) is evaluated on each of them.
package promql2influxql_test

import (
	"bytes"
	"fmt"
	"net/url"
	"strings"
	"sync"
	"time"

	"github.com/prometheus/prometheus/model/labels"
	"github.com/prometheus/prometheus/model/value"
	"github.com/prometheus/prometheus/promql/parser"
)

const (
	c18LayDefault  = "default"   // default server, one remote write (memtable; one file of one segment after the 5 s cold flush)
	c18LayMemory   = "memory"    // small-segment server: one remote write, never flushed
	c18LayFlushed  = "flushed"   // one file, every series 7–11 segments
	c18LaySplit    = "split"     // older part in a file, newer part in the memtable
	c18LayTwoFiles = "two_files" // older part in file 1, newer part in file 2
	c18LayLate     = "late"      // newer part flushed first, older part written and flushed afterwards: out-of-order file
	c18LayLateMem  = "late_mem"  // newer part in a file, older part in the memtable (out-of-order rows in memory)
)

// c18SplitT: samples before it are the "older part". Scrape 37 of 81: the older part of a full series has 37 rows
// (4 segments of 8 + one of 5), so that segment boundaries of the two parts are not aligned with each other.
const c18SplitT = c18T0 + 37*c18Scrape - 1

func c18SegLayouts(tier string) []string {
	l := []string{c18LayFlushed, c18LaySplit, c18LayTwoFiles, c18LayLate}
	if tier == "thorough" {
		l = append(l, c18LayLateMem, c18LayMemory)
	}
	return l
}

// c18Plan: which part ("all", "old", "new") of the set is written in which phase; the loader flushes after phase 1 and
// after phase 2, never after phase 3.
func c18Plan(layout string) [3]string {
	switch layout {
	case c18LayMemory:
		return [3]string{"", "", "all"}
	case c18LayFlushed:
		return [3]string{"all", "", ""}
	case c18LaySplit:
		return [3]string{"old", "", "new"}
	case c18LayTwoFiles:
		return [3]string{"old", "new", ""}
	case c18LayLate:
		return [3]string{"new", "old", ""}
	case c18LayLateMem:
		return [3]string{"", "new", "old"}
	}
	c18Fatal("unknown layout %q", layout)
	return [3]string{}
}

func c18Part(set *c18Set, part string) *c18Set {
	if part == "all" {
		return set
	}
	out := &c18Set{Name: set.Name}
	for _, sr := range set.Series {
		ns := c18Series{Labels: sr.Labels}
		for _, p := range sr.Samples {
			if (p.T < c18SplitT) == (part == "old") {
				ns.Samples = append(ns.Samples, p)
			}
		}
		if len(ns.Samples) > 0 {
			out.Series = append(out.Series, ns)
		}
	}
	return out
}

func (s *c18Server) flush() {
	st, b := s.do("POST", "/debug/ctrl", url.Values{"mod": {"flush"}}, nil, nil)
	if st != 200 || !bytes.Contains(b, []byte("success")) {
		c18Fatal("flush: status %d: %s", st, b)
	}
}

// barrier: every written series is returned by a raw selector at its first and at its last non-stale sample with that
// sample's value (a time-out is a tool error, never a verdict).
func (s *c18Server) barrier(db string, set *c18Set) {
	deadline := time.Now().Add(90 * time.Second)
	for {
		ok, why := true, ""
	series:
		for _, sr := range set.Series {
			var first, last *c18Smp
			for i := range sr.Samples {
				if !value.IsStaleNaN(sr.Samples[i].V) {
					if first == nil {
						first = &sr.Samples[i]
					}
					last = &sr.Samples[i]
				}
			}
			if last == nil {
				continue
			}
			sel := fmt.Sprintf(`%s{job=%q,instance=%q}`, sr.Labels["__name__"], sr.Labels["job"], sr.Labels["instance"])
			k := c18LabelKey(sr.Labels)
			for _, p := range []*c18Smp{last, first} {
				a := s.instant(db, sel, p.T)
				if a.Err != "" || len(a.Series[k]) != 1 || !c18Close(a.Series[k][0].V, p.V) {
					ok, why = false, sel+" -> "+a.String()
					break series
				}
			}
		}
		if ok {
			return
		}
		if time.Now().After(deadline) {
			c18Fatal("visibility barrier timed out for %s: %s", db, why)
		}
		time.Sleep(100 * time.Millisecond)
	}
}

type c18DB struct {
	set    *c18Set
	layout string
	db     string
}

// c18LoadSeg ingests every (set, layout) into its database of the small-segment server in three phases with a flush of
// the whole server after phase 1 and after phase 2 (the flush is server-wide, hence the phases are common to all
// databases), then waits at the visibility barrier of every database.
func c18LoadSeg(seg *c18Server, dbs []c18DB) {
	par := func(f func(d c18DB)) {
		var wg sync.WaitGroup
		var mu sync.Mutex
		var failed any
		sem := make(chan struct{}, 6)
		for _, d := range dbs {
			wg.Add(1)
			go func(d c18DB) {
				defer wg.Done()
				defer func() {
					if p := recover(); p != nil {
						mu.Lock()
						failed = p
						mu.Unlock()
					}
				}()
				sem <- struct{}{}
				defer func() { <-sem }()
				f(d)
			}(d)
		}
		wg.Wait()
		if failed != nil {
			panic(failed)
		}
	}
	par(func(d c18DB) { seg.influx(fmt.Sprintf("create database %q", d.db), "") })
	for phase := 0; phase < 3; phase++ {
		par(func(d c18DB) {
			if part := c18Plan(d.layout)[phase]; part != "" {
				p := c18Part(d.set, part)
				seg.remoteWrite(d.db, p)
				// the rows are in the memtable when the write is acknowledged; the barrier makes sure that the series are
				// also known to the index before the memtable is turned into a file
				seg.barrier(d.db, p)
			}
		})
		if phase < 2 {
			seg.flush()
		}
	}
	par(func(d c18DB) { seg.barrier(d.db, d.set) })
}

// raw: the part of the grammar that reads raw samples — selectors, every range function x {1m, 5m} (and with an offset),
// and a few aggregations / binary operators over them. Evaluated on every storage layout.
func (g *c18Gram) raw() []string {
	var out []string
	seen := map[string]bool{}
	add := func(e string) {
		if !seen[e] {
			seen[e] = true
			out = append(out, e)
		}
	}
	thorough := g.fullL1
	sels := []string{"m", "m offset 1m", `m{job="a"}`}
	if thorough {
		sels = append(sels, "m offset 37s", "m offset -1m", `m{job!="a"}`, "n")
	}
	for _, s := range sels {
		add(s)
	}
	for _, f := range g.rfns {
		for _, r := range g.ranges {
			add(c18Call(f, "m["+r+"]"))
		}
		add(c18Call(f, "m[5m] offset 1m"))
		if thorough {
			add(c18Call(f, "m[1m] offset 1m"))
			add(c18Call(f, "m[5m] offset 37s"))
			add(c18Call(f, "m[2m15s]"))
			add(c18Call(f, `m{job="b"}[5m]`))
			add(c18Call(f, "n[5m]"))
		}
	}
	if !thorough {
		add("quantile_over_time(0.9, m[5m])")
	}
	for _, e := range []string{
		"sum (m)", "count (m offset 1m)", "sum by (job) (rate(m[1m]))", "max without (instance) (delta(m[5m]))",
		// no grouping: all series pass through one cursor one after the other (reducer state must be reset between series)
		"sum (rate(m[5m]))", "max (delta(m[1m]))", "sum (sum_over_time(m[5m]))", "min (irate(m[5m]))",
		"avg (quantile_over_time(0.5, m[5m]))", "min by (job) (changes(m[5m] offset 1m))",
		"m + n", "rate(m[1m]) / rate(n[1m])", "max_over_time(m[5m]) - min_over_time(m[5m])", "resets(m[5m]) > 0",
	} {
		add(e)
	}
	if thorough {
		for _, a := range g.aggs {
			for _, in := range []string{"m", "rate(m[5m])", "quantile_over_time(0.5, m[1m])", "stddev_over_time(m[5m] offset 1m)"} {
				add(a + " by (job) (" + in + ")")
				add(a + " (" + in + ")")
			}
		}
	}
	return out
}

// layoutKind: a mismatch on a storage layout of the small-segment server whose case is answered like upstream by the
// default server (same samples, one write, default segment size) depends on the layout, not on the language feature.
func (r *c18Runner) layoutKind(expr string, pe, blamed parser.Expr, mode string, bt int64, rq c18Range, want *c18Answer) string {
	if r.layout == c18LayDefault || r.defSrv == nil {
		return ""
	}
	agrees := false
	switch mode {
	case "instant":
		got := r.defSrv.instant(r.defDB, expr, bt)
		if got.Err == "" {
			cls, _ := r.diffInstant(pe, bt, r.ref.instant(expr, bt), got)
			agrees = cls == ""
		}
	case "range":
		got := r.defSrv.rng(r.defDB, expr, rq)
		if got.Err == "" {
			cls, _, _ := r.diffRange(pe, rq, r.ref.rng(expr, rq), got)
			agrees = cls == ""
		}
	case "range_vs_instants":
		got := r.defSrv.rng(r.defDB, expr, rq)
		if got.Err == "" {
			seq := &c18Answer{Series: map[string][]c18Point{}}
			for _, t := range rq.times() {
				a := r.defSrv.instant(r.defDB, expr, t)
				if a.Err != "" {
					return ""
				}
				for k, ps := range a.Series {
					seq.Series[k] = append(seq.Series[k], ps...)
				}
			}
			cls, _, _ := r.diffRange(pe, rq, seq, got)
			agrees = cls == ""
		}
	}
	if !agrees {
		return ""
	}
	f := c18Feature(blamed)
	if mode != "instant" {
		return "layout_changes_answer:range:" + f
	}
	return "layout_changes_answer:instant:" + f
}

// explainLayout recognises the layout-dependent defects whose mechanism is understood (each by a test on the answers, or
// - where the answer is an error - by its trigger) and returns a kind that is specific to that one defect.
func (r *c18Runner) explainLayout(blamed, pe parser.Expr, mode string, bt int64, rq c18Range, cls, diff string) string {
	if r.layout == c18LayDefault {
		return ""
	}
	ranged := mode != "instant"
	ans := func(srv *c18Server, db, e string) *c18Answer { // answer at bt in the mode of the mismatch
		if ranged {
			a := srv.rng(db, e, rq)
			if a.Err != "" {
				return a
			}
			return a.at(bt)
		}
		return srv.instant(db, e, bt)
	}
	up := func(e string) *c18Answer {
		if ranged {
			return r.ref.rng(e, rq).at(bt)
		}
		return r.ref.instant(e, bt)
	}
	// (5) a cursor that serves several series one after the other (instant-vector selector, or an aggregation whose group
	// holds several series) reads, for every series but its first, neither the out-of-order file / out-of-order memtable rows
	// nor - if the first series had no file in the time range - any file: the expression over several series is wrong, the
	// same expression restricted to any single series (matchers added to its selectors) is right
	_, isSel := blamed.(*parser.VectorSelector)
	_, isAgg := blamed.(*parser.AggregateExpr)
	if (isSel || isAgg) && bt != 0 && (r.layout == c18LayLate || r.layout == c18LayLateMem) {
		txt := blamed.String()
		wrong := func() bool {
			g := ans(r.srv, r.db, txt)
			c, _ := c18Diff(up(txt), g)
			return c != "" && g.Err == ""
		}
		if !wrong() && mode == "range_vs_instants" {
			ranged = false // the range answer is right, the instant answer at bt is not
		}
		alone, n := wrong(), 0
		seen := map[string]bool{}
		for _, sr := range r.set.Series {
			lk := sr.Labels["job"] + "/" + sr.Labels["instance"]
			if seen[lk] {
				continue
			}
			seen[lk] = true
			one, err := parser.ParseExpr(txt)
			if err != nil {
				return ""
			}
			parser.Inspect(one, func(nd parser.Node, _ []parser.Node) error {
				if vs, ok := nd.(*parser.VectorSelector); ok {
					for _, l := range []string{"job", "instance"} {
						vs.LabelMatchers = append(vs.LabelMatchers, labels.MustNewMatcher(labels.MatchEqual, l, sr.Labels[l]))
					}
				}
				return nil
			})
			w := up(one.String())
			if w.Err != "" || w.empty() {
				continue
			}
			n++
			g := ans(r.srv, r.db, one.String())
			if c, _ := c18Diff(w, g); c != "" || g.Err != "" {
				alone = false
			}
		}
		// (at bt only one of the series may have samples in its window: the cursor is still shared with the series that
		// the query's whole time range selects)
		if alone && n >= 1 && len(seen) >= 2 {
			return "later_series_of_reused_cursor_miss_out_of_order_rows"
		}
	}
	call, isCall := blamed.(*parser.Call)
	// a range function somewhere below the blamed node (the blame stops above it when the failing step is unknown - a point
	// that is no step of the query - or when every operand alone is right at that step): the trigger-based kinds (8), (9)
	var anyMS *parser.MatrixSelector
	parser.Inspect(blamed, func(nd parser.Node, _ []parser.Node) error {
		if m, ok := nd.(*parser.MatrixSelector); ok && anyMS == nil {
			anyMS = m
		}
		return nil
	})
	// (6) range query whose end is not on the step grid: the store also reads the samples after the last step; when they are
	// the only rows of a trailing storage record the last step is lost (or repeated). The same query with the end moved to
	// its last step is answered like upstream.
	if ranged && rq.Step > 0 && (rq.End-rq.Start)%rq.Step != 0 && bt != 0 {
		al := rq
		al.End = rq.Start + (rq.End-rq.Start)/rq.Step*rq.Step
		w, g := r.ref.rng(blamed.String(), al), r.srv.rng(r.db, blamed.String(), al)
		if g.Err == "" && w.Err == "" {
			if c, _, _ := r.diffRange(blamed, al, w, g); c == "" {
				return "range_end_off_step_grid_changes_answer"
			}
		}
	}
	// (7) resets() answers 0 for evaluation steps between two storage records whose window holds no sample
	if isCall && call.Func.Name == "resets" && bt != 0 {
		w, g := up(blamed.String()), ans(r.srv, r.db, blamed.String())
		if g.Err == "" {
			extraZero, other := 0, 0
			for k, gp := range g.Series {
				wp := w.Series[k]
				switch {
				case len(wp) == 0 && len(gp) == 1 && gp[0].V == 0:
					extraZero++
				case len(wp) == len(gp) && (len(gp) == 0 || c18Close(wp[0].V, gp[0].V)):
				default:
					other++
				}
			}
			for k, wp := range w.Series {
				if len(wp) > 0 && len(g.Series[k]) == 0 {
					other++
				}
			}
			if extraZero > 0 && other == 0 {
				return "resets_zero_for_empty_window_between_records"
			}
		}
	}
	// (8) stale markers: whether a window continues in the next storage record and whether a record is the last one of its
	// series is decided before the markers are removed. Recognised by its trigger: a range function over a metric one of
	// whose series holds a stale marker (and the one-record default layout answers like upstream: see the caller).
	if anyMS != nil {
		stale := map[string]bool{} // "job/instance" of the series of the selector's metric that hold a marker
		name := anyMS.VectorSelector.(*parser.VectorSelector).Name
		for _, sr := range r.set.Series {
			if sr.Labels["__name__"] != name {
				continue
			}
			for _, p := range sr.Samples {
				if value.IsStaleNaN(p.V) {
					stale[sr.Labels["job"]+"/"+sr.Labels["instance"]] = true
				}
			}
		}
		// (with one cursor for all series the damage is not confined to the series that holds the marker: a record of markers
		// only leaves prevStep = 0 in the shared reducer and the next series pads from the epoch)
		if len(stale) > 0 {
			return "stale_marker_decides_record_continuation"
		}
	}
	// (9) range query of a range function with step > range: IsSameStep puts a sample whose time is exactly a step into the
	// window of the following step, so a window that ends on the first row of the next storage record is evaluated twice
	// (wrong value, or a repeated timestamp = the error "same labelset"); and (floatIncAggReducer) a last record whose rows
	// lie in no window pads steps from the Unix epoch (same error). Recognised by the trigger step > range on a layout with
	// several records per series (the one-record default layout is answered like upstream: see the caller).
	if anyMS != nil && ranged && rq.Step > anyMS.Range.Milliseconds() {
		return "range_step_gt_range_window_across_records"
	}
	return ""
}

func c18LayoutList(s string) []string {
	var out []string
	for _, l := range strings.Split(s, ",") {
		if l = strings.TrimSpace(l); l != "" {
			out = append(out, l)
		}
	}
	return out
}
