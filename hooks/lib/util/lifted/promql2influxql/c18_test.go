//go:build verif

// C18 — PromQL queries return what Prometheus itself returns on the same samples.
//
// Black-box differential harness. The worker talks HTTP to a ts-server started by lib/checks/c18.py
// (VERIF_SERVER_URL), writes generated sample sets through the Prometheus remote-write endpoint, evaluates every
// expression of a finite grammar with the UPSTREAM engine (github.com/prometheus/prometheus/promql, the version
// pinned in go.mod) over the same samples, sends the same expression to /api/v1/query and /api/v1/query_range and
// compares series sets, label sets, timestamps and values (1e-9 relative, NaN == NaN). Nothing is random.
package promql2influxql_test

import (
	"bytes"
	"context"
	"encoding/json"
	"fmt"
	"io"
	"math"
	"net/http"
	"net/url"
	"os"
	"regexp"
	"sort"
	"strconv"
	"strings"
	"sync"
	"testing"
	"time"

	"github.com/golang/snappy"
	kit "github.com/openGemini/openGemini/lib/verifkit"
	"github.com/prometheus/prometheus/model/histogram"
	"github.com/prometheus/prometheus/model/labels"
	"github.com/prometheus/prometheus/model/value"
	"github.com/prometheus/prometheus/prompb"
	"github.com/prometheus/prometheus/promql"
	"github.com/prometheus/prometheus/promql/parser"
	"github.com/prometheus/prometheus/storage"
	"github.com/prometheus/prometheus/tsdb/chunkenc"
	"github.com/prometheus/prometheus/tsdb/chunks"
	"github.com/prometheus/prometheus/util/annotations"
)

// ---------------------------------------------------------------------------------------------------------------
// sample sets
// ---------------------------------------------------------------------------------------------------------------

const (
	c18T0       = int64(1_700_000_000_000) // ms; not aligned to minutes (mod 60 s = 20 s), inside one shard group
	c18Scrape   = int64(15_000)
	c18Lookback = 5 * time.Minute // promql2influxql.DefaultLookBackDelta (asserted in the test)
	c18Scrapes  = 81              // T0 .. T0+20m
)

type c18Smp struct {
	T int64   `json:"t"` // ms
	V float64 `json:"-"`
	S string  `json:"v"` // text form of V ("NaN", "stale", "+Inf" …) so that a replay file is exact
}

type c18Series struct {
	Labels  map[string]string `json:"labels"` // includes __name__
	Samples []c18Smp          `json:"samples"`
}

type c18Set struct {
	Name   string      `json:"name"`
	Series []c18Series `json:"series"`
}

func c18Val(v float64) string {
	if value.IsStaleNaN(v) {
		return "stale"
	}
	return strconv.FormatFloat(v, 'g', -1, 64)
}

func c18ParseVal(s string) float64 {
	if s == "stale" {
		return math.Float64frombits(value.StaleNaN)
	}
	f, err := strconv.ParseFloat(s, 64)
	if err != nil {
		panic("bad sample value " + s)
	}
	return f
}

func c18MkSeries(name, job string, n int, f func(i int) (ok bool, dt int64, v float64)) c18Series {
	s := c18Series{Labels: map[string]string{"__name__": name, "job": job, "instance": "x"}}
	for i := 0; i < n; i++ {
		ok, dt, v := f(i)
		if !ok {
			continue
		}
		s.Samples = append(s.Samples, c18Smp{T: c18T0 + int64(i)*c18Scrape + dt, V: v, S: c18Val(v)})
	}
	return s
}

// second metric n: present in every set; gauge with zeros (division by zero), same label sets as m.
func c18MetricN() []c18Series {
	return []c18Series{
		c18MkSeries("n", "a", c18Scrapes, func(i int) (bool, int64, float64) { return true, 0, float64((i*5)%7) - 2 }),
		c18MkSeries("n", "b", c18Scrapes, func(i int) (bool, int64, float64) { return true, 0, 4 + float64(i%3)*0.25 }),
	}
}

func c18Sets() []c18Set {
	stale := math.Float64frombits(value.StaleNaN)
	sets := []c18Set{
		{Name: "counter_reset", Series: []c18Series{
			// a: +10 per scrape, reset to 0 at scrape 36 (T0+9m); b: +3 per scrape from 100, reset to 5 at scrape 54
			c18MkSeries("m", "a", c18Scrapes, func(i int) (bool, int64, float64) {
				if i < 36 {
					return true, 0, float64(10 * i)
				}
				return true, 0, float64(10 * (i - 36))
			}),
			c18MkSeries("m", "b", c18Scrapes, func(i int) (bool, int64, float64) {
				if i < 54 {
					return true, 0, 100 + float64(3*i)
				}
				return true, 0, 5 + 2.5*float64(i-54)
			}),
		}},
		{Name: "gap", Series: []c18Series{
			// a: samples T0..T0+5m, nothing for 7 minutes (> look-back), again from T0+12m; b: gap of 4m (< look-back)
			c18MkSeries("m", "a", c18Scrapes, func(i int) (bool, int64, float64) {
				return i <= 20 || i >= 48, 0, float64((i*37)%23) - 11 + 0.5*float64(i%2)
			}),
			c18MkSeries("m", "b", c18Scrapes, func(i int) (bool, int64, float64) {
				return i <= 24 || i >= 40, 0, 50 + float64(i)*1.5
			}),
		}},
		{Name: "irregular", Series: []c18Series{
			// jittered scrape times (ms resolution), dropped scrapes; gauge values
			c18MkSeries("m", "a", c18Scrapes, func(i int) (bool, int64, float64) {
				return i%7 != 3, int64((i*7919)%4001) - 2000, float64((i*29)%31)*0.75 - 6
			}),
			c18MkSeries("m", "b", c18Scrapes, func(i int) (bool, int64, float64) {
				return i%5 != 4, int64((i*104729)%6001) - 3000, 1000 - float64(i*i%97)
			}),
			// third series whose job value contains the others as substrings: regex matchers must be anchored
			c18MkSeries("m", "ab", c18Scrapes, func(i int) (bool, int64, float64) {
				return i%3 != 1, int64((i*31)%2001) - 1000, 0.125 * float64((i*11)%41)
			}),
		}},
		{Name: "gauge", Series: []c18Series{
			c18MkSeries("m", "a", c18Scrapes, func(i int) (bool, int64, float64) {
				return true, 0, float64((i*37)%23) - 11 + 0.5*float64(i%2)
			}),
			c18MkSeries("m", "b", c18Scrapes, func(i int) (bool, int64, float64) {
				return true, 0, 2.5 * float64((i*13)%17)
			}),
		}},
		{Name: "stale", Series: []c18Series{
			// a: stale marker at scrape 32 (T0+8m), absent until it returns at scrape 44 (T0+11m); b: plain counter
			c18MkSeries("m", "a", c18Scrapes, func(i int) (bool, int64, float64) {
				if i == 32 {
					return true, 0, stale
				}
				return i < 32 || i >= 44, 0, float64(7 * i)
			}),
			c18MkSeries("m", "b", c18Scrapes, func(i int) (bool, int64, float64) { return true, 0, float64(2 * i) }),
		}},
	}
	for i := range sets {
		sets[i].Series = append(sets[i].Series, c18MetricN()...)
	}
	return sets
}

// ---------------------------------------------------------------------------------------------------------------
// evaluation times: two range queries per expression; every step is also asked as an instant query
// ---------------------------------------------------------------------------------------------------------------

type c18Range struct {
	Start, End, Step int64 // ms
	Instants         bool  // every step is also asked as an instant query (and range == sequence of instants is checked)
	SegInstants      bool  // ... also on the storage layouts of the small-segment server (budget: range B only)
}

func c18Ranges() []c18Range {
	return []c18Range{
		// A: hits sample timestamps (scrape = 15 s): T0-1m … T0+21m every 2 m (before first sample, inside, after last); step > scrape
		{Start: c18T0 - 60_000, End: c18T0 + 21*60_000, Step: 120_000, Instants: true},
		// B: misses them: T0+4m07.3s … every 47 s, 16 steps; step > scrape
		{Start: c18T0 + 4*60_000 + 7_300, End: c18T0 + 4*60_000 + 7_300 + 15*47_000, Step: 47_000, Instants: true, SegInstants: true},
		// C: step 5 s < scrape interval, T0-30s … T0+20m30s (253 steps; every third one on a sample timestamp): several
		// evaluation steps between two consecutive samples, hence between two storage records
		{Start: c18T0 - 30_000, End: c18T0 + 20*60_000 + 30_000, Step: 5_000},
		// D: step 15 s = scrape interval, T0+7s … (81 steps, never on a sample timestamp of the regular sets)
		{Start: c18T0 + 7_000, End: c18T0 + 7_000 + 80*15_000, Step: 15_000},
		// E: B's steps with an end that is not on the step grid (20 s after the last step): the store reads one more sample,
		// which belongs to no step
		{Start: c18T0 + 4*60_000 + 7_300, End: c18T0 + 4*60_000 + 7_300 + 15*47_000 + 20_000, Step: 47_000},
	}
}

func (r c18Range) times() []int64 {
	var ts []int64
	for t := r.Start; t <= r.End; t += r.Step {
		ts = append(ts, t)
	}
	return ts
}

// ---------------------------------------------------------------------------------------------------------------
// expression grammar (odometer over finite domains)
// ---------------------------------------------------------------------------------------------------------------

type c18Gram struct {
	matchers  []string // appended to the metric name
	offsets   []string
	rfns      []string
	ranges    []string
	aggs      []string
	groupings []string
	ops       []string // binary operator incl. optional bool
	scalars   []string
	matchings []string
	fullL1    bool // every matcher x offset under every range function
}

var c18RFns = []string{"rate", "increase", "delta", "irate", "idelta", "avg_over_time", "min_over_time", "max_over_time",
	"sum_over_time", "count_over_time", "last_over_time", "stddev_over_time", "stdvar_over_time",
	// functions whose reducers carry the raw samples of the previous storage record (engine/prom_functions.go, slice reducers)
	"quantile_over_time(0.5, %s)", "changes", "resets", "deriv", "predict_linear(%s, 90)", "present_over_time"}

// c18RFnsMore: thorough only.
var c18RFnsMore = []string{"quantile_over_time(0.9, %s)", "holt_winters(%s, 0.5, 0.25)", "mad_over_time", "absent_over_time"}

// c18Call applies a range function (a name, or a template with %s for the matrix selector) to a matrix selector.
func c18Call(f, sel string) string {
	if strings.Contains(f, "%s") {
		return fmt.Sprintf(f, sel)
	}
	return f + "(" + sel + ")"
}

func c18Grammar(tier string) *c18Gram {
	g := &c18Gram{
		matchers:  []string{``, `{job="a"}`, `{job!="a"}`, `{job=~"a|b"}`, `{job!~"a"}`},
		offsets:   []string{``, ` offset 1m`},
		rfns:      c18RFns,
		ranges:    []string{"1m", "5m"},
		aggs:      []string{"sum", "avg", "min", "max", "count"},
		groupings: []string{"", " by (job)", " by (instance)", " without (job)", " without (instance)"},
		ops:       []string{"+", "-", "*", "/", ">", "==", "> bool", "== bool"},
		scalars:   []string{"2"},
		matchings: []string{"", " on (job)", " ignoring (instance)"},
	}
	if tier == "thorough" {
		g.matchers = append(g.matchers, `{job=~"b.*"}`, `{job="c"}`, `{instance="x",job=~".+"}`, `{job=""}`, `{instance!~"y|z",job!="b"}`)
		g.offsets = append(g.offsets, ` offset 37s`, ` offset -1m`)
		g.rfns = append(append([]string{}, c18RFns...), c18RFnsMore...)
		g.scalars = []string{"2", "0"}
		g.ops = append(g.ops, "%", "^", "<", ">=", "<=", "!=", "< bool", "!= bool")
		g.fullL1 = true
	}
	return g
}

func (g *c18Gram) sel(metric string, mi, oi int, rng string) string {
	s := metric + g.matchers[mi]
	if rng != "" {
		s += "[" + rng + "]"
	}
	return s + g.offsets[oi]
}

// all enumerates the expression texts of the grammar in a fixed order, without duplicates.
func (g *c18Gram) all() []string {
	var out []string
	seen := map[string]bool{}
	add := func(e string) {
		if !seen[e] {
			seen[e] = true
			out = append(out, e)
		}
	}
	// L0: selectors
	for mi := range g.matchers {
		for oi := range g.offsets {
			add(g.sel("m", mi, oi, ""))
		}
	}
	add(`{__name__="m"}`)
	add(`{__name__="m",job="b"}`)
	add(`{__name__=~"m|n",job="a"}`)
	// L1: range functions
	for _, f := range g.rfns {
		for _, r := range g.ranges {
			for mi := range g.matchers {
				for oi := range g.offsets {
					if g.fullL1 || mi == 0 || (oi == 0 && r == g.ranges[0]) {
						add(c18Call(f, g.sel("m", mi, oi, r)))
					}
				}
			}
		}
	}
	// inner operands for aggregation / binary operators
	innerFns := append(append([]string{}, c18RFns[:13]...), "changes", "resets", "present_over_time")
	if !g.fullL1 {
		innerFns = g.rfns
	}
	inner := func(metric string, wide bool) []string {
		in := []string{metric}
		for _, f := range innerFns {
			in = append(in, c18Call(f, metric+"["+g.ranges[0]+"]"))
		}
		if wide {
			in = append(in, metric+g.offsets[1], metric+`{job=~"a|b"}`)
			for _, f := range innerFns {
				in = append(in, c18Call(f, metric+"["+g.ranges[1]+"]"+g.offsets[1]))
			}
		}
		return in
	}
	short := func(metric string) []string {
		return []string{metric, "rate(" + metric + "[1m])", "max_over_time(" + metric + "[5m])", "delta(" + metric + "[5m] offset 1m)"}
	}
	thorough := g.fullL1
	// L2: aggregations
	aggIn := inner("m", thorough)
	if thorough {
		for _, o := range g.offsets[2:] {
			aggIn = append(aggIn, "m"+o, "rate(m[1m]"+o+")")
		}
	}
	if !thorough {
		aggIn = []string{"m", "m offset 1m", `m{job=~"a|b"}`, "rate(m[1m])", "delta(m[5m])", "avg_over_time(m[1m] offset 1m)"}
	}
	for _, a := range g.aggs {
		for _, gr := range g.groupings {
			for _, in := range aggIn {
				add(a + gr + " (" + in + ")")
			}
		}
	}
	// L2: vector <op> scalar, scalar <op> vector
	scIn := short("m")
	if thorough {
		scIn = inner("m", false)
	}
	for _, op := range g.ops {
		for _, sc := range g.scalars {
			for _, in := range scIn {
				add(in + " " + op + " " + sc)
				add(sc + " " + op + " " + in)
			}
		}
	}
	// L2: vector <op> vector
	pairs := [][2]string{{"m", "n"}, {"rate(m[1m])", "rate(n[1m])"}, {"m", "m offset 1m"}}
	if thorough {
		pairs = pairs[:0]
		im, in := inner("m", false), inner("n", false)
		for i := range im {
			pairs = append(pairs, [2]string{im[i], in[i]})
		}
		pairs = append(pairs, [2]string{"m", "m offset 1m"}, [2]string{"rate(m[1m])", "rate(m[5m])"}, [2]string{`m{job="a"}`, `n`})
	}
	for _, op := range g.ops {
		for _, mt := range g.matchings {
			for _, p := range pairs {
				add(p[0] + " " + op + mt + " " + p[1])
			}
		}
	}
	// depth 2 mixtures: aggregation over a binary expression, binary expression over aggregations
	for _, a := range g.aggs {
		for _, gr := range []string{"", " by (job)", " without (instance)"} {
			for _, in := range []string{"m * 2", "m > 2", "m + n", "rate(m[1m]) / rate(n[1m])"} {
				add(a + gr + " (" + in + ")")
			}
		}
	}
	for _, op := range g.ops {
		add("sum by (job) (m) " + op + " 2")
		add("sum by (job) (m) " + op + " sum by (job) (n)")
		add("sum (m) " + op + " sum (n)")
		add("avg without (instance) (rate(m[1m])) " + op + " max without (instance) (n)")
	}
	return out
}

// ---------------------------------------------------------------------------------------------------------------
// upstream engine over the same samples
// ---------------------------------------------------------------------------------------------------------------

type c18Sample struct {
	t int64
	f float64
}

func (s c18Sample) T() int64                      { return s.t }
func (s c18Sample) F() float64                    { return s.f }
func (s c18Sample) H() *histogram.Histogram       { return nil }
func (s c18Sample) FH() *histogram.FloatHistogram { return nil }
func (s c18Sample) Type() chunkenc.ValueType      { return chunkenc.ValFloat }

type c18Queryable struct{ set *c18Set }

func (q c18Queryable) Querier(mint, maxt int64) (storage.Querier, error) {
	return &c18Querier{set: q.set, mint: mint, maxt: maxt}, nil
}

type c18Querier struct {
	set        *c18Set
	mint, maxt int64
}

func (q *c18Querier) LabelValues(context.Context, string, ...*labels.Matcher) ([]string, annotations.Annotations, error) {
	return nil, nil, nil
}
func (q *c18Querier) LabelNames(context.Context, ...*labels.Matcher) ([]string, annotations.Annotations, error) {
	return nil, nil, nil
}
func (q *c18Querier) Close() error { return nil }

// Select behaves like the TSDB querier: series whose labels satisfy all matchers, samples trimmed to the closed
// interval [mint, maxt] of the select hints (or of the querier when there are no hints).
func (q *c18Querier) Select(_ context.Context, _ bool, hints *storage.SelectHints, ms ...*labels.Matcher) storage.SeriesSet {
	mint, maxt := q.mint, q.maxt
	if hints != nil {
		mint, maxt = hints.Start, hints.End
	}
	var out []storage.Series
	for _, s := range q.set.Series {
		lset := labels.FromMap(s.Labels)
		ok := true
		for _, m := range ms {
			if !m.Matches(lset.Get(m.Name)) {
				ok = false
				break
			}
		}
		if !ok {
			continue
		}
		var smp []chunks.Sample
		for _, p := range s.Samples {
			if p.T >= mint && p.T <= maxt {
				smp = append(smp, c18Sample{p.T, p.V})
			}
		}
		out = append(out, storage.NewListSeries(lset, smp))
	}
	sort.Slice(out, func(i, j int) bool { return labels.Compare(out[i].Labels(), out[j].Labels()) < 0 })
	return &c18SeriesSet{s: out, i: -1}
}

type c18SeriesSet struct {
	s []storage.Series
	i int
}

func (s *c18SeriesSet) Next() bool                        { s.i++; return s.i < len(s.s) }
func (s *c18SeriesSet) At() storage.Series                { return s.s[s.i] }
func (s *c18SeriesSet) Err() error                        { return nil }
func (s *c18SeriesSet) Warnings() annotations.Annotations { return nil }

// ---------------------------------------------------------------------------------------------------------------
// normalised answers
// ---------------------------------------------------------------------------------------------------------------

type c18Point struct {
	T int64 // ms
	V float64
}

// c18Answer: series key (sorted label text) -> points in time order. Scalars use the key "<scalar>".
type c18Answer struct {
	Err     string
	ErrType string
	Status  int
	Series  map[string][]c18Point
}

func c18LabelKey(m map[string]string) string {
	ks := make([]string, 0, len(m))
	for k := range m {
		ks = append(ks, k)
	}
	sort.Strings(ks)
	var b strings.Builder
	b.WriteByte('{')
	for i, k := range ks {
		if i > 0 {
			b.WriteByte(',')
		}
		b.WriteString(k + "=" + strconv.Quote(m[k]))
	}
	b.WriteByte('}')
	return b.String()
}

func (a *c18Answer) empty() bool {
	for _, p := range a.Series {
		if len(p) > 0 {
			return false
		}
	}
	return true
}

func (a *c18Answer) String() string {
	if a.Err != "" {
		return fmt.Sprintf("error(%d %s): %s", a.Status, a.ErrType, a.Err)
	}
	ks := make([]string, 0, len(a.Series))
	for k := range a.Series {
		ks = append(ks, k)
	}
	sort.Strings(ks)
	var b strings.Builder
	for _, k := range ks {
		b.WriteString(k + " =>")
		for _, p := range a.Series[k] {
			b.WriteString(fmt.Sprintf(" %s@%.3f", c18Val(p.V), float64(p.T)/1000))
		}
		b.WriteString("; ")
	}
	if len(ks) == 0 {
		return "(empty)"
	}
	return b.String()
}

// at restricts a (range) answer to one timestamp.
func (a *c18Answer) at(t int64) *c18Answer {
	r := &c18Answer{Series: map[string][]c18Point{}}
	for k, ps := range a.Series {
		for _, p := range ps {
			if p.T == t {
				r.Series[k] = append(r.Series[k], p)
			}
		}
	}
	return r
}

func c18Close(a, b float64) bool {
	if math.IsNaN(a) || math.IsNaN(b) {
		return math.IsNaN(a) && math.IsNaN(b)
	}
	if a == b {
		return true
	}
	if math.IsInf(a, 0) || math.IsInf(b, 0) {
		return false
	}
	d := math.Abs(a - b)
	return d <= 1e-9*math.Max(math.Abs(a), math.Abs(b)) || d <= 1e-12
}

// c18Diff returns "" when equal, otherwise (difference class, text).
func c18Diff(want, got *c18Answer) (string, string) {
	var wk, gk []string
	for k, p := range want.Series {
		if len(p) > 0 {
			wk = append(wk, k)
		}
	}
	for k, p := range got.Series {
		if len(p) > 0 {
			gk = append(gk, k)
		}
	}
	sort.Strings(wk)
	sort.Strings(gk)
	if strings.Join(wk, "") != strings.Join(gk, "") {
		missing, extra := []string{}, []string{}
		for _, k := range wk {
			if len(got.Series[k]) == 0 {
				missing = append(missing, k)
			}
		}
		for _, k := range gk {
			if len(want.Series[k]) == 0 {
				extra = append(extra, k)
			}
		}
		cls := "labels_differ"
		switch {
		case len(missing) > 0 && len(extra) == 0:
			cls = "series_missing"
		case len(extra) > 0 && len(missing) == 0:
			cls = "series_extra"
		}
		return cls, fmt.Sprintf("missing=%v extra=%v", missing, extra)
	}
	for _, k := range wk {
		w, g := want.Series[k], got.Series[k]
		if len(w) != len(g) {
			return "points_differ", fmt.Sprintf("%s: %d points expected, %d returned", k, len(w), len(g))
		}
		for i := range w {
			if w[i].T != g[i].T {
				return "timestamp_differs", fmt.Sprintf("%s: point %d at %d expected, %d returned", k, i, w[i].T, g[i].T)
			}
		}
		for i := range w {
			if !c18Close(w[i].V, g[i].V) {
				return "value_differs", fmt.Sprintf("%s@%.3f: expected %s, returned %s", k, float64(w[i].T)/1000, c18Val(w[i].V), c18Val(g[i].V))
			}
		}
	}
	return "", ""
}

// ---------------------------------------------------------------------------------------------------------------
// upstream evaluation
// ---------------------------------------------------------------------------------------------------------------

type c18Ref struct {
	eng   *promql.Engine
	q     c18Queryable
	cache map[string]*c18Answer // upstream answers do not depend on the storage layout: computed once per (expression, time / range)
}

func c18NewRef(set *c18Set) *c18Ref {
	eng := promql.NewEngine(promql.EngineOpts{MaxSamples: 50_000_000, Timeout: time.Minute, LookbackDelta: c18Lookback,
		EnableAtModifier: true, EnableNegativeOffset: true})
	return &c18Ref{eng: eng, q: c18Queryable{set}, cache: map[string]*c18Answer{}}
}

func c18FromResult(res *promql.Result, instantT int64) *c18Answer {
	a := &c18Answer{Series: map[string][]c18Point{}}
	if res.Err != nil {
		a.Err = res.Err.Error()
		return a
	}
	switch v := res.Value.(type) {
	case promql.Vector:
		for _, s := range v {
			if s.H != nil {
				continue
			}
			k := c18LabelKey(s.Metric.Map())
			a.Series[k] = append(a.Series[k], c18Point{s.T, s.F})
		}
	case promql.Matrix:
		for _, s := range v {
			k := c18LabelKey(s.Metric.Map())
			for _, p := range s.Floats {
				a.Series[k] = append(a.Series[k], c18Point{p.T, p.F})
			}
		}
	case promql.Scalar:
		a.Series["<scalar>"] = []c18Point{{v.T, v.V}}
	default:
		a.Err = fmt.Sprintf("unexpected upstream value type %T", res.Value)
	}
	return a
}

func (r *c18Ref) instant(expr string, t int64) *c18Answer {
	key := expr + "@" + strconv.FormatInt(t, 10)
	if a, ok := r.cache[key]; ok {
		return a
	}
	a := r.instant1(expr, t)
	r.cache[key] = a
	return a
}

func (r *c18Ref) rng(expr string, rq c18Range) *c18Answer {
	key := fmt.Sprintf("%s@%d,%d,%d", expr, rq.Start, rq.End, rq.Step)
	if a, ok := r.cache[key]; ok {
		return a
	}
	a := r.rng1(expr, rq)
	r.cache[key] = a
	return a
}

func (r *c18Ref) instant1(expr string, t int64) *c18Answer {
	q, err := r.eng.NewInstantQuery(context.Background(), r.q, nil, expr, time.UnixMilli(t))
	if err != nil {
		return &c18Answer{Err: err.Error()}
	}
	defer q.Close()
	return c18FromResult(q.Exec(context.Background()), t)
}

func (r *c18Ref) rng1(expr string, rq c18Range) *c18Answer {
	q, err := r.eng.NewRangeQuery(context.Background(), r.q, nil, expr, time.UnixMilli(rq.Start), time.UnixMilli(rq.End),
		time.Duration(rq.Step)*time.Millisecond)
	if err != nil {
		return &c18Answer{Err: err.Error()}
	}
	defer q.Close()
	return c18FromResult(q.Exec(context.Background()), 0)
}

// ---------------------------------------------------------------------------------------------------------------
// server side
// ---------------------------------------------------------------------------------------------------------------

type c18ToolError struct{ msg string }

type c18Server struct {
	url string
	hc  *http.Client
	cur c18Case // the PromQL query in flight (Expr, Mode, T / Start, End, Step), for c18ServerDied
}

// c18ServerDied: the server stopped answering (no /ping any more) while the query q was in flight. Not a tool error: a
// query that kills the server is a wrong answer. Which of the queries in flight killed it is decided by lib/checks/c18.py,
// which replays every candidate alone against a fresh server.
type c18ServerDied struct {
	srv *c18Server
	q   c18Case
	err string
}

func (s *c18Server) alive() bool {
	hc := &http.Client{Timeout: 2 * time.Second}
	for i := 0; i < 8; i++ {
		if resp, err := hc.Get(s.url + "/ping"); err == nil {
			resp.Body.Close()
			return true
		}
		time.Sleep(500 * time.Millisecond)
	}
	return false
}

func c18Fatal(format string, a ...any) {
	panic(c18ToolError{fmt.Sprintf(format, a...)})
}

func (s *c18Server) do(method, path string, q url.Values, body []byte, hdr map[string]string) (int, []byte) {
	u := s.url + path
	if len(q) > 0 {
		u += "?" + q.Encode()
	}
	var lastErr error
	for attempt := 0; attempt < 3; attempt++ {
		var rd io.Reader
		if body != nil {
			rd = bytes.NewReader(body)
		}
		req, err := http.NewRequest(method, u, rd)
		if err != nil {
			c18Fatal("request: %v", err)
		}
		for k, v := range hdr {
			req.Header.Set(k, v)
		}
		resp, err := s.hc.Do(req)
		if err != nil {
			lastErr = err
			time.Sleep(200 * time.Millisecond)
			continue
		}
		b, err := io.ReadAll(resp.Body)
		resp.Body.Close()
		if err != nil {
			lastErr = err
			continue
		}
		return resp.StatusCode, b
	}
	if strings.HasPrefix(path, "/api/v1/query") && !s.alive() {
		panic(c18ServerDied{srv: s, q: s.cur, err: fmt.Sprint(lastErr)})
	}
	c18Fatal("HTTP %s %s: %v", method, path, lastErr)
	return 0, nil
}

func (s *c18Server) influx(q, db string) {
	v := url.Values{"q": {q}}
	if db != "" {
		v.Set("db", db)
	}
	st, b := s.do("POST", "/query", v, nil, nil)
	if st != 200 || bytes.Contains(b, []byte(`"error"`)) {
		c18Fatal("influxql %q: status %d: %s", q, st, b)
	}
}

func (s *c18Server) remoteWrite(db string, set *c18Set) {
	var wr prompb.WriteRequest
	for _, sr := range set.Series {
		ts := prompb.TimeSeries{}
		ks := make([]string, 0, len(sr.Labels))
		for k := range sr.Labels {
			ks = append(ks, k)
		}
		sort.Strings(ks)
		for _, k := range ks {
			ts.Labels = append(ts.Labels, prompb.Label{Name: k, Value: sr.Labels[k]})
		}
		for _, p := range sr.Samples {
			ts.Samples = append(ts.Samples, prompb.Sample{Timestamp: p.T, Value: p.V})
		}
		wr.Timeseries = append(wr.Timeseries, ts)
	}
	raw, err := wr.Marshal()
	if err != nil {
		c18Fatal("marshal: %v", err)
	}
	// a 5xx on the first write into a brand-new database ("shard group not found") is a transient condition of the
	// catalogue; the write is idempotent (same series, timestamps, values), so it is simply repeated
	var st int
	var b []byte
	for attempt := 0; attempt < 40; attempt++ {
		st, b = s.do("POST", "/api/v1/write", url.Values{"db": {db}}, snappy.Encode(nil, raw),
			map[string]string{"Content-Encoding": "snappy", "Content-Type": "application/x-protobuf", "X-Prometheus-Remote-Write-Version": "0.1.0"})
		if st < 500 {
			break
		}
		time.Sleep(250 * time.Millisecond)
	}
	if st != 204 && st != 200 {
		c18Fatal("remote write to %s: status %d: %s", db, st, b)
	}
}

func c18Sec(ms int64) string {
	return strconv.FormatInt(ms/1000, 10) + "." + fmt.Sprintf("%03d", ms%1000)
}

type c18PromResp struct {
	Status    string `json:"status"`
	ErrorType string `json:"errorType"`
	Error     string `json:"error"`
	Data      struct {
		ResultType string          `json:"resultType"`
		Result     json.RawMessage `json:"result"`
	} `json:"data"`
}

func c18ParsePoint(raw []json.RawMessage) (c18Point, error) {
	if len(raw) != 2 {
		return c18Point{}, fmt.Errorf("point with %d members", len(raw))
	}
	var tf float64
	if err := json.Unmarshal(raw[0], &tf); err != nil {
		return c18Point{}, err
	}
	var vs string
	if err := json.Unmarshal(raw[1], &vs); err != nil {
		return c18Point{}, err
	}
	v, err := strconv.ParseFloat(vs, 64)
	if err != nil {
		return c18Point{}, err
	}
	return c18Point{T: int64(math.Round(tf * 1000)), V: v}, nil
}

func c18ParseServer(st int, body []byte) *c18Answer {
	a := &c18Answer{Status: st, Series: map[string][]c18Point{}}
	var r c18PromResp
	if err := json.Unmarshal(body, &r); err != nil {
		a.Err, a.ErrType = "undecodable answer: "+string(body), "undecodable"
		return a
	}
	if r.Status != "success" {
		a.Err, a.ErrType = r.Error, r.ErrorType
		if a.Err == "" {
			a.Err = string(body)
		}
		return a
	}
	bad := func(err error) *c18Answer {
		a.Err, a.ErrType = "undecodable result: "+err.Error()+": "+string(body), "undecodable"
		return a
	}
	switch r.Data.ResultType {
	case "vector":
		var v []struct {
			Metric map[string]string `json:"metric"`
			Value  []json.RawMessage `json:"value"`
		}
		if err := json.Unmarshal(r.Data.Result, &v); err != nil {
			return bad(err)
		}
		for _, s := range v {
			p, err := c18ParsePoint(s.Value)
			if err != nil {
				return bad(err)
			}
			k := c18LabelKey(s.Metric)
			a.Series[k] = append(a.Series[k], p)
		}
	case "matrix":
		var v []struct {
			Metric map[string]string   `json:"metric"`
			Values [][]json.RawMessage `json:"values"`
		}
		if err := json.Unmarshal(r.Data.Result, &v); err != nil {
			return bad(err)
		}
		for _, s := range v {
			k := c18LabelKey(s.Metric)
			for _, pv := range s.Values {
				p, err := c18ParsePoint(pv)
				if err != nil {
					return bad(err)
				}
				a.Series[k] = append(a.Series[k], p)
			}
		}
	case "scalar":
		var pv []json.RawMessage
		if err := json.Unmarshal(r.Data.Result, &pv); err != nil {
			return bad(err)
		}
		if len(pv) == 0 {
			return a
		}
		p, err := c18ParsePoint(pv)
		if err != nil {
			return bad(err)
		}
		a.Series["<scalar>"] = []c18Point{p}
	default:
		a.Err, a.ErrType = "unexpected resultType "+r.Data.ResultType, "undecodable"
	}
	return a
}

func (s *c18Server) instant(db, expr string, t int64) *c18Answer {
	s.cur = c18Case{Expr: expr, Mode: "instant", T: t}
	st, b := s.do("GET", "/api/v1/query", url.Values{"db": {db}, "query": {expr}, "time": {c18Sec(t)}}, nil, nil)
	return c18ParseServer(st, b)
}

func (s *c18Server) rng(db, expr string, rq c18Range) *c18Answer {
	s.cur = c18Case{Expr: expr, Mode: "range", Start: rq.Start, End: rq.End, Step: rq.Step}
	st, b := s.do("GET", "/api/v1/query_range", url.Values{"db": {db}, "query": {expr}, "start": {c18Sec(rq.Start)},
		"end": {c18Sec(rq.End)}, "step": {c18Sec(rq.Step)}}, nil, nil)
	return c18ParseServer(st, b)
}

// load creates a fresh database, writes the set and waits until every written series is returned by a raw selector
// (visibility barrier; a time-out is a tool error, never a verdict).
func (s *c18Server) load(db string, set *c18Set) {
	s.influx(fmt.Sprintf("create database %q", db), "")
	s.remoteWrite(db, set)
	s.barrier(db, set)
}

// ---------------------------------------------------------------------------------------------------------------
// classification
// ---------------------------------------------------------------------------------------------------------------

// c18Feature names the language feature of the top node of an expression.
func c18Feature(e parser.Expr) string {
	switch n := e.(type) {
	case *parser.ParenExpr:
		return c18Feature(n.Expr)
	case *parser.VectorSelector:
		f := "selector"
		if n.OriginalOffset != 0 {
			f += "_offset"
		}
		return f
	case *parser.Call:
		f := n.Func.Name
		for _, a := range n.Args {
			if ms, ok := a.(*parser.MatrixSelector); ok {
				if vs, ok := ms.VectorSelector.(*parser.VectorSelector); ok && vs.OriginalOffset != 0 {
					f += "_offset"
				}
			}
		}
		return f
	case *parser.AggregateExpr:
		f := "agg_" + n.Op.String()
		switch {
		case n.Without:
			f += "_without"
		case len(n.Grouping) > 0:
			f += "_by"
		}
		return f
	case *parser.BinaryExpr:
		f := "binop_" + c18OpName(n.Op)
		lt, rt := n.LHS.Type(), n.RHS.Type()
		switch {
		case lt == parser.ValueTypeScalar && rt == parser.ValueTypeScalar:
			f += "_ss"
		case lt == parser.ValueTypeScalar:
			f += "_sv"
		case rt == parser.ValueTypeScalar:
			f += "_vs"
		default:
			f += "_vv"
			if n.VectorMatching != nil && n.VectorMatching.On {
				f += "_on"
			} else if n.VectorMatching != nil && len(n.VectorMatching.MatchingLabels) > 0 {
				f += "_ignoring"
			}
		}
		if n.ReturnBool {
			f += "_bool"
		}
		return f
	case *parser.NumberLiteral:
		return "number"
	}
	return fmt.Sprintf("%T", e)
}

func c18OpName(op parser.ItemType) string {
	switch op {
	case parser.ADD:
		return "add"
	case parser.SUB:
		return "sub"
	case parser.MUL:
		return "mul"
	case parser.DIV:
		return "div"
	case parser.GTR:
		return "gtr"
	case parser.EQLC:
		return "eql"
	}
	return op.String()
}

// c18Children returns the instant-vector typed operands of the top node.
func c18Children(e parser.Expr) []parser.Expr {
	var out []parser.Expr
	addIf := func(c parser.Expr) {
		if c != nil && c.Type() == parser.ValueTypeVector {
			out = append(out, c)
		}
	}
	switch n := e.(type) {
	case *parser.ParenExpr:
		return c18Children(n.Expr)
	case *parser.AggregateExpr:
		addIf(n.Expr)
	case *parser.BinaryExpr:
		addIf(n.LHS)
		addIf(n.RHS)
	case *parser.Call:
		for _, a := range n.Args {
			addIf(a)
			if ms, ok := a.(*parser.MatrixSelector); ok {
				// the raw selector under a range function: a failing selector explains a failing function
				vs := *(ms.VectorSelector.(*parser.VectorSelector))
				out = append(out, &vs)
			}
		}
	}
	return out
}

// ---------------------------------------------------------------------------------------------------------------
// one case
// ---------------------------------------------------------------------------------------------------------------

type c18Case struct {
	Set    c18Set `json:"set"`
	Layout string `json:"layout,omitempty"` // storage layout the set is ingested under ("" = default, see c18_layout_test.go)
	Expr   string `json:"expr"`
	Mode   string `json:"mode"` // "instant" | "range" | "range_vs_instants"
	T     int64  `json:"t,omitempty"`
	Start int64  `json:"start,omitempty"`
	End   int64  `json:"end,omitempty"`
	Step  int64  `json:"step,omitempty"`
}

type c18Runner struct {
	rep    *kit.Report
	srv    *c18Server // the server holding db (default server, or the small-segment server for the storage layouts)
	ref    *c18Ref
	set    *c18Set
	db     string
	layout string     // c18LayDefault or one of the storage layouts of c18_layout_test.go
	defSrv *c18Server // default server and its database of the same set: the reference layout for `layout_changes_answer`
	defDB  string
	memo   map[string]string // sub-expression@t -> diff class ("" = agrees)
	nUpErr int
}

// unsupported: the statement speaks about "the supported subset"; an explicit refusal is not a wrong answer.
func c18Unsupported(a *c18Answer) bool {
	if a.Err == "" {
		return false
	}
	e := strings.ToLower(a.Err)
	return strings.Contains(e, "unsupported") || strings.Contains(e, "not support") || strings.Contains(e, "unimplemented") ||
		strings.Contains(e, "not implemented")
}

// blame descends to the smallest sub-expression whose answer at t differs: the instant answer at t, or (rq != nil, the
// mismatch was found in a range query) step t of the answer to the same range query.
func (r *c18Runner) blame(e parser.Expr, t int64, rq *c18Range) (parser.Expr, string) {
	for _, c := range c18Children(e) {
		txt := c.String()
		key := txt + "@" + strconv.FormatInt(t, 10)
		if rq != nil {
			key = fmt.Sprintf("%s@%d in %d,%d,%d", txt, t, rq.Start, rq.End, rq.Step)
		}
		cls, ok := r.memo[key]
		if !ok {
			var want, got *c18Answer
			if rq != nil {
				want, got = r.ref.rng(txt, *rq), r.srv.rng(r.db, txt, *rq)
				if want.Err == "" && got.Err == "" {
					want, got = want.at(t), got.at(t)
				}
			} else {
				want, got = r.ref.instant(txt, t), r.srv.instant(r.db, txt, t)
			}
			switch {
			case want.Err != "":
				cls = ""
			case got.Err != "":
				cls = "server_error"
				if c18Unsupported(got) {
					cls = ""
				}
			default:
				cls, _ = c18Diff(want, got)
			}
			r.memo[key] = cls
		}
		if cls != "" {
			if sub, scls := r.blame(c, t, rq); sub != nil {
				return sub, scls
			}
			return c, cls
		}
	}
	return nil, ""
}

// report records one violation. bt is the evaluation time at which the answers differ (0 = unknown); the violation is
// attributed to the smallest sub-expression whose instant answer at bt differs as well.
func (r *c18Runner) report(expr string, pe parser.Expr, mode string, bt int64, rq c18Range, cls, diff string, want, got *c18Answer) {
	blamed, bcls := pe, cls
	if bt != 0 && mode == "range_vs_instants" {
		// the operand whose range answer differs from upstream at step bt (the instant answers being right) explains it
		if sub, _ := r.blame(pe, bt, &rq); sub != nil {
			blamed = sub
		} else if sub, _ := r.blame(pe, bt, nil); sub != nil {
			blamed = sub // ... or the operand whose instant answer is wrong, the range answers being right
		}
	}
	if bt != 0 && mode != "range_vs_instants" {
		if sub, scls := r.blame(pe, bt, nil); sub != nil {
			blamed, bcls = sub, scls
		} else if mode == "range" && rq.Step > 0 {
			// the instant answers of all operands are right at bt: look for the operand whose range answer differs at step bt
			if sub, scls := r.blame(pe, bt, &rq); sub != nil {
				blamed, bcls = sub, scls
			}
		}
	}
	kind := bcls + ":" + c18Feature(blamed)
	if mode == "range" && bt != 0 {
		// the instant query at the failing step may be right while the range query is wrong
		wi, gi := r.ref.instant(blamed.String(), bt), r.srv.instant(r.db, blamed.String(), bt)
		if c, _ := c18Diff(wi, gi); c == "" && gi.Err == "" {
			kind = "range_only_" + kind
		}
	}
	if mode == "range_vs_instants" {
		kind = "range_ne_instants:" + c18Feature(blamed)
	}
	if ek := r.explain(blamed, pe, mode, bt, rq, cls, diff, want, got); ek != "" {
		kind = ek
	} else if lk := r.layoutKind(expr, pe, blamed, mode, bt, rq, want); lk != "" {
		// the default server (one record per series) answers this case like upstream: the storage layout matters
		kind = lk
		if ek := r.explainLayout(blamed, pe, mode, bt, rq, cls, diff); ek != "" {
			kind = ek
		}
	}
	key := fmt.Sprintf("blamed=%s | expr=%s | set=%s | %s", blamed.String(), expr, r.set.Name, mode)
	if r.layout != c18LayDefault {
		key = fmt.Sprintf("blamed=%s | expr=%s | set=%s | layout=%s | %s", blamed.String(), expr, r.set.Name, r.layout, mode)
	}
	c := c18Case{Set: *r.set, Layout: r.layout, Expr: expr, Mode: mode, T: bt, Start: rq.Start, End: rq.End, Step: rq.Step}
	where := "t=" + c18Sec(bt)
	if mode != "instant" {
		where = fmt.Sprintf("range=[%s,%s]/%s first differing step %s", c18Sec(rq.Start), c18Sec(rq.End), c18Sec(rq.Step), c18Sec(bt))
	}
	detail := fmt.Sprintf("%s %s: %s\n  upstream: %s\n  server:   %s", mode, where, diff, c18Trunc(want.String()), c18Trunc(got.String()))
	r.rep.Violation(kind, key, detail, c)
	r.rep.Count("mismatch_"+kind, 1)
}

// explain recognises the defects whose mechanism is understood and returns a kind that is specific to that one defect
// ("" = not recognised: the generic kind stays). Every recognition is a positive test on the answers, not on the input.
func (r *c18Runner) explain(blamed, pe parser.Expr, mode string, bt int64, rq c18Range, cls, diff string, want, got *c18Answer) string {
	// (1)/(2) selector defects: the server's answer for the blamed selector equals the upstream answer for a selector
	// whose regex matchers are not anchored / whose empty-valued matchers are removed
	if vs, ok := blamed.(*parser.VectorSelector); ok && bt != 0 {
		sg := r.srv.instant(r.db, vs.String(), bt)
		if sg.Err == "" {
			if alt := c18RewriteSelector(vs, true, false); alt != "" {
				if c, _ := c18Diff(r.ref.instant(alt, bt), sg); c == "" {
					return "regex_matcher_not_anchored"
				}
			}
			if alt := c18RewriteSelector(vs, false, true); alt != "" {
				if c, _ := c18Diff(r.ref.instant(alt, bt), sg); c == "" {
					return "empty_label_matcher_ignored"
				}
			}
			if alt := c18RewriteSelector(vs, true, true); alt != "" {
				if c, _ := c18Diff(r.ref.instant(alt, bt), sg); c == "" {
					return "regex_matcher_not_anchored+empty_label_matcher_ignored"
				}
			}
		}
	}
	// (3) min/max over a group that holds only +Inf (-Inf): the accumulator's initial +-MaxFloat64 is returned
	if ag, ok := blamed.(*parser.AggregateExpr); ok && cls == "value_differs" && (ag.Op == parser.MIN || ag.Op == parser.MAX) && bt != 0 {
		w, g := want, got
		if mode != "instant" {
			w, g = want.at(bt), got.at(bt)
		}
		if blamed != pe {
			w, g = r.ref.instant(blamed.String(), bt), r.srv.instant(r.db, blamed.String(), bt)
		}
		all, n := true, 0
		for k, ps := range w.Series {
			gs := g.Series[k]
			for i, p := range ps {
				if i >= len(gs) || c18Close(p.V, gs[i].V) {
					continue
				}
				n++
				okMin := ag.Op == parser.MIN && math.IsInf(p.V, 1) && gs[i].V == math.MaxFloat64
				okMax := ag.Op == parser.MAX && math.IsInf(p.V, -1) && gs[i].V == -math.MaxFloat64
				if !okMin && !okMax {
					all = false
				}
			}
		}
		if all && n > 0 {
			return "agg_min_max_infinity_clamped_to_maxfloat"
		}
	}
	// (5) absent_over_time(x[r] offset o) as a range query: translated to absent_prom over a sub-query whose windows are not
	// shifted back by the offset (points before the start of the range, 1 where samples exist). Recognised by its trigger.
	if call, ok := blamed.(*parser.Call); ok && call.Func.Name == "absent_over_time" && mode != "instant" &&
		strings.HasSuffix(c18Feature(blamed), "_offset") {
		return "absent_over_time_with_offset_range_query"
	}
	// (4) range query, aggregation over a selector with a positive offset: the steps later than (end - offset) are merged
	// into one window (or collide: "same labelset"); every step up to end - offset agrees, instant queries agree
	if (mode == "range" || mode == "range_vs_instants") && blamed == pe {
		if off := c18AggOverOffset(pe); off > 0 {
			if cls == "server_error" {
				if strings.Contains(diff, "same labelset") {
					return "range_agg_over_offset_tail_steps_merged"
				}
				return ""
			}
			if bt > rq.End-off && bt != 0 {
				wi, gi := r.ref.instant(pe.String(), bt), r.srv.instant(r.db, pe.String(), bt)
				if c, _ := c18Diff(wi, gi); c == "" && gi.Err == "" {
					return "range_agg_over_offset_tail_steps_merged"
				}
			}
		}
	}
	return ""
}

// c18RewriteSelector returns the text of the selector with regex matchers made unanchored and/or empty-valued matchers
// removed; "" if nothing changes.
func c18RewriteSelector(vs *parser.VectorSelector, unanchor, dropEmpty bool) string {
	c := *vs
	c.LabelMatchers = nil
	changed := false
	for _, m := range vs.LabelMatchers {
		if dropEmpty && m.Value == "" {
			changed = true
			continue
		}
		if unanchor && (m.Type == labels.MatchRegexp || m.Type == labels.MatchNotRegexp) && m.Name != labels.MetricName && m.Value != "" {
			nm, err := labels.NewMatcher(m.Type, m.Name, "(?s:.*(?:"+m.Value+").*)")
			if err != nil {
				return ""
			}
			c.LabelMatchers = append(c.LabelMatchers, nm)
			changed = true
			continue
		}
		c.LabelMatchers = append(c.LabelMatchers, m)
	}
	if !changed {
		return ""
	}
	return c.String()
}

// c18AggOverOffset returns the largest positive selector offset (ms) found below an aggregation of the expression.
func c18AggOverOffset(e parser.Expr) int64 {
	var off int64
	parser.Inspect(e, func(n parser.Node, path []parser.Node) error {
		vs, ok := n.(*parser.VectorSelector)
		if !ok || vs.OriginalOffset <= 0 {
			return nil
		}
		for _, p := range path {
			if _, ok := p.(*parser.AggregateExpr); ok {
				if o := vs.OriginalOffset.Milliseconds(); o > off {
					off = o
				}
			}
		}
		return nil
	})
	return off
}

// roundingSensitive: the statement grants floating-point rounding. A comparison operator whose operands (as the
// upstream engine computes them) differ by no more than the tolerance, without being equal, may filter either way;
// the same holds for the jump points of the modulo operator.
func (r *c18Runner) roundingSensitive(pe parser.Expr, t int64) bool {
	sens := false
	parser.Inspect(pe, func(n parser.Node, _ []parser.Node) error {
		be, ok := n.(*parser.BinaryExpr)
		if !ok || sens {
			return nil
		}
		if be.Op == parser.MOD {
			// x % y jumps where x/y is an integer: a quotient within the tolerance of an integer may fall on either side
			div := *be
			div.Op = parser.DIV
			q := r.ref.instant(div.String(), t)
			for _, ps := range q.Series {
				for _, p := range ps {
					if math.IsNaN(p.V) || math.IsInf(p.V, 0) {
						continue
					}
					if math.Abs(p.V-math.Round(p.V)) <= 1e-9*math.Max(1, math.Abs(p.V)) {
						sens = true
					}
				}
			}
			return nil
		}
		if !be.Op.IsComparisonOperator() {
			return nil
		}
		sub, add := *be, *be
		sub.Op, sub.ReturnBool = parser.SUB, false
		add.Op, add.ReturnBool = parser.ADD, false
		d, sm := r.ref.instant(sub.String(), t), r.ref.instant(add.String(), t)
		if d.Err != "" || sm.Err != "" {
			return nil
		}
		var sd *c18Answer // the server's own L - R, asked only when needed
		for k, ps := range d.Series {
			ss := sm.Series[k]
			for i, p := range ps {
				dv := math.Abs(p.V)
				if dv == 0 && i < len(ss) && ss[i].V != 0 && be.LHS.String() != be.RHS.String() {
					// upstream computes both operands to the very same float; each operand of the server may be one
					// rounding step away from it: if the server's own operands differ by no more than the tolerance
					// (without being equal) the comparison may go either way there
					if sd == nil {
						sd = r.srv.instant(r.db, sub.String(), t)
					}
					if sp := sd.Series[k]; sd.Err == "" && len(sp) > i {
						if v := math.Abs(sp[i].V); v != 0 && (v <= 1e-9*math.Abs(ss[i].V) || v <= 1e-12) {
							sens = true
						}
					}
					continue
				}
				if dv == 0 || math.IsNaN(dv) || math.IsInf(dv, 0) || i >= len(ss) {
					continue
				}
				if dv <= 1e-9*math.Abs(ss[i].V) || dv <= 1e-12 {
					sens = true
				}
			}
		}
		return nil
	})
	return sens
}

// diffInstant compares two instant answers; a difference at a rounding-sensitive point is excused (counted).
func (r *c18Runner) diffInstant(pe parser.Expr, t int64, want, got *c18Answer) (string, string) {
	cls, diff := c18Diff(want, got)
	if cls != "" && r.roundingSensitive(pe, t) {
		r.rep.Count("excused_rounding_sensitive_point", 1)
		return "", ""
	}
	return cls, diff
}

// diffRange compares two range answers step by step and returns the first differing step.
func (r *c18Runner) diffRange(pe parser.Expr, rq c18Range, want, got *c18Answer) (string, string, int64) {
	steps := map[int64]bool{}
	for _, t := range rq.times() {
		steps[t] = true
	}
	for k, ps := range got.Series {
		for _, p := range ps {
			if !steps[p.T] {
				return "timestamp_differs", fmt.Sprintf("%s: point at %s is not a step of the range query", k, c18Sec(p.T)), 0
			}
		}
	}
	for _, t := range rq.times() {
		if cls, diff := r.diffInstant(pe, t, want.at(t), got.at(t)); cls != "" {
			return cls, diff, t
		}
	}
	return "", "", 0
}

func c18Trunc(s string) string {
	if len(s) > 1200 {
		return s[:1200] + "…"
	}
	return s
}

// runExpr evaluates one expression on the current set and layout: every step of the ranges marked Instants as an instant
// query, every range query, and range == sequence of instants on the server. At most one violation per (expression, mode
// and range).
func (r *c18Runner) runExpr(expr string) {
	pe, err := parser.ParseExpr(expr)
	if err != nil {
		c18Fatal("grammar produced an unparsable expression %q: %v", expr, err)
	}
	ranges := c18Ranges()
	reportedInstant := false
	for _, rq := range ranges {
		if r.layout != c18LayDefault {
			rq.Instants = rq.SegInstants
		}
		times := rq.times()
		srvInst := map[int64]*c18Answer{}
		unsupported := false
		for _, t := range times {
			if !rq.Instants {
				break
			}
			want := r.ref.instant(expr, t)
			if want.Err != "" {
				r.upstreamError(expr, want.Err)
				continue
			}
			got := r.srv.instant(r.db, expr, t)
			r.rep.Eval(1)
			if !want.empty() {
				r.rep.DistinctNontrivial(kit.Hash(r.set.Name, r.layout, expr, strconv.FormatInt(t, 10)))
			}
			if got.Err != "" {
				if c18Unsupported(got) {
					unsupported = true
					r.rep.Count("unsupported", 1)
					break
				}
				if !reportedInstant {
					reportedInstant = true
					r.report(expr, pe, "instant", t, c18Range{}, "server_error", got.Err, want, got)
				}
				continue
			}
			srvInst[t] = got
			if cls, diff := r.diffInstant(pe, t, want, got); cls != "" && !reportedInstant {
				reportedInstant = true
				r.report(expr, pe, "instant", t, c18Range{}, cls, diff, want, got)
			}
		}
		if unsupported {
			continue
		}
		want := r.ref.rng(expr, rq)
		if want.Err != "" {
			r.upstreamError(expr, want.Err)
			continue
		}
		got := r.srv.rng(r.db, expr, rq)
		r.rep.Eval(1)
		if !want.empty() {
			r.rep.DistinctNontrivial(kit.Hash(r.set.Name, r.layout, expr, "range", strconv.FormatInt(rq.Start, 10), strconv.FormatInt(rq.Step, 10)))
		}
		if got.Err != "" {
			if c18Unsupported(got) {
				r.rep.Count("unsupported", 1)
				continue
			}
			r.report(expr, pe, "range", times[0], rq, "server_error", got.Err, want, got)
			continue
		}
		if cls, diff, bt := r.diffRange(pe, rq, want, got); cls != "" {
			r.report(expr, pe, "range", bt, rq, cls, diff, want, got)
		}
		if !rq.Instants {
			continue
		}
		// range == sequence of instants (server against itself)
		seq := &c18Answer{Series: map[string][]c18Point{}}
		complete := true
		for _, t := range times {
			a, ok := srvInst[t]
			if !ok {
				complete = false
				break
			}
			for k, ps := range a.Series {
				seq.Series[k] = append(seq.Series[k], ps...)
			}
		}
		if complete {
			r.rep.Eval(1)
			if cls, diff, bt := r.diffRange(pe, rq, seq, got); cls != "" {
				r.report(expr, pe, "range_vs_instants", bt, rq, cls, diff, seq, got)
			}
		}
	}
}

func (r *c18Runner) upstreamError(expr, msg string) {
	r.rep.Count("upstream_error", 1)
	if r.nUpErr < 5 {
		r.nUpErr++
		r.rep.Note("upstream engine error for %q on %s: %s", expr, r.set.Name, msg)
	}
}

// c18Guard runs f and returns the c18ServerDied it panicked with, if any.
func c18Guard(f func()) (died *c18ServerDied) {
	defer func() {
		if p := recover(); p != nil {
			if d, ok := p.(c18ServerDied); ok {
				died = &d
				return
			}
			panic(p)
		}
	}()
	f()
	return nil
}

func c18RunReplay(rep *kit.Report, def, seg *c18Server) {
	var c c18Case
	if err := kit.LoadReplay(&c); err != nil {
		c18Fatal("replay: %v", err)
	}
	if c.Layout == "" {
		c.Layout = c18LayDefault
	}
	if d := c18Guard(func() { c18RunReplay1(rep, def, seg) }); d != nil {
		l := c18LayDefault
		if d.srv == seg {
			l = c.Layout
		}
		key := fmt.Sprintf("expr=%s | set=%s | layout=%s | %s", d.q.Expr, c.Set.Name, l, d.q.Mode)
		fmt.Printf("the server died while answering %s\n", key)
		rep.Violation("server_died_during_query", key, "the server process stopped answering (/ping) while this query was in flight "+
			"(out of memory under the address-space cap of lib/checks/c18.py, or a crash): "+d.err, c)
	}
}

func c18RunReplay1(rep *kit.Report, def, seg *c18Server) (c c18Case) {
	if err := kit.LoadReplay(&c); err != nil {
		c18Fatal("replay: %v", err)
	}
	for i := range c.Set.Series {
		for j := range c.Set.Series[i].Samples {
			c.Set.Series[i].Samples[j].V = c18ParseVal(c.Set.Series[i].Samples[j].S)
		}
	}
	if c.Layout == "" {
		c.Layout = c18LayDefault
	}
	defDB := fmt.Sprintf("c18r_%d", time.Now().UnixNano())
	def.load(defDB, &c.Set)
	srv, db := def, defDB
	if c.Layout != c18LayDefault {
		if seg == nil {
			c18Fatal("replay of layout %q needs VERIF_SERVER_URL_SEG", c.Layout)
		}
		srv, db = seg, defDB+"_"+c.Layout
		c18LoadSeg(seg, []c18DB{{set: &c.Set, layout: c.Layout, db: db}})
	}
	r := &c18Runner{rep: rep, srv: srv, ref: c18NewRef(&c.Set), set: &c.Set, db: db, layout: c.Layout, defSrv: def, defDB: defDB,
		memo: map[string]string{}}
	pe, err := parser.ParseExpr(c.Expr)
	if err != nil {
		c18Fatal("replay expression: %v", err)
	}
	rq := c18Range{Start: c.Start, End: c.End, Step: c.Step}
	fmt.Printf("set: %s  layout: %s\n", c.Set.Name, c.Layout)
	switch c.Mode {
	case "instant":
		want, got := r.ref.instant(c.Expr, c.T), srv.instant(db, c.Expr, c.T)
		fmt.Printf("expr: %s\nt=%s\nupstream: %s\nserver:   %s\n", c.Expr, c18Sec(c.T), want, got)
		if got.Err != "" {
			if !c18Unsupported(got) {
				r.report(c.Expr, pe, "instant", c.T, c18Range{}, "server_error", got.Err, want, got)
			}
		} else if cls, diff := r.diffInstant(pe, c.T, want, got); cls != "" {
			r.report(c.Expr, pe, "instant", c.T, c18Range{}, cls, diff, want, got)
		}
	default:
		want, got := r.ref.rng(c.Expr, rq), srv.rng(db, c.Expr, rq)
		fmt.Printf("expr: %s\nrange=[%s,%s]/%s\nupstream: %s\nserver:   %s\n", c.Expr, c18Sec(rq.Start), c18Sec(rq.End), c18Sec(rq.Step), want, got)
		if got.Err != "" {
			if !c18Unsupported(got) {
				r.report(c.Expr, pe, c.Mode, rq.Start, rq, "server_error", got.Err, want, got)
			}
			return c
		}
		if c.Mode == "range_vs_instants" {
			seq := &c18Answer{Series: map[string][]c18Point{}}
			for _, t := range rq.times() {
				a := srv.instant(db, c.Expr, t)
				for k, ps := range a.Series {
					seq.Series[k] = append(seq.Series[k], ps...)
				}
			}
			fmt.Printf("server instants: %s\n", seq)
			if cls, diff, bt := r.diffRange(pe, rq, seq, got); cls != "" {
				r.report(c.Expr, pe, "range_vs_instants", bt, rq, cls, diff, seq, got)
			}
			return c
		}
		if cls, diff, bt := r.diffRange(pe, rq, want, got); cls != "" {
			r.report(c.Expr, pe, "range", bt, rq, cls, diff, want, got)
		}
	}
	return c
}

type c18Work struct {
	set    int
	layout string
	expr   string
}

func TestVerifC18(t *testing.T) {
	rep := kit.NewReport("C18")
	defer rep.Save()
	defer func() {
		if p := recover(); p != nil {
			if te, ok := p.(c18ToolError); ok {
				fmt.Fprintln(os.Stderr, "C18 TOOL ERROR:", te.msg)
				os.Exit(3)
			}
			panic(p)
		}
	}()
	parser.EnableExperimentalFunctions = true // mad_over_time (thorough) is marked experimental upstream
	newSrv := func(env string) *c18Server {
		u := os.Getenv(env)
		if u == "" {
			return nil
		}
		return &c18Server{url: u, hc: &http.Client{Timeout: 120 * time.Second, Transport: &http.Transport{MaxIdleConnsPerHost: 4}}}
	}
	def, seg := newSrv("VERIF_SERVER_URL"), newSrv("VERIF_SERVER_URL_SEG")
	if def == nil {
		c18Fatal("VERIF_SERVER_URL is not set")
	}
	if kit.ReplayPath() != "" {
		c18RunReplay(rep, def, seg)
		return
	}
	tier := kit.Tier()
	sets := c18Sets()
	if tier != "thorough" {
		sets = sets[:3]
	}
	if only := os.Getenv("VERIF_C18_SETS"); only != "" {
		var keep []c18Set
		for _, s := range sets {
			if strings.Contains(","+only+",", ","+s.Name+",") {
				keep = append(keep, s)
			}
		}
		sets = keep
	}
	gram := c18Grammar(tier)
	exprs, raw := gram.all(), gram.raw()
	if e := os.Getenv("VERIF_C18_EXPR"); e != "" {
		exprs = strings.Split(e, ";;")
		raw = exprs
	}
	if re := os.Getenv("VERIF_C18_ONLY"); re != "" { // development: only the expressions matching a regular expression
		rx := regexp.MustCompile(re)
		keep := func(in []string) (out []string) {
			for _, e := range in {
				if rx.MatchString(e) {
					out = append(out, e)
				}
			}
			return
		}
		exprs, raw = keep(exprs), keep(raw)
	}
	layouts := c18SegLayouts(tier)
	if l := os.Getenv("VERIF_C18_LAYOUTS"); l != "" { // development: "none", or a comma separated list
		layouts = nil
		if l != "none" {
			layouts = c18LayoutList(l)
		}
	}
	if seg == nil && len(layouts) > 0 {
		c18Fatal("VERIF_SERVER_URL_SEG is not set")
	}
	rep.Count("grammar_expressions", 0)
	if kit.Shard() == 0 {
		rep.Count("grammar_expressions", int64(len(exprs)))
		rep.Count("raw_sample_expressions", int64(len(raw)))
		rep.Count("sample_sets", int64(len(sets)))
		rep.Count("storage_layouts", int64(1+len(layouts)))
	}
	// databases: one per set on the default server, one per (set, layout) on the small-segment server; they are loaded once
	// (phase "load", a single process) and shared read-only by all workers (phase "query")
	run := os.Getenv("VERIF_C18_RUN")
	phase := os.Getenv("VERIF_C18_PHASE")
	if run == "" {
		if phase != "" {
			c18Fatal("VERIF_C18_RUN is not set")
		}
		run = fmt.Sprintf("c18_%d", time.Now().UnixNano()%1_000_000_000)
	}
	defDB := func(si int) string { return fmt.Sprintf("%s_%s", run, sets[si].Name) }
	segDB := func(si int, l string) string { return fmt.Sprintf("%s_%s_%s", run, sets[si].Name, l) }
	if phase == "load" || phase == "" {
		t0 := time.Now()
		var wg sync.WaitGroup
		var failed any
		for si := range sets {
			wg.Add(1)
			go func(si int) {
				defer wg.Done()
				defer func() {
					if p := recover(); p != nil {
						failed = p
					}
				}()
				def.load(defDB(si), &sets[si])
			}(si)
		}
		var dbs []c18DB
		for si := range sets {
			for _, l := range layouts {
				dbs = append(dbs, c18DB{set: &sets[si], layout: l, db: segDB(si, l)})
			}
		}
		if len(dbs) > 0 {
			c18LoadSeg(seg, dbs)
		}
		wg.Wait()
		if failed != nil {
			panic(failed)
		}
		rep.Count("databases_loaded", int64(len(sets)+len(dbs)))
		fmt.Printf("C18: loaded %d + %d databases in %.1fs\n", len(sets), len(dbs), time.Since(t0).Seconds())
		if phase == "load" {
			return
		}
	}
	// work list in a fixed order, sharded by index: per set the raw-sample grammar on every storage layout, then the whole
	// grammar on the default layout
	var work []c18Work
	n := 0
	addSeg := func(si int) {
		for _, l := range layouts {
			for _, e := range raw {
				if kit.Mine(n) {
					work = append(work, c18Work{si, l, e})
				}
				n++
			}
		}
	}
	addDef := func(si int) {
		for _, e := range exprs {
			if kit.Mine(n) && os.Getenv("VERIF_C18_SKIP_DEFAULT") == "" { // development: storage layouts only
				work = append(work, c18Work{si, c18LayDefault, e})
			}
			n++
		}
	}
	for si := range sets {
		if si == len(sets)-1 && len(sets) > 1 {
			// last set: the big default share first, so that whatever ends the run early (deadline, a server killed by a
			// query on a storage layout) costs as little as possible
			addDef(si)
			addSeg(si)
			continue
		}
		addSeg(si)
		addDef(si)
	}
	refs := map[int]*c18Ref{}
	runners := map[string]*c18Runner{}
	nSampled := map[string]int{}
	for _, w := range work {
		if rep.Expired() {
			return
		}
		key := sets[w.set].Name + "/" + w.layout
		r := runners[key]
		if r == nil {
			if refs[w.set] == nil {
				refs[w.set] = c18NewRef(&sets[w.set])
			}
			r = &c18Runner{rep: rep, srv: def, ref: refs[w.set], set: &sets[w.set], db: defDB(w.set), layout: w.layout,
				defSrv: def, defDB: defDB(w.set), memo: map[string]string{}}
			if w.layout != c18LayDefault {
				r.srv, r.db = seg, segDB(w.set, w.layout)
			}
			runners[key] = r
		}
		if d := c18Guard(func() { r.runExpr(w.expr) }); d != nil {
			c := d.q
			c.Set, c.Layout = *r.set, c18LayDefault
			if d.srv == r.srv {
				c.Layout = r.layout
			}
			rep.Violation("server_unreachable_candidate", fmt.Sprintf("expr=%s | set=%s | layout=%s | %s", c.Expr, c.Set.Name, c.Layout, c.Mode),
				"the server stopped answering while this query was in flight: "+d.err, c)
			rep.Cut("a ts-server died during the run; the rest of this worker's share was not evaluated")
			return
		}
		rep.Count("expressions_on_"+w.layout, 1)
		if nSampled[key] < 1 && kit.Shard() < 4 {
			nSampled[key]++
			rep.Sample(24, map[string]any{"set": sets[w.set].Name, "layout": w.layout, "expr": w.expr})
		}
	}
}
