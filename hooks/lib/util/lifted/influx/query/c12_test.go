//go:build verif

package query

// C12, part 2: ProcessorOptions.MarshalBinary / UnmarshalBinary (processor_codec.go), the message
// that carries conditions, field expression, sources, sort fields, dimensions, interval, limits and
// flags from ts-sql to the store.
//
//   exprs       every text of the C12 "codec" grammar that the yacc parser accepts as a WHERE clause
//               (Condition, ValueCondition) or as a single select field (Expr) -> options -> wire -> options
//   members     every member of ProcessorOptions that has a member of the same name in the wire message,
//               set alone to each value of a small alphabet (others zero), and all members set at once
//   sources     Measurement variants (names needing quotes, regex, engine type, index relation, obs options)
//   statements  SELECT statements of a clause grammar, planned by the yacc parser and turned into options
//               by NewProcessorOptionsStmtBase (the production constructor) -> wire -> options
// Oracle: decoded == original, member by member (expressions: canonical typed tree, see c12_lib.go in influxql).

import (
	"fmt"
	"math"
	"reflect"
	"regexp"
	"runtime/debug"
	"sort"
	"strconv"
	"strings"
	"testing"
	"time"

	"github.com/openGemini/openGemini/engine/hybridqp"
	"github.com/openGemini/openGemini/lib/config"
	"github.com/openGemini/openGemini/lib/obs"
	"github.com/openGemini/openGemini/lib/util/lifted/influx/influxql"
	internal "github.com/openGemini/openGemini/lib/util/lifted/influx/query/proto"
	kit "github.com/openGemini/openGemini/lib/verifkit"
)

type c12qCase struct {
	Part  string `json:"part"` // exprs | members | sources | statements
	Seam  string `json:"seam,omitempty"`
	Text  string `json:"text,omitempty"`
	Field string `json:"field,omitempty"`
	Index int    `json:"index"`
}

type c12q struct {
	rep  *kit.Report
	kept map[string]int
}

func (c *c12q) vio(kind, key string, cs c12qCase, detail func() string) {
	if c.kept == nil {
		c.kept = map[string]int{}
	}
	c.kept[kind]++
	d := ""
	if c.kept[kind] <= 8 {
		d = detail()
	}
	c.rep.Count("kind_"+kind, 1)
	c.rep.Count("violations_part_"+cs.Part, 1)
	c.rep.Violation(kind, key, d, cs)
}

func (c *c12q) vios(kinds []string, fallback, key string, cs c12qCase, detail func() string) {
	if len(kinds) == 0 {
		c.vio(fallback, key, cs, detail)
		return
	}
	for _, k := range kinds {
		c.vio(k, key, cs, detail)
	}
}

func c12qRoundTrip(opt *ProcessorOptions) (dec *ProcessorOptions, err error) {
	defer func() {
		if r := recover(); r != nil {
			dec, err = nil, fmt.Errorf("PANIC: %v", r)
		}
	}()
	buf, err := opt.MarshalBinary()
	if err != nil {
		return nil, fmt.Errorf("marshal: %w", err)
	}
	dec = &ProcessorOptions{}
	if err := dec.UnmarshalBinary(buf); err != nil {
		return nil, err
	}
	return dec, nil
}

// ---------------------------------------------------------------- exprs

func (c *c12q) exprText(text string) {
	rep := c.rep
	rep.Eval(1)
	if sel, err := influxql.VerifC12Yacc("SELECT * FROM m WHERE " + text); err == nil && sel.Condition != nil {
		printed, perr := influxql.VerifC12String(sel.Condition)
		if perr == nil && influxql.VerifC12LeadingRegex(printed) {
			// the pooled parser behind influxql.ParseExpr reads a leading '/' as division or as a regex
			// depending on its previous use; decided deterministically by the influxql harness
			rep.Count("exprs_skipped_leading_regex_pool_state_dependent", 1)
		} else {
			rep.Count("exprs_condition_objects", 1)
			rep.DistinctNontrivial(kit.Hash("cond", influxql.VerifC12Canon(sel.Condition)))
			opt := &ProcessorOptions{Condition: sel.Condition, ValueCondition: sel.Condition}
			c.exprSeams(text, opt, sel.Condition, []string{"PO.Condition", "PO.ValueCondition"})
		}
	}
	if sel, err := influxql.VerifC12Yacc("SELECT " + text + " FROM m"); err == nil && len(sel.Fields) == 1 && sel.Fields[0].Alias == "" {
		e := sel.Fields[0].Expr
		printed, perr := influxql.VerifC12String(e)
		if perr == nil && influxql.VerifC12LeadingRegex(printed) {
			rep.Count("exprs_skipped_leading_regex_pool_state_dependent", 1)
		} else {
			rep.Count("exprs_expr_objects", 1)
			if rep.DistinctNontrivial(kit.Hash("expr", influxql.VerifC12Canon(e))) {
				rep.Sample(3, map[string]string{"part": "exprs", "seam": "PO.Expr", "text": text, "printed": printed})
			}
			c.exprSeams(text, &ProcessorOptions{Expr: e}, e, []string{"PO.Expr"})
		}
	}
}

func (c *c12q) exprSeams(text string, opt *ProcessorOptions, planned influxql.Expr, seams []string) {
	want := influxql.VerifC12Canon(planned)
	dec, err := c12qRoundTrip(opt)
	for _, seam := range seams {
		cs := c12qCase{Part: "exprs", Seam: seam, Text: text}
		key := seam + ": " + text
		if err != nil {
			k := influxql.VerifC12ExplainFailure([]influxql.Expr{planned}, err.Error(), true)
			var ks []string
			if k != "" {
				ks = []string{k}
			}
			c.vios(ks, "print_not_reparsable", key, cs, func() string {
				return fmt.Sprintf("options with %s = %q do not unmarshal: %v\n  planned: %s", seam, planned.String(), err, want)
			})
			continue
		}
		var got influxql.Expr
		switch seam {
		case "PO.Condition":
			got = dec.Condition
		case "PO.ValueCondition":
			got = dec.ValueCondition
		case "PO.Expr":
			got = dec.Expr
		}
		if g := influxql.VerifC12Canon(got); g != want {
			// a text that ParseExpr reads only in part comes back as a different, shorter tree
			kinds := influxql.VerifC12ExplainExpr(planned, got)
			if len(kinds) == 0 {
				if k := influxql.VerifC12ExplainFailure([]influxql.Expr{planned}, "", true); k != "" {
					kinds = []string{k}
				}
			}
			c.vios(kinds, "roundtrip_mismatch", key, cs, func() string {
				return fmt.Sprintf("%s shipped as %q\n  planned: %s\n  shipped: %s", seam, planned.String(), want, g)
			})
		}
	}
}

// ---------------------------------------------------------------- members

// wire members: name in ProcessorOptions == name in the protobuf message
func c12qWireMembers() (wire []string, notOnWire []string) {
	pt := reflect.TypeOf(internal.ProcessorOptions{})
	ot := reflect.TypeOf(ProcessorOptions{})
	for i := 0; i < ot.NumField(); i++ {
		f := ot.Field(i)
		if !f.IsExported() {
			continue
		}
		if pf, ok := pt.FieldByName(f.Name); ok && pf.IsExported() {
			wire = append(wire, f.Name)
		} else {
			notOnWire = append(notOnWire, f.Name)
		}
	}
	return
}

func c12qMustExpr(s string) influxql.Expr {
	e, err := influxql.ParseExpr(s)
	if err != nil {
		panic(err)
	}
	return e
}

func c12qLoc(name string) *time.Location {
	l, err := time.LoadLocation(name)
	if err != nil {
		panic(err)
	}
	return l
}

var c12qStrings = []string{"x", "a b", "it's\n\"q\"\\", "héllo", "SELECT mean(\"f\") FROM m WHERE t = 'x'"}

// c12qValues is the alphabet of one member (every value differs from the zero value).
func c12qValues(name string, t reflect.Type) []reflect.Value {
	var out []reflect.Value
	add := func(v interface{}) { out = append(out, reflect.ValueOf(v).Convert(t)) }
	switch name {
	case "Expr":
		for _, s := range []string{"mean(f)", `"a b" * 1.5`, "f(a, 'it\\'s')"} {
			out = append(out, reflect.ValueOf(c12qMustExpr(s)))
		}
		return out
	case "Condition", "ValueCondition":
		for _, s := range []string{"a = 1", `"a b" = 'it\'s' AND (c < 1.5 OR d =~ /x\/y/)`, "t::tag != '' OR f::float >= -3"} {
			out = append(out, reflect.ValueOf(c12qMustExpr(s)))
		}
		return out
	case "Aux":
		return []reflect.Value{
			reflect.ValueOf([]influxql.VarRef{{Val: "a", Type: influxql.Float}}),
			reflect.ValueOf([]influxql.VarRef{{Val: "a b", Type: influxql.Integer}, {Val: "t", Type: influxql.Tag}, {Val: "s", Type: influxql.String},
				{Val: "b", Type: influxql.Boolean}, {Val: "u", Type: influxql.Unknown}, {Val: "x", Type: influxql.AnyField}, {Val: "time", Type: influxql.Time}}),
		}
	case "Sources":
		for i := range c12qSources() {
			out = append(out, reflect.ValueOf([]influxql.Source{c12qSources()[i]}))
		}
		out = append(out, reflect.ValueOf([]influxql.Source{c12qSources()[0], c12qSources()[3]}))
		return out
	case "Interval":
		for _, v := range []hybridqp.Interval{{Duration: time.Minute}, {Duration: time.Nanosecond, Offset: -time.Second}, {Offset: 5}, {Duration: math.MaxInt64, Offset: math.MinInt64}} {
			out = append(out, reflect.ValueOf(v))
		}
		return out
	case "Dimensions":
		for _, v := range [][]string{{"a"}, {"a", "b c", "d\"e"}, {""}, {"b", "a"}} {
			out = append(out, reflect.ValueOf(v))
		}
		return out
	case "GroupBy":
		for _, v := range []map[string]struct{}{{"a": {}}, {"a": {}, "b c": {}, "": {}}} {
			out = append(out, reflect.ValueOf(v))
		}
		return out
	case "Location":
		for _, n := range []string{"UTC", "Asia/Shanghai", "America/New_York"} {
			out = append(out, reflect.ValueOf(c12qLoc(n)))
		}
		return out
	case "Fill":
		for _, v := range []influxql.FillOption{influxql.NoFill, influxql.NumberFill, influxql.PreviousFill, influxql.LinearFill} {
			if v != 0 {
				out = append(out, reflect.ValueOf(v))
			}
		}
		return out
	case "FillValue":
		// interface{}: what the yacc grammar stores is float64 or int64
		for _, v := range []interface{}{1.5, 2.0, -0.25, math.MaxFloat64, int64(5), int64(-1)} {
			out = append(out, reflect.ValueOf(&v).Elem())
		}
		return out
	case "SortFields":
		for _, v := range []influxql.SortFields{{{Name: "a", Ascending: true}}, {{Name: "a"}, {Name: "b", Ascending: true}}, {{Ascending: true}}, {{Name: "time"}}} {
			out = append(out, reflect.ValueOf(v))
		}
		return out
	case "HintType":
		for _, v := range []hybridqp.HintType{hybridqp.FilterNullColumn, hybridqp.ExactStatisticQuery, hybridqp.FullSeriesQuery, hybridqp.SpecificSeriesQuery} {
			if v != 0 {
				out = append(out, reflect.ValueOf(v))
			}
		}
		return out
	case "SeriesKey":
		for _, v := range [][]byte{{0, 1, 255}, []byte("m,host=a"), {0}} {
			out = append(out, reflect.ValueOf(v))
		}
		return out
	case "StartTime", "EndTime":
		for _, v := range []int64{1, -1, influxql.MinTime, influxql.MaxTime, math.MinInt64, math.MaxInt64} {
			add(v)
		}
		return out
	}
	switch t.Kind() {
	case reflect.Bool:
		add(true)
	case reflect.Int, reflect.Int64:
		for _, v := range []int64{1, -1, 7, math.MaxInt64, math.MinInt64} {
			add(v)
		}
	case reflect.Int32:
		for _, v := range []int32{1, -1, math.MaxInt32, math.MinInt32} {
			add(v)
		}
	case reflect.Uint64:
		for _, v := range []uint64{1, 1 << 63, math.MaxUint64} {
			add(v)
		}
	case reflect.String:
		for _, v := range c12qStrings {
			add(v)
		}
	default:
		panic("C12: no alphabet for wire member " + name + " of type " + t.String())
	}
	return out
}

func c12qSources() []*influxql.Measurement {
	return []*influxql.Measurement{
		{Database: "db0", RetentionPolicy: "rp0", Name: "m"},
		{Database: "my db", RetentionPolicy: "auto gen", Name: "cpu usage_0000"},
		{Database: `d"b`, RetentionPolicy: `r'p`, Name: `select`},
		{Database: "db0", RetentionPolicy: "rp0", Regex: &influxql.RegexLiteral{Val: regexp.MustCompile(`^cpu.*\/x`)}},
		{Name: "m", SystemIterator: "_series", IsTarget: true, IsTimeSorted: true},
		{Name: "m", EngineType: config.COLUMNSTORE},
		{Name: "m", IndexRelation: &influxql.IndexRelation{Rid: 3, Oids: []uint32{1, 4}, IndexNames: []string{"text", "field idx"},
			IndexList:    []*influxql.IndexList{{IList: []string{"a", "b c"}}, {IList: []string{"d"}}},
			IndexOptions: []*influxql.IndexOptions{{Options: []*influxql.IndexOption{{Tokens: ", ;", Tokenizers: "standard", TimeClusterDuration: time.Hour}}}, nil}}},
		{Name: "m", ObsOptions: &obs.ObsOptions{Enabled: true, BucketName: "b", Ak: "ak", Sk: "s k", Endpoint: "http://e:1", BasePath: "/p/q"}},
	}
}

func c12qNilIfEmpty(v reflect.Value) interface{} {
	switch v.Kind() {
	case reflect.Slice, reflect.Map:
		if v.Len() == 0 {
			return nil
		}
	case reflect.Ptr, reflect.Interface:
		if v.IsNil() {
			return nil
		}
	}
	return v.Interface()
}

// c12qEqualMember compares one wire member of the original and the decoded options.
func c12qEqualMember(name string, a, b reflect.Value) (bool, string) {
	switch name {
	case "Expr", "Condition", "ValueCondition":
		var ea, eb influxql.Expr
		if !a.IsNil() {
			ea = a.Interface().(influxql.Expr)
		}
		if !b.IsNil() {
			eb = b.Interface().(influxql.Expr)
		}
		ca, cb := influxql.VerifC12Canon(ea), influxql.VerifC12Canon(eb)
		return ca == cb, fmt.Sprintf("original %s, decoded %s", ca, cb)
	case "Location":
		la, lb := "<nil>", "<nil>"
		if !a.IsNil() {
			la = a.Interface().(*time.Location).String()
		}
		if !b.IsNil() {
			lb = b.Interface().(*time.Location).String()
		}
		return la == lb, fmt.Sprintf("original %s, decoded %s", la, lb)
	case "FillValue":
		// the wire has a plain double: nil and 0.0 cannot be told apart (leniency: equal)
		// and the consumers (hybridqp.TransToFloat/TransToInteger) convert, so 5 and 5.0 are the same fill value
		norm := func(v reflect.Value) interface{} {
			if v.IsNil() {
				return 0.0
			}
			switch x := v.Interface().(type) {
			case int64:
				return float64(x)
			case int:
				return float64(x)
			}
			return v.Interface()
		}
		x, y := norm(a), norm(b)
		return reflect.DeepEqual(x, y), fmt.Sprintf("original %T(%v), decoded %T(%v)", a.Interface(), a.Interface(), b.Interface(), b.Interface())
	case "SortFields":
		dump := func(v reflect.Value) string {
			var b strings.Builder
			for _, f := range v.Interface().(influxql.SortFields) {
				if f == nil {
					b.WriteString("<nil>;")
				} else {
					fmt.Fprintf(&b, "%q asc=%v;", f.Name, f.Ascending)
				}
			}
			return b.String()
		}
		da, db := dump(a), dump(b)
		return da == db, fmt.Sprintf("original [%s] decoded [%s]", da, db)
	case "Sources":
		sa, sb := a.Interface().([]influxql.Source), b.Interface().([]influxql.Source)
		da, db := c12qDumpSources(sa), c12qDumpSources(sb)
		return da == db, fmt.Sprintf("original %s\n  decoded  %s", da, db)
	}
	x, y := c12qNilIfEmpty(a), c12qNilIfEmpty(b)
	return reflect.DeepEqual(x, y), fmt.Sprintf("original %#v, decoded %#v", x, y)
}

// c12qDumpSources prints the wire members of measurements (regex by source text).
func c12qDumpSources(ss []influxql.Source) string {
	var b strings.Builder
	for _, s := range ss {
		m, ok := s.(*influxql.Measurement)
		if !ok {
			fmt.Fprintf(&b, "[%T]", s)
			continue
		}
		re := "<nil>"
		if m.Regex != nil && m.Regex.Val != nil {
			re = m.Regex.Val.String()
		}
		fmt.Fprintf(&b, "[db=%q rp=%q name=%q re=%q target=%v sysit=%q engine=%d sorted=%v", m.Database, m.RetentionPolicy, m.Name, re,
			m.IsTarget, m.SystemIterator, m.EngineType, m.IsTimeSorted)
		if ir := m.IndexRelation; ir != nil {
			fmt.Fprintf(&b, " ir={rid=%d oids=%v names=%q lists=", ir.Rid, ir.Oids, ir.IndexNames)
			for _, l := range ir.IndexList {
				if l == nil {
					b.WriteString("<nil>;")
				} else {
					fmt.Fprintf(&b, "%q;", l.IList)
				}
			}
			b.WriteString(" opts=")
			for _, o := range ir.IndexOptions {
				if o == nil {
					// a nil entry comes back as an entry without options (protobuf has no nil element): same thing
					b.WriteString(";")
					continue
				}
				for _, x := range o.Options {
					fmt.Fprintf(&b, "(%q,%q,%d)", x.Tokens, x.Tokenizers, x.TimeClusterDuration)
				}
				b.WriteString(";")
			}
			b.WriteString("}")
		}
		if o := m.ObsOptions; o != nil {
			fmt.Fprintf(&b, " obs=%+v", *o)
		}
		b.WriteString("]")
	}
	return b.String()
}

func (c *c12q) compareWire(part, key string, cs c12qCase, wire []string, orig, dec *ProcessorOptions) {
	ov, dv := reflect.ValueOf(orig).Elem(), reflect.ValueOf(dec).Elem()
	for _, name := range wire {
		ok, detail := c12qEqualMember(name, ov.FieldByName(name), dv.FieldByName(name))
		if !ok {
			cs2 := cs
			if cs2.Field == "" {
				cs2.Field = name
			}
			kind := "options_member_not_preserved"
			if name == "FillValue" && ov.FieldByName(name).Elem().Kind() == reflect.Int64 {
				kind = "integer_fill_value_dropped"
			}
			if name == "SortFields" {
				kind = "sort_fields_not_preserved"
			}
			c.vio(kind, key+" member "+name, cs2, func() string { return "ProcessorOptions." + name + ": " + detail })
		}
	}
}

func (c *c12q) members(only *c12qCase) {
	rep := c.rep
	wire, notOnWire := c12qWireMembers()
	rep.Note("ProcessorOptions members carried by the wire message (%d): %s", len(wire), strings.Join(wire, " "))
	rep.Note("ProcessorOptions members with no counterpart in the wire message, not compared (%d): %s", len(notOnWire), strings.Join(notOnWire, " "))
	rep.Max("max_options_members_on_wire", int64(len(wire)))
	rep.Max("max_options_members_not_on_wire", int64(len(notOnWire)))
	ot := reflect.TypeOf(ProcessorOptions{})
	all := &ProcessorOptions{}
	item := 0
	for _, name := range wire {
		f, _ := ot.FieldByName(name)
		vals := c12qValues(name, f.Type)
		reflect.ValueOf(all).Elem().FieldByName(name).Set(vals[len(vals)-1])
		for i, v := range vals {
			item++
			if only != nil && (only.Field != name || only.Index != i) {
				continue
			}
			if only == nil && !kit.Mine(item) {
				continue
			}
			rep.Eval(1)
			opt := &ProcessorOptions{}
			reflect.ValueOf(opt).Elem().FieldByName(name).Set(v)
			cs := c12qCase{Part: "members", Field: name, Index: i}
			key := fmt.Sprintf("members: %s[%d]", name, i)
			if rep.DistinctNontrivial(kit.Hash("member", name, strconv.Itoa(i))) {
				rep.Sample(1, map[string]string{"part": "members", "member": name, "value": fmt.Sprintf("%v", c12qNilIfEmpty(v))})
			}
			dec, err := c12qRoundTrip(opt)
			if err != nil {
				c.vio("options_not_decodable", key, cs, func() string { return err.Error() })
				continue
			}
			c.compareWire("members", key, cs, wire, opt, dec)
		}
	}
	if (only == nil && kit.Mine(0)) || (only != nil && only.Field == "*") {
		rep.Eval(1)
		rep.DistinctNontrivial(kit.Hash("member", "*"))
		cs := c12qCase{Part: "members", Field: "*"}
		dec, err := c12qRoundTrip(all)
		if err != nil {
			c.vio("options_not_decodable", "members: all", cs, func() string { return err.Error() })
		} else {
			cs.Field = ""
			c.compareWire("members", "members: all", cs, wire, all, dec)
		}
	}
}

// ---------------------------------------------------------------- statements

type c12qClause struct{ alts []string }

var c12qStatementGrammar = []c12qClause{
	{[]string{"SELECT f", "SELECT mean(f)", `SELECT "a b" * 2.0, max(g)`}},
	{[]string{" FROM m", ` FROM "my db"."auto gen"."cpu usage"`, " FROM /^cpu.*/", " FROM db0..m, m2"}},
	{[]string{"", " WHERE a = 1", ` WHERE t = 'x' AND (f > 1.5 OR g =~ /a\/b/)`, " WHERE a = 1 OR b = 2 AND c = 3"}},
	{[]string{"", " GROUP BY t", ` GROUP BY "t 1", time(1m)`, " GROUP BY time(90s, 5s), *", " GROUP BY time(1500ms, -1ns)"}},
	{[]string{"", " fill(5)", " fill(2.5)", " fill(-1)", " fill(previous)", " fill(none)", " fill(linear)"}},
	{[]string{"", " ORDER BY time DESC", " ORDER BY f", ` ORDER BY "a b" DESC, g ASC`, " ORDER BY time ASC"}},
	{[]string{"", " LIMIT 10", " LIMIT 3 OFFSET 7", " SLIMIT 2 SOFFSET 1", " LIMIT 9223372036854775807"}},
	{[]string{"", " tz('Asia/Shanghai')"}},
}

func (c *c12q) statement(text string, wire []string) {
	rep := c.rep
	rep.Eval(1)
	sel, err := influxql.VerifC12Yacc(text)
	if err != nil {
		rep.Count("statements_rejected_by_parser", 1)
		return
	}
	opt, err := NewProcessorOptionsStmtBase(sel)
	if err != nil {
		rep.Count("statements_rejected_by_options_constructor", 1)
		return
	}
	rep.Count("statements_accepted", 1)
	// as the planner does (engine/executor/schema.go, select.go)
	opt.SortFields = sel.SortFields
	opt.Sources = sel.Sources
	if len(sel.Fields) == 1 {
		opt.Expr = sel.Fields[0].Expr
	}
	if rep.DistinctNontrivial(kit.Hash("stmt", text)) {
		rep.Sample(2, map[string]string{"part": "statements", "text": text})
	}
	cs := c12qCase{Part: "statements", Text: text}
	key := "statements: " + text
	if opt.Condition != nil {
		if p, err := influxql.VerifC12String(opt.Condition); err == nil && influxql.VerifC12LeadingRegex(p) {
			return
		}
	}
	dec, err := c12qRoundTrip(&opt)
	if err != nil {
		c.vio("options_not_decodable", key, cs, func() string { return err.Error() })
		return
	}
	// expressions: classified with the defect models of the influxql harness
	for _, name := range []string{"Condition", "Expr"} {
		a := reflect.ValueOf(&opt).Elem().FieldByName(name)
		b := reflect.ValueOf(dec).Elem().FieldByName(name)
		if a.IsNil() {
			continue
		}
		ea := a.Interface().(influxql.Expr)
		var eb influxql.Expr
		if !b.IsNil() {
			eb = b.Interface().(influxql.Expr)
		}
		if ca, cb := influxql.VerifC12Canon(ea), influxql.VerifC12Canon(eb); ca != cb {
			cs2 := cs
			cs2.Field = name
			c.vios(influxql.VerifC12ExplainExpr(ea, eb), "roundtrip_mismatch", key+" member "+name, cs2, func() string {
				return fmt.Sprintf("ProcessorOptions.%s shipped as %q\n  planned: %s\n  shipped: %s", name, ea.String(), ca, cb)
			})
		}
	}
	var rest []string
	for _, n := range wire {
		if n != "Condition" && n != "Expr" {
			rest = append(rest, n)
		}
	}
	c.compareWire("statements", key, cs, rest, &opt, dec)
}

func (c *c12q) statements(wire []string) {
	radix := make([]int, len(c12qStatementGrammar))
	for i, cl := range c12qStatementGrammar {
		radix[i] = len(cl.alts)
	}
	idx := 0
	kit.Odometer(radix, func(d []int) bool {
		idx++
		if !kit.Mine(idx) {
			return true
		}
		var b strings.Builder
		for i, cl := range c12qStatementGrammar {
			b.WriteString(cl.alts[d[i]])
		}
		c.statement(b.String(), wire)
		return !c.rep.Expired()
	})
}

// ---------------------------------------------------------------- driver

func TestVerifC12Options(t *testing.T) {
	rep := kit.NewReport("C12")
	defer rep.Save()
	start := time.Now()
	debug.SetGCPercent(2000)
	c := &c12q{rep: rep}
	wire, _ := c12qWireMembers()
	sort.Strings(wire)
	if kit.ReplayPath() != "" {
		var cs c12qCase
		if err := kit.LoadReplay(&cs); err != nil {
			t.Fatal(err)
		}
		switch cs.Part {
		case "exprs":
			c.exprText(cs.Text)
		case "members":
			c.members(&cs)
		case "statements":
			c.statement(cs.Text, wire)
		}
		return
	}
	c.members(nil)
	c.statements(wire)
	block := 0
	mine := func() bool { block++; return kit.Mine(int(kit.Hash("block", strconv.Itoa(block)) % (1 << 30))) }
	influxql.VerifC12EnumerateCodec(mine, rep.Expired, c.exprText)
	rep.Max("max_worker_seconds_options", int64(time.Since(start).Seconds()))
}
