//go:build verif

package meta_test

// C05 part (b) — master election of a replica group in the catalogue (meta.Data).
//
// Bounded EXHAUSTIVE enumeration of every sequence (length <= 4 quick / <= 6 thorough) over the event
// alphabet below on ONE replica group of 3 partitions on 3 store nodes (ha-policy replication,
// database with replicas 3).  The catalogue is driven exactly like the raft FSM of ts-meta drives it:
// every step builds the protobuf command the ts-meta leader proposes (Store.updateNodeStatus /
// updateReplication / updatePtInfo), marshals + unmarshals it (what the raft log does) and hands it to
// the exported Apply* function the FSM calls (meta.ApplyUpdateNodeStatus / ApplyUpdateReplication /
// ApplyUpdatePtInfo).  The re-selection of the master is the REAL function of the cluster manager,
// app/ts-meta/meta.electRgMaster (unexported, pure) — pulled in with go:linkname so that this harness can
// stay in the catalogue package's test binary (external test package => no import cycle).  The admin
// command uses the real Data.GetNewRg.  The leader-side glue around them (which partitions a fail / join
// event touches, in which order the commands are proposed) is mirrored by hand from
// member_event_handler.go / cluster_manager.go / store.go / assign_event.go; every mirror names its source.
//
// Events (i = node 0..2, p = partition 0..2; partition p lives on node p):
//   F<i>  gossip "failed" event, step 1: UpdateNodeStatusCommand(i, StatusFailed)        (failHandlerForRep -> handleStoreEvent)
//   E<i>  gossip "failed" event, step 2: failOverForRep(i): GetFailedPtInfos, per partition processReplication:
//         if it is the group's master -> electRgMaster -> UpdateReplicationCommand         (only applicable after F<i>)
//   D<i>  = F<i> E<i>   (the whole failed-event flow)
//   J<i>  gossip "join" event: UpdateNodeStatusCommand(i, StatusAlive) + takeoverForRep(i) which STARTS the
//         (asynchronous) assignment of every offline partition of the group whose node is alive
//   O<p>  an assignment started by a join completes: UpdatePtInfoCommand(p, owner, Offline) (startAssignHandler),
//         UpdatePtInfoCommand(p, owner, Online) (assignedHandler)                         (only applicable while one is in flight)
//   U<i>  = J<i> followed by O<p> of every assignment in flight (the join flow run to quiescence)
//   T<p>  admin command /modifyRepDBMasterPt: Data.GetNewRg + UpdateReplicationCommand     (only to a partition whose node is alive)
//   M     the catalogue goes through MarshalBinary / UnmarshalBinary (snapshot + restore / meta restart)
//
// Pruning (only what the real callers cannot issue): E<i> without a preceding F<i>; O<p> without an assignment
// in flight; J/U while a failed-event flow is between its two steps (checkEvents() waits for running handlers
// before it starts a handler of another event type); T<p> to a partition whose node is not alive (operator
// error, the statement is silent about it); M directly after M.  F/D/J/U are NOT pruned on already
// failed / already alive nodes: duplicate and re-sent events exist (resendPreviousEvent, checkFailedNode,
// a store that restarts faster than the failure detector).

import (
	"fmt"
	"os"
	"sort"
	"strconv"
	"strings"
	"testing"
	_ "unsafe" // go:linkname

	_ "github.com/openGemini/openGemini/app/ts-meta/meta" // linked in for electRgMaster
	"github.com/openGemini/openGemini/lib/config"
	"github.com/openGemini/openGemini/lib/util/lifted/hashicorp/serf/serf"
	meta "github.com/openGemini/openGemini/lib/util/lifted/influx/meta"
	proto2 "github.com/openGemini/openGemini/lib/util/lifted/influx/meta/proto"
	"github.com/openGemini/openGemini/lib/util/lifted/protobuf/proto"
	kit "github.com/openGemini/openGemini/lib/verifkit"
	"go.uber.org/zap"
)

// the cluster manager's re-selection function (app/ts-meta/meta/cluster_manager.go)
//
//go:linkname c05ElectRgMaster github.com/openGemini/openGemini/app/ts-meta/meta.electRgMaster
func c05ElectRgMaster(rg *meta.ReplicaGroup, ptInfo meta.DBPtInfos, db string) (uint32, []meta.Peer, bool)

const (
	c05DB    = "db0"
	c05N     = 3
	c05Port  = "8011"
	c05NoOne = -1
)

// ---------------------------------------------------------------- state

type c05State struct {
	d     *meta.Data
	node  [c05N]uint64 // node index -> node id
	ltime uint64       // serf lamport time of the last gossip event

	// leader-side (in-memory) facts the flows depend on
	pendingE [c05N]bool // F<i> applied, failOverForRep(i) not yet run
	inflight [c05N]bool // assignment of partition p started and not finished

	// ghost facts for classification / evidence
	masterNodeWentDown bool // at least once the node owning the current master got a failed event while alive
	hadMajorityDown    bool
	failedElection     int // 0 none; 1 the last failover of the current master found no electable member with <=1 node down; 2 ... with a majority down
	viol               map[string]bool
}

func (s *c05State) copy() *c05State {
	c := *s
	c.d = c05CopyData(s.d)
	c.viol = make(map[string]bool, len(s.viol))
	for k := range s.viol {
		c.viol[k] = true
	}
	return &c
}

// Data.Clone() shares ReplicaGroups (and the peers slices) with the original, see notes; the explorer needs
// independent copies, so the groups are copied by hand on top of the real Clone.
func c05CopyData(d *meta.Data) *meta.Data {
	c := d.Clone()
	if d.ReplicaGroups != nil {
		m := make(map[string][]meta.ReplicaGroup, len(d.ReplicaGroups))
		for db, rgs := range d.ReplicaGroups {
			out := make([]meta.ReplicaGroup, len(rgs))
			for i := range rgs {
				out[i] = rgs[i]
				if rgs[i].Peers != nil {
					out[i].Peers = append([]meta.Peer(nil), rgs[i].Peers...)
				}
			}
			m[db] = out
		}
		c.ReplicaGroups = m
	}
	return c
}

func c05RoundTrip(d *meta.Data) (*meta.Data, error) {
	b, err := d.MarshalBinary()
	if err != nil {
		return nil, err
	}
	o := &meta.Data{}
	if err = o.UnmarshalBinary(b); err != nil {
		return nil, err
	}
	return o, nil
}

// ---------------------------------------------------------------- commands (what the leader proposes, through the "log")

func c05ThroughLog(cmd *proto2.Command) *proto2.Command {
	b, err := proto.Marshal(cmd)
	if err != nil {
		panic(err)
	}
	out := &proto2.Command{}
	if err = proto.Unmarshal(b, out); err != nil {
		panic(err)
	}
	return out
}

// Store.updateNodeStatus (store.go)
func c05CmdNodeStatus(id uint64, st serf.MemberStatus, ltime uint64) *proto2.Command {
	val := &proto2.UpdateNodeStatusCommand{ID: proto.Uint64(id), Status: proto.Int32(int32(st)), Ltime: proto.Uint64(ltime), GossipAddr: proto.String(c05Port)}
	t := proto2.Command_UpdateNodeStatusCommand
	cmd := &proto2.Command{Type: &t}
	if err := proto.SetExtension(cmd, proto2.E_UpdateNodeStatusCommand_Command, val); err != nil {
		panic(err)
	}
	return c05ThroughLog(cmd)
}

// Store.updateReplication (store.go)
func c05CmdUpdateReplication(db string, rgID, master uint32, peers []meta.Peer) *proto2.Command {
	mPeers := make([]*proto2.Peer, len(peers))
	for i := range peers {
		role := uint32(peers[i].PtRole)
		id := peers[i].ID
		mPeers[i] = &proto2.Peer{ID: &id, Role: &role}
	}
	val := &proto2.UpdateReplicationCommand{Database: proto.String(db), RepGroupId: proto.Uint32(rgID), MasterId: proto.Uint32(master), Peers: mPeers}
	t := proto2.Command_UpdateReplicationCommand
	cmd := &proto2.Command{Type: &t}
	if err := proto.SetExtension(cmd, proto2.E_UpdateReplicationCommand_Command, val); err != nil {
		panic(err)
	}
	return c05ThroughLog(cmd)
}

// Store.updatePtInfo (store.go)
func c05CmdUpdatePtInfo(db string, pt *meta.PtInfo, owner uint64, status meta.PtStatus) *proto2.Command {
	val := &proto2.UpdatePtInfoCommand{Db: proto.String(db), Pt: pt.Marshal(), Status: proto.Uint32(uint32(status))}
	if owner > 0 {
		val.OwnerNode = proto.Uint64(owner)
	}
	t := proto2.Command_UpdatePtInfoCommand
	cmd := &proto2.Command{Type: &t}
	if err := proto.SetExtension(cmd, proto2.E_UpdatePtInfoCommand_Command, val); err != nil {
		panic(err)
	}
	return c05ThroughLog(cmd)
}

func c05CmdCreateDataNode(httpAddr, tcpAddr string) *proto2.Command {
	val := &proto2.CreateDataNodeCommand{HTTPAddr: proto.String(httpAddr), TCPAddr: proto.String(tcpAddr), Role: proto.String(""), Az: proto.String("")}
	t := proto2.Command_CreateDataNodeCommand
	cmd := &proto2.Command{Type: &t}
	if err := proto.SetExtension(cmd, proto2.E_CreateDataNodeCommand_Command, val); err != nil {
		panic(err)
	}
	return c05ThroughLog(cmd)
}

func c05CmdCreateDbPtView(db string, replicas uint32) *proto2.Command {
	val := &proto2.CreateDbPtViewCommand{DbName: proto.String(db), ReplicaNum: proto.Uint32(replicas)}
	t := proto2.Command_CreateDbPtViewCommand
	cmd := &proto2.Command{Type: &t}
	if err := proto.SetExtension(cmd, proto2.E_CreateDbPtViewCommand_Command, val); err != nil {
		panic(err)
	}
	return c05ThroughLog(cmd)
}

// ---------------------------------------------------------------- initial catalogue (same command order as a real cluster start)

func c05Initial() (*c05State, error) {
	s := &c05State{viol: map[string]bool{}}
	// NewStore(): Index 1, PtNumPerNode from the config, TakeOverEnabled, BalancerEnabled
	s.d = &meta.Data{Index: 1, PtNumPerNode: 1, TakeOverEnabled: true, BalancerEnabled: true, NumOfShards: 1, UpdateNodeTmpIndexCommandStart: 1}
	for i := 0; i < c05N; i++ { // three ts-store register
		if err := meta.ApplyCreateDataNode(s.d, c05CmdCreateDataNode(fmt.Sprintf("127.0.0.%d:8400", i+1), fmt.Sprintf("127.0.0.%d:8401", i+1))); err != nil {
			return nil, err
		}
	}
	if len(s.d.DataNodes) != c05N {
		return nil, fmt.Errorf("setup: %d data nodes", len(s.d.DataNodes))
	}
	for i := 0; i < c05N; i++ {
		s.node[i] = s.d.DataNodes[i].ID
	}
	for i := 0; i < c05N; i++ { // gossip join of every store
		s.ltime++
		if err := meta.ApplyUpdateNodeStatus(s.d, c05CmdNodeStatus(s.node[i], serf.StatusAlive, s.ltime)); err != nil {
			return nil, err
		}
	}
	// CREATE DATABASE db0 REPLICATION 3 (handlers_process.go createDatabase): 1. CreateDbPtViewCommand (pt view + replica
	// groups), 2. assign every partition (UpdatePtInfo Offline, then Online), 3. CreateDatabaseCommand
	if err := meta.ApplyCreateDbPtViewCommand(s.d, c05CmdCreateDbPtView(c05DB, c05N)); err != nil {
		return nil, err
	}
	pts, err := s.d.GetPtInfosByDbname(c05DB, false, c05N)
	if err != nil {
		return nil, err
	}
	if len(pts) != c05N {
		return nil, fmt.Errorf("setup: %d partitions to assign", len(pts))
	}
	for _, pt := range pts {
		if err = meta.ApplyUpdatePtInfo(s.d, c05CmdUpdatePtInfo(c05DB, pt.Pti, pt.Pti.Owner.NodeID, pt.Pti.Status)); err != nil {
			return nil, err
		}
		if err = meta.ApplyUpdatePtInfo(s.d, c05CmdUpdatePtInfo(c05DB, pt.Pti, pt.Pti.Owner.NodeID, meta.Online)); err != nil {
			return nil, err
		}
	}
	rp := meta.NewRetentionPolicyInfo("autogen") // applyCreateDatabaseCommand with RetentionAutoCreate
	rp.ReplicaN = c05N
	if err = s.d.CreateDatabase(c05DB, rp, nil, false, c05N, nil); err != nil {
		return nil, err
	}
	// the layout everything below relies on
	v := c05Look(s)
	if v.err != "" {
		return nil, fmt.Errorf("setup: %s", v.err)
	}
	for p := 0; p < c05N; p++ {
		if v.owner[p] != p || v.ptStatus[p] != meta.Online || !v.alive[p] {
			return nil, fmt.Errorf("setup: unexpected layout %s", c05Dump(s.d))
		}
	}
	if v.master != 0 || v.status != meta.Health || len(v.peers) != 2 {
		return nil, fmt.Errorf("setup: unexpected group %s", c05Dump(s.d))
	}
	return s, nil
}

// ---------------------------------------------------------------- view + dump

type c05View struct {
	err      string
	nGroups  int
	master   uint32
	peers    []meta.Peer
	status   meta.RGStatus
	term     uint64
	rgID     uint32
	owner    [c05N]int // partition -> node index (-1 unknown)
	ptStatus [c05N]meta.PtStatus
	ptRGID   [c05N]uint32
	alive    [c05N]bool // node index -> catalogue says alive
	nPts     int
	down     int
}

func c05Look(s *c05State) c05View {
	var v c05View
	d := s.d
	if len(d.DataNodes) != c05N {
		v.err = fmt.Sprintf("%d data nodes", len(d.DataNodes))
		return v
	}
	for i := 0; i < c05N; i++ {
		n := d.DataNode(s.node[i])
		if n == nil {
			v.err = fmt.Sprintf("data node %d vanished", s.node[i])
			return v
		}
		v.alive[i] = n.Status == serf.StatusAlive
		if !v.alive[i] {
			v.down++
		}
	}
	pts := d.PtView[c05DB]
	v.nPts = len(pts)
	if len(pts) != c05N {
		v.err = fmt.Sprintf("%d partitions in the pt view", len(pts))
		return v
	}
	for p := 0; p < c05N; p++ {
		if pts[p].PtId != uint32(p) {
			v.err = fmt.Sprintf("pt view slot %d holds partition %d", p, pts[p].PtId)
			return v
		}
		v.owner[p] = c05NoOne
		for i := 0; i < c05N; i++ {
			if s.node[i] == pts[p].Owner.NodeID {
				v.owner[p] = i
			}
		}
		v.ptStatus[p] = pts[p].Status
		v.ptRGID[p] = pts[p].RGID
	}
	rgs := d.ReplicaGroups[c05DB]
	v.nGroups = len(rgs)
	if len(rgs) >= 1 {
		v.rgID, v.master, v.status, v.term = rgs[0].ID, rgs[0].MasterPtID, rgs[0].Status, rgs[0].Term
		v.peers = append([]meta.Peer(nil), rgs[0].Peers...)
	}
	return v
}

// complete, sorted rendering of everything the replica-group logic reads or writes
func c05Dump(d *meta.Data) string {
	b := make([]byte, 0, 512)
	u := func(name string, v uint64) {
		b = append(b, name...)
		b = strconv.AppendUint(b, v, 10)
	}
	for i := range d.DataNodes {
		n := &d.DataNodes[i]
		u("node{id=", n.ID)
		u(" status=", uint64(n.Status))
		u(" ltime=", n.LTime)
		u(" conn=", n.ConnID)
		u(" aliveConn=", n.AliveConnID)
		b = append(b, "} "...)
	}
	dbs := make([]string, 0, len(d.PtView))
	for db := range d.PtView {
		dbs = append(dbs, db)
	}
	sort.Strings(dbs)
	for _, db := range dbs {
		for _, pt := range d.PtView[db] {
			b = append(b, "pt{"...)
			b = append(b, db...)
			u("/", uint64(pt.PtId))
			u(" owner=", pt.Owner.NodeID)
			u(" status=", uint64(pt.Status))
			u(" ver=", pt.Ver)
			u(" rg=", uint64(pt.RGID))
			b = append(b, "} "...)
		}
	}
	dbs = dbs[:0]
	for db := range d.ReplicaGroups {
		dbs = append(dbs, db)
	}
	sort.Strings(dbs)
	for _, db := range dbs {
		for _, rg := range d.ReplicaGroups[db] {
			b = append(b, "rg{"...)
			b = append(b, db...)
			u("/", uint64(rg.ID))
			u(" master=", uint64(rg.MasterPtID))
			b = append(b, " peers=["...)
			for i, p := range rg.Peers {
				if i > 0 {
					b = append(b, ' ')
				}
				u("", uint64(p.ID))
				u(":", uint64(p.PtRole))
			}
			u("] status=", uint64(rg.Status))
			u(" term=", rg.Term)
			b = append(b, "} "...)
		}
	}
	return string(b)
}

// ---------------------------------------------------------------- events

type c05Event struct {
	name string
	kind byte // D F E U J O T M
	idx  int
}

var c05Alphabet = func() []c05Event {
	var a []c05Event
	for _, k := range []byte("DFEUJOT") {
		for i := 0; i < c05N; i++ {
			a = append(a, c05Event{name: string(k) + strconv.Itoa(i), kind: k, idx: i})
		}
	}
	return append(a, c05Event{name: "M", kind: 'M'})
}()

func c05EventByName(n string) (c05Event, bool) {
	for _, e := range c05Alphabet {
		if e.name == n {
			return e, true
		}
	}
	return c05Event{}, false
}

// what a step did, for the oracle
type c05Step struct {
	cmdErr      []string // unexpected errors returned by Apply*
	elections   int      // electRgMaster calls
	elected     int      // ... that found a new master (UpdateReplication proposed)
	noCandidate int      // ... that did not
	hadCand     bool     // at the moment of the (last) election an electable member existed (node alive + partition online)
	candDown    int      // nodes down at that moment
	transfers   int      // admin transfers proposed
	transferErr int      // GetNewRg refused
	masterDown  bool     // a failed event hit the alive node of the current master
	guardNoop   int      // UpdatePtInfo(Online) for a partition of a dead node (must be a no-op)
}

func (s *c05State) applicable(e c05Event, prev byte) bool {
	switch e.kind {
	case 'E':
		return s.pendingE[e.idx]
	case 'J', 'U':
		for i := range s.pendingE {
			if s.pendingE[i] {
				return false
			}
		}
		return true
	case 'O':
		if !s.inflight[e.idx] {
			return false
		}
		pts := s.d.PtView[c05DB]
		return e.idx < len(pts) && pts[e.idx].Status == meta.Offline
	case 'T':
		pts := s.d.PtView[c05DB]
		if e.idx >= len(pts) {
			return false
		}
		return s.d.DataNodeAlive(pts[e.idx].Owner.NodeID)
	case 'M':
		return prev != 'M'
	}
	return true
}

func (s *c05State) apply(e c05Event, st *c05Step) {
	switch e.kind {
	case 'F':
		s.evFailStatus(e.idx, st)
	case 'E':
		s.evFailOver(e.idx, st)
	case 'D':
		s.evFailStatus(e.idx, st)
		s.evFailOver(e.idx, st)
	case 'J':
		s.evJoin(e.idx, st)
	case 'O':
		s.evAssigned(e.idx, st)
	case 'U':
		s.evJoin(e.idx, st)
		for p := 0; p < c05N; p++ {
			if s.inflight[p] {
				s.evAssigned(p, st)
			}
		}
	case 'T':
		s.evTransfer(e.idx, st)
	case 'M':
		o, err := c05RoundTrip(s.d)
		if err != nil {
			st.cmdErr = append(st.cmdErr, "MarshalBinary/UnmarshalBinary: "+err.Error())
			return
		}
		s.d = o
	}
}

// failHandlerForRep, first half: handleStoreEvent -> Store.updateNodeStatus -> UpdateNodeStatusCommand; handleClusterMember
func (s *c05State) evFailStatus(i int, st *c05Step) {
	v := c05Look(s)
	if v.err == "" && v.alive[i] && int(v.master) < c05N && v.owner[v.master] == i {
		st.masterDown = true
		s.masterNodeWentDown = true
	}
	s.ltime++
	if err := meta.ApplyUpdateNodeStatus(s.d, c05CmdNodeStatus(s.node[i], serf.StatusFailed, s.ltime)); err != nil {
		st.cmdErr = append(st.cmdErr, "UpdateNodeStatus(failed): "+err.Error())
		return // the handler returns the error, the event is retried later: no fail-over now
	}
	s.pendingE[i] = true
}

// failHandlerForRep, second half: failOverForRep(id) = Store.getFailedDbPts(id, Offline) and, per partition,
// ClusterManager.processReplication
func (s *c05State) evFailOver(i int, st *c05Step) {
	if !s.pendingE[i] {
		return
	}
	s.pendingE[i] = false
	dbPts := s.d.GetFailedPtInfos(s.node[i], meta.Offline)
	for _, dbPt := range dbPts {
		rgs := s.d.ReplicaGroups[dbPt.Db] // Store.getReplicationGroup
		ptInfos := s.d.PtView[dbPt.Db]    // Store.getDBPtInfos
		if len(rgs) == 0 || len(ptInfos) == 0 {
			continue
		}
		rgID := dbPt.Pti.RGID
		if int(rgID) >= len(rgs) {
			st.cmdErr = append(st.cmdErr, fmt.Sprintf("processReplication would index group %d of %d", rgID, len(rgs)))
			continue
		}
		rg := &rgs[rgID]
		if rg.MasterPtID != dbPt.Pti.PtId {
			continue
		}
		// the oracle's own notion of an electable member, evaluated on the same state
		v := c05Look(s)
		st.hadCand, st.candDown = false, v.down
		if v.err == "" {
			for p := 0; p < c05N; p++ {
				if uint32(p) != rg.MasterPtID && v.owner[p] != c05NoOne && v.alive[v.owner[p]] && v.ptStatus[p] == meta.Online {
					st.hadCand = true
				}
			}
		}
		st.elections++
		masterID, newPeers, ok := c05ElectRgMaster(rg, ptInfos, dbPt.Db)
		if !ok {
			st.noCandidate++
			switch {
			case st.hadCand: // the oracle saw an electable member: not the known "nothing electable" situation
				s.failedElection = 0
			case st.candDown >= 2:
				s.failedElection = 2
			default:
				s.failedElection = 1
			}
			continue
		}
		st.elected++
		s.failedElection = 0
		if err := meta.ApplyUpdateReplication(s.d, c05CmdUpdateReplication(dbPt.Db, rgID, masterID, newPeers), nil); err != nil {
			st.cmdErr = append(st.cmdErr, "UpdateReplication: "+err.Error())
		}
	}
}

// joinHandlerForRep: handleStoreEvent (UpdateNodeStatusCommand alive), handleClusterMember, takeoverForRep(id) with
// Store.GetFailedDbPtsForRep(id, Offline) mirrored for the replicated database
func (s *c05State) evJoin(i int, st *c05Step) {
	s.ltime++
	if err := meta.ApplyUpdateNodeStatus(s.d, c05CmdNodeStatus(s.node[i], serf.StatusAlive, s.ltime)); err != nil {
		st.cmdErr = append(st.cmdErr, "UpdateNodeStatus(alive): "+err.Error())
		return
	}
	d := s.d
	for _, db := range c05SortedDBs(d) {
		dbi := d.Databases[db]
		if dbi == nil || dbi.MarkDeleted || dbi.ReplicaN <= 1 {
			continue
		}
		chosen := map[uint32]*meta.ReplicaGroup{}
		for k := range d.PtView[db] {
			if d.PtView[db][k].Owner.NodeID != s.node[i] {
				continue
			}
			rgID := d.PtView[db][k].RGID
			if _, ok := d.ReplicaGroups[db]; !ok || int(rgID) >= len(d.ReplicaGroups[db]) {
				continue
			}
			rg := d.GetRGOfPtFast(rgID, db)
			if d.PtView[db][k].Status != meta.Offline || rg == nil || rg.Status == meta.UnFull {
				continue
			}
			chosen[rgID] = rg
		}
		for k := range d.PtView[db] {
			pt := d.PtView[db][k] // snapshot
			member := false
			for _, rg := range chosen {
				if rg.MasterPtID == pt.PtId {
					member = true
				}
				for _, peer := range rg.Peers {
					if peer.ID == pt.PtId {
						member = true
					}
				}
			}
			if !member {
				continue
			}
			// takeoverForRep: only offline partitions of alive nodes; processFailedDbPtForRep: skip if online by now
			if pt.Status == meta.Offline && d.DataNodeAlive(pt.Owner.NodeID) && int(pt.PtId) < c05N {
				s.inflight[pt.PtId] = true // balanceManager.assignDbPt -> migrate state machine, asynchronous
			}
		}
	}
}

func c05SortedDBs(d *meta.Data) []string {
	dbs := make([]string, 0, len(d.PtView))
	for db := range d.PtView {
		dbs = append(dbs, db)
	}
	sort.Strings(dbs)
	return dbs
}

// AssignEvent: startAssignHandler -> updatePtInfo(db, pt, dst, pt.Status); the store loads the partition;
// assignedHandler -> BaseEvent.updatePtInfo -> updatePtInfo(db, pt, owner, Online).  (Create/Update/RemoveEvent
// commands of the migrate state machine only touch Data.MigrateEvents and are left out.)
func (s *c05State) evAssigned(p int, st *c05Step) {
	s.inflight[p] = false
	pts := s.d.PtView[c05DB]
	if p >= len(pts) {
		return
	}
	snap := pts[p] // the event's copy of the partition (taken when the assignment was created: offline, same owner)
	if !s.d.DataNodeAlive(snap.Owner.NodeID) {
		st.guardNoop++ // the store answered, then died: the late Online must be ignored by UpdatePtInfo
	}
	if err := meta.ApplyUpdatePtInfo(s.d, c05CmdUpdatePtInfo(c05DB, &snap, snap.Owner.NodeID, snap.Status)); err != nil {
		st.cmdErr = append(st.cmdErr, "UpdatePtInfo(start): "+err.Error())
		return
	}
	if err := meta.ApplyUpdatePtInfo(s.d, c05CmdUpdatePtInfo(c05DB, &snap, snap.Owner.NodeID, meta.Online)); err != nil {
		st.cmdErr = append(st.cmdErr, "UpdatePtInfo(online): "+err.Error())
	}
}

// Store.ModifyRepDBMasterPt: Data.GetNewRg + updateReplication
func (s *c05State) evTransfer(p int, st *c05Step) {
	masterID, newPeers, err := s.d.GetNewRg(c05DB, 0, uint32(p))
	if err != nil {
		st.transferErr++
		return
	}
	st.transfers++
	s.failedElection = 0
	if err = meta.ApplyUpdateReplication(s.d, c05CmdUpdateReplication(c05DB, 0, masterID, newPeers), nil); err != nil {
		st.cmdErr = append(st.cmdErr, "UpdateReplication(admin): "+err.Error())
	}
}

// ---------------------------------------------------------------- oracle

type c05Finding struct{ kind, detail string }

// check evaluates every invariant on the state after the step; `before` is the state the step started from.
func c05Check(before, after *c05State, e c05Event, st *c05Step, panicked string) []c05Finding {
	var out []c05Finding
	add := func(kind, format string, a ...any) { out = append(out, c05Finding{kind, fmt.Sprintf(format, a...)}) }
	if panicked != "" {
		add("catalogue_command_panicked", "%s", panicked)
		return out
	}
	for _, ce := range st.cmdErr {
		add("catalogue_command_failed_unexpectedly", "%s", ce)
	}
	pv, v := c05Look(before), c05Look(after)
	if v.err != "" {
		add("replica_group_invariant_mismatch", "catalogue layout broken: %s", v.err)
		return out
	}
	// --- 2. structure
	if v.nGroups != 1 {
		add("replica_group_count_changed", "database %s has %d replica groups, want 1", c05DB, v.nGroups)
		return out
	}
	for p := 0; p < c05N; p++ {
		if v.ptRGID[p] != v.rgID {
			add("pt_rgid_mismatch", "partition %d has RGID %d, group id is %d", p, v.ptRGID[p], v.rgID)
		}
		if v.owner[p] != p {
			add("replica_group_invariant_mismatch", "partition %d moved to node index %d (replication policy never moves partitions)", p, v.owner[p])
		}
	}
	if int(v.master) >= c05N {
		add("master_not_member_of_group", "MasterPtID %d is not one of the group's partitions 0..2", v.master)
	}
	seen := map[uint32]int{}
	for _, p := range v.peers {
		seen[p.ID]++
		if int(p.ID) >= c05N {
			add("peer_list_foreign_member", "peer %d is not one of the group's partitions 0..2", p.ID)
		}
		if p.PtRole > meta.Catcher {
			add("replica_group_invariant_mismatch", "peer %d has undefined role %d", p.ID, p.PtRole)
		}
	}
	if seen[v.master] > 0 {
		add("master_listed_in_own_peers", "MasterPtID %d also appears in Peers %v", v.master, v.peers)
	}
	for id, n := range seen {
		if n > 1 {
			add("peer_list_duplicate_member", "partition %d appears %d times in Peers %v", id, n, v.peers)
		}
	}
	for p := 0; p < c05N; p++ {
		if uint32(p) != v.master && seen[uint32(p)] == 0 {
			add("peer_list_lost_member", "partition %d is neither master (%d) nor in Peers %v", p, v.master, v.peers)
		}
	}
	// --- 3. term
	if pv.err == "" && pv.nGroups == 1 && v.term < pv.term {
		add("term_decreased", "Term went from %d to %d", pv.term, v.term)
	}
	// --- 4. status follows replication.go
	online := 0
	for p := 0; p < c05N; p++ {
		if v.ptStatus[p] == meta.Online {
			online++
		}
	}
	switch {
	case v.status == meta.UnFull:
		add("status_back_to_unfull", "a full group of %d is UnFull again", c05N)
	case v.status != meta.Health && v.status != meta.SubHealth:
		add("replica_group_invariant_mismatch", "undefined group status %d", v.status)
	case online > c05N/2 && v.status != meta.Health:
		add("status_not_following_majority", "%d of %d partitions online but status is SubHealth", online, c05N)
	case online <= c05N/2 && v.status != meta.SubHealth:
		add("status_not_following_majority", "%d of %d partitions online but status is Health", online, c05N)
	}
	// --- 6. the election's notion of "alive" is the partition status: online only on alive nodes
	for p := 0; p < c05N; p++ {
		if v.ptStatus[p] == meta.Online && v.owner[p] != c05NoOne && !v.alive[v.owner[p]] {
			add("pt_online_on_dead_node", "partition %d is Online but its node (index %d) is not alive", p, v.owner[p])
		}
	}
	// --- 5. persistence and copies keep the groups exactly
	dumpAfter := c05Dump(after.d)
	if rt, err := c05RoundTrip(after.d); err != nil {
		add("replica_group_changed_by_marshal", "MarshalBinary/UnmarshalBinary failed: %v", err)
	} else if b := c05Dump(rt); dumpAfter != b {
		if len(rt.ReplicaGroups[c05DB]) == 0 {
			add("replica_group_lost_in_marshal", "before: %s\nafter : %s", dumpAfter, b)
		} else {
			add("replica_group_changed_by_marshal", "before: %s\nafter : %s", dumpAfter, b)
		}
	}
	if b := c05Dump(after.d.Clone()); dumpAfter != b {
		add("replica_group_changed_by_clone", "original: %s\nclone   : %s", dumpAfter, b)
	}
	// --- 1a. quality of an election, in every regime: a fail-over that had an electable member must end on an alive node
	masterAlive := int(v.master) < c05N && v.owner[v.master] != c05NoOne && v.alive[v.owner[v.master]]
	if st.elections > 0 && st.hadCand && !masterAlive {
		if pv.err == "" && pv.master != v.master {
			add("dead_node_partition_elected_master", "fail-over moved the master from %d to %d whose node is not alive although an online partition on an alive node existed", pv.master, v.master)
		} else {
			add("failover_skipped_electable_candidate", "fail-over left the master on %d (node not alive) although an online partition on an alive node existed", v.master)
		}
	}
	// --- 1b. strict part: at most a minority down, no failed-event flow between its two steps
	pending := false
	for i := range after.pendingE {
		pending = pending || after.pendingE[i]
	}
	if v.down <= (c05N-1)/2 && !pending && !masterAlive {
		cand := -1
		for p := 0; p < c05N; p++ {
			if v.owner[p] != c05NoOne && v.alive[v.owner[p]] && v.ptStatus[p] == meta.Online {
				cand = p
				break
			}
		}
		if cand >= 0 { // lenient: nothing electable (all other partitions still loading) => nothing demanded
			what := fmt.Sprintf("master %d lives on a node that is not alive, partition %d is online on an alive node, %d node(s) down, no fail-over pending", v.master, cand, v.down)
			switch after.failedElection {
			case 1:
				add("master_stuck_on_dead_node_after_failed_election", "%s; the fail-over of the master found nothing electable (others were still loading) and nothing re-elects later", what)
			case 2:
				add("master_stuck_on_dead_node_after_majority_outage", "%s; the fail-over of the master ran while a majority was down and nothing re-elects later", what)
			default:
				add("master_on_dead_node_after_failover", "%s", what)
			}
		}
	}
	return out
}

// ---------------------------------------------------------------- execution of one step / one sequence

func c05Do(before *c05State, e c05Event) (after *c05State, st *c05Step, findings []c05Finding) {
	after = before.copy()
	st = &c05Step{}
	panicked := ""
	func() {
		defer func() {
			if r := recover(); r != nil {
				panicked = fmt.Sprintf("event %s panicked: %v", e.name, r)
			}
		}()
		after.apply(e, st)
	}()
	if panicked == "" {
		if v := c05Look(after); v.err == "" && v.down > (c05N-1)/2 {
			after.hadMajorityDown = true
		}
	}
	all := c05Check(before, after, e, st, panicked)
	// report what this step introduced; what the parent already showed has been reported there
	now := map[string]bool{}
	for _, f := range all {
		now[f.kind] = true
		if !before.viol[f.kind] {
			findings = append(findings, f)
		}
	}
	after.viol = now
	if panicked != "" {
		after = nil // cannot be continued
	}
	return after, st, findings
}

// run executes a whole sequence from the initial catalogue; returns the findings of the LAST step
func c05Run(seq []string) (last []c05Finding, trace []string, err error) {
	s, err := c05Initial()
	if err != nil {
		return nil, nil, err
	}
	trace = append(trace, "init: "+c05Dump(s.d))
	prev := byte(0)
	for k, name := range seq {
		e, ok := c05EventByName(name)
		if !ok {
			return nil, trace, fmt.Errorf("unknown event %q", name)
		}
		if !s.applicable(e, prev) {
			return nil, trace, fmt.Errorf("event %q (step %d) is not applicable", name, k)
		}
		ns, _, f := c05Do(s, e)
		last = f
		if ns == nil {
			trace = append(trace, name+": PANIC")
			if k != len(seq)-1 {
				return nil, trace, fmt.Errorf("event %q (step %d) panicked before the end of the sequence", name, k)
			}
			break
		}
		s = ns
		prev = e.kind
		trace = append(trace, fmt.Sprintf("%s: %s pendingE=%v inflight=%v", name, c05Dump(s.d), s.pendingE, s.inflight))
	}
	return last, trace, nil
}

func c05Kinds(f []c05Finding) string {
	k := make([]string, 0, len(f))
	for _, x := range f {
		k = append(k, x.kind)
	}
	sort.Strings(k)
	return strings.Join(k, ",")
}

// ---------------------------------------------------------------- explorer

type c05Replay struct {
	Part string   `json:"part"`
	Seq  []string `json:"seq"`
	Kind string   `json:"kind,omitempty"`
}

type c05Kept struct {
	seq    []string
	detail string
}

type c05Explorer struct {
	t        *testing.T
	rep      *kit.Report
	maxDepth int
	shardAt  int
	idx      int
	seq      []string
	cut      bool
	kept     map[string][]c05Kept // per kind: the shortest (then least) sequences
	count    map[string]int64
	samples  int
	n        struct {
		eval, elected, noCand, transfers, transferErr, guardNoop, majority int64
		level                                                              [8]int64
	}
}

func (x *c05Explorer) flushCounters() {
	rep := x.rep
	rep.Eval(x.n.eval)
	for l, c := range x.n.level {
		if c > 0 {
			rep.Count("sequences_of_length_"+strconv.Itoa(l), c)
		}
	}
	rep.Count("failovers_performed", x.n.elected)
	rep.Count("failovers_without_electable_member", x.n.noCand)
	rep.Count("admin_transfers_performed", x.n.transfers)
	rep.Count("admin_transfers_refused", x.n.transferErr)
	rep.Count("late_online_for_dead_node_ignored", x.n.guardNoop)
	rep.Count("sequences_with_majority_down", x.n.majority)
}

func c05Less(a, b []string) bool {
	if len(a) != len(b) {
		return len(a) < len(b)
	}
	return strings.Join(a, " ") < strings.Join(b, " ")
}

func (x *c05Explorer) record(f c05Finding, seq []string) {
	x.count[f.kind]++
	k := x.kept[f.kind]
	item := c05Kept{seq: append([]string(nil), seq...), detail: f.detail}
	k = append(k, item)
	sort.SliceStable(k, func(i, j int) bool { return c05Less(k[i].seq, k[j].seq) })
	if len(k) > 8 {
		k = k[:8]
	}
	x.kept[f.kind] = k
}

func (x *c05Explorer) flush() {
	kinds := make([]string, 0, len(x.kept))
	for k := range x.kept {
		kinds = append(kinds, k)
	}
	sort.Strings(kinds)
	for _, kind := range kinds {
		for _, it := range x.kept[kind] {
			_, trace, _ := c05Run(it.seq)
			x.rep.Violation(kind, strings.Join(it.seq, " "), it.detail+"\n"+strings.Join(trace, "\n"),
				c05Replay{Part: "b", Seq: it.seq, Kind: kind})
		}
		for n := int64(len(x.kept[kind])); n < x.count[kind]; n++ {
			x.rep.Violation(kind, "", "", nil) // counted, not kept
		}
	}
}

func (x *c05Explorer) dfs(s *c05State, prev byte, owned bool) {
	depth := len(x.seq)
	if depth >= x.maxDepth || x.cut {
		return
	}
	for _, e := range c05Alphabet {
		if !s.applicable(e, prev) {
			continue
		}
		childDepth := depth + 1
		mine := owned
		if childDepth <= x.shardAt {
			mine = kit.Mine(x.idx)
			x.idx++
			if childDepth == x.shardAt && !mine {
				continue // another worker's subtree
			}
		}
		if x.rep.Expired() {
			x.cut = true
			return
		}
		x.seq = append(x.seq, e.name)
		child, st, findings := c05Do(s, e)
		if mine {
			x.account(child, st, findings)
		}
		if child != nil {
			x.dfs(child, e.kind, mine && childDepth >= x.shardAt)
		}
		x.seq = x.seq[:len(x.seq)-1]
		if x.cut {
			return
		}
	}
}

func (x *c05Explorer) account(child *c05State, st *c05Step, findings []c05Finding) {
	rep := x.rep
	x.n.eval++
	x.n.level[len(x.seq)]++
	x.n.elected += int64(st.elected)
	x.n.noCand += int64(st.noCandidate)
	x.n.transfers += int64(st.transfers)
	x.n.transferErr += int64(st.transferErr)
	x.n.guardNoop += int64(st.guardNoop)
	if child != nil {
		if child.hadMajorityDown {
			x.n.majority++
		}
		if child.masterNodeWentDown {
			if rep.DistinctNontrivial(kit.Hash(append([]string{"b"}, x.seq...)...)) && len(x.seq) == x.maxDepth && x.samples < 2 && st.elected > 0 {
				x.samples++
				rep.Sample(6, map[string]any{"part": "b", "seq": strings.Join(x.seq, " "), "final": c05Dump(child.d)})
			}
		}
	}
	for _, f := range findings {
		// determinism: the same sequence from scratch must show the same findings at its last step, three times
		for r := 0; r < 3; r++ {
			again, _, err := c05Run(x.seq)
			if err != nil || !strings.Contains(","+c05Kinds(again)+",", ","+f.kind+",") {
				x.t.Fatalf("harness not deterministic: %v kind %s not reproduced on re-execution %d (got %q, err %v)", x.seq, f.kind, r+1, c05Kinds(again), err)
			}
		}
		x.record(f, x.seq)
	}
}

func TestVerifC05Master(t *testing.T) {
	rep := kit.NewReport("C05")
	defer rep.Save()
	meta.DataLogger = zap.NewNop()
	if err := config.SetHaPolicy(config.RepPolicy); err != nil {
		t.Fatal(err)
	}
	meta.SetRepDisPolicy(uint8(meta.NodeHard))

	if kit.ReplayPath() != "" {
		var c c05Replay
		if err := kit.LoadReplay(&c); err != nil {
			t.Fatal(err)
		}
		if c.Part != "b" {
			return
		}
		var firstErr error
		var first string
		for r := 0; r < 3 && firstErr == nil; r++ { // every prefix is checked: the violation may be introduced at an inner step
			var got []string
			for n := 1; n <= len(c.Seq); n++ {
				f, trace, err := c05Run(c.Seq[:n])
				if err != nil {
					firstErr = err
					break
				}
				got = append(got, c05Kinds(f))
				if r == 0 {
					for _, x := range f {
						rep.Violation(x.kind, strings.Join(c.Seq[:n], " "), x.detail+"\n"+strings.Join(trace, "\n"), c05Replay{Part: "b", Seq: c.Seq[:n], Kind: x.kind})
					}
					rep.Eval(1)
				}
			}
			if r == 0 {
				first = strings.Join(got, "|")
			} else if firstErr == nil && first != strings.Join(got, "|") {
				t.Fatalf("harness not deterministic on replay: %q vs %q", first, strings.Join(got, "|"))
			}
		}
		if firstErr != nil {
			t.Fatal(firstErr)
		}
		return
	}

	init0, err := c05Initial()
	if err != nil {
		t.Fatal(err)
	}
	x := &c05Explorer{t: t, rep: rep, maxDepth: 4, shardAt: 2, kept: map[string][]c05Kept{}, count: map[string]int64{}}
	if kit.Thorough() {
		x.maxDepth, x.shardAt = 6, 3
	}
	if v := os.Getenv("C05B_DEPTH"); v != "" {
		if n, e := strconv.Atoi(v); e == nil && n > 0 && n < 8 {
			x.maxDepth = n
			if x.shardAt >= n {
				x.shardAt = n - 1
			}
			if x.shardAt < 1 {
				x.shardAt = 1
			}
		}
	}
	x.dfs(init0, 0, false)
	x.flushCounters()
	x.flush()
	rep.Max("max_sequence_length_b", int64(x.maxDepth))
	if x.cut {
		rep.Cut("part b: deadline reached before all sequences were executed")
	}
}
