//go:build verif

package influxql

// C12 support that is shared by the harnesses of several packages (overlaid as a non-test file
// of package influxql, build tag verif): canonical typed tree, the defect models that classify a
// difference, the controlled-state parser helpers, and the expression grammar.

import (
	"fmt"
	"math"
	"os"
	"sort"
	"strconv"
	"strings"
)

// ---------------------------------------------------------------- canonical form

// c12Norm switches on the defect models: each one erases exactly the distinction that one known
// printer/parser defect loses.  The zero value is the strict canonical form.
type c12Norm struct {
	intFloat bool // integral NumberLiteral in int64 range == IntegerLiteral of that value (printed without fraction)
	nsDur    bool // duration that is not a multiple of 1µs == the duration truncated to µs (FormatDuration)
	reSlash  bool // regex source: any run of backslashes before '/' == one backslash
	infIdent bool // identifier inf / nan == the float constant
	regroup  bool // binary sub-expression without ParenExpr is re-attached by operator precedence (printed flat)
}

// shipped: the model set as it applies to the tree that came back.  Re-attachment by precedence models how the
// planned tree is *printed*; a tree that a parser has built is what it is.
func (n c12Norm) shipped() c12Norm { n.regroup = false; return n }

// the harness's own precedence table (influxql.Token.Precedence() is code under test)
func c12Prec(op Token) int {
	switch op {
	case OR:
		return 1
	case AND:
		return 2
	case EQ, NEQ, EQREGEX, NEQREGEX, LT, LTE, GT, GTE, IN, NOTIN:
		return 3
	case ADD, SUB, BITWISE_OR, BITWISE_XOR:
		return 4
	case MUL, DIV, MOD, BITWISE_AND:
		return 5
	case MATCH, MATCHPHRASE, LIKE, IPINRANGE:
		return 6
	}
	return 0
}

type c12Canoner struct {
	b []byte
	n c12Norm
}

func c12Canon(e Expr) string { return c12CanonN(e, c12Norm{}) }

func c12CanonN(e Expr, n c12Norm) string {
	c := c12Canoner{b: make([]byte, 0, 96), n: n}
	c.expr(e)
	return string(c.b)
}

func (c *c12Canoner) s(x string) { c.b = append(c.b, x...) }

func c12CollapseBackslashesBeforeSlash(re string) string {
	if !strings.Contains(re, `\/`) {
		return re
	}
	var out []byte
	for i := 0; i < len(re); i++ {
		if re[i] == '\\' {
			j := i
			for j < len(re) && re[j] == '\\' {
				j++
			}
			if j < len(re) && re[j] == '/' {
				out = append(out, '\\')
				i = j - 1
				continue
			}
			out = append(out, re[i:j]...)
			i = j - 1
			continue
		}
		out = append(out, re[i])
	}
	return string(out)
}

func (c *c12Canoner) expr(e Expr) {
	switch n := e.(type) {
	case nil:
		c.s("<nil>")
	case *ParenExpr:
		c.expr(n.Expr)
	case *BinaryExpr:
		if c.n.regroup {
			c.regrouped(n)
			return
		}
		c.s("(")
		c.s(n.Op.String())
		c.s(" ")
		c.expr(n.LHS)
		c.s(" ")
		c.expr(n.RHS)
		if n.ReturnBool {
			c.s(" rb")
		}
		c.s(")")
	case *NumberLiteral:
		switch {
		case n.Val != n.Val:
			c.s("num:NaN")
		case c.n.intFloat && n.Val == math.Trunc(n.Val) && n.Val >= -9223372036854775808.0 && n.Val < 9223372036854775808.0:
			c.s("int:")
			c.b = strconv.AppendInt(c.b, int64(n.Val), 10)
		case c.n.intFloat && n.Val == math.Trunc(n.Val) && n.Val < -9223372036854775808.0:
			c.s("int:-9223372036854775807") // what the yacc lexer makes of the printed digits (ParseInt error ignored)
		default:
			c.s("num:")
			c.b = strconv.AppendUint(c.b, math.Float64bits(n.Val), 16)
		}
	case *IntegerLiteral:
		c.s("int:")
		c.b = strconv.AppendInt(c.b, n.Val, 10)
	case *UnsignedLiteral:
		c.s("uint:")
		c.b = strconv.AppendUint(c.b, n.Val, 10)
	case *StringLiteral:
		c.s("str:")
		c.b = strconv.AppendQuote(c.b, n.Val)
	case *BooleanLiteral:
		c.s("bool:")
		c.b = strconv.AppendBool(c.b, n.Val)
	case *DurationLiteral:
		d := int64(n.Val)
		if c.n.nsDur && d%1000 != 0 {
			d = d / 1000 * 1000
		}
		c.s("dur:")
		c.b = strconv.AppendInt(c.b, d, 10)
	case *TimeLiteral:
		c.s("time:")
		c.b = strconv.AppendInt(c.b, n.Val.UnixNano(), 10)
	case *RegexLiteral:
		if n == nil || n.Val == nil {
			c.s("re:<nil>")
		} else {
			re := n.Val.String()
			if c.n.reSlash {
				re = c12CollapseBackslashesBeforeSlash(re)
			}
			c.s("re:")
			c.b = strconv.AppendQuote(c.b, re)
		}
	case *VarRef:
		if c.n.infIdent && n.Type == Unknown {
			switch strings.ToLower(n.Val) {
			case "inf":
				c.s("num:7ff0000000000000")
				return
			case "nan":
				c.s("num:NaN")
				return
			}
		}
		c.s("ref:")
		c.b = strconv.AppendQuote(c.b, n.Val)
		c.s(":")
		c.b = strconv.AppendInt(c.b, int64(n.Type), 10)
	case *Call:
		c.s("call:")
		c.b = strconv.AppendQuote(c.b, n.Name)
		c.s("[")
		for i := range n.Args {
			if i > 0 {
				c.s(",")
			}
			c.expr(n.Args[i])
		}
		c.s("]")
	case *Wildcard:
		c.s("wild:")
		c.b = strconv.AppendInt(c.b, int64(n.Type), 10)
	case *NilLiteral:
		c.s("nil")
	case *Distinct:
		c.s("distinct:")
		c.b = strconv.AppendQuote(c.b, n.Val)
	case *SetLiteral:
		vals := make([]string, 0, len(n.Vals))
		for v := range n.Vals {
			vals = append(vals, fmt.Sprintf("%T:%v", v, v))
		}
		sort.Strings(vals)
		c.s(fmt.Sprintf("set:%q", vals))
	default:
		c.s(fmt.Sprintf("%T:%q", e, e.String()))
	}
}

// regrouped writes the tree that precedence climbing (left-associative) makes of the flat operand
// sequence of a binary expression whose BinaryExpr children are not wrapped in ParenExpr.
func (c *c12Canoner) regrouped(root *BinaryExpr) {
	var operands []Expr
	var ops []*BinaryExpr
	var flat func(e Expr)
	flat = func(e Expr) {
		if b, ok := e.(*BinaryExpr); ok {
			flat(b.LHS)
			ops = append(ops, b)
			flat(b.RHS)
			return
		}
		operands = append(operands, e)
	}
	flat(root)
	pos, opnd := 0, 0
	var climb func(minPrec int) string
	climb = func(minPrec int) string {
		sub := c12Canoner{n: c.n}
		sub.expr(operands[opnd])
		opnd++
		lhs := string(sub.b)
		for pos < len(ops) && c12Prec(ops[pos].Op) >= minPrec {
			op := ops[pos]
			pos++
			rhs := climb(c12Prec(op.Op) + 1)
			rb := ""
			if op.ReturnBool {
				rb = " rb"
			}
			lhs = "(" + op.Op.String() + " " + lhs + " " + rhs + rb + ")"
		}
		return lhs
	}
	c.s(climb(0))
}

func c12CanonFields(fs Fields, n c12Norm) string {
	var b strings.Builder
	for i, f := range fs {
		if i > 0 {
			b.WriteString(" ; ")
		}
		b.WriteString(c12CanonN(f.Expr, n))
		if f.Alias != "" {
			fmt.Fprintf(&b, " AS %q", f.Alias)
		}
	}
	return b.String()
}

// ---------------------------------------------------------------- parsing under a controlled scanner state

// The scanner keeps two flags across tokens (preToken, checkDOT) and Parser.reset() does not clear
// them, so what the pooled parser behind influxql.ParseExpr does with the first token depends on
// the previous user of that parser.  The harness does not use the pool: it resets its own parser
// with the production reset() and then sets the two flags explicitly.  State 0 = new parser;
// 1 = "the previous parse ended at EOF" (a pooled parser after a complete parse); 2, 3 = the same
// with checkDOT set.  Only a text whose first character is '/' can tell 0 from 1, and only a text
// with a '.' can tell checkDOT, so the other states are tried only for such texts.
var c12Parser = NewParser(strings.NewReader(""))

func c12ResetParser(text string, state int) *Parser {
	p := c12Parser
	p.reset(strings.NewReader(text))
	p.s.s.preToken = ILLEGAL
	p.s.s.checkDOT = false
	if state&1 != 0 {
		p.s.s.preToken = EOF
	}
	if state&2 != 0 {
		p.s.s.checkDOT = true
	}
	return p
}

func c12States(text string) []int {
	t := strings.TrimLeft(text, " \t\n")
	slash := strings.HasPrefix(t, "/")
	dot := strings.Contains(text, ".")
	switch {
	case slash && dot:
		return []int{0, 1, 2, 3}
	case slash:
		return []int{0, 1}
	case dot:
		return []int{0, 2}
	}
	return []int{0}
}

type c12Parsed struct {
	e     Expr
	err   error
	whole bool // the parser consumed the whole text
}

func c12ParseExprState(text string, state int) (res c12Parsed) {
	defer func() {
		if r := recover(); r != nil {
			res = c12Parsed{err: fmt.Errorf("PANIC: %v", r)}
		}
	}()
	p := c12ResetParser(text, state)
	e, err := p.ParseExpr()
	if err != nil {
		return c12Parsed{err: err}
	}
	tok, _, _ := p.ScanIgnoreWhitespace()
	return c12Parsed{e: e, whole: tok == EOF}
}

func c12Yacc(q string) (sel *SelectStatement, err error) {
	defer func() {
		if r := recover(); r != nil {
			sel, err = nil, fmt.Errorf("PANIC: %v", r)
		}
	}()
	p := c12ResetParser(q, 0)
	y := NewYyParser(p.GetScanner(), map[string]interface{}{})
	y.ParseTokens()
	qu, err := y.GetQuery()
	if err != nil {
		return nil, err
	}
	if len(qu.Statements) != 1 {
		return nil, fmt.Errorf("%d statements", len(qu.Statements))
	}
	s, ok := qu.Statements[0].(*SelectStatement)
	if !ok {
		return nil, fmt.Errorf("not a select: %T", qu.Statements[0])
	}
	return s, nil
}

func c12HandQuery(q string) (sel *SelectStatement, err error) {
	defer func() {
		if r := recover(); r != nil {
			sel, err = nil, fmt.Errorf("PANIC: %v", r)
		}
	}()
	p := c12ResetParser(q, 0)
	qu, err := p.ParseQuery()
	if err != nil {
		return nil, err
	}
	if len(qu.Statements) != 1 {
		return nil, fmt.Errorf("%d statements", len(qu.Statements))
	}
	s, ok := qu.Statements[0].(*SelectStatement)
	if !ok {
		return nil, fmt.Errorf("not a select: %T", qu.Statements[0])
	}
	return s, nil
}

// c12ParseFields is hybridqp.ParseFields (engine/hybridqp/codec.go), which the store uses to read
// QuerySchema.QueryFields back; it cannot be imported here (import cycle); the real one is
// exercised by the harness in lib/util/lifted/influx/query.
func c12ParseFields(s string, state int) (fs Fields, err error) {
	defer func() {
		if r := recover(); r != nil {
			fs, err = nil, fmt.Errorf("PANIC: %v", r)
		}
	}()
	p := c12ResetParser("SELECT "+s+" FROM mock", state)
	st, err := p.ParseStatement()
	if err != nil {
		return nil, err
	}
	sel, ok := st.(*SelectStatement)
	if !ok {
		return nil, fmt.Errorf("invalid fields: %s", s)
	}
	return sel.Fields, nil
}

func c12String(n interface{ String() string }) (s string, err error) {
	defer func() {
		if r := recover(); r != nil {
			err = fmt.Errorf("PANIC in String(): %v", r)
		}
	}()
	return n.String(), nil
}

// ---------------------------------------------------------------- explaining a difference by a defect model

// c12Misplaced lists, for a planned tree, the binary sub-expressions that are not wrapped in a
// ParenExpr although the flat print re-attaches them: kinds of the construction that produced them.
func c12Misplaced(e Expr) map[string]bool {
	kinds := map[string]bool{}
	WalkFunc(e, func(n Node) {
		b, ok := n.(*BinaryExpr)
		if !ok {
			return
		}
		check := func(child Expr, isRHS bool) {
			c, ok := child.(*BinaryExpr)
			if !ok {
				return
			}
			pc, pb := c12Prec(c.Op), c12Prec(b.Op)
			if pc < pb || (isRHS && pc == pb) {
				lit, isInt := c.LHS.(*IntegerLiteral)
				switch {
				case c.Op == MUL && isInt && lit.Val == -1:
					kinds["unary_minus_operand_regrouped"] = true
				case (c.Op == AND || c.Op == OR) && (b.Op == AND || b.Op == OR):
					kinds["and_or_equal_precedence_regrouped"] = true
				default:
					kinds["bare_subexpression_regrouped"] = true
				}
			}
		}
		check(b.LHS, false)
		check(b.RHS, true)
	})
	return kinds
}

// c12Explain returns the kinds of the known defects that together account for planned != shipped,
// or nil if no combination of the defect models does.
func c12Explain(canonN func(c12Norm) (planned, shipped string), plannedExprs []Expr) []string {
	mk := func(bits int) c12Norm {
		return c12Norm{bits&1 != 0, bits&2 != 0, bits&4 != 0, bits&8 != 0, bits&16 != 0}
	}
	equal := func(bits int) bool { p, s := canonN(mk(bits)); return p == s }
	// largest set of models first (31 = all); a model that does not apply to this tree changes nothing
	found := -1
	for _, bits := range c12SubsetsBysize {
		if equal(bits) {
			found = bits
			break
		}
	}
	if found < 0 {
		return nil
	}
	// a model is part of the explanation iff the trees differ without it
	var kinds []string
	need := func(bit int) bool { return found&bit != 0 && !equal(found&^bit) }
	if need(1) {
		kinds = append(kinds, "integral_float_reparsed_as_integer")
	}
	if need(2) {
		kinds = append(kinds, "sub_microsecond_duration_truncated")
	}
	if need(4) {
		kinds = append(kinds, "regex_escaped_slash_escaped_again")
	}
	if need(8) {
		kinds = append(kinds, "identifier_inf_nan_reparsed_as_number")
	}
	if need(16) {
		ks := map[string]bool{}
		for _, e := range plannedExprs {
			for k := range c12Misplaced(e) {
				ks[k] = true
			}
		}
		if len(ks) == 0 {
			ks["bare_subexpression_regrouped"] = true
		}
		sorted := make([]string, 0, len(ks))
		for k := range ks {
			sorted = append(sorted, k)
		}
		sort.Strings(sorted)
		kinds = append(kinds, sorted...)
	}
	return kinds
}

// non-empty subsets of the five defect models, larger sets first
var c12SubsetsBysize = func() []int {
	var out []int
	for size := 5; size >= 1; size-- {
		for bits := 31; bits >= 1; bits-- {
			n := 0
			for b := bits; b != 0; b &= b - 1 {
				n++
			}
			if n == size {
				out = append(out, bits)
			}
		}
	}
	return out
}()

func c12Has(e Expr, pred func(Node) bool) bool {
	found := false
	WalkFunc(e, func(n Node) {
		if !found && pred(n) {
			found = true
		}
	})
	return found
}

func c12LeftmostLeaf(e Expr) Expr {
	for {
		switch n := e.(type) {
		case *BinaryExpr:
			e = n.LHS
		default:
			return e
		}
	}
}

// c12ExplainFailure names the known defect behind a printed text that the re-parser rejects or
// reads only in part; "" if none applies.  handReparser: the re-parser is the hand-written one.
func c12ExplainFailure(planned []Expr, errText string, handReparser bool) string {
	has := func(pred func(Node) bool) bool {
		for _, e := range planned {
			if c12Has(e, pred) {
				return true
			}
		}
		return false
	}
	if strings.Contains(errText, "unable to parse integer") && has(func(n Node) bool {
		l, ok := n.(*NumberLiteral)
		return ok && l.Val == math.Trunc(l.Val) && l.Val < -9223372036854775808.0
	}) {
		return "integral_float_below_int64_not_reparsable"
	}
	if handReparser && strings.Contains(errText, "expected regex") && has(func(n Node) bool {
		b, ok := n.(*BinaryExpr)
		if !ok || (b.Op != EQREGEX && b.Op != NEQREGEX) {
			return false
		}
		_, isRe := b.RHS.(*RegexLiteral)
		return !isRe
	}) {
		return "regex_operator_with_non_regex_operand"
	}
	if (strings.Contains(errText, "Inf") || strings.Contains(errText, "NaN")) && has(func(n Node) bool {
		r, ok := n.(*VarRef)
		return ok && r.Type == Unknown && (strings.EqualFold(r.Val, "inf") || strings.EqualFold(r.Val, "nan"))
	}) {
		// the identifier came back as a float constant and the consumer of the decoded text rejected that
		return "identifier_inf_nan_reparsed_as_number"
	}
	if handReparser && len(planned) > 0 {
		if _, ok := c12LeftmostLeaf(planned[0]).(*RegexLiteral); ok {
			return "leading_regex_not_reparsable"
		}
	}
	if handReparser && has(func(n Node) bool {
		b, ok := n.(*BinaryExpr)
		return ok && (b.Op == BITWISE_AND || b.Op == BITWISE_OR || b.Op == BITWISE_XOR)
	}) {
		return "bitwise_operator_unknown_to_store_parser"
	}
	if !handReparser && has(func(n Node) bool {
		b, ok := n.(*BinaryExpr)
		return ok && (b.Op == NOTIN || b.Op == MATCH || b.Op == MATCHPHRASE || b.Op == IPINRANGE)
	}) {
		return "statement_text_keyword_operator_not_yacc_parsable"
	}
	return ""
}

// ---------------------------------------------------------------- the grammar

var c12Float1e300 = "1" + strings.Repeat("0", 300) + ".0"

// full literal alphabet
var c12Atoms = []string{
	// identifiers
	"a", "_b1", `"a b"`, `"sel\"ect"`, `"select"`, `"a.b"`, `"a\\b"`, `"a\nb"`, `"1a"`, "a.b", "time", `"a'b"`, `"héllo"`,
	// typed references
	"a::float", "a::integer", "a::string", "a::boolean", "a::tag", "a::field", `"a b"::tag`, "a::unsigned",
	// strings
	`'str'`, `'it\'s'`, `'a\\b'`, `'a\nb'`, `''`, `'say "hi"'`, `'2020-01-01T00:00:00Z'`, `'2020-01-01'`, `'/re/'`, `'1'`,
	// integers
	"0", "1", "007", "9223372036854775807", "9223372036854775808", "18446744073709551615", "18446744073709551616",
	// floats
	"2.0", "1.5", "0.0000001", "100000000000000000000.0", c12Float1e300, "1e300", ".5", "2.", "9007199254740993.0", "0.0",
	// durations
	"5m", "1h30m", "10u", "10µ", "1ns", "90s", "1500ms", "0s", "1w", "36h",
	// booleans
	"true", "false", "TRUE",
	// regular expressions
	`/a\/b/`, `/^a.*$/`, `/a b/`, `/\d+/`, `/a\\b/`, `/(x|y)/`, `/a\/b\/c/`, `/^\/api\/v1/`, `/\/\//`, `/\//`,
	// calls, arity 0..2
	"f()", "f(a)", "f(a, 1)", "f(2.0)", "now()", "F(A)", "f(/re/)", "f(*)", "f('s', 5m)", "f(g(a), -1)", "f(a + 1)", "f((a))",
	// others the parsers know
	"*", "*::tag", "inf", "distinct a", "distinct(a)",
}

var c12BinOps = []string{"+", "-", "*", "/", "%", "&", "|", "^", "=", "!=", "<>", "<", "<=", ">", ">=", "=~", "!~", "AND", "OR"}

// reduced alphabets for the deeper levels
var c12Atoms3 = []string{"a", `"a b"`, `'it\'s'`, "1", "2.0", "1.5", "5m", `/a\/b/`, "f(a, 1)", "true", "-a", "-2.0", "a::tag"}
var c12Atoms4Quick = []string{"a", "1", "1.5", "'x'"}
var c12Ops4Quick = []string{"OR", "AND", "=", "<", "+", "*", "/", "%", "&"}
var c12Atoms4Thorough = []string{"a", "1", "1.5", "'x'", "-a", "5m"}

// comparisons as operands of AND / OR (what a WHERE clause is made of)
var c12Conds = []string{"a = 1", "b != 'x'", "c < 1.5", "t =~ /x/", "(d >= 2)", "f(a) > 0", "a + 1 > b * 2", "NOT a = 1"}
var c12LogicOps = []string{"AND", "OR"}

// parenthesisations of an operand sequence ("parentheses at every position")
func c12Paren3(a, o1, b, o2, c string, emit func(string)) {
	emit(a + " " + o1 + " " + b + " " + o2 + " " + c)
	emit("(" + a + " " + o1 + " " + b + ") " + o2 + " " + c)
	emit(a + " " + o1 + " (" + b + " " + o2 + " " + c + ")")
}

func c12Paren4(a, o1, b, o2, c, o3, d string, emit func(string)) {
	ab := a + " " + o1 + " " + b
	bc := b + " " + o2 + " " + c
	cd := c + " " + o3 + " " + d
	emit(ab + " " + o2 + " " + cd)                              // flat
	emit("(" + ab + ") " + o2 + " " + cd)                       // (ab) c d
	emit(a + " " + o1 + " (" + bc + ") " + o3 + " " + d)        // a (bc) d
	emit(ab + " " + o2 + " (" + cd + ")")                       // a b (cd)
	emit("(" + ab + ") " + o2 + " (" + cd + ")")                // (ab)(cd)
	emit("(" + ab + " " + o2 + " " + c + ") " + o3 + " " + d)   // (abc) d
	emit(a + " " + o1 + " (" + bc + " " + o3 + " " + d + ")")   // a (bcd)
	emit("((" + ab + ") " + o2 + " " + c + ") " + o3 + " " + d) // ((ab)c)d
	emit("(" + a + " " + o1 + " (" + bc + ")) " + o3 + " " + d) // (a(bc))d
	emit(a + " " + o1 + " ((" + bc + ") " + o3 + " " + d + ")") // a((bc)d)
	emit(a + " " + o1 + " (" + b + " " + o2 + " (" + cd + "))") // a(b(cd))
}

// c12Enumerate generates the expression texts.  level: "full" (quick tier), "thorough", or "codec"
// (the reduced set that the codec harnesses of other packages push through their seams: the
// syntactic variants matter to the parsers, not to a codec).  mine() is called once per block of
// texts and says whether this worker owns the block; expired() ends the enumeration.
func c12Enumerate(level string, mine func() bool, expired func() bool, check func(string)) {
	maxOps := os.Getenv("C12_MAXOPS")
	thorough := level == "thorough"
	if level == "codec" {
		c12EnumerateCodec(mine, expired, check)
		return
	}

	// level 0/1: every atom, with unary operators and parentheses
	for _, a := range c12Atoms {
		if !mine() {
			continue
		}
		for _, s := range []string{a, "(" + a + ")", "((" + a + "))", "-" + a, "- " + a, "+" + a, "-(" + a + ")", "(-" + a + ")", "--" + a, "- -" + a, "NOT " + a} {
			check(s)
		}
	}
	// level 1: atom op atom over the full alphabet, with parentheses and unary minus at each position
	for _, a := range c12Atoms {
		for _, op := range c12BinOps {
			if !mine() {
				continue
			}
			if expired() {
				return
			}
			for _, b := range c12Atoms {
				check(a + " " + op + " " + b)
				check(a + op + b) // no white space
				check("(" + a + " " + op + " " + b + ")")
				check("(" + a + ") " + op + " (" + b + ")")
				check("-" + a + " " + op + " " + b)
				check(a + " " + op + " -" + b)
				check("-(" + a + " " + op + " " + b + ")")
			}
		}
	}
	// IN / NOT IN / LIKE and the text-search operators of the yacc grammar
	for _, a := range []string{"a", `"a b"`, "a::tag"} {
		if !mine() {
			continue
		}
		for _, s := range []string{"IN (1)", "IN ('x')", "IN (2.0)", "IN ('it\\'s')", "NOT IN (1)", "IN (1, 2)", "LIKE 'x%'", "LIKE 'it\\'s'"} {
			check(a + " " + s)
			check("(" + a + " " + s + ") AND b = 1")
			check("b = 1 OR " + a + " " + s)
		}
	}
	for _, s := range []string{"match(a, 'x y')", "matchphrase(a, 'x y')", "ipinrange(a, '1.2.3.0/24')", "match(\"a b\", 'it\\'s')", "match(a, 'x') AND b = 1.5"} {
		if mine() {
			check(s)
		}
	}
	// comparisons joined by AND / OR: three and four operands, every parenthesisation
	for _, a := range c12Conds {
		for _, o1 := range c12LogicOps {
			for _, b := range c12Conds {
				if !mine() {
					continue
				}
				check(a + " " + o1 + " " + b)
				for _, o2 := range c12LogicOps {
					for _, c := range c12Conds {
						c12Paren3(a, o1, b, o2, c, check)
						for _, o3 := range c12LogicOps {
							for _, d := range c12Conds {
								c12Paren4(a, o1, b, o2, c, o3, d, check)
							}
						}
					}
				}
			}
		}
	}
	if maxOps == "2" {
		return
	}
	// three operands, reduced alphabet, all operators, all parenthesisations
	for _, a := range c12Atoms3 {
		for _, o1 := range c12BinOps {
			for _, b := range c12Atoms3 {
				if !mine() {
					continue
				}
				if expired() {
					return
				}
				for _, o2 := range c12BinOps {
					for _, c := range c12Atoms3 {
						c12Paren3(a, o1, b, o2, c, check)
					}
				}
			}
		}
	}
	if maxOps == "3" {
		return
	}
	// four operands (depth 2 balanced and depth 3 chains), all 11 parenthesisations
	atoms4, ops4 := c12Atoms4Quick, c12Ops4Quick
	if thorough {
		atoms4, ops4 = c12Atoms4Thorough, c12BinOps
	}
	for _, a := range atoms4 {
		for _, o1 := range ops4 {
			for _, b := range atoms4 {
				for _, o2 := range ops4 {
					if !mine() {
						continue
					}
					if expired() {
						return
					}
					for _, c := range atoms4 {
						for _, o3 := range ops4 {
							for _, d := range atoms4 {
								c12Paren4(a, o1, b, o2, c, o3, d, check)
							}
						}
					}
				}
			}
		}
	}
}

func c12EnumerateCodec(mine func() bool, expired func() bool, check func(string)) {
	for _, a := range c12Atoms {
		if !mine() {
			continue
		}
		for _, s := range []string{a, "(" + a + ")", "-" + a, "-(" + a + ")", "- -" + a} {
			check(s)
		}
	}
	for _, a := range c12Atoms {
		for _, op := range c12BinOps {
			if !mine() {
				continue
			}
			if expired() {
				return
			}
			for _, b := range c12Atoms {
				check(a + " " + op + " " + b)
				check("(" + a + " " + op + " " + b + ")")
				check(a + " " + op + " -" + b)
			}
		}
	}
	for _, a := range []string{"a", `"a b"`, "a::tag"} {
		if !mine() {
			continue
		}
		for _, s := range []string{"IN (1)", "IN ('x')", "IN (2.0)", "NOT IN (1)", "IN (1, 2)", "LIKE 'x%'"} {
			check(a + " " + s)
			check("(" + a + " " + s + ") AND b = 1")
		}
	}
	for _, s := range []string{"match(a, 'x y')", "matchphrase(a, 'x y')", "ipinrange(a, '1.2.3.0/24')", "match(a, 'x') AND b = 1.5"} {
		if mine() {
			check(s)
		}
	}
	for _, a := range c12Conds {
		for _, o1 := range c12LogicOps {
			if !mine() {
				continue
			}
			for _, b := range c12Conds {
				check(a + " " + o1 + " " + b)
				for _, o2 := range c12LogicOps {
					for _, c := range c12Conds {
						c12Paren3(a, o1, b, o2, c, check)
					}
				}
			}
		}
	}
	for _, a := range c12Atoms3 {
		for _, o1 := range c12BinOps {
			if !mine() {
				continue
			}
			if expired() {
				return
			}
			for _, b := range c12Atoms3 {
				for _, o2 := range c12BinOps {
					for _, c := range c12Atoms3 {
						check(a + " " + o1 + " " + b + " " + o2 + " " + c)
						check(a + " " + o1 + " (" + b + " " + o2 + " " + c + ")")
					}
				}
			}
		}
	}
}

// ---------------------------------------------------------------- exported to the C12 harnesses of other packages

func VerifC12Canon(e Expr) string          { return c12Canon(e) }
func VerifC12CanonFields(fs Fields) string { return c12CanonFields(fs, c12Norm{}) }

// VerifC12ExplainExpr: kinds of the known defects that account for planned != shipped (nil: none do).
func VerifC12ExplainExpr(planned, shipped Expr) []string {
	return c12Explain(func(n c12Norm) (string, string) { return c12CanonN(planned, n), c12CanonN(shipped, n.shipped()) }, []Expr{planned})
}

func VerifC12ExplainFields(planned, shipped Fields) []string {
	exprs := make([]Expr, len(planned))
	for i, f := range planned {
		exprs[i] = f.Expr
	}
	return c12Explain(func(n c12Norm) (string, string) {
		return c12CanonFields(planned, n), c12CanonFields(shipped, n.shipped())
	}, exprs)
}

func VerifC12ExplainFailure(planned []Expr, errText string, handReparser bool) string {
	return c12ExplainFailure(planned, errText, handReparser)
}

// VerifC12Yacc plans one SELECT statement with the yacc parser (the front door of ts-sql).
func VerifC12Yacc(q string) (*SelectStatement, error) { return c12Yacc(q) }

func VerifC12String(n interface{ String() string }) (string, error) { return c12String(n) }

// VerifC12EnumerateCodec generates the reduced text set for codec seams.
func VerifC12EnumerateCodec(mine func() bool, expired func() bool, check func(string)) {
	c12Enumerate("codec", mine, expired, check)
}

// VerifC12LeadingRegex: the printed text starts with a regex literal, so what the pooled parser of
// influxql.ParseExpr makes of it depends on the parser's previous use (see c12ResetParser).
func VerifC12LeadingRegex(printed string) bool {
	return strings.HasPrefix(strings.TrimLeft(printed, " \t\n"), "/")
}
