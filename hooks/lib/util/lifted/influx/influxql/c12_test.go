//go:build verif

package influxql

import (
	"fmt"
	"math"
	"strings"
	"testing"

	kit "github.com/openGemini/openGemini/lib/verifkit"
)

// c12Canon prints an expression tree with literal types, dropping ParenExpr nodes (grouping is in the tree shape).
func c12Canon(e Expr) string {
	switch n := e.(type) {
	case nil:
		return "<nil>"
	case *ParenExpr:
		return c12Canon(n.Expr)
	case *BinaryExpr:
		return fmt.Sprintf("(%s %s %s rb=%v)", n.Op.String(), c12Canon(n.LHS), c12Canon(n.RHS), n.ReturnBool)
	case *NumberLiteral:
		return fmt.Sprintf("num:%016x", math.Float64bits(n.Val))
	case *IntegerLiteral:
		return fmt.Sprintf("int:%d", n.Val)
	case *UnsignedLiteral:
		return fmt.Sprintf("uint:%d", n.Val)
	case *StringLiteral:
		return fmt.Sprintf("str:%q", n.Val)
	case *BooleanLiteral:
		return fmt.Sprintf("bool:%v", n.Val)
	case *DurationLiteral:
		return fmt.Sprintf("dur:%d", int64(n.Val))
	case *TimeLiteral:
		return fmt.Sprintf("time:%d", n.Val.UnixNano())
	case *RegexLiteral:
		if n.Val == nil {
			return "re:<nil>"
		}
		return fmt.Sprintf("re:%q", n.Val.String())
	case *VarRef:
		return fmt.Sprintf("ref:%q:%d", n.Val, n.Type)
	case *Call:
		a := make([]string, len(n.Args))
		for i := range n.Args {
			a[i] = c12Canon(n.Args[i])
		}
		return fmt.Sprintf("call:%q(%s)", n.Name, strings.Join(a, ","))
	case *Wildcard:
		return fmt.Sprintf("wild:%d", n.Type)
	case *NilLiteral:
		return "nil"
	case *Distinct:
		return fmt.Sprintf("distinct:%q", n.Val)
	default:
		return fmt.Sprintf("%T:%q", e, e.String())
	}
}

var c12Atoms = []string{
	"a", `"a b"`, `"sel""ect"`, `"select"`, `"a.b"`, "a::tag", "a::field", "a::float",
	`'str'`, `'it\'s'`, `'a\\b'`, `'a\nb'`, `''`,
	"0", "1", "9223372036854775807", "9223372036854775808", "2.0", "1.5", "1e300", "0.0000001", "100000000000000000000.0",
	"5m", "1h30m", "10u", "true", "false",
	`/a\/b/`, `/^a.*$/`,
	"f()", "f(a)", "f(a, 1)", "f(2.0)", "now()",
}

var c12BinOps = []string{"+", "-", "*", "/", "%", "&", "|", "^", "=", "!=", "<>", "<", "<=", ">", ">=", "=~", "!~", "AND", "OR"}

type c12Case struct {
	Text string `json:"text"`
}

func c12Check(rep *kit.Report, text string) {
	rep.Eval(1)
	e, err := ParseExpr(text)
	if err != nil {
		rep.Count("rejected_by_parser", 1)
		return
	}
	rep.Count("accepted", 1)
	want := c12Canon(e)
	printed := e.String()
	if rep.DistinctNontrivial(kit.Hash(want)) {
		rep.Sample(6, map[string]string{"text": text, "printed": printed})
	}
	e2, err := ParseExpr(printed)
	if err != nil {
		rep.Violation(c12Classify(e, nil, want, ""), text, fmt.Sprintf("printed form %q does not re-parse: %v", printed, err), c12Case{text})
		return
	}
	got := c12Canon(e2)
	if got != want {
		rep.Violation(c12Classify(e, e2, want, got), text, fmt.Sprintf("printed %q\n  planned: %s\n  shipped: %s", printed, want, got), c12Case{text})
	}
}

// c12Classify names the kind of difference (used to match KNOWN_FINDINGS signatures).
func c12Classify(e, e2 Expr, want, got string) string {
	if e2 == nil {
		return "print_not_reparsable"
	}
	// integral float printed without decimal point -> integer literal
	a, b := c12Leaves(e), c12Leaves(e2)
	if len(a) == len(b) {
		onlyIntegral := true
		diff := 0
		for i := range a {
			if a[i] == b[i] {
				continue
			}
			diff++
			var f float64
			var bits uint64
			var iv int64
			if n, _ := fmt.Sscanf(a[i], "num:%x", &bits); n == 1 {
				f = math.Float64frombits(bits)
				if m, _ := fmt.Sscanf(b[i], "int:%d", &iv); m == 1 && float64(iv) == f && f == math.Trunc(f) {
					continue
				}
			}
			onlyIntegral = false
		}
		if diff > 0 && onlyIntegral && c12Shape(want) == c12Shape(got) {
			return "integral_float_reparsed_as_integer"
		}
	}
	return "roundtrip_mismatch"
}

func c12Leaves(e Expr) []string {
	var out []string
	var walk func(Expr)
	walk = func(x Expr) {
		switch n := x.(type) {
		case *ParenExpr:
			walk(n.Expr)
		case *BinaryExpr:
			walk(n.LHS)
			walk(n.RHS)
		case *Call:
			out = append(out, "call:"+n.Name)
			for _, a := range n.Args {
				walk(a)
			}
		default:
			out = append(out, c12Canon(x))
		}
	}
	walk(e)
	return out
}

// c12Shape removes the leaves so that only operators/grouping remain.
func c12Shape(c string) string {
	var b strings.Builder
	for _, tok := range strings.Fields(c) {
		if strings.HasPrefix(tok, "(") || strings.HasPrefix(tok, "rb=") {
			b.WriteString(strings.TrimRight(tok, ")"))
			b.WriteString(strings.Repeat(")", len(tok)-len(strings.TrimRight(tok, ")"))))
		} else {
			b.WriteString("_")
			b.WriteString(strings.Repeat(")", len(tok)-len(strings.TrimRight(tok, ")"))))
		}
		b.WriteByte(' ')
	}
	return b.String()
}

func TestVerifC12(t *testing.T) {
	rep := kit.NewReport("C12")
	defer rep.Save()
	if kit.ReplayPath() != "" {
		var c c12Case
		if err := kit.LoadReplay(&c); err != nil {
			t.Fatal(err)
		}
		c12Check(rep, c.Text)
		return
	}
	idx := 0
	emit := func(s string) {
		if kit.Mine(idx) {
			c12Check(rep, s)
		}
		idx++
	}
	for _, a := range c12Atoms {
		emit(a)
		emit("(" + a + ")")
		emit("-" + a)
	}
	for _, a := range c12Atoms {
		for _, op := range c12BinOps {
			for _, b := range c12Atoms {
				emit(a + " " + op + " " + b)
			}
		}
	}
	small := []string{"a", `"a b"`, `'it\'s'`, "1", "2.0", "1.5", "5m", `/a\/b/`, "f(a, 1)", "true"}
	for _, a := range small {
		for _, o1 := range c12BinOps {
			for _, b := range small {
				for _, o2 := range c12BinOps {
					for _, c := range small {
						if rep.Expired() {
							return
						}
						emit(a + " " + o1 + " " + b + " " + o2 + " " + c)
						emit("(" + a + " " + o1 + " " + b + ") " + o2 + " " + c)
						emit(a + " " + o1 + " (" + b + " " + o2 + " " + c + ")")
					}
				}
			}
		}
	}
}
