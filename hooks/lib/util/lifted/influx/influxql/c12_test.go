//go:build verif

package influxql

// C12 — "a query shipped to the storage nodes is the query that was planned", part 1:
// print -> re-parse of every expression text of a finite grammar, on the real scanner, both real
// parsers (the yacc parser that plans a statement on ts-sql, the hand-written parser that the
// store uses to read the shipped text back) and the real printer.
//
// Doors (who accepts a text and thereby defines the planned tree e):
//   Yc  yacc:  SELECT * FROM m WHERE <T>      e = stmt.Condition   -> ParseExpr(e.String())
//   Yf  yacc:  SELECT <T> FROM m               e = stmt.Fields      -> ParseStatement("SELECT "+Fields.String()+" FROM mock")
//                                                                      (this is hybridqp.ParseFields, the store side of QuerySchema)
//   He  hand:  ParseExpr(<T>), whole text consumed                  -> ParseExpr(e.String())
//   Hs  hand:  ParseQuery("SELECT * FROM m WHERE <T>")              -> ParseQuery(stmt.String())
// plus, for Yc/Yf, the statement round trip yacc(stmt.String()).
// Oracle: canonical typed tree (ParenExpr nodes removed) must be equal; the re-parse must consume the whole text.

import (
	"fmt"
	"math"
	"sort"
	"strings"
	"testing"

	kit "github.com/openGemini/openGemini/lib/verifkit"
)

// ---------------------------------------------------------------- canonical form

func c12Canon(e Expr) string {
	var b strings.Builder
	c12CanonTo(&b, e)
	return b.String()
}

func c12CanonTo(b *strings.Builder, e Expr) {
	switch n := e.(type) {
	case nil:
		b.WriteString("<nil>")
	case *ParenExpr:
		c12CanonTo(b, n.Expr)
	case *BinaryExpr:
		b.WriteString("(")
		b.WriteString(n.Op.String())
		b.WriteString(" ")
		c12CanonTo(b, n.LHS)
		b.WriteString(" ")
		c12CanonTo(b, n.RHS)
		if n.ReturnBool {
			b.WriteString(" rb")
		}
		b.WriteString(")")
	case *NumberLiteral:
		if n.Val != n.Val {
			b.WriteString("num:NaN")
		} else {
			fmt.Fprintf(b, "num:%016x", math.Float64bits(n.Val))
		}
	case *IntegerLiteral:
		fmt.Fprintf(b, "int:%d", n.Val)
	case *UnsignedLiteral:
		fmt.Fprintf(b, "uint:%d", n.Val)
	case *StringLiteral:
		fmt.Fprintf(b, "str:%q", n.Val)
	case *BooleanLiteral:
		fmt.Fprintf(b, "bool:%v", n.Val)
	case *DurationLiteral:
		fmt.Fprintf(b, "dur:%d", int64(n.Val))
	case *TimeLiteral:
		fmt.Fprintf(b, "time:%d", n.Val.UnixNano())
	case *RegexLiteral:
		if n == nil || n.Val == nil {
			b.WriteString("re:<nil>")
		} else {
			fmt.Fprintf(b, "re:%q", n.Val.String())
		}
	case *VarRef:
		fmt.Fprintf(b, "ref:%q:%d", n.Val, n.Type)
	case *Call:
		fmt.Fprintf(b, "call:%q[", n.Name)
		for i := range n.Args {
			if i > 0 {
				b.WriteString(",")
			}
			c12CanonTo(b, n.Args[i])
		}
		b.WriteString("]")
	case *Wildcard:
		fmt.Fprintf(b, "wild:%d", n.Type)
	case *NilLiteral:
		b.WriteString("nil")
	case *Distinct:
		fmt.Fprintf(b, "distinct:%q", n.Val)
	case *SetLiteral:
		vals := make([]string, 0, len(n.Vals))
		for v := range n.Vals {
			vals = append(vals, fmt.Sprintf("%T:%v", v, v))
		}
		sort.Strings(vals)
		fmt.Fprintf(b, "set:%q", vals)
	default:
		fmt.Fprintf(b, "%T:%q", e, e.String())
	}
}

func c12CanonFields(fs Fields) string {
	var b strings.Builder
	for i, f := range fs {
		if i > 0 {
			b.WriteString(" ; ")
		}
		c12CanonTo(&b, f.Expr)
		if f.Alias != "" {
			fmt.Fprintf(&b, " AS %q", f.Alias)
		}
	}
	return b.String()
}

// ---------------------------------------------------------------- parsing under a controlled scanner state

// The scanner keeps two flags across tokens (preToken, checkDOT) and Parser.reset() does not clear
// them, so what the pooled parser of ParseExpr does with the first token depends on the previous
// user of that parser.  The harness therefore never uses the pool: it builds a parser and sets the
// two flags explicitly.  State 0 is a new parser; state 1 is "the previous parse ended at EOF",
// which is what a pooled parser looks like after a complete parse; 2 and 3 add checkDOT=true.
const c12NStates = 4

func c12NewParser(text string, state int) *Parser {
	p := &Parser{s: newBufScanner(strings.NewReader(text))}
	if state&1 != 0 {
		p.s.s.preToken = EOF
	}
	if state&2 != 0 {
		p.s.s.checkDOT = true
	}
	return p
}

type c12Parsed struct {
	e     Expr
	err   error
	whole bool // the parser consumed the whole text
}

func c12ParseExprState(text string, state int) (res c12Parsed) {
	defer func() {
		if r := recover(); r != nil {
			res = c12Parsed{err: fmt.Errorf("PANIC: %v", r)}
		}
	}()
	p := c12NewParser(text, state)
	e, err := p.ParseExpr()
	if err != nil {
		return c12Parsed{err: err}
	}
	tok, _, _ := p.ScanIgnoreWhitespace()
	return c12Parsed{e: e, whole: tok == EOF}
}

// c12ParseExprAll parses in every scanner state; ok is true when all states agree (same error-ness,
// same canonical tree, same consumption).
func c12ParseExprAll(text string) (first c12Parsed, canon string, agree bool) {
	first = c12ParseExprState(text, 0)
	if first.err == nil {
		canon = c12Canon(first.e)
	}
	agree = true
	for st := 1; st < c12NStates; st++ {
		r := c12ParseExprState(text, st)
		if (r.err == nil) != (first.err == nil) {
			agree = false
			continue
		}
		if r.err == nil && (r.whole != first.whole || c12Canon(r.e) != canon) {
			agree = false
		}
	}
	return
}

func c12Yacc(q string) (sel *SelectStatement, err error) {
	defer func() {
		if r := recover(); r != nil {
			sel, err = nil, fmt.Errorf("PANIC: %v", r)
		}
	}()
	y := NewYyParser(NewScanner(strings.NewReader(q)), map[string]interface{}{})
	y.ParseTokens()
	qu, err := y.GetQuery()
	if err != nil {
		return nil, err
	}
	if len(qu.Statements) != 1 {
		return nil, fmt.Errorf("%d statements", len(qu.Statements))
	}
	s, ok := qu.Statements[0].(*SelectStatement)
	if !ok {
		return nil, fmt.Errorf("not a select: %T", qu.Statements[0])
	}
	return s, nil
}

func c12HandQuery(q string) (sel *SelectStatement, err error) {
	defer func() {
		if r := recover(); r != nil {
			sel, err = nil, fmt.Errorf("PANIC: %v", r)
		}
	}()
	p := c12NewParser(q, 0)
	qu, err := p.ParseQuery()
	if err != nil {
		return nil, err
	}
	if len(qu.Statements) != 1 {
		return nil, fmt.Errorf("%d statements", len(qu.Statements))
	}
	s, ok := qu.Statements[0].(*SelectStatement)
	if !ok {
		return nil, fmt.Errorf("not a select: %T", qu.Statements[0])
	}
	return s, nil
}

// c12ParseFields is hybridqp.ParseFields (engine/hybridqp/codec.go), which the store uses to read
// QuerySchema.QueryFields back; it cannot be imported here (import cycle), the real one is
// exercised by the harness in lib/util/lifted/influx/query.
func c12ParseFields(s string) (fs Fields, err error) {
	defer func() {
		if r := recover(); r != nil {
			fs, err = nil, fmt.Errorf("PANIC: %v", r)
		}
	}()
	p := c12NewParser("SELECT "+s+" FROM mock", 1)
	st, err := p.ParseStatement()
	if err != nil {
		return nil, err
	}
	sel, ok := st.(*SelectStatement)
	if !ok {
		return nil, fmt.Errorf("invalid fields: %s", s)
	}
	return sel.Fields, nil
}

func c12String(n interface{ String() string }) (s string, err error) {
	defer func() {
		if r := recover(); r != nil {
			err = fmt.Errorf("PANIC in String(): %v", r)
		}
	}()
	return n.String(), nil
}

// ---------------------------------------------------------------- the oracle

type c12Case struct {
	Door string `json:"door"` // Yc | Yf | He | Hs
	Text string `json:"text"`
}

type c12Ctx struct {
	rep   *kit.Report
	doors map[string]bool
}

func (c *c12Ctx) vio(kind, door, text, detail string) {
	c.rep.Count("violations_door_"+door, 1)
	c.rep.Count("kind_"+kind, 1)
	c.rep.Violation(kind, door+": "+text, detail, c12Case{Door: door, Text: text})
}

// c12ReparseExpr is the store side: the printed text is parsed with ParseExpr in every scanner state.
// It returns "" when every state gives the planned tree, else the kind and detail of the difference.
func c12ReparseExpr(planned Expr, want, printed string) (kind, detail string) {
	for st := 0; st < c12NStates; st++ {
		r := c12ParseExprState(printed, st)
		if r.err != nil {
			return c12ClassifyUnparsable(planned, printed), fmt.Sprintf("printed %q does not re-parse (scanner state %d): %v\n  planned: %s", printed, st, r.err, want)
		}
		got := c12Canon(r.e)
		if !r.whole {
			return c12ClassifyEarlyStop(planned), fmt.Sprintf("printed %q is only partly consumed by ParseExpr (scanner state %d)\n  planned: %s\n  shipped: %s", printed, st, want, got)
		}
		if got != want {
			return c12Classify(planned, r.e), fmt.Sprintf("printed %q (scanner state %d)\n  planned: %s\n  shipped: %s", printed, st, want, got)
		}
	}
	return "", ""
}

func (c *c12Ctx) check(text string) {
	rep := c.rep
	rep.Eval(1)
	accepted := false

	// ---- door He: hand-written expression parser
	if c.doors["He"] {
		first, want, agree := c12ParseExprAll(text)
		switch {
		case first.err != nil && agree:
		case !agree:
			// accepted in one scanner state, rejected or read differently in another: not "a text the
			// parser accepts"; counted, not judged (the statement is silent about it)
			rep.Count("He_accept_depends_on_scanner_state", 1)
		case !first.whole:
			rep.Count("He_text_partly_consumed_not_accepted", 1)
		default:
			accepted = true
			rep.Count("He_accepted", 1)
			if rep.DistinctNontrivial(kit.Hash("e", want)) {
				rep.Sample(4, map[string]string{"door": "He", "text": text, "printed": first.e.String()})
			}
			printed, err := c12String(first.e)
			if err != nil {
				c.vio("printer_panic", "He", text, err.Error())
			} else if kind, detail := c12ReparseExpr(first.e, want, printed); kind != "" {
				c.vio(kind, "He", text, detail)
			}
		}
	}

	// ---- door Yc: condition of a statement planned by the yacc parser
	if c.doors["Yc"] {
		if sel, err := c12Yacc("SELECT * FROM m WHERE " + text); err == nil && sel.Condition != nil {
			accepted = true
			rep.Count("Yc_accepted", 1)
			want := c12Canon(sel.Condition)
			if rep.DistinctNontrivial(kit.Hash("e", want)) {
				rep.Sample(8, map[string]string{"door": "Yc", "text": text, "printed": sel.Condition.String()})
			}
			printed, perr := c12String(sel.Condition)
			if perr != nil {
				c.vio("printer_panic", "Yc", text, perr.Error())
			} else {
				if kind, detail := c12ReparseExpr(sel.Condition, want, printed); kind != "" {
					c.vio(kind, "Yc", text, detail)
				}
				// statement round trip through the same front door
				if ss, err := c12String(sel); err != nil {
					c.vio("printer_panic", "Yc", text, err.Error())
				} else if sel2, err := c12Yacc(ss); err != nil {
					c.vio(c12StmtKind(c12ClassifyUnparsable(sel.Condition, printed)), "Yc", text, fmt.Sprintf("statement %q does not re-parse: %v", ss, err))
				} else if got := c12Canon(sel2.Condition); got != want {
					c.vio(c12StmtKind(c12Classify(sel.Condition, sel2.Condition)), "Yc", text, fmt.Sprintf("statement %q\n  planned: %s\n  reparsed: %s", ss, want, got))
				}
			}
		}
	}

	// ---- door Yf: field list of a statement planned by the yacc parser
	if c.doors["Yf"] {
		if sel, err := c12Yacc("SELECT " + text + " FROM m"); err == nil && len(sel.Fields) > 0 {
			accepted = true
			rep.Count("Yf_accepted", 1)
			want := c12CanonFields(sel.Fields)
			if rep.DistinctNontrivial(kit.Hash("f", want)) {
				rep.Sample(10, map[string]string{"door": "Yf", "text": text, "printed": sel.Fields.String()})
			}
			printed, perr := c12String(sel.Fields)
			if perr != nil {
				c.vio("printer_panic", "Yf", text, perr.Error())
			} else if fs, err := c12ParseFields(printed); err != nil {
				k := "print_not_reparsable"
				if len(sel.Fields) == 1 {
					k = c12ClassifyUnparsable(sel.Fields[0].Expr, printed)
				}
				c.vio(k, "Yf", text, fmt.Sprintf("fields %q do not re-parse with ParseFields: %v\n  planned: %s", printed, err, want))
			} else if got := c12CanonFields(fs); got != want {
				k := "roundtrip_mismatch"
				if len(sel.Fields) == 1 && len(fs) == 1 {
					k = c12Classify(sel.Fields[0].Expr, fs[0].Expr)
				}
				c.vio(k, "Yf", text, fmt.Sprintf("fields %q\n  planned: %s\n  shipped: %s", printed, want, got))
			}
		}
	}

	// ---- door Hs: hand-written statement parser, statement round trip
	if c.doors["Hs"] {
		if sel, err := c12HandQuery("SELECT * FROM m WHERE " + text); err == nil && sel.Condition != nil {
			accepted = true
			rep.Count("Hs_accepted", 1)
			want := c12Canon(sel.Condition)
			rep.DistinctNontrivial(kit.Hash("e", want))
			if ss, err := c12String(sel); err != nil {
				c.vio("printer_panic", "Hs", text, err.Error())
			} else if sel2, err := c12HandQuery(ss); err != nil {
				c.vio(c12StmtKind(c12ClassifyUnparsable(sel.Condition, ss)), "Hs", text, fmt.Sprintf("statement %q does not re-parse: %v", ss, err))
			} else if got := c12Canon(sel2.Condition); got != want {
				c.vio(c12StmtKind(c12Classify(sel.Condition, sel2.Condition)), "Hs", text, fmt.Sprintf("statement %q\n  planned: %s\n  reparsed: %s", ss, want, got))
			}
		}
	}

	if accepted {
		rep.Count("texts_accepted_by_some_door", 1)
	} else {
		rep.Count("texts_rejected_by_every_door", 1)
	}
}

func c12StmtKind(k string) string { return k }

// ---------------------------------------------------------------- classification of a difference
// (a kind names one defect; anything not recognised is roundtrip_mismatch / print_not_reparsable)

type c12Leaf struct {
	canon string
	node  Expr
}

// c12Skeleton returns the tree with leaves replaced by "_" and the leaves in order.
func c12Skeleton(e Expr) (string, []c12Leaf) {
	var b strings.Builder
	var leaves []c12Leaf
	var walk func(Expr)
	walk = func(x Expr) {
		switch n := x.(type) {
		case *ParenExpr:
			walk(n.Expr)
		case *BinaryExpr:
			b.WriteString("(" + n.Op.String() + " ")
			walk(n.LHS)
			b.WriteString(" ")
			walk(n.RHS)
			if n.ReturnBool {
				b.WriteString(" rb")
			}
			b.WriteString(")")
		case *Call:
			fmt.Fprintf(&b, "call:%q[", n.Name)
			for i, a := range n.Args {
				if i > 0 {
					b.WriteString(",")
				}
				walk(a)
			}
			b.WriteString("]")
		default:
			b.WriteString("_")
			leaves = append(leaves, c12Leaf{c12Canon(x), x})
		}
	}
	walk(e)
	return b.String(), leaves
}

func c12IsIntegralFloat(e Expr) (float64, bool) {
	n, ok := e.(*NumberLiteral)
	if !ok || math.IsInf(n.Val, 0) || math.IsNaN(n.Val) || n.Val != math.Trunc(n.Val) {
		return 0, false
	}
	return n.Val, true
}

func c12Classify(planned, shipped Expr) string {
	sa, la := c12Skeleton(planned)
	sb, lb := c12Skeleton(shipped)
	if sa == sb && len(la) == len(lb) {
		diff, intFloat, other := 0, 0, 0
		for i := range la {
			if la[i].canon == lb[i].canon {
				continue
			}
			diff++
			if f, ok := c12IsIntegralFloat(la[i].node); ok {
				switch m := lb[i].node.(type) {
				case *IntegerLiteral:
					if float64(m.Val) == f {
						intFloat++
						continue
					}
				case *UnsignedLiteral:
					if float64(m.Val) == f {
						intFloat++
						continue
					}
				}
			}
			other++
		}
		if diff > 0 && other == 0 && intFloat == diff {
			return "integral_float_reparsed_as_integer"
		}
		if diff > 0 {
			return "literal_changed"
		}
	}
	if len(la) == len(lb) {
		same := true
		for i := range la {
			if la[i].canon != lb[i].canon {
				same = false
			}
		}
		if same {
			return "grouping_changed"
		}
	}
	return "roundtrip_mismatch"
}

// c12HasOp reports whether the planned tree contains a binary operator for which pred holds.
func c12HasOp(e Expr, pred func(Token) bool) bool {
	found := false
	WalkFunc(e, func(n Node) {
		if b, ok := n.(*BinaryExpr); ok && pred(b.Op) {
			found = true
		}
	})
	return found
}

func c12ClassifyEarlyStop(planned Expr) string {
	return "reparse_stops_early"
}

func c12ClassifyUnparsable(planned Expr, printed string) string {
	return "print_not_reparsable"
}

// ---------------------------------------------------------------- the grammar

var c12Float1e300 = "1" + strings.Repeat("0", 300) + ".0"

// full literal alphabet
var c12Atoms = []string{
	// identifiers
	"a", "_b1", `"a b"`, `"sel\"ect"`, `"select"`, `"a.b"`, `"a\\b"`, `"a\nb"`, `"1a"`, "a.b", "time", `"a'b"`, `"héllo"`,
	// typed references
	"a::float", "a::integer", "a::string", "a::boolean", "a::tag", "a::field", `"a b"::tag`, "a::unsigned",
	// strings
	`'str'`, `'it\'s'`, `'a\\b'`, `'a\nb'`, `''`, `'say "hi"'`, `'2020-01-01T00:00:00Z'`, `'2020-01-01'`, `'/re/'`, `'1'`,
	// integers
	"0", "1", "007", "9223372036854775807", "9223372036854775808", "18446744073709551615", "18446744073709551616",
	// floats
	"2.0", "1.5", "0.0000001", "100000000000000000000.0", c12Float1e300, "1e300", ".5", "2.", "9007199254740993.0", "0.0",
	// durations
	"5m", "1h30m", "10u", "10µ", "1ns", "90s", "1500ms", "0s", "1w", "36h",
	// booleans
	"true", "false", "TRUE",
	// regular expressions
	`/a\/b/`, `/^a.*$/`, `/a b/`, `/\d+/`, `/a\\b/`, `/(x|y)/`,
	// calls, arity 0..2
	"f()", "f(a)", "f(a, 1)", "f(2.0)", "now()", "F(A)", "f(/re/)", "f(*)", "f('s', 5m)", "f(g(a), -1)", "f(a + 1)", "f((a))",
	// others the parsers know
	"*", "*::tag", "inf", "distinct a", "distinct(a)",
}

var c12BinOps = []string{"+", "-", "*", "/", "%", "&", "|", "^", "=", "!=", "<>", "<", "<=", ">", ">=", "=~", "!~", "AND", "OR"}

// reduced alphabets for the deeper levels
var c12Atoms3 = []string{"a", `"a b"`, `'it\'s'`, "1", "2.0", "1.5", "5m", `/a\/b/`, "f(a, 1)", "true", "-a", "-2.0", "a::tag"}
var c12Atoms4Quick = []string{"a", "1", "2.0", "'x'"}
var c12Ops4Quick = []string{"OR", "AND", "=", "!=", "<", "+", "-", "*", "/", "%", "&"}
var c12Atoms4Thorough = []string{"a", "1", "2.0", "'x'", "-a", "5m"}

// parenthesisations of an operand sequence ("parentheses at every position")
func c12Paren3(a, o1, b, o2, c string, emit func(string)) {
	emit(a + " " + o1 + " " + b + " " + o2 + " " + c)
	emit("(" + a + " " + o1 + " " + b + ") " + o2 + " " + c)
	emit(a + " " + o1 + " (" + b + " " + o2 + " " + c + ")")
}

func c12Paren4(a, o1, b, o2, c, o3, d string, emit func(string)) {
	ab := a + " " + o1 + " " + b
	bc := b + " " + o2 + " " + c
	cd := c + " " + o3 + " " + d
	emit(ab + " " + o2 + " " + cd)                                // flat
	emit("(" + ab + ") " + o2 + " " + cd)                         // (ab) c d
	emit(a + " " + o1 + " (" + bc + ") " + o3 + " " + d)          // a (bc) d
	emit(ab + " " + o2 + " (" + cd + ")")                         // a b (cd)
	emit("(" + ab + ") " + o2 + " (" + cd + ")")                  // (ab)(cd)
	emit("(" + ab + " " + o2 + " " + c + ") " + o3 + " " + d)     // (abc) d
	emit(a + " " + o1 + " (" + bc + " " + o3 + " " + d + ")")     // a (bcd)
	emit("((" + ab + ") " + o2 + " " + c + ") " + o3 + " " + d)   // ((ab)c)d
	emit("(" + a + " " + o1 + " (" + bc + ")) " + o3 + " " + d)   // (a(bc))d
	emit(a + " " + o1 + " ((" + bc + ") " + o3 + " " + d + ")")   // a((bc)d)
	emit(a + " " + o1 + " (" + b + " " + o2 + " (" + cd + "))")   // a(b(cd))
}

func c12Enumerate(rep *kit.Report, thorough bool, check func(string)) {
	block := 0
	mine := func() bool { block++; return kit.Mine(block - 1) }

	// level 0/1: every atom, with unary operators and parentheses
	for _, a := range c12Atoms {
		if !mine() {
			continue
		}
		for _, s := range []string{a, "(" + a + ")", "((" + a + "))", "-" + a, "- " + a, "+" + a, "-(" + a + ")", "(-" + a + ")", "--" + a, "- -" + a, "NOT " + a} {
			check(s)
		}
	}
	// level 1: atom op atom over the full alphabet, with parentheses and unary minus at each position
	for _, a := range c12Atoms {
		for _, op := range c12BinOps {
			if !mine() {
				continue
			}
			if rep.Expired() {
				return
			}
			for _, b := range c12Atoms {
				check(a + " " + op + " " + b)
				check(a + op + b) // no white space
				check("(" + a + " " + op + " " + b + ")")
				check("(" + a + ") " + op + " (" + b + ")")
				check("-" + a + " " + op + " " + b)
				check(a + " " + op + " -" + b)
				check("-(" + a + " " + op + " " + b + ")")
			}
		}
	}
	// IN / NOT IN / LIKE and the text-search operators of the yacc grammar
	for _, a := range []string{"a", `"a b"`, "a::tag"} {
		if !mine() {
			continue
		}
		for _, s := range []string{"IN (1)", "IN ('x')", "IN (2.0)", "IN ('it\\'s')", "NOT IN (1)", "IN (1, 2)", "LIKE 'x%'", "LIKE 'it\\'s'"} {
			check(a + " " + s)
			check("(" + a + " " + s + ") AND b = 1")
			check("b = 1 OR " + a + " " + s)
		}
	}
	for _, s := range []string{"match(a, 'x y')", "matchphrase(a, 'x y')", "ipinrange(a, '1.2.3.0/24')", "match(\"a b\", 'it\\'s')", "match(a, 'x') AND b = 2.0"} {
		if mine() {
			check(s)
		}
	}
	// level 2 (three operands), reduced alphabet, all operators, all parenthesisations
	for _, a := range c12Atoms3 {
		for _, o1 := range c12BinOps {
			if !mine() {
				continue
			}
			if rep.Expired() {
				return
			}
			for _, b := range c12Atoms3 {
				for _, o2 := range c12BinOps {
					for _, c := range c12Atoms3 {
						c12Paren3(a, o1, b, o2, c, check)
					}
				}
			}
		}
	}
	// four operands (depth 2 balanced and depth 3 chains), all 11 parenthesisations
	atoms4, ops4 := c12Atoms4Quick, c12Ops4Quick
	if thorough {
		atoms4, ops4 = c12Atoms4Thorough, c12BinOps
	}
	for _, a := range atoms4 {
		for _, o1 := range ops4 {
			for _, b := range atoms4 {
				if !mine() {
					continue
				}
				if rep.Expired() {
					return
				}
				for _, o2 := range ops4 {
					for _, c := range atoms4 {
						for _, o3 := range ops4 {
							for _, d := range atoms4 {
								c12Paren4(a, o1, b, o2, c, o3, d, check)
							}
						}
					}
				}
			}
		}
	}
}

func TestVerifC12(t *testing.T) {
	rep := kit.NewReport("C12")
	defer rep.Save()
	ctx := &c12Ctx{rep: rep, doors: map[string]bool{"He": true, "Yc": true, "Yf": true, "Hs": true}}
	if kit.ReplayPath() != "" {
		var c c12Case
		if err := kit.LoadReplay(&c); err != nil {
			t.Fatal(err)
		}
		if c.Door != "" {
			ctx.doors = map[string]bool{c.Door: true}
		}
		ctx.check(c.Text)
		return
	}
	c12Enumerate(rep, kit.Thorough(), ctx.check)
}
