//go:build verif

package influxql

// C12 — "a query shipped to the storage nodes is the query that was planned", part 1:
// print -> re-parse of every expression text of a finite grammar, on the real scanner, both real
// parsers (the yacc parser that plans a statement on ts-sql, the hand-written parser that the
// store uses to read the shipped text back) and the real printer.
//
// Doors (who accepts a text T and thereby defines the planned tree e), and the real re-parse seam:
//   Yc  yacc  SELECT * FROM m WHERE <T>   e = stmt.Condition -> ParseExpr(e.String())            (processor_codec.go: Condition)
//   Yf  yacc  SELECT <T> FROM m           e = stmt.Fields    -> ParseStatement("SELECT "+Fields.String()+" FROM mock")
//                                                               (= hybridqp.ParseFields, store side of QuerySchema / ProcessorOptions.Expr)
//   Ys  yacc  statement of Yc             stmt.String()      -> yacc again  (statement text stored and re-planned, e.g. continuous queries)
//   He  hand  ParseExpr(<T>), whole text consumed            -> ParseExpr(e.String())
//   Hs  hand  ParseQuery("SELECT * FROM m WHERE <T>")        -> ParseQuery(stmt.String())
// Oracle: canonical typed tree (ParenExpr nodes removed) equal, re-parse consumes the whole text.
// A difference is classified by the defect that explains it (one kind per defect, several kinds if
// several defects meet in one text); what no known defect model explains is roundtrip_mismatch /
// print_not_reparsable / reparse_stops_early.

import (
	"fmt"
	"os"
	"runtime/debug"
	"strconv"
	"strings"
	"testing"
	"time"

	kit "github.com/openGemini/openGemini/lib/verifkit"
)

// ---------------------------------------------------------------- the oracle

type c12Case struct {
	Door string `json:"door"` // Yc | Yf | Ys | He | Hs
	Text string `json:"text"`
}

type c12Ctx struct {
	rep   *kit.Report
	doors map[string]bool
	dump  *os.File // C12_DUMP=<file>: every violation as one line (triage aid, not used by bin/check)
	kept  map[string]int
}

// vio records a violation; the detail text is only built while the report still keeps violations of
// that kind in full (kit keeps 8 per kind and worker, all are counted).
func (c *c12Ctx) vio(kind, door, text string, detail func() string) {
	if c.kept == nil {
		c.kept = map[string]int{}
	}
	c.kept[kind]++
	d := ""
	if c.kept[kind] <= 8 || c.dump != nil {
		d = detail()
	}
	if c.dump != nil {
		fmt.Fprintf(c.dump, "%s\t%s\t%s\t%s\n", kind, door, text, strings.ReplaceAll(d, "\n", " | "))
	}
	c.rep.Count("violations_door_"+door, 1)
	c.rep.Count("kind_"+kind, 1)
	c.rep.Violation(kind, door+": "+text, d, c12Case{Door: door, Text: text})
}

func (c *c12Ctx) vios(kinds []string, fallback, door, text string, detail func() string) {
	if len(kinds) == 0 {
		c.vio(fallback, door, text, detail)
		return
	}
	for _, k := range kinds {
		c.vio(k, door, text, detail)
	}
}

// reparseExpr is the store side: the printed text is parsed with ParseExpr in every scanner state
// that can matter for it.  Reports at most one difference.
func (c *c12Ctx) reparseExpr(door, text string, planned Expr, want, printed string) {
	for _, st := range c12States(printed) {
		r := c12ParseExprState(printed, st)
		if r.err != nil {
			k := c12ExplainFailure([]Expr{planned}, r.err.Error(), true)
			c.vios(nonEmpty(k), "print_not_reparsable", door, text,
				func() string {
					return fmt.Sprintf("printed %q does not re-parse (scanner state %d): %v\n  planned: %s", printed, st, r.err, want)
				})
			return
		}
		if !r.whole {
			k := c12ExplainFailure([]Expr{planned}, "", true)
			c.vios(nonEmpty(k), "reparse_stops_early", door, text,
				func() string {
					return fmt.Sprintf("printed %q is only partly consumed by ParseExpr (scanner state %d)\n  planned: %s\n  shipped: %s", printed, st, want, c12Canon(r.e))
				})
			return
		}
		if got := c12Canon(r.e); got != want {
			kinds := c12Explain(func(n c12Norm) (string, string) { return c12CanonN(planned, n), c12CanonN(r.e, n.shipped()) }, []Expr{planned})
			c.vios(kinds, "roundtrip_mismatch", door, text,
				func() string {
					return fmt.Sprintf("printed %q (scanner state %d)\n  planned: %s\n  shipped: %s", printed, st, want, got)
				})
			return
		}
	}
}

func nonEmpty(k string) []string {
	if k == "" {
		return nil
	}
	return []string{k}
}

func (c *c12Ctx) check(text string) {
	rep := c.rep
	rep.Eval(1)
	accepted := false

	// ---- door He: hand-written expression parser
	if c.doors["He"] {
		states := c12States(text)
		first := c12ParseExprState(text, states[0])
		want := ""
		if first.err == nil {
			want = c12Canon(first.e)
		}
		agree := true
		for _, st := range states[1:] {
			r := c12ParseExprState(text, st)
			if (r.err == nil) != (first.err == nil) || (r.err == nil && (r.whole != first.whole || c12Canon(r.e) != want)) {
				agree = false
			}
		}
		switch {
		case !agree:
			// accepted in one scanner state, rejected or read differently in another: not "a text the
			// parser accepts"; counted, not judged (the statement is silent about it)
			rep.Count("He_accept_depends_on_scanner_state", 1)
		case first.err != nil:
		case !first.whole:
			rep.Count("He_text_partly_consumed_not_accepted", 1)
		default:
			accepted = true
			rep.Count("He_accepted", 1)
			printed, err := c12String(first.e)
			if rep.DistinctNontrivial(kit.Hash("e", want)) {
				rep.Sample(2, map[string]string{"door": "He", "text": text, "printed": printed})
			}
			if err != nil {
				c.vio("printer_panic", "He", text, func() string { return err.Error() })
			} else {
				c.reparseExpr("He", text, first.e, want, printed)
			}
		}
	}

	// ---- doors Yc, Ys: condition of a statement planned by the yacc parser
	if c.doors["Yc"] || c.doors["Ys"] {
		if sel, err := c12Yacc("SELECT * FROM m WHERE " + text); err == nil && sel.Condition != nil {
			accepted = true
			want := c12Canon(sel.Condition)
			printed, perr := c12String(sel.Condition)
			if rep.DistinctNontrivial(kit.Hash("e", want)) {
				rep.Sample(3, map[string]string{"door": "Yc", "text": text, "printed": printed})
			}
			if c.doors["Yc"] {
				rep.Count("Yc_accepted", 1)
				if perr != nil {
					c.vio("printer_panic", "Yc", text, func() string { return perr.Error() })
				} else {
					c.reparseExpr("Yc", text, sel.Condition, want, printed)
				}
			}
			if c.doors["Ys"] {
				rep.Count("Ys_accepted", 1)
				planned := []Expr{sel.Condition}
				if ss, err := c12String(sel); err != nil {
					c.vio("printer_panic", "Ys", text, func() string { return err.Error() })
				} else if sel2, err := c12Yacc(ss); err != nil {
					c.vios(nonEmpty(c12ExplainFailure(planned, err.Error(), false)), "print_not_reparsable", "Ys", text,
						func() string { return fmt.Sprintf("statement %q does not re-parse: %v\n  planned: %s", ss, err, want) })
				} else if got := c12Canon(sel2.Condition); got != want {
					kinds := c12Explain(func(n c12Norm) (string, string) {
						return c12CanonN(sel.Condition, n), c12CanonN(sel2.Condition, n.shipped())
					}, planned)
					c.vios(kinds, "roundtrip_mismatch", "Ys", text, func() string { return fmt.Sprintf("statement %q\n  planned: %s\n  reparsed: %s", ss, want, got) })
				}
			}
		}
	}

	// ---- door Yf: field list of a statement planned by the yacc parser
	if c.doors["Yf"] {
		if sel, err := c12Yacc("SELECT " + text + " FROM m"); err == nil && len(sel.Fields) > 0 {
			accepted = true
			rep.Count("Yf_accepted", 1)
			want := c12CanonFields(sel.Fields, c12Norm{})
			printed, perr := c12String(sel.Fields)
			if rep.DistinctNontrivial(kit.Hash("f", want)) {
				rep.Sample(4, map[string]string{"door": "Yf", "text": text, "printed": printed})
			}
			planned := make([]Expr, len(sel.Fields))
			for i, f := range sel.Fields {
				planned[i] = f.Expr
			}
			if perr != nil {
				c.vio("printer_panic", "Yf", text, func() string { return perr.Error() })
			} else {
				states := []int{1}
				if strings.Contains(printed, ".") {
					states = []int{1, 3}
				}
				for _, st := range states {
					fs, err := c12ParseFields(printed, st)
					if err != nil {
						c.vios(nonEmpty(c12ExplainFailure(planned, err.Error(), true)), "print_not_reparsable", "Yf", text,
							func() string {
								return fmt.Sprintf("fields %q do not re-parse with ParseFields: %v\n  planned: %s", printed, err, want)
							})
						break
					}
					if got := c12CanonFields(fs, c12Norm{}); got != want {
						kinds := c12Explain(func(n c12Norm) (string, string) {
							return c12CanonFields(sel.Fields, n), c12CanonFields(fs, n.shipped())
						}, planned)
						c.vios(kinds, "roundtrip_mismatch", "Yf", text, func() string { return fmt.Sprintf("fields %q\n  planned: %s\n  shipped: %s", printed, want, got) })
						break
					}
				}
			}
		}
	}

	// ---- door Hs: hand-written statement parser, statement round trip
	if c.doors["Hs"] {
		if sel, err := c12HandQuery("SELECT * FROM m WHERE " + text); err == nil && sel.Condition != nil {
			accepted = true
			rep.Count("Hs_accepted", 1)
			want := c12Canon(sel.Condition)
			rep.DistinctNontrivial(kit.Hash("e", want))
			planned := []Expr{sel.Condition}
			if ss, err := c12String(sel); err != nil {
				c.vio("printer_panic", "Hs", text, func() string { return err.Error() })
			} else if sel2, err := c12HandQuery(ss); err != nil {
				c.vios(nonEmpty(c12ExplainFailure(planned, err.Error(), true)), "print_not_reparsable", "Hs", text,
					func() string { return fmt.Sprintf("statement %q does not re-parse: %v\n  planned: %s", ss, err, want) })
			} else if got := c12Canon(sel2.Condition); got != want {
				kinds := c12Explain(func(n c12Norm) (string, string) {
					return c12CanonN(sel.Condition, n), c12CanonN(sel2.Condition, n.shipped())
				}, planned)
				c.vios(kinds, "roundtrip_mismatch", "Hs", text, func() string { return fmt.Sprintf("statement %q\n  planned: %s\n  reparsed: %s", ss, want, got) })
			}
		}
	}

	if accepted {
		rep.Count("texts_accepted_by_some_door", 1)
	} else {
		rep.Count("texts_rejected_by_every_door", 1)
	}
}

func TestVerifC12(t *testing.T) {
	rep := kit.NewReport("C12")
	defer rep.Save()
	start := time.Now()
	debug.SetGCPercent(2000) // millions of tiny short-lived trees: the default target makes the collector the main cost
	ctx := &c12Ctx{rep: rep, doors: map[string]bool{"He": true, "Yc": true, "Yf": true, "Ys": true, "Hs": true}}
	if kit.ReplayPath() != "" {
		var c c12Case
		if err := kit.LoadReplay(&c); err != nil {
			t.Fatal(err)
		}
		if c.Door == "" {
			return // a case of another C12 harness
		}
		ctx.doors = map[string]bool{c.Door: true}
		ctx.check(c.Text)
		return
	}
	if p := os.Getenv("C12_DUMP"); p != "" {
		f, err := os.Create(p)
		if err != nil {
			t.Fatal(err)
		}
		defer f.Close()
		ctx.dump = f
	}
	level := "full"
	if kit.Thorough() {
		level = "thorough"
	}
	block := 0
	// blocks are dealt to workers by a hash of their number: neighbouring blocks differ a lot in cost
	mine := func() bool { block++; return kit.Mine(int(kit.Hash("block", strconv.Itoa(block)) % (1 << 30))) }
	c12Enumerate(level, mine, rep.Expired, ctx.check)
	rep.Max("max_worker_seconds_influxql", int64(time.Since(start).Seconds()))
}
