//go:build verif

package influxql

// C12 — "a query shipped to the storage nodes is the query that was planned", part 1:
// print -> re-parse of every expression text of a finite grammar, on the real scanner, both real
// parsers (the yacc parser that plans a statement on ts-sql, the hand-written parser that the
// store uses to read the shipped text back) and the real printer.
//
// Doors (who accepts a text T and thereby defines the planned tree e), and the real re-parse seam:
//   Yc  yacc  SELECT * FROM m WHERE <T>   e = stmt.Condition -> ParseExpr(e.String())            (processor_codec.go: Condition)
//   Yf  yacc  SELECT <T> FROM m           e = stmt.Fields    -> ParseStatement("SELECT "+Fields.String()+" FROM mock")
//                                                               (= hybridqp.ParseFields, store side of QuerySchema / ProcessorOptions.Expr)
//   Ys  yacc  statement of Yc             stmt.String()      -> yacc again  (statement text stored and re-planned, e.g. continuous queries)
//   He  hand  ParseExpr(<T>), whole text consumed            -> ParseExpr(e.String())
//   Hs  hand  ParseQuery("SELECT * FROM m WHERE <T>")        -> ParseQuery(stmt.String())
// Oracle: canonical typed tree (ParenExpr nodes removed) equal, re-parse consumes the whole text.
// A difference is classified by the defect that explains it (one kind per defect, several kinds if
// several defects meet in one text); what no known defect model explains is roundtrip_mismatch /
// print_not_reparsable / reparse_stops_early.

import (
	"fmt"
	"math"
	"os"
	"runtime/debug"
	"sort"
	"strconv"
	"strings"
	"testing"
	"time"

	kit "github.com/openGemini/openGemini/lib/verifkit"
)

// ---------------------------------------------------------------- canonical form

// c12Norm switches on the defect models: each one erases exactly the distinction that one known
// printer/parser defect loses.  The zero value is the strict canonical form.
type c12Norm struct {
	intFloat bool // integral NumberLiteral in int64 range == IntegerLiteral of that value (printed without fraction)
	nsDur    bool // duration that is not a multiple of 1µs == the duration truncated to µs (FormatDuration)
	reSlash  bool // regex source: any run of backslashes before '/' == one backslash
	infIdent bool // identifier inf / nan == the float constant
	regroup  bool // binary sub-expression without ParenExpr is re-attached by operator precedence (printed flat)
}


// the harness's own precedence table (influxql.Token.Precedence() is code under test)
func c12Prec(op Token) int {
	switch op {
	case OR:
		return 1
	case AND:
		return 2
	case EQ, NEQ, EQREGEX, NEQREGEX, LT, LTE, GT, GTE, IN, NOTIN:
		return 3
	case ADD, SUB, BITWISE_OR, BITWISE_XOR:
		return 4
	case MUL, DIV, MOD, BITWISE_AND:
		return 5
	case MATCH, MATCHPHRASE, LIKE, IPINRANGE:
		return 6
	}
	return 0
}

type c12Canoner struct {
	b []byte
	n c12Norm
}

func c12Canon(e Expr) string { return c12CanonN(e, c12Norm{}) }

func c12CanonN(e Expr, n c12Norm) string {
	c := c12Canoner{b: make([]byte, 0, 96), n: n}
	c.expr(e)
	return string(c.b)
}

func (c *c12Canoner) s(x string) { c.b = append(c.b, x...) }

func c12CollapseBackslashesBeforeSlash(re string) string {
	if !strings.Contains(re, `\/`) {
		return re
	}
	var out []byte
	for i := 0; i < len(re); i++ {
		if re[i] == '\\' {
			j := i
			for j < len(re) && re[j] == '\\' {
				j++
			}
			if j < len(re) && re[j] == '/' {
				out = append(out, '\\')
				i = j - 1
				continue
			}
			out = append(out, re[i:j]...)
			i = j - 1
			continue
		}
		out = append(out, re[i])
	}
	return string(out)
}

func (c *c12Canoner) expr(e Expr) {
	switch n := e.(type) {
	case nil:
		c.s("<nil>")
	case *ParenExpr:
		c.expr(n.Expr)
	case *BinaryExpr:
		if c.n.regroup {
			c.regrouped(n)
			return
		}
		c.s("(")
		c.s(n.Op.String())
		c.s(" ")
		c.expr(n.LHS)
		c.s(" ")
		c.expr(n.RHS)
		if n.ReturnBool {
			c.s(" rb")
		}
		c.s(")")
	case *NumberLiteral:
		switch {
		case n.Val != n.Val:
			c.s("num:NaN")
		case c.n.intFloat && n.Val == math.Trunc(n.Val) && n.Val >= -9223372036854775808.0 && n.Val < 9223372036854775808.0:
			c.s("int:")
			c.b = strconv.AppendInt(c.b, int64(n.Val), 10)
		case c.n.intFloat && n.Val == math.Trunc(n.Val) && n.Val < -9223372036854775808.0:
			c.s("int:-9223372036854775807") // what the yacc lexer makes of the printed digits (ParseInt error ignored)
		default:
			c.s("num:")
			c.b = strconv.AppendUint(c.b, math.Float64bits(n.Val), 16)
		}
	case *IntegerLiteral:
		c.s("int:")
		c.b = strconv.AppendInt(c.b, n.Val, 10)
	case *UnsignedLiteral:
		c.s("uint:")
		c.b = strconv.AppendUint(c.b, n.Val, 10)
	case *StringLiteral:
		c.s("str:")
		c.b = strconv.AppendQuote(c.b, n.Val)
	case *BooleanLiteral:
		c.s("bool:")
		c.b = strconv.AppendBool(c.b, n.Val)
	case *DurationLiteral:
		d := int64(n.Val)
		if c.n.nsDur && d%1000 != 0 {
			d = d / 1000 * 1000
		}
		c.s("dur:")
		c.b = strconv.AppendInt(c.b, d, 10)
	case *TimeLiteral:
		c.s("time:")
		c.b = strconv.AppendInt(c.b, n.Val.UnixNano(), 10)
	case *RegexLiteral:
		if n == nil || n.Val == nil {
			c.s("re:<nil>")
		} else {
			re := n.Val.String()
			if c.n.reSlash {
				re = c12CollapseBackslashesBeforeSlash(re)
			}
			c.s("re:")
			c.b = strconv.AppendQuote(c.b, re)
		}
	case *VarRef:
		if c.n.infIdent && n.Type == Unknown {
			switch strings.ToLower(n.Val) {
			case "inf":
				c.s("num:7ff0000000000000")
				return
			case "nan":
				c.s("num:NaN")
				return
			}
		}
		c.s("ref:")
		c.b = strconv.AppendQuote(c.b, n.Val)
		c.s(":")
		c.b = strconv.AppendInt(c.b, int64(n.Type), 10)
	case *Call:
		c.s("call:")
		c.b = strconv.AppendQuote(c.b, n.Name)
		c.s("[")
		for i := range n.Args {
			if i > 0 {
				c.s(",")
			}
			c.expr(n.Args[i])
		}
		c.s("]")
	case *Wildcard:
		c.s("wild:")
		c.b = strconv.AppendInt(c.b, int64(n.Type), 10)
	case *NilLiteral:
		c.s("nil")
	case *Distinct:
		c.s("distinct:")
		c.b = strconv.AppendQuote(c.b, n.Val)
	case *SetLiteral:
		vals := make([]string, 0, len(n.Vals))
		for v := range n.Vals {
			vals = append(vals, fmt.Sprintf("%T:%v", v, v))
		}
		sort.Strings(vals)
		c.s(fmt.Sprintf("set:%q", vals))
	default:
		c.s(fmt.Sprintf("%T:%q", e, e.String()))
	}
}

// regrouped writes the tree that precedence climbing (left-associative) makes of the flat operand
// sequence of a binary expression whose BinaryExpr children are not wrapped in ParenExpr.
func (c *c12Canoner) regrouped(root *BinaryExpr) {
	var operands []Expr
	var ops []*BinaryExpr
	var flat func(e Expr)
	flat = func(e Expr) {
		if b, ok := e.(*BinaryExpr); ok {
			flat(b.LHS)
			ops = append(ops, b)
			flat(b.RHS)
			return
		}
		operands = append(operands, e)
	}
	flat(root)
	pos, opnd := 0, 0
	var climb func(minPrec int) string
	climb = func(minPrec int) string {
		sub := c12Canoner{n: c.n}
		sub.expr(operands[opnd])
		opnd++
		lhs := string(sub.b)
		for pos < len(ops) && c12Prec(ops[pos].Op) >= minPrec {
			op := ops[pos]
			pos++
			rhs := climb(c12Prec(op.Op) + 1)
			rb := ""
			if op.ReturnBool {
				rb = " rb"
			}
			lhs = "(" + op.Op.String() + " " + lhs + " " + rhs + rb + ")"
		}
		return lhs
	}
	c.s(climb(0))
}

func c12CanonFields(fs Fields, n c12Norm) string {
	var b strings.Builder
	for i, f := range fs {
		if i > 0 {
			b.WriteString(" ; ")
		}
		b.WriteString(c12CanonN(f.Expr, n))
		if f.Alias != "" {
			fmt.Fprintf(&b, " AS %q", f.Alias)
		}
	}
	return b.String()
}

// ---------------------------------------------------------------- parsing under a controlled scanner state

// The scanner keeps two flags across tokens (preToken, checkDOT) and Parser.reset() does not clear
// them, so what the pooled parser behind influxql.ParseExpr does with the first token depends on
// the previous user of that parser.  The harness does not use the pool: it resets its own parser
// with the production reset() and then sets the two flags explicitly.  State 0 = new parser;
// 1 = "the previous parse ended at EOF" (a pooled parser after a complete parse); 2, 3 = the same
// with checkDOT set.  Only a text whose first character is '/' can tell 0 from 1, and only a text
// with a '.' can tell checkDOT, so the other states are tried only for such texts.
var c12Parser = NewParser(strings.NewReader(""))

func c12ResetParser(text string, state int) *Parser {
	p := c12Parser
	p.reset(strings.NewReader(text))
	p.s.s.preToken = ILLEGAL
	p.s.s.checkDOT = false
	if state&1 != 0 {
		p.s.s.preToken = EOF
	}
	if state&2 != 0 {
		p.s.s.checkDOT = true
	}
	return p
}

func c12States(text string) []int {
	t := strings.TrimLeft(text, " \t\n")
	slash := strings.HasPrefix(t, "/")
	dot := strings.Contains(text, ".")
	switch {
	case slash && dot:
		return []int{0, 1, 2, 3}
	case slash:
		return []int{0, 1}
	case dot:
		return []int{0, 2}
	}
	return []int{0}
}

type c12Parsed struct {
	e     Expr
	err   error
	whole bool // the parser consumed the whole text
}

func c12ParseExprState(text string, state int) (res c12Parsed) {
	defer func() {
		if r := recover(); r != nil {
			res = c12Parsed{err: fmt.Errorf("PANIC: %v", r)}
		}
	}()
	p := c12ResetParser(text, state)
	e, err := p.ParseExpr()
	if err != nil {
		return c12Parsed{err: err}
	}
	tok, _, _ := p.ScanIgnoreWhitespace()
	return c12Parsed{e: e, whole: tok == EOF}
}

func c12Yacc(q string) (sel *SelectStatement, err error) {
	defer func() {
		if r := recover(); r != nil {
			sel, err = nil, fmt.Errorf("PANIC: %v", r)
		}
	}()
	p := c12ResetParser(q, 0)
	y := NewYyParser(p.GetScanner(), map[string]interface{}{})
	y.ParseTokens()
	qu, err := y.GetQuery()
	if err != nil {
		return nil, err
	}
	if len(qu.Statements) != 1 {
		return nil, fmt.Errorf("%d statements", len(qu.Statements))
	}
	s, ok := qu.Statements[0].(*SelectStatement)
	if !ok {
		return nil, fmt.Errorf("not a select: %T", qu.Statements[0])
	}
	return s, nil
}

func c12HandQuery(q string) (sel *SelectStatement, err error) {
	defer func() {
		if r := recover(); r != nil {
			sel, err = nil, fmt.Errorf("PANIC: %v", r)
		}
	}()
	p := c12ResetParser(q, 0)
	qu, err := p.ParseQuery()
	if err != nil {
		return nil, err
	}
	if len(qu.Statements) != 1 {
		return nil, fmt.Errorf("%d statements", len(qu.Statements))
	}
	s, ok := qu.Statements[0].(*SelectStatement)
	if !ok {
		return nil, fmt.Errorf("not a select: %T", qu.Statements[0])
	}
	return s, nil
}

// c12ParseFields is hybridqp.ParseFields (engine/hybridqp/codec.go), which the store uses to read
// QuerySchema.QueryFields back; it cannot be imported here (import cycle); the real one is
// exercised by the harness in lib/util/lifted/influx/query.
func c12ParseFields(s string, state int) (fs Fields, err error) {
	defer func() {
		if r := recover(); r != nil {
			fs, err = nil, fmt.Errorf("PANIC: %v", r)
		}
	}()
	p := c12ResetParser("SELECT "+s+" FROM mock", state)
	st, err := p.ParseStatement()
	if err != nil {
		return nil, err
	}
	sel, ok := st.(*SelectStatement)
	if !ok {
		return nil, fmt.Errorf("invalid fields: %s", s)
	}
	return sel.Fields, nil
}

func c12String(n interface{ String() string }) (s string, err error) {
	defer func() {
		if r := recover(); r != nil {
			err = fmt.Errorf("PANIC in String(): %v", r)
		}
	}()
	return n.String(), nil
}

// ---------------------------------------------------------------- explaining a difference by a defect model

// c12Misplaced lists, for a planned tree, the binary sub-expressions that are not wrapped in a
// ParenExpr although the flat print re-attaches them: kinds of the construction that produced them.
func c12Misplaced(e Expr) map[string]bool {
	kinds := map[string]bool{}
	WalkFunc(e, func(n Node) {
		b, ok := n.(*BinaryExpr)
		if !ok {
			return
		}
		check := func(child Expr, isRHS bool) {
			c, ok := child.(*BinaryExpr)
			if !ok {
				return
			}
			pc, pb := c12Prec(c.Op), c12Prec(b.Op)
			if pc < pb || (isRHS && pc == pb) {
				lit, isInt := c.LHS.(*IntegerLiteral)
				switch {
				case c.Op == MUL && isInt && lit.Val == -1:
					kinds["unary_minus_operand_regrouped"] = true
				case (c.Op == AND || c.Op == OR) && (b.Op == AND || b.Op == OR):
					kinds["and_or_equal_precedence_regrouped"] = true
				default:
					kinds["bare_subexpression_regrouped"] = true
				}
			}
		}
		check(b.LHS, false)
		check(b.RHS, true)
	})
	return kinds
}

// c12Explain returns the kinds of the known defects that together account for planned != shipped,
// or nil if no combination of the defect models does.
func c12Explain(canonN func(c12Norm) (planned, shipped string), plannedExprs []Expr) []string {
	mk := func(bits int) c12Norm {
		return c12Norm{bits&1 != 0, bits&2 != 0, bits&4 != 0, bits&8 != 0, bits&16 != 0}
	}
	equal := func(bits int) bool { p, s := canonN(mk(bits)); return p == s }
	// largest set of models first (31 = all); a model that does not apply to this tree changes nothing
	found := -1
	for _, bits := range c12SubsetsBysize {
		if equal(bits) {
			found = bits
			break
		}
	}
	if found < 0 {
		return nil
	}
	// a model is part of the explanation iff the trees differ without it
	var kinds []string
	need := func(bit int) bool { return found&bit != 0 && !equal(found&^bit) }
	if need(1) {
		kinds = append(kinds, "integral_float_reparsed_as_integer")
	}
	if need(2) {
		kinds = append(kinds, "sub_microsecond_duration_truncated")
	}
	if need(4) {
		kinds = append(kinds, "regex_escaped_slash_escaped_again")
	}
	if need(8) {
		kinds = append(kinds, "identifier_inf_nan_reparsed_as_number")
	}
	if need(16) {
		ks := map[string]bool{}
		for _, e := range plannedExprs {
			for k := range c12Misplaced(e) {
				ks[k] = true
			}
		}
		if len(ks) == 0 {
			ks["bare_subexpression_regrouped"] = true
		}
		sorted := make([]string, 0, len(ks))
		for k := range ks {
			sorted = append(sorted, k)
		}
		sort.Strings(sorted)
		kinds = append(kinds, sorted...)
	}
	return kinds
}

// non-empty subsets of the five defect models, larger sets first
var c12SubsetsBysize = func() []int {
	var out []int
	for size := 5; size >= 1; size-- {
		for bits := 31; bits >= 1; bits-- {
			n := 0
			for b := bits; b != 0; b &= b - 1 {
				n++
			}
			if n == size {
				out = append(out, bits)
			}
		}
	}
	return out
}()

func c12Has(e Expr, pred func(Node) bool) bool {
	found := false
	WalkFunc(e, func(n Node) {
		if !found && pred(n) {
			found = true
		}
	})
	return found
}

func c12LeftmostLeaf(e Expr) Expr {
	for {
		switch n := e.(type) {
		case *BinaryExpr:
			e = n.LHS
		default:
			return e
		}
	}
}

// c12ExplainFailure names the known defect behind a printed text that the re-parser rejects or
// reads only in part; "" if none applies.  handReparser: the re-parser is the hand-written one.
func c12ExplainFailure(planned []Expr, errText string, handReparser bool) string {
	has := func(pred func(Node) bool) bool {
		for _, e := range planned {
			if c12Has(e, pred) {
				return true
			}
		}
		return false
	}
	if strings.Contains(errText, "unable to parse integer") && has(func(n Node) bool {
		l, ok := n.(*NumberLiteral)
		return ok && l.Val == math.Trunc(l.Val) && l.Val < -9223372036854775808.0
	}) {
		return "integral_float_below_int64_not_reparsable"
	}
	if handReparser && strings.Contains(errText, "expected regex") && has(func(n Node) bool {
		b, ok := n.(*BinaryExpr)
		if !ok || (b.Op != EQREGEX && b.Op != NEQREGEX) {
			return false
		}
		_, isRe := b.RHS.(*RegexLiteral)
		return !isRe
	}) {
		return "regex_operator_with_non_regex_operand"
	}
	if handReparser && len(planned) > 0 {
		if _, ok := c12LeftmostLeaf(planned[0]).(*RegexLiteral); ok {
			return "leading_regex_not_reparsable"
		}
	}
	if handReparser && has(func(n Node) bool {
		b, ok := n.(*BinaryExpr)
		return ok && (b.Op == BITWISE_AND || b.Op == BITWISE_OR || b.Op == BITWISE_XOR)
	}) {
		return "bitwise_operator_unknown_to_store_parser"
	}
	if !handReparser && has(func(n Node) bool {
		b, ok := n.(*BinaryExpr)
		return ok && (b.Op == NOTIN || b.Op == MATCH || b.Op == MATCHPHRASE || b.Op == IPINRANGE)
	}) {
		return "statement_text_keyword_operator_not_yacc_parsable"
	}
	return ""
}

// ---------------------------------------------------------------- the oracle

type c12Case struct {
	Door string `json:"door"` // Yc | Yf | Ys | He | Hs
	Text string `json:"text"`
}

type c12Ctx struct {
	rep   *kit.Report
	doors map[string]bool
	dump  *os.File // C12_DUMP=<file>: every violation as one line (triage aid, not used by bin/check)
	kept  map[string]int
}

// vio records a violation; the detail text is only built while the report still keeps violations of
// that kind in full (kit keeps 8 per kind and worker, all are counted).
func (c *c12Ctx) vio(kind, door, text string, detail func() string) {
	if c.kept == nil {
		c.kept = map[string]int{}
	}
	c.kept[kind]++
	d := ""
	if c.kept[kind] <= 8 || c.dump != nil {
		d = detail()
	}
	if c.dump != nil {
		fmt.Fprintf(c.dump, "%s\t%s\t%s\t%s\n", kind, door, text, strings.ReplaceAll(d, "\n", " | "))
	}
	c.rep.Count("violations_door_"+door, 1)
	c.rep.Count("kind_"+kind, 1)
	c.rep.Violation(kind, door+": "+text, d, c12Case{Door: door, Text: text})
}

func (c *c12Ctx) vios(kinds []string, fallback, door, text string, detail func() string) {
	if len(kinds) == 0 {
		c.vio(fallback, door, text, detail)
		return
	}
	for _, k := range kinds {
		c.vio(k, door, text, detail)
	}
}

// reparseExpr is the store side: the printed text is parsed with ParseExpr in every scanner state
// that can matter for it.  Reports at most one difference.
func (c *c12Ctx) reparseExpr(door, text string, planned Expr, want, printed string) {
	for _, st := range c12States(printed) {
		r := c12ParseExprState(printed, st)
		if r.err != nil {
			k := c12ExplainFailure([]Expr{planned}, r.err.Error(), true)
			c.vios(nonEmpty(k), "print_not_reparsable", door, text,
				func() string { return fmt.Sprintf("printed %q does not re-parse (scanner state %d): %v\n  planned: %s", printed, st, r.err, want) })
			return
		}
		if !r.whole {
			k := c12ExplainFailure([]Expr{planned}, "", true)
			c.vios(nonEmpty(k), "reparse_stops_early", door, text,
				func() string { return fmt.Sprintf("printed %q is only partly consumed by ParseExpr (scanner state %d)\n  planned: %s\n  shipped: %s", printed, st, want, c12Canon(r.e)) })
			return
		}
		if got := c12Canon(r.e); got != want {
			kinds := c12Explain(func(n c12Norm) (string, string) { return c12CanonN(planned, n), c12CanonN(r.e, n) }, []Expr{planned})
			c.vios(kinds, "roundtrip_mismatch", door, text,
				func() string { return fmt.Sprintf("printed %q (scanner state %d)\n  planned: %s\n  shipped: %s", printed, st, want, got) })
			return
		}
	}
}

func nonEmpty(k string) []string {
	if k == "" {
		return nil
	}
	return []string{k}
}

func (c *c12Ctx) check(text string) {
	rep := c.rep
	rep.Eval(1)
	accepted := false

	// ---- door He: hand-written expression parser
	if c.doors["He"] {
		states := c12States(text)
		first := c12ParseExprState(text, states[0])
		want := ""
		if first.err == nil {
			want = c12Canon(first.e)
		}
		agree := true
		for _, st := range states[1:] {
			r := c12ParseExprState(text, st)
			if (r.err == nil) != (first.err == nil) || (r.err == nil && (r.whole != first.whole || c12Canon(r.e) != want)) {
				agree = false
			}
		}
		switch {
		case !agree:
			// accepted in one scanner state, rejected or read differently in another: not "a text the
			// parser accepts"; counted, not judged (the statement is silent about it)
			rep.Count("He_accept_depends_on_scanner_state", 1)
		case first.err != nil:
		case !first.whole:
			rep.Count("He_text_partly_consumed_not_accepted", 1)
		default:
			accepted = true
			rep.Count("He_accepted", 1)
			printed, err := c12String(first.e)
			if rep.DistinctNontrivial(kit.Hash("e", want)) {
				rep.Sample(4, map[string]string{"door": "He", "text": text, "printed": printed})
			}
			if err != nil {
				c.vio("printer_panic", "He", text, func() string { return err.Error() })
			} else {
				c.reparseExpr("He", text, first.e, want, printed)
			}
		}
	}

	// ---- doors Yc, Ys: condition of a statement planned by the yacc parser
	if c.doors["Yc"] || c.doors["Ys"] {
		if sel, err := c12Yacc("SELECT * FROM m WHERE " + text); err == nil && sel.Condition != nil {
			accepted = true
			want := c12Canon(sel.Condition)
			printed, perr := c12String(sel.Condition)
			if rep.DistinctNontrivial(kit.Hash("e", want)) {
				rep.Sample(8, map[string]string{"door": "Yc", "text": text, "printed": printed})
			}
			if c.doors["Yc"] {
				rep.Count("Yc_accepted", 1)
				if perr != nil {
					c.vio("printer_panic", "Yc", text, func() string { return perr.Error() })
				} else {
					c.reparseExpr("Yc", text, sel.Condition, want, printed)
				}
			}
			if c.doors["Ys"] {
				rep.Count("Ys_accepted", 1)
				planned := []Expr{sel.Condition}
				if ss, err := c12String(sel); err != nil {
					c.vio("printer_panic", "Ys", text, func() string { return err.Error() })
				} else if sel2, err := c12Yacc(ss); err != nil {
					c.vios(nonEmpty(c12ExplainFailure(planned, err.Error(), false)), "print_not_reparsable", "Ys", text,
						func() string { return fmt.Sprintf("statement %q does not re-parse: %v\n  planned: %s", ss, err, want) })
				} else if got := c12Canon(sel2.Condition); got != want {
					kinds := c12Explain(func(n c12Norm) (string, string) { return c12CanonN(sel.Condition, n), c12CanonN(sel2.Condition, n) }, planned)
					c.vios(kinds, "roundtrip_mismatch", "Ys", text, func() string { return fmt.Sprintf("statement %q\n  planned: %s\n  reparsed: %s", ss, want, got) })
				}
			}
		}
	}

	// ---- door Yf: field list of a statement planned by the yacc parser
	if c.doors["Yf"] {
		if sel, err := c12Yacc("SELECT " + text + " FROM m"); err == nil && len(sel.Fields) > 0 {
			accepted = true
			rep.Count("Yf_accepted", 1)
			want := c12CanonFields(sel.Fields, c12Norm{})
			printed, perr := c12String(sel.Fields)
			if rep.DistinctNontrivial(kit.Hash("f", want)) {
				rep.Sample(10, map[string]string{"door": "Yf", "text": text, "printed": printed})
			}
			planned := make([]Expr, len(sel.Fields))
			for i, f := range sel.Fields {
				planned[i] = f.Expr
			}
			if perr != nil {
				c.vio("printer_panic", "Yf", text, func() string { return perr.Error() })
			} else {
				states := []int{1}
				if strings.Contains(printed, ".") {
					states = []int{1, 3}
				}
				for _, st := range states {
					fs, err := c12ParseFields(printed, st)
					if err != nil {
						c.vios(nonEmpty(c12ExplainFailure(planned, err.Error(), true)), "print_not_reparsable", "Yf", text,
							func() string { return fmt.Sprintf("fields %q do not re-parse with ParseFields: %v\n  planned: %s", printed, err, want) })
						break
					}
					if got := c12CanonFields(fs, c12Norm{}); got != want {
						kinds := c12Explain(func(n c12Norm) (string, string) { return c12CanonFields(sel.Fields, n), c12CanonFields(fs, n) }, planned)
						c.vios(kinds, "roundtrip_mismatch", "Yf", text, func() string { return fmt.Sprintf("fields %q\n  planned: %s\n  shipped: %s", printed, want, got) })
						break
					}
				}
			}
		}
	}

	// ---- door Hs: hand-written statement parser, statement round trip
	if c.doors["Hs"] {
		if sel, err := c12HandQuery("SELECT * FROM m WHERE " + text); err == nil && sel.Condition != nil {
			accepted = true
			rep.Count("Hs_accepted", 1)
			want := c12Canon(sel.Condition)
			rep.DistinctNontrivial(kit.Hash("e", want))
			planned := []Expr{sel.Condition}
			if ss, err := c12String(sel); err != nil {
				c.vio("printer_panic", "Hs", text, func() string { return err.Error() })
			} else if sel2, err := c12HandQuery(ss); err != nil {
				c.vios(nonEmpty(c12ExplainFailure(planned, err.Error(), true)), "print_not_reparsable", "Hs", text,
					func() string { return fmt.Sprintf("statement %q does not re-parse: %v\n  planned: %s", ss, err, want) })
			} else if got := c12Canon(sel2.Condition); got != want {
				kinds := c12Explain(func(n c12Norm) (string, string) { return c12CanonN(sel.Condition, n), c12CanonN(sel2.Condition, n) }, planned)
				c.vios(kinds, "roundtrip_mismatch", "Hs", text, func() string { return fmt.Sprintf("statement %q\n  planned: %s\n  reparsed: %s", ss, want, got) })
			}
		}
	}

	if accepted {
		rep.Count("texts_accepted_by_some_door", 1)
	} else {
		rep.Count("texts_rejected_by_every_door", 1)
	}
}

// ---------------------------------------------------------------- the grammar

var c12Float1e300 = "1" + strings.Repeat("0", 300) + ".0"

// full literal alphabet
var c12Atoms = []string{
	// identifiers
	"a", "_b1", `"a b"`, `"sel\"ect"`, `"select"`, `"a.b"`, `"a\\b"`, `"a\nb"`, `"1a"`, "a.b", "time", `"a'b"`, `"héllo"`,
	// typed references
	"a::float", "a::integer", "a::string", "a::boolean", "a::tag", "a::field", `"a b"::tag`, "a::unsigned",
	// strings
	`'str'`, `'it\'s'`, `'a\\b'`, `'a\nb'`, `''`, `'say "hi"'`, `'2020-01-01T00:00:00Z'`, `'2020-01-01'`, `'/re/'`, `'1'`,
	// integers
	"0", "1", "007", "9223372036854775807", "9223372036854775808", "18446744073709551615", "18446744073709551616",
	// floats
	"2.0", "1.5", "0.0000001", "100000000000000000000.0", c12Float1e300, "1e300", ".5", "2.", "9007199254740993.0", "0.0",
	// durations
	"5m", "1h30m", "10u", "10µ", "1ns", "90s", "1500ms", "0s", "1w", "36h",
	// booleans
	"true", "false", "TRUE",
	// regular expressions
	`/a\/b/`, `/^a.*$/`, `/a b/`, `/\d+/`, `/a\\b/`, `/(x|y)/`,
	// calls, arity 0..2
	"f()", "f(a)", "f(a, 1)", "f(2.0)", "now()", "F(A)", "f(/re/)", "f(*)", "f('s', 5m)", "f(g(a), -1)", "f(a + 1)", "f((a))",
	// others the parsers know
	"*", "*::tag", "inf", "distinct a", "distinct(a)",
}

var c12BinOps = []string{"+", "-", "*", "/", "%", "&", "|", "^", "=", "!=", "<>", "<", "<=", ">", ">=", "=~", "!~", "AND", "OR"}

// reduced alphabets for the deeper levels
var c12Atoms3 = []string{"a", `"a b"`, `'it\'s'`, "1", "2.0", "1.5", "5m", `/a\/b/`, "f(a, 1)", "true", "-a", "-2.0", "a::tag"}
var c12Atoms4Quick = []string{"a", "1", "1.5", "'x'"}
var c12Ops4Quick = []string{"OR", "AND", "=", "!=", "<", "+", "-", "*", "/", "%", "&"}
var c12Atoms4Thorough = []string{"a", "1", "1.5", "'x'", "-a", "5m"}

// comparisons as operands of AND / OR (what a WHERE clause is made of)
var c12Conds = []string{"a = 1", "b != 'x'", "c < 1.5", "t =~ /x/", "(d >= 2)", "f(a) > 0", "a + 1 > b * 2", "NOT a = 1"}
var c12LogicOps = []string{"AND", "OR"}

// parenthesisations of an operand sequence ("parentheses at every position")
func c12Paren3(a, o1, b, o2, c string, emit func(string)) {
	emit(a + " " + o1 + " " + b + " " + o2 + " " + c)
	emit("(" + a + " " + o1 + " " + b + ") " + o2 + " " + c)
	emit(a + " " + o1 + " (" + b + " " + o2 + " " + c + ")")
}

func c12Paren4(a, o1, b, o2, c, o3, d string, emit func(string)) {
	ab := a + " " + o1 + " " + b
	bc := b + " " + o2 + " " + c
	cd := c + " " + o3 + " " + d
	emit(ab + " " + o2 + " " + cd)                              // flat
	emit("(" + ab + ") " + o2 + " " + cd)                       // (ab) c d
	emit(a + " " + o1 + " (" + bc + ") " + o3 + " " + d)        // a (bc) d
	emit(ab + " " + o2 + " (" + cd + ")")                       // a b (cd)
	emit("(" + ab + ") " + o2 + " (" + cd + ")")                // (ab)(cd)
	emit("(" + ab + " " + o2 + " " + c + ") " + o3 + " " + d)   // (abc) d
	emit(a + " " + o1 + " (" + bc + " " + o3 + " " + d + ")")   // a (bcd)
	emit("((" + ab + ") " + o2 + " " + c + ") " + o3 + " " + d) // ((ab)c)d
	emit("(" + a + " " + o1 + " (" + bc + ")) " + o3 + " " + d) // (a(bc))d
	emit(a + " " + o1 + " ((" + bc + ") " + o3 + " " + d + ")") // a((bc)d)
	emit(a + " " + o1 + " (" + b + " " + o2 + " (" + cd + "))") // a(b(cd))
}

func c12Enumerate(rep *kit.Report, thorough bool, check func(string)) {
	block := 0
	// blocks are dealt to workers by a hash of their number: neighbouring blocks differ a lot in cost
	mine := func() bool { block++; return kit.Mine(int(kit.Hash("block", strconv.Itoa(block)) % (1 << 30))) }
	maxOps := os.Getenv("C12_MAXOPS")

	// level 0/1: every atom, with unary operators and parentheses
	for _, a := range c12Atoms {
		if !mine() {
			continue
		}
		for _, s := range []string{a, "(" + a + ")", "((" + a + "))", "-" + a, "- " + a, "+" + a, "-(" + a + ")", "(-" + a + ")", "--" + a, "- -" + a, "NOT " + a} {
			check(s)
		}
	}
	// level 1: atom op atom over the full alphabet, with parentheses and unary minus at each position
	for _, a := range c12Atoms {
		for _, op := range c12BinOps {
			if !mine() {
				continue
			}
			if rep.Expired() {
				return
			}
			for _, b := range c12Atoms {
				check(a + " " + op + " " + b)
				check(a + op + b) // no white space
				check("(" + a + " " + op + " " + b + ")")
				check("(" + a + ") " + op + " (" + b + ")")
				check("-" + a + " " + op + " " + b)
				check(a + " " + op + " -" + b)
				check("-(" + a + " " + op + " " + b + ")")
			}
		}
	}
	// IN / NOT IN / LIKE and the text-search operators of the yacc grammar
	for _, a := range []string{"a", `"a b"`, "a::tag"} {
		if !mine() {
			continue
		}
		for _, s := range []string{"IN (1)", "IN ('x')", "IN (2.0)", "IN ('it\\'s')", "NOT IN (1)", "IN (1, 2)", "LIKE 'x%'", "LIKE 'it\\'s'"} {
			check(a + " " + s)
			check("(" + a + " " + s + ") AND b = 1")
			check("b = 1 OR " + a + " " + s)
		}
	}
	for _, s := range []string{"match(a, 'x y')", "matchphrase(a, 'x y')", "ipinrange(a, '1.2.3.0/24')", "match(\"a b\", 'it\\'s')", "match(a, 'x') AND b = 1.5"} {
		if mine() {
			check(s)
		}
	}
	// comparisons joined by AND / OR: three and four operands, every parenthesisation
	for _, a := range c12Conds {
		for _, o1 := range c12LogicOps {
			for _, b := range c12Conds {
				if !mine() {
					continue
				}
				check(a + " " + o1 + " " + b)
				for _, o2 := range c12LogicOps {
					for _, c := range c12Conds {
						c12Paren3(a, o1, b, o2, c, check)
						for _, o3 := range c12LogicOps {
							for _, d := range c12Conds {
								c12Paren4(a, o1, b, o2, c, o3, d, check)
							}
						}
					}
				}
			}
		}
	}
	if maxOps == "2" {
		return
	}
	// three operands, reduced alphabet, all operators, all parenthesisations
	for _, a := range c12Atoms3 {
		for _, o1 := range c12BinOps {
			for _, b := range c12Atoms3 {
				if !mine() {
					continue
				}
				if rep.Expired() {
					return
				}
				for _, o2 := range c12BinOps {
					for _, c := range c12Atoms3 {
						c12Paren3(a, o1, b, o2, c, check)
					}
				}
			}
		}
	}
	if maxOps == "3" {
		return
	}
	// four operands (depth 2 balanced and depth 3 chains), all 11 parenthesisations
	atoms4, ops4 := c12Atoms4Quick, c12Ops4Quick
	if thorough {
		atoms4, ops4 = c12Atoms4Thorough, c12BinOps
	}
	for _, a := range atoms4 {
		for _, o1 := range ops4 {
			for _, b := range atoms4 {
				for _, o2 := range ops4 {
					if !mine() {
						continue
					}
					if rep.Expired() {
						return
					}
					for _, c := range atoms4 {
						for _, o3 := range ops4 {
							for _, d := range atoms4 {
								c12Paren4(a, o1, b, o2, c, o3, d, check)
							}
						}
					}
				}
			}
		}
	}
}

func TestVerifC12(t *testing.T) {
	rep := kit.NewReport("C12")
	defer rep.Save()
	start := time.Now()
	debug.SetGCPercent(2000) // millions of tiny short-lived trees: the default target makes the collector the main cost
	ctx := &c12Ctx{rep: rep, doors: map[string]bool{"He": true, "Yc": true, "Yf": true, "Ys": true, "Hs": true}}
	if kit.ReplayPath() != "" {
		var c c12Case
		if err := kit.LoadReplay(&c); err != nil {
			t.Fatal(err)
		}
		if c.Door == "" {
			return // a case of another C12 harness
		}
		ctx.doors = map[string]bool{c.Door: true}
		ctx.check(c.Text)
		return
	}
	if p := os.Getenv("C12_DUMP"); p != "" {
		f, err := os.Create(p)
		if err != nil {
			t.Fatal(err)
		}
		defer f.Close()
		ctx.dump = f
	}
	c12Enumerate(rep, kit.Thorough(), ctx.check)
	rep.Max("max_worker_seconds_influxql", int64(time.Since(start).Seconds()))
}
