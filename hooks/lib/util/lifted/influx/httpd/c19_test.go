//go:build verif

package httpd

// C19 stage 1 — the route table of the RUNNING code.
//
// The handler is constructed exactly as ts-sql does (NewHandler(config) with AuthEnabled = true), once per
// product type (basic, logkeeper).  The gorilla mux that NewHandler filled is walked (method, path template);
// nothing is taken from a copied list.  For every route one in-process probe request without credentials is
// served through Handler.ServeHTTP against a meta client stub whose AdminUserExists() answers true: a route
// wrapped by authenticate() answers 401 before its handler body runs ("auth_wrapped": true), everything else is
// "auth_wrapped": false (the handler body ran; panics on the nil dependencies are recovered).  The prefixes that
// ServeHTTP dispatches before the mux are read from the ServeHTTP method body with go/ast
// (strings.HasPrefix(r.URL.Path, "<literal>")).  Labels (route name, handler function, number of parameters of
// the handler) come from the Route literals in the package source, also with go/ast; they only decorate the
// evidence and are never used to decide which routes exist.
//
// The same test lists the statement types that declare RequiredPrivileges (go/ast over the influxql package)
// and, for each example statement handed in by the Python driver, the Go type the real parser produces and the
// privileges the real code demands for it.

import (
	"encoding/json"
	"fmt"
	"go/ast"
	"go/parser"
	"go/token"
	"net/http"
	"net/http/httptest"
	"os"
	"path/filepath"
	"reflect"
	"regexp"
	"sort"
	"strconv"
	"strings"
	"sync/atomic"
	"testing"

	"github.com/gorilla/mux"
	config2 "github.com/openGemini/openGemini/lib/config"
	meta "github.com/openGemini/openGemini/lib/metaclient"
	"github.com/openGemini/openGemini/lib/util/lifted/influx/httpd/config"
	"github.com/openGemini/openGemini/lib/util/lifted/influx/influxql"
	kit "github.com/openGemini/openGemini/lib/verifkit"
)

type c19Route struct {
	Method      string `json:"method"`
	Pattern     string `json:"pattern"`
	Kind        string `json:"kind"` // "mux" | "prefix"
	AuthWrapped bool   `json:"auth_wrapped"`
	ProbeStatus int    `json:"probe_status"`
	ProbePanic  string `json:"probe_panic,omitempty"`
	Name        string `json:"name,omitempty"`
	Handler     string `json:"handler,omitempty"`
	NParams     int    `json:"handler_params,omitempty"` // 2 = (w, r), 3 = (w, r, user)
	Guard       string `json:"guard,omitempty"`          // prefix routes: extra condition in ServeHTTP (e.g. h.Config.PprofEnabled)
}

type c19Priv struct {
	Admin     bool   `json:"admin"`
	Name      string `json:"name"`
	Rwuser    bool   `json:"rwuser"`
	Privilege string `json:"privilege"`
}

// c19Ref: one *Measurement node reachable from a statement, found by a reflection walk over the AST value (independent of
// Sources.RequiredPrivileges and of influxql.Walk, which are code under test).
type c19Ref struct {
	Database string `json:"db"`
	RP       string `json:"rp,omitempty"`
	Name     string `json:"name,omitempty"`
	Regex    bool   `json:"regex,omitempty"`
	Role     string `json:"role"` // "read" | "write" (below a field named Target)
	Path     string `json:"path"` // source position, e.g. SelectStatement.Sources>Join.RSrc>Measurement
}

type c19Stmt struct {
	Type        string    `json:"type"`
	Privs       []c19Priv `json:"privs"`
	Error       string    `json:"error,omitempty"`
	Refs        []c19Ref  `json:"refs"`
	SourceKinds []string  `json:"source_kinds"`
	JoinTypes   []string  `json:"join_types"`
}

type c19Example struct {
	Text  string    `json:"text"`
	Stmts []c19Stmt `json:"stmts"`
	Error string    `json:"error,omitempty"`
}

type c19Out struct {
	Configs        map[string][]c19Route `json:"configs"`
	SourceTypes    []string              `json:"source_types"`
	JoinTypes      []string              `json:"join_types"`
	StatementTypes []string              `json:"statement_types"`
	Examples       []c19Example          `json:"examples"`
	SharedSecret   string                `json:"default_shared_secret"`
}

// c19Meta: the concrete meta client type satisfies Handler.MetaClient; a nil one is embedded and only the one
// method the authenticate wrapper needs before it looks at the credentials is overridden.
type c19Meta struct {
	*meta.Client
	asked *int64
}

func (m c19Meta) AdminUserExists() bool { atomic.AddInt64(m.asked, 1); return true }

var c19VarRe = regexp.MustCompile(`\{([A-Za-z_][A-Za-z0-9_]*)(:[^}]*)?\}`)

func c19Handler(product string) *Handler {
	config2.SetProductType(product)
	defer config2.SetProductType("")
	c := config.NewConfig()
	c.AuthEnabled = true
	c.LogEnabled = false
	return NewHandler(c)
}

func c19Walk(t *testing.T, h *Handler) []c19Route {
	var out []c19Route
	err := h.mux.Walk(func(route *mux.Route, router *mux.Router, ancestors []*mux.Route) error {
		tpl, err := route.GetPathTemplate()
		if err != nil {
			return fmt.Errorf("route without path template: %v", err)
		}
		methods, err := route.GetMethods()
		if err != nil || len(methods) == 0 {
			methods = []string{"*"}
		}
		for _, m := range methods {
			out = append(out, c19Route{Method: m, Pattern: tpl, Kind: "mux"})
		}
		return nil
	})
	if err != nil {
		t.Fatalf("mux walk: %v", err)
	}
	return out
}

func c19Probe(h *Handler, r *c19Route, asked *int64) {
	path := c19VarRe.ReplaceAllString(r.Pattern, "x")
	m := r.Method
	if m == "*" {
		m = "GET"
	}
	req := httptest.NewRequest(m, path, strings.NewReader(""))
	w := httptest.NewRecorder()
	before := atomic.LoadInt64(asked)
	func() {
		defer func() {
			if e := recover(); e != nil {
				r.ProbePanic = fmt.Sprint(e)
			}
		}()
		h.ServeHTTP(w, req)
	}()
	r.ProbeStatus = w.Code
	r.AuthWrapped = w.Code == http.StatusUnauthorized && atomic.LoadInt64(asked) > before &&
		strings.Contains(w.Body.String(), "unable to parse authentication credentials")
}

// c19Labels reads Route literals {name, method, pattern, compress, logging, h.fn} and handler method signatures.
func c19Labels(dir string) (map[string][2]string, map[string]int, []c19Route, error) {
	fset := token.NewFileSet()
	pkgs, err := parser.ParseDir(fset, dir, func(fi os.FileInfo) bool {
		return !strings.HasSuffix(fi.Name(), "_test.go") && !strings.HasPrefix(fi.Name(), "zz_verif_")
	}, 0)
	if err != nil {
		return nil, nil, nil, err
	}
	labels := map[string][2]string{} // "METHOD pattern" -> {name, handler}
	nparams := map[string]int{}
	var prefixes []c19Route
	str := func(e ast.Expr) (string, bool) {
		if bl, ok := e.(*ast.BasicLit); ok && bl.Kind == token.STRING {
			s, err := strconv.Unquote(bl.Value)
			return s, err == nil
		}
		return "", false
	}
	for _, pkg := range pkgs {
		for _, f := range pkg.Files {
			ast.Inspect(f, func(n ast.Node) bool {
				switch x := n.(type) {
				case *ast.FuncDecl:
					if x.Recv != nil && x.Type.Params != nil {
						np := 0
						for _, p := range x.Type.Params.List {
							if len(p.Names) == 0 {
								np++
							} else {
								np += len(p.Names)
							}
						}
						nparams[x.Name.Name] = np
					}
					if x.Recv != nil && x.Name.Name == "ServeHTTP" && x.Body != nil {
						// prefixes dispatched before the mux: if strings.HasPrefix(r.URL.Path, "lit") [&& guard] {...}
						ast.Inspect(x.Body, func(m ast.Node) bool {
							ifs, ok := m.(*ast.IfStmt)
							if !ok {
								return true
							}
							var lit, guard string
							ast.Inspect(ifs.Cond, func(c ast.Node) bool {
								if call, ok := c.(*ast.CallExpr); ok {
									if sel, ok := call.Fun.(*ast.SelectorExpr); ok && sel.Sel.Name == "HasPrefix" && len(call.Args) == 2 {
										if s, ok := str(call.Args[1]); ok {
											lit = s
										}
									}
								}
								return true
							})
							if be, ok := ifs.Cond.(*ast.BinaryExpr); ok && be.Op == token.LAND {
								var sb strings.Builder
								for _, side := range []ast.Expr{be.X, be.Y} {
									if _, isCall := side.(*ast.CallExpr); !isCall {
										sb.WriteString(c19ExprString(side))
									}
								}
								guard = sb.String()
							}
							if lit != "" {
								prefixes = append(prefixes, c19Route{Method: "*", Pattern: lit, Kind: "prefix", Guard: guard})
							}
							return true
						})
					}
				case *ast.CompositeLit:
					if len(x.Elts) == 6 {
						name, ok1 := str(x.Elts[0])
						method, ok2 := str(x.Elts[1])
						pattern, ok3 := str(x.Elts[2])
						if ok1 && ok2 && ok3 {
							fn := ""
							if sel, ok := x.Elts[5].(*ast.SelectorExpr); ok {
								fn = sel.Sel.Name
							}
							labels[method+" "+pattern] = [2]string{name, fn}
						}
					}
				}
				return true
			})
		}
	}
	return labels, nparams, prefixes, nil
}

func c19ExprString(e ast.Expr) string {
	switch x := e.(type) {
	case *ast.Ident:
		return x.Name
	case *ast.SelectorExpr:
		return c19ExprString(x.X) + "." + x.Sel.Name
	case *ast.UnaryExpr:
		return x.Op.String() + c19ExprString(x.X)
	case *ast.ParenExpr:
		return "(" + c19ExprString(x.X) + ")"
	}
	return fmt.Sprintf("%T", e)
}

// c19StatementTypes: receiver types of every method named RequiredPrivileges in the influxql package source.
// c19Receivers: receiver type names of every method called `method` in the package source (go/ast).
func c19Receivers(dir, method string) ([]string, error) {
	fset := token.NewFileSet()
	pkgs, err := parser.ParseDir(fset, dir, func(fi os.FileInfo) bool {
		return !strings.HasSuffix(fi.Name(), "_test.go") && !strings.HasPrefix(fi.Name(), "zz_verif_")
	}, 0)
	if err != nil {
		return nil, err
	}
	set := map[string]bool{}
	for _, pkg := range pkgs {
		for _, f := range pkg.Files {
			for _, d := range f.Decls {
				fd, ok := d.(*ast.FuncDecl)
				if !ok || fd.Recv == nil || fd.Name.Name != method || len(fd.Recv.List) != 1 {
					continue
				}
				typ := fd.Recv.List[0].Type
				if st, ok := typ.(*ast.StarExpr); ok {
					typ = st.X
				}
				if id, ok := typ.(*ast.Ident); ok {
					set[id.Name] = true
				}
			}
		}
	}
	var out []string
	for k := range set {
		out = append(out, k)
	}
	sort.Strings(out)
	return out, nil
}

var c19SourceIface = reflect.TypeOf((*influxql.Source)(nil)).Elem()
var c19MeasurementType = reflect.TypeOf(influxql.Measurement{})

// c19WalkRefs visits every value reachable from v through struct fields (exported or not), pointers, interfaces, slices
// and maps, and records Measurement nodes, Source node kinds and join types.
func c19WalkRefs(v reflect.Value, path string, role string, seen map[uintptr]bool, st *c19Stmt, depth int) {
	if depth > 64 {
		return
	}
	switch v.Kind() {
	case reflect.Interface:
		if !v.IsNil() {
			c19WalkRefs(v.Elem(), path, role, seen, st, depth+1)
		}
	case reflect.Ptr:
		if v.IsNil() {
			return
		}
		if seen[v.Pointer()] {
			return
		}
		seen[v.Pointer()] = true
		name := v.Type().Elem().Name()
		if v.Type().Implements(c19SourceIface) {
			st.SourceKinds = append(st.SourceKinds, name)
		}
		if v.Type().Elem() == c19MeasurementType {
			e := v.Elem()
			ref := c19Ref{Database: e.FieldByName("Database").String(), RP: e.FieldByName("RetentionPolicy").String(),
				Name: e.FieldByName("Name").String(), Role: role, Path: path + ">Measurement"}
			if rx := e.FieldByName("Regex"); rx.IsValid() && rx.Kind() == reflect.Ptr && !rx.IsNil() {
				ref.Regex = true
			}
			st.Refs = append(st.Refs, ref)
			return
		}
		if name == "Join" {
			if jt := v.Elem().FieldByName("JoinType"); jt.IsValid() {
				st.JoinTypes = append(st.JoinTypes, influxql.JoinTypeMap[influxql.JoinType(jt.Int())])
			}
		}
		c19WalkRefs(v.Elem(), path, role, seen, st, depth+1)
	case reflect.Struct:
		t := v.Type()
		for i := 0; i < v.NumField(); i++ {
			f := t.Field(i)
			r := role
			if f.Name == "Target" {
				r = "write"
			}
			switch v.Field(i).Kind() {
			case reflect.Interface, reflect.Ptr, reflect.Slice, reflect.Map, reflect.Struct, reflect.Array:
				c19WalkRefs(v.Field(i), path+">"+t.Name()+"."+f.Name, r, seen, st, depth+1)
			}
		}
	case reflect.Slice, reflect.Array:
		for i := 0; i < v.Len(); i++ {
			c19WalkRefs(v.Index(i), path, role, seen, st, depth+1)
		}
	case reflect.Map:
		for _, k := range v.MapKeys() {
			c19WalkRefs(v.MapIndex(k), path, role, seen, st, depth+1)
		}
	}
}

func c19StatementTypes(dir string) ([]string, error) {
	fset := token.NewFileSet()
	pkgs, err := parser.ParseDir(fset, dir, func(fi os.FileInfo) bool {
		return !strings.HasSuffix(fi.Name(), "_test.go") && !strings.HasPrefix(fi.Name(), "zz_verif_")
	}, 0)
	if err != nil {
		return nil, err
	}
	set := map[string]bool{}
	for _, pkg := range pkgs {
		for _, f := range pkg.Files {
			for _, d := range f.Decls {
				fd, ok := d.(*ast.FuncDecl)
				if !ok || fd.Recv == nil || fd.Name.Name != "RequiredPrivileges" || len(fd.Recv.List) != 1 {
					continue
				}
				typ := fd.Recv.List[0].Type
				if st, ok := typ.(*ast.StarExpr); ok {
					typ = st.X
				}
				if id, ok := typ.(*ast.Ident); ok && strings.HasSuffix(id.Name, "Statement") {
					set[id.Name] = true
				}
			}
		}
	}
	var out []string
	for k := range set {
		out = append(out, k)
	}
	sort.Strings(out)
	return out, nil
}

func c19ParseExample(text string) (ex c19Example) {
	ex.Text = text
	ex.Stmts = []c19Stmt{}
	defer func() {
		if e := recover(); e != nil {
			ex.Error = fmt.Sprint("panic: ", e)
		}
	}()
	// the same steps as Handler.getSqlQuery
	p := influxql.NewParser(strings.NewReader(text))
	defer p.Release()
	yy := influxql.NewYyParser(p.GetScanner(), p.GetPara())
	yy.ParseTokens()
	q, err := yy.GetQuery()
	if err != nil {
		ex.Error = err.Error()
		return
	}
	if len(q.Statements) == 0 {
		ex.Error = "no statement"
		return
	}
	for _, st := range q.Statements {
		ty := reflect.TypeOf(st)
		for ty.Kind() == reflect.Ptr {
			ty = ty.Elem()
		}
		one := c19Stmt{Type: ty.Name(), Privs: []c19Priv{}, Refs: []c19Ref{}, SourceKinds: []string{}, JoinTypes: []string{}}
		func() {
			defer func() {
				if e := recover(); e != nil {
					one.Error = fmt.Sprint("reference walk: ", e)
				}
			}()
			c19WalkRefs(reflect.ValueOf(st), "", "read", map[uintptr]bool{}, &one, 0)
		}()
		privs, err := st.RequiredPrivileges()
		if err != nil {
			one.Error = "RequiredPrivileges: " + err.Error()
		}
		for _, pr := range privs {
			one.Privs = append(one.Privs, c19Priv{Admin: pr.Admin, Name: pr.Name, Rwuser: pr.Rwuser, Privilege: pr.Privilege.String()})
		}
		ex.Stmts = append(ex.Stmts, one)
	}
	return
}

func TestVerifC19(t *testing.T) {
	rep := kit.NewReport("C19")
	defer rep.Save()
	outPath := os.Getenv("VERIF_ROUTES_OUT")
	if outPath == "" {
		t.Fatal("VERIF_ROUTES_OUT not set")
	}
	repo := kit.Getenv("VERIF_REPO", "/repo")
	httpdDir := filepath.Join(repo, "lib/util/lifted/influx/httpd")
	qlDir := filepath.Join(repo, "lib/util/lifted/influx/influxql")

	labels, nparams, prefixes, err := c19Labels(httpdDir)
	if err != nil {
		t.Fatalf("labels: %v", err)
	}
	out := c19Out{Configs: map[string][]c19Route{}, Examples: []c19Example{}}
	out.SharedSecret = config.NewConfig().SharedSecret
	for _, product := range []string{"basic", "logkeeper"} {
		h := c19Handler(product)
		var asked int64
		h.MetaClient = c19Meta{asked: &asked}
		routes := c19Walk(t, h)
		for i := range routes {
			r := &routes[i]
			c19Probe(h, r, &asked)
			if l, ok := labels[r.Method+" "+r.Pattern]; ok {
				r.Name, r.Handler = l[0], l[1]
				r.NParams = nparams[l[1]]
			}
			rep.Eval(1)
		}
		for _, p := range prefixes {
			// a prefix route exists in the running handler iff a request below the prefix does not reach the mux's 404
			pr := p
			probe := c19Route{Method: "GET", Pattern: p.Pattern}
			c19Probe(h, &probe, &asked)
			pr.ProbeStatus, pr.ProbePanic, pr.AuthWrapped = probe.ProbeStatus, probe.ProbePanic, probe.AuthWrapped
			routes = append(routes, pr)
			rep.Eval(1)
		}
		out.Configs[product] = routes
		rep.Count("routes_"+product, int64(len(routes)))
	}

	out.StatementTypes, err = c19StatementTypes(qlDir)
	if err != nil {
		t.Fatalf("statement types: %v", err)
	}
	rep.Count("statement_types", int64(len(out.StatementTypes)))
	out.SourceTypes, err = c19Receivers(qlDir, "source")
	if err != nil {
		t.Fatalf("source types: %v", err)
	}
	for jt, name := range influxql.JoinTypeMap {
		_ = jt
		out.JoinTypes = append(out.JoinTypes, name)
	}
	sort.Strings(out.JoinTypes)

	if exPath := os.Getenv("VERIF_C19_EXAMPLES"); exPath != "" {
		b, err := os.ReadFile(exPath)
		if err != nil {
			t.Fatalf("examples: %v", err)
		}
		var texts []string
		if err := json.Unmarshal(b, &texts); err != nil {
			t.Fatalf("examples: %v", err)
		}
		for _, tx := range texts {
			out.Examples = append(out.Examples, c19ParseExample(tx))
			rep.Eval(1)
		}
	}

	b, err := json.MarshalIndent(out, "", " ")
	if err != nil {
		t.Fatal(err)
	}
	if err := os.WriteFile(outPath, b, 0o644); err != nil {
		t.Fatal(err)
	}
}
