//go:build verif

package meta

// C15 / C16 — explicit-state exploration of the replicated catalogue (meta.Data) through the real
// raft FSM of ts-meta: NewStore + (*storeFSM).Apply / Snapshot / Persist / Restore.
//
// This file: instances, canonical dump, snapshot plumbing, the per-transition oracles and the
// round driver.  c15_menu_test.go: command menu and seeded catalogues.  c15_inv_test.go: the C16
// well-formedness invariants.
//
// Exploration = breadth first over canonical states, one round per depth, driven by the front end
// (lib/checks/c15.py): round r gets the frontier (states at depth r-1, each with the shortest
// command path that reaches it from a root) and the set of already visited state hashes; the
// transitions (frontier state x menu command) are sharded over the workers; every transition is
// executed on FRESH stores by replaying seed + path + command (live stores cannot be cloned);
// new states are written out, the front end merges / dedupes them into the next frontier.

import (
	"bufio"
	"bytes"
	"crypto/sha256"
	"encoding/hex"
	"fmt"
	"io"
	"os"
	"reflect"
	"sort"
	"strconv"
	"strings"
	"testing"
	"time"

	"github.com/hashicorp/raft"
	"github.com/openGemini/openGemini/lib/config"
	"github.com/openGemini/openGemini/lib/errno"
	logger2 "github.com/openGemini/openGemini/lib/logger"
	meta2 "github.com/openGemini/openGemini/lib/util/lifted/influx/meta"
	proto2 "github.com/openGemini/openGemini/lib/util/lifted/influx/meta/proto"
	"github.com/openGemini/openGemini/lib/util/lifted/protobuf/proto"
	kit "github.com/openGemini/openGemini/lib/verifkit"
	"go.uber.org/zap"
)

// ---------------------------------------------------------------- instances

type c15Cmd struct {
	Name string
	Data []byte // marshalled proto2.Command
	Hist bool   // replaces the catalogue wholesale (SetData / RecoverMetaData): id history is reset
	Core bool   // belongs to the core alphabet (databases, policies, measurements, groups, nodes, users)
}

type c15Root struct {
	Name string
	HA   string // config.WAFPolicy / config.RepPolicy
	Seed []c15Cmd
}

type c15Inst struct {
	s     *Store
	fsm   *storeFSM
	dead  bool  // a command panicked; the instance is not used any further
	order int32 // map iteration order of this instance (kit.MapOrder*): in force during every call into it
}

// Map-order adversary (DESIGN C15 iii).  The front end replaces the non-test files of
// lib/util/lifted/influx/meta and app/ts-meta/meta by copies in which every range over a map with an
// ordered key type asks kit.MapIter for the order (ovgen/maporder).  The mode is process global, the
// worker is single threaded (one test goroutine drives all instances; the only goroutine the FSM
// itself starts, ApplyUpdateReplication's asynchronous leadership transfer, ranges over no map), so
// every call into an instance is bracketed by in.enter()/leave: the reference instance runs with
// ascending keys, the second replica and the restored nodes with descending keys.
var c15Adversary = os.Getenv("VERIF_MAPORDER") == "1"

func c15Order(o int32) int32 {
	if !c15Adversary {
		return kit.MapOrderNative
	}
	return o
}

// enter switches the process to the instance's order and returns the function that switches back.
func (in *c15Inst) enter() func() {
	old := kit.SetMapOrder(in.order)
	return func() { kit.SetMapOrder(old) }
}

var c15Logger *logger2.Logger

var c15ScratchDir string

func c15NewInst() *c15Inst { return c15NewInstOrder(kit.MapOrderNative) }

func c15NewInstOrder(order int32) *c15Inst {
	order = c15Order(order)
	defer kit.SetMapOrder(kit.SetMapOrder(order))
	c := config.NewMeta()
	if c15ScratchDir == "" {
		c15ScratchDir = kit.Scratch()
	}
	c.Dir = c15ScratchDir
	s := NewStore(c, "127.0.0.1:8091", "127.0.0.1:8092", "127.0.0.1:8088")
	s.Logger = c15Logger
	s.NetStore = NewMockNetStorage()
	return &c15Inst{s: s, fsm: (*storeFSM)(s), order: order}
}

func c15FirstLine(s string) string {
	if i := strings.IndexByte(s, '\n'); i >= 0 {
		s = s[:i]
	}
	if len(s) > 300 {
		s = s[:300]
	}
	return s
}

// apply feeds one committed log entry to the FSM; the result is rendered as a string:
// "" (nil), "ERR: ..." (error), "PANIC: ..." (the apply function panicked).
func (in *c15Inst) apply(pos int, c *c15Cmd) (ret string) {
	defer in.enter()()
	defer func() {
		if r := recover(); r != nil {
			in.dead = true
			ret = "PANIC: " + c15FirstLine(fmt.Sprint(r))
		}
	}()
	r := in.fsm.Apply(&raft.Log{Index: uint64(pos) + 2, Term: 1, Type: raft.LogCommand, Data: c.Data})
	if r == nil {
		return ""
	}
	if e, ok := r.(error); ok {
		if e == nil {
			return ""
		}
		return "ERR: " + e.Error()
	}
	return fmt.Sprintf("VAL: %v", r)
}

type c15Sink struct {
	bytes.Buffer
	closed, cancelled bool
}

func (s *c15Sink) Close() error  { s.closed = true; return nil }
func (s *c15Sink) ID() string    { return "verif" }
func (s *c15Sink) Cancel() error { s.cancelled = true; return nil }

// snapshot = what raft does: FSM.Snapshot() (deep copy under the lock) then Persist to a sink.
func (in *c15Inst) snapshot() (b []byte, err error) {
	defer in.enter()()
	defer func() {
		if r := recover(); r != nil {
			err = fmt.Errorf("PANIC in Snapshot/Persist: %s", c15FirstLine(fmt.Sprint(r)))
		}
	}()
	snap, err := in.fsm.Snapshot()
	if err != nil {
		return nil, err
	}
	sink := &c15Sink{}
	if err = snap.Persist(sink); err != nil {
		return nil, err
	}
	snap.Release()
	if !sink.closed || sink.cancelled {
		return nil, fmt.Errorf("sink closed=%v cancelled=%v", sink.closed, sink.cancelled)
	}
	return sink.Bytes(), nil
}

func c15Restore(b []byte) (*c15Inst, error) { return c15RestoreOrder(b, kit.MapOrderNative) }

func c15RestoreOrder(b []byte, order int32) (in *c15Inst, err error) {
	defer func() {
		if r := recover(); r != nil {
			err = fmt.Errorf("PANIC in Restore: %s", c15FirstLine(fmt.Sprint(r)))
		}
	}()
	in = c15NewInstOrder(order)
	defer in.enter()()
	if err = in.fsm.Restore(io.NopCloser(bytes.NewReader(b))); err != nil {
		return nil, err
	}
	return in, nil
}

// ---------------------------------------------------------------- canonical dump

// The dump is the catalogue as Data.MarshalBinary defines it: marshalled, decoded into proto2.Data
// and printed one leaf per line ("path=value").  Repeated fields that are filled from Go maps are
// keyed by the element's name and sorted; all other repeated fields keep their order (it is part
// of the state: sorted shard groups etc.).  Deletion stamps are reduced to set/unset, Term and
// Index are reported separately (they are not part of the state identity).

var c15FromMap = map[string]string{ // "Type.Field" -> key field of the element
	"Data.Databases":                  "Name",
	"Data.Streams":                    "Name",
	"Data.MigrateEvents":              "EventId",
	"DatabaseInfo.RetentionPolicies":  "Name",
	"DatabaseInfo.ContinuousQueries":  "Name",
	"RetentionPolicyInfo.Measurements": "Name",
	"UserInfo.Privileges":             "Database",
}

var c15SetUnset = map[string]bool{"ShardGroupInfo.DeletedAt": true, "IndexGroupInfo.DeletedAt": true}
var c15Skip = map[string]bool{"Data.Term": true, "Data.Index": true}

type c15Field struct {
	idx      int
	name     string
	keyField string // non-empty: map-derived repeated field
	setUnset bool
}

var c15TypeCache = map[reflect.Type][]c15Field{}

func c15Fields(t reflect.Type) []c15Field {
	if f, ok := c15TypeCache[t]; ok {
		return f
	}
	var out []c15Field
	for i := 0; i < t.NumField(); i++ {
		sf := t.Field(i)
		if strings.HasPrefix(sf.Name, "XXX_") {
			continue
		}
		q := t.Name() + "." + sf.Name
		if c15Skip[q] {
			continue
		}
		out = append(out, c15Field{idx: i, name: sf.Name, keyField: c15FromMap[q], setUnset: c15SetUnset[q]})
	}
	c15TypeCache[t] = out
	return out
}

type c15Dumper struct {
	out  []byte // "path=value\n" per leaf
	path []byte
}

func (d *c15Dumper) emit(val string) {
	d.out = append(d.out, d.path...)
	d.out = append(d.out, '=')
	d.out = append(d.out, val...)
	d.out = append(d.out, '\n')
}

func (d *c15Dumper) leaf(v reflect.Value) {
	d.out = append(d.out, d.path...)
	d.out = append(d.out, '=')
	switch v.Kind() {
	case reflect.String:
		d.out = strconv.AppendQuote(d.out, v.String())
	case reflect.Bool:
		d.out = strconv.AppendBool(d.out, v.Bool())
	case reflect.Int, reflect.Int8, reflect.Int16, reflect.Int32, reflect.Int64:
		d.out = strconv.AppendInt(d.out, v.Int(), 10)
	case reflect.Uint, reflect.Uint8, reflect.Uint16, reflect.Uint32, reflect.Uint64:
		d.out = strconv.AppendUint(d.out, v.Uint(), 10)
	case reflect.Float32, reflect.Float64:
		d.out = strconv.AppendFloat(d.out, v.Float(), 'g', -1, 64)
	default:
		d.out = append(d.out, fmt.Sprintf("%v", v.Interface())...)
	}
	d.out = append(d.out, '\n')
}

func (d *c15Dumper) value(v reflect.Value, f *c15Field) {
	switch v.Kind() {
	case reflect.Ptr:
		if v.IsNil() {
			return
		}
		e := v.Elem()
		if e.Kind() == reflect.Struct {
			d.structv(e)
			return
		}
		if f != nil && f.setUnset {
			if e.Int() == 0 {
				d.emit("unset")
			} else {
				d.emit("set")
			}
			return
		}
		d.leaf(e)
	case reflect.Struct:
		d.structv(v)
	case reflect.Slice:
		if v.Type().Elem().Kind() == reflect.Uint8 {
			d.emit(hex.EncodeToString(v.Bytes()))
			return
		}
		n := len(d.path)
		if f != nil && f.keyField != "" {
			type el struct {
				key string
				i   int
			}
			els := make([]el, 0, v.Len())
			for i := 0; i < v.Len(); i++ {
				e := v.Index(i)
				k := "<nil>"
				if !e.IsNil() {
					kf := e.Elem().FieldByName(f.keyField)
					if kf.IsValid() && !kf.IsNil() {
						k = fmt.Sprint(kf.Elem().Interface())
					}
				}
				els = append(els, el{k, i})
			}
			sort.SliceStable(els, func(i, j int) bool { return els[i].key < els[j].key })
			for i := range els {
				d.path = append(d.path, '[')
				d.path = strconv.AppendQuote(d.path, els[i].key)
				d.path = append(d.path, ']')
				d.value(v.Index(els[i].i), nil)
				d.path = d.path[:n]
			}
			return
		}
		for i := 0; i < v.Len(); i++ {
			d.path = append(d.path, '[')
			d.path = strconv.AppendInt(d.path, int64(i), 10)
			d.path = append(d.path, ']')
			d.value(v.Index(i), nil)
			d.path = d.path[:n]
		}
	case reflect.Map:
		keys := v.MapKeys()
		ks := make([]string, len(keys))
		for i, k := range keys {
			if k.Kind() == reflect.String {
				ks[i] = "s" + strconv.Quote(k.String())
			} else {
				ks[i] = fmt.Sprintf("u%020d", k.Uint())
			}
		}
		ord := make([]int, len(keys))
		for i := range ord {
			ord[i] = i
		}
		sort.Slice(ord, func(a, b int) bool { return ks[ord[a]] < ks[ord[b]] })
		n := len(d.path)
		for _, i := range ord {
			d.path = append(d.path, '{')
			d.path = append(d.path, ks[i]...)
			d.path = append(d.path, '}')
			d.value(v.MapIndex(keys[i]), nil)
			d.path = d.path[:n]
		}
	default:
		d.leaf(v)
	}
}

func (d *c15Dumper) structv(v reflect.Value) {
	fs := c15Fields(v.Type())
	n := len(d.path)
	for i := range fs {
		f := &fs[i]
		d.path = append(d.path, '.')
		d.path = append(d.path, f.name...)
		d.value(v.Field(f.idx), f)
		d.path = d.path[:n]
	}
}

type c15Dump struct {
	Text      []byte // one "path=value" line per leaf
	Hash      string // hex of the first 16 bytes of sha256 over Text
	TermIndex string
}

func (dp *c15Dump) Lines() []string {
	return strings.Split(strings.TrimSuffix(string(dp.Text), "\n"), "\n")
}

// dump: the protobuf form that Snapshot/Persist would write (Data.Marshal, the message MarshalBinary
// encodes), printed canonically.
var c15Buf = &c15Dumper{out: make([]byte, 0, 1<<16), path: make([]byte, 0, 512)}

// dump keeps the text (for diffs); dumpHash only hashes, in a reused buffer.
func (in *c15Inst) dump() (*c15Dump, error)     { return in.dumpX(true) }
func (in *c15Inst) dumpHash() (*c15Dump, error) { return in.dumpX(false) }

func (in *c15Inst) dumpX(keep bool) (dp *c15Dump, err error) {
	defer func() {
		if r := recover(); r != nil {
			err = fmt.Errorf("PANIC in Marshal: %s", c15FirstLine(fmt.Sprint(r)))
		}
	}()
	// the dump is the observer, not the system: always taken with ascending keys (the printer sorts the
	// map-derived lists anyway); what Marshal's own order does to a snapshot is covered by snapshot()/Restore
	defer kit.SetMapOrder(kit.SetMapOrder(c15Order(kit.MapOrderAscending)))
	in.s.mu.RLock()
	pb := in.s.data.Marshal()
	in.s.mu.RUnlock()
	d := c15Buf
	d.out, d.path = d.out[:0], d.path[:0]
	d.structv(reflect.ValueOf(pb).Elem())
	sum := sha256.Sum256(d.out)
	var text []byte
	if keep {
		text = append([]byte(nil), d.out...)
	}
	return &c15Dump{Text: text, Hash: hex.EncodeToString(sum[:16]),
		TermIndex: fmt.Sprintf("term=%d index=%d", pb.GetTerm(), pb.GetIndex())}, nil
}

// c15Diff returns the lines only in a ("-") and only in b ("+"), at most max of them.
func c15Diff(a, b []string, max int) (out []string, onlyA, onlyB []string) {
	ma := map[string]int{}
	for _, l := range a {
		ma[l]++
	}
	for _, l := range b {
		if ma[l] > 0 {
			ma[l]--
		} else {
			onlyB = append(onlyB, l)
		}
	}
	mb := map[string]int{}
	for _, l := range b {
		mb[l]++
	}
	for _, l := range a {
		if mb[l] > 0 {
			mb[l]--
		} else {
			onlyA = append(onlyA, l)
		}
	}
	for _, l := range onlyA {
		if len(out) < max {
			out = append(out, "- "+l)
		}
	}
	for _, l := range onlyB {
		if len(out) < max {
			out = append(out, "+ "+l)
		}
	}
	return
}

func c15PathOf(l string) string {
	if i := strings.IndexByte(l, '='); i >= 0 {
		// the '=' of the value is the first '=' outside quotes; keys are quoted names without '=' in this harness
		return l[:i]
	}
	return l
}

// ---------------------------------------------------------------- a case = root + path

type c15Case struct {
	Prop  string   `json:"prop"`
	Root  int      `json:"root"`
	Path  []int    `json:"path"`  // menu indices; the last one is the transition under test
	Names []string `json:"names"` // the same, readable (and checked on replay against the menu)
}

type c15Env struct {
	prop  string
	menu  []c15Cmd
	roots []c15Root
	rep   *kit.Report
}

func (e *c15Env) full(root int, path []int) []*c15Cmd {
	r := &e.roots[root]
	out := make([]*c15Cmd, 0, len(r.Seed)+len(path))
	for i := range r.Seed {
		out = append(out, &r.Seed[i])
	}
	for _, j := range path {
		out = append(out, &e.menu[j])
	}
	return out
}

func (e *c15Env) names(path []int) []string {
	out := make([]string, len(path))
	for i, j := range path {
		out[i] = e.menu[j].Name
	}
	return out
}

func (e *c15Env) setHA(root int) {
	if err := config.SetHaPolicy(e.roots[root].HA); err != nil {
		panic(err)
	}
}

type c15Vio struct {
	Kind, Key, Detail string
}

// c15Result of one transition.
type c15Result struct {
	PreHash, PostHash string
	Ret               string // result of the last command
	Vios              []c15Vio
	Traces            int64 // implementation traces compared against the reference trace (C15) / executed (C16)
	Panicked          bool
	Opposite          int64 // replica comparisons made under opposite map orders
	OppositeRestores  int64 // snapshot->restore comparisons with the restored node in the opposite map order
	OrderDependent    bool  // C16: the descending pass ended in another state / result than the ascending pass
}

// ---------------------------------------------------------------- C15 oracle

// c15Orders: the map iteration order of the reference instance, of the second replica and of the restored
// nodes.  With the adversary the reference runs ascending, the others descending; a third replica then runs
// in the runtime's own order (the comparison the check made before the adversary existed).
type c15Orders struct{ ref, replica, restored int32 }

var c15Opposite = c15Orders{kit.MapOrderAscending, kit.MapOrderDescending, kit.MapOrderDescending}
var c15AllAscending = c15Orders{kit.MapOrderAscending, kit.MapOrderAscending, kit.MapOrderAscending}

func c15OrderName(o int32) string {
	switch c15Order(o) {
	case kit.MapOrderAscending:
		return "ascending map order"
	case kit.MapOrderDescending:
		return "descending map order"
	}
	return "runtime map order"
}

func (e *c15Env) c15Check(root int, path []int, cutFrom int) c15Result {
	return e.c15CheckOrders(root, path, cutFrom, c15Opposite)
}

// c15CheckOrders executes seed+path on instance A (recording results and a snapshot at every cut position
// from cutFrom on), on an independent instance B, and on one restored instance per cut position.
func (e *c15Env) c15CheckOrders(root int, path []int, cutFrom int, ord c15Orders) (res c15Result) {
	e.setHA(root)
	cmds := e.full(root, path)
	n := len(cmds)
	seedLen := len(e.roots[root].Seed)
	label := func() string {
		if len(path) == 0 {
			return "root:" + e.roots[root].Name
		}
		return e.menu[path[len(path)-1]].Name
	}
	add := func(kind, key, detail string) {
		res.Vios = append(res.Vios, c15Vio{kind, key, detail})
	}

	// reference trace A
	a := c15NewInstOrder(ord.ref)
	retA := make([]string, n)
	snaps := make([][]byte, n+1)
	taints := make([]string, n+1)
	var preDump *c15Dump
	for i := 0; i <= n; i++ {
		if i >= cutFrom {
			b, err := a.snapshot()
			if err != nil {
				add("snapshot_failed", label(), fmt.Sprintf("snapshot at position %d of %d: %v", i, n, err))
				return
			}
			snaps[i] = b
			taints[i] = c15Taint(a.s.data)
		}
		if i == n-1 && len(path) > 0 {
			d, err := a.dumpHash()
			if err != nil {
				add("dump_failed", label(), err.Error())
				return
			}
			preDump = d
			res.PreHash = d.Hash
		}
		if i == n {
			break
		}
		retA[i] = a.apply(i, cmds[i])
		if a.dead {
			if i < n-1 {
				// a panic inside an already validated prefix cannot happen (such transitions are not taken)
				add("nondeterministic_prefix", label(), fmt.Sprintf("prefix command %s panicked on replay: %s", cmds[i].Name, retA[i]))
				return
			}
			res.Panicked = true
		}
	}
	if n > 0 {
		res.Ret = retA[n-1]
	}
	var dA *c15Dump
	if !res.Panicked {
		var err error
		if dA, err = a.dumpHash(); err != nil {
			add("dump_failed", label(), err.Error())
			return
		}
		res.PostHash = dA.Hash
	} else {
		res.PostHash = res.PreHash
	}
	_ = preDump
	_ = seedLen

	compare := func(what string, inst *c15Inst, rets []string, from int, kindDump, kindRet string) {
		res.Traces++
		if kindDump == "snapshot_restore_divergence" && taints[from] != "" {
			// the snapshot was taken from a state with a recognisable defect: name it
			kindDump, kindRet = taints[from], taints[from]
		}
		for i := from; i < n; i++ {
			if rets[i] != retA[i] {
				add(kindRet, label(), fmt.Sprintf("%s: command #%d %s returned %q, reference instance returned %q", what, i-seedLen, cmds[i].Name, rets[i], retA[i]))
				return
			}
		}
		if res.Panicked {
			return
		}
		d, err := inst.dumpHash()
		if err != nil {
			add("dump_failed", label(), what+": "+err.Error())
			return
		}
		if d.Hash != dA.Hash {
			// texts are only needed now (both instances are still in their final states)
			if dA.Text == nil {
				if full, err := a.dump(); err == nil && full.Hash == dA.Hash {
					dA = full
				}
			}
			if full, err := inst.dump(); err == nil && full.Hash == d.Hash {
				d = full
			}
			diff, onlyA, onlyB := c15Diff(dA.Lines(), d.Lines(), 12)
			kind := kindDump
			if k := c15ClassifyDiff(onlyA, onlyB); k != "" && kindDump != "replica_divergence" {
				kind = k
			}
			add(kind, label(), fmt.Sprintf("%s: catalogue differs from the reference instance (- reference, + this):\n  %s", what, strings.Join(diff, "\n  ")))
			return
		}
		if d.TermIndex != dA.TermIndex {
			add(kindDump+"_term_index", label(), fmt.Sprintf("%s: %s, reference %s", what, d.TermIndex, dA.TermIndex))
		}
	}

	// (i) second instance, same log (opposite map order); with the adversary also a third one in the runtime's order
	replicas := []int32{ord.replica}
	if c15Adversary && ord == c15Opposite {
		replicas = append(replicas, kit.MapOrderNative)
		res.Opposite++
	}
	for _, o := range replicas {
		b := c15NewInstOrder(o)
		retB := make([]string, n)
		for i := 0; i < n && !b.dead; i++ {
			retB[i] = b.apply(i, cmds[i])
		}
		compare(fmt.Sprintf("second instance fed the same log (%s; reference: %s)", c15OrderName(o), c15OrderName(ord.ref)), b, retB, 0, "replica_divergence", "replica_result_divergence")
	}

	// (ii) snapshot at every cut position, restore on a fresh store, apply the rest
	for cut := cutFrom; cut <= n; cut++ {
		if res.Panicked && cut == n {
			continue
		}
		r, err := c15RestoreOrder(snaps[cut], ord.restored)
		what := fmt.Sprintf("snapshot after %d of %d commands (%d of the seed) -> restore -> rest", cut, n, seedLen)
		if c15Adversary {
			what += fmt.Sprintf(" (restored node: %s; reference: %s)", c15OrderName(ord.restored), c15OrderName(ord.ref))
			if ord == c15Opposite {
				res.OppositeRestores++
			}
		}
		if err != nil {
			add("restore_failed", label(), what+": "+err.Error())
			continue
		}
		retR := make([]string, n)
		for i := cut; i < n && !r.dead; i++ {
			retR[i] = r.apply(i, cmds[i])
		}
		compare(what, r, retR, cut, "snapshot_restore_divergence", "snapshot_restore_result_divergence")
	}
	return
}

// c15Taint recognises, in the state a snapshot is taken from, the two known ways in which the in-memory
// catalogue differs from what Clone/Marshal/Unmarshal reproduce.
func c15Taint(d *meta2.Data) string {
	minT := time.Unix(0, c15MinNano)
	for _, db := range d.Databases {
		for key, rp := range db.RetentionPolicies {
			if rp != nil && rp.Name != key {
				return "snapshot_rekeys_renamed_policy"
			}
		}
	}
	for _, db := range d.Databases {
		for _, rp := range db.RetentionPolicies {
			if rp == nil {
				continue
			}
			for i := range rp.ShardGroups {
				if rp.ShardGroups[i].StartTime.Before(minT) {
					return "snapshot_wraps_group_start_before_min_time"
				}
			}
			for i := range rp.IndexGroups {
				if rp.IndexGroups[i].StartTime.Before(minT) {
					return "snapshot_wraps_group_start_before_min_time"
				}
			}
		}
	}
	return ""
}

// c15ClassifyDiff names the specific defect when the differing lines have one recognisable shape.
func c15ClassifyDiff(onlyRef, onlyThis []string) string {
	all := append(append([]string{}, onlyRef...), onlyThis...)
	if len(all) == 0 {
		return ""
	}
	only := func(pred func(path string) bool) bool {
		for _, l := range all {
			if !pred(c15PathOf(l)) {
				return false
			}
		}
		return true
	}
	if only(func(p string) bool { return strings.Contains(p, ".Measurements[") && strings.HasSuffix(p, "].ID") }) {
		return "snapshot_loses_measurement_id"
	}
	if only(func(p string) bool { return strings.HasPrefix(p, ".MigrateEvents[") && strings.HasSuffix(p, ".PreState") }) {
		return "snapshot_loses_migrate_event_prestate"
	}
	return ""
}

// ---------------------------------------------------------------- round driver

type c15State struct {
	Root int
	Path []int
	Hash string
}

func c15ParsePath(s string) []int {
	if s == "" {
		return nil
	}
	parts := strings.Split(s, ",")
	out := make([]int, len(parts))
	for i, p := range parts {
		n, err := strconv.Atoi(p)
		if err != nil {
			panic(err)
		}
		out[i] = n
	}
	return out
}

func c15FmtPath(p []int) string {
	ss := make([]string, len(p))
	for i, x := range p {
		ss[i] = strconv.Itoa(x)
	}
	return strings.Join(ss, ",")
}

func c15LoadFrontier(p string) []c15State {
	f, err := os.Open(p)
	if err != nil {
		panic(err)
	}
	defer f.Close()
	var out []c15State
	sc := bufio.NewScanner(f)
	sc.Buffer(make([]byte, 1<<20), 1<<20)
	for sc.Scan() {
		parts := strings.Split(sc.Text(), "\t")
		if len(parts) != 3 {
			continue
		}
		r, _ := strconv.Atoi(parts[0])
		out = append(out, c15State{Root: r, Path: c15ParsePath(parts[1]), Hash: parts[2]})
	}
	return out
}

func c15LoadVisited(p string) map[string]struct{} {
	out := map[string]struct{}{}
	if p == "" {
		return out
	}
	f, err := os.Open(p)
	if err != nil {
		panic(err)
	}
	defer f.Close()
	sc := bufio.NewScanner(f)
	for sc.Scan() {
		out[sc.Text()] = struct{}{}
	}
	return out
}

func (e *c15Env) transition(root int, path []int, cutFrom int) c15Result {
	if e.prop == "C16" {
		res := e.c16Check(root, path, kit.MapOrderAscending)
		if !c15Adversary {
			return res
		}
		// the invariants must hold whatever order the maps are ranged over: second pass with descending keys.
		// State identity (PreHash/PostHash/Ret) is that of the ascending pass.
		res2 := e.c16Check(root, path, kit.MapOrderDescending)
		res.Traces += res2.Traces
		res.Opposite++
		if res2.PostHash != res.PostHash || res2.Ret != res.Ret || res2.PreHash != res.PreHash {
			res.OrderDependent = true // C15's subject
		}
		have := map[string]bool{}
		for _, v := range res.Vios {
			have[v.Kind+"|"+v.Key] = true
		}
		for _, v := range res2.Vios {
			if !have[v.Kind+"|"+v.Key] {
				v.Detail = "(only when maps are ranged over in descending key order) " + v.Detail
				res.Vios = append(res.Vios, v)
			}
		}
		return res
	}
	return e.c15Check(root, path, cutFrom)
}

// c15Probe feeds the same log to many fresh instances (no snapshots): more than one outcome means that
// apply itself is not a function of the log (hash-map iteration order is the only source in this code).
//
// With the map-order adversary the first two instances run with ascending and descending keys: an order
// dependence that the two extreme orders expose is found deterministically; the remaining instances run in the
// runtime's order as before.
func (e *c15Env) probe(root int, path []int) *c15Vio {
	e.setHA(root)
	cmds := e.full(root, path)
	seedLen := len(e.roots[root].Seed)
	// an order-dependent pick among two entries of a small Go map flips with probability 1/8 per instance:
	// 256 instances miss it with probability 1e-15
	const instances = 256
	var firstRets []string
	var first *c15Inst
	firstHash := ""
	how := "fresh instances fed the same log (no snapshot involved)"
	for k := 0; k < instances; k++ {
		order := kit.MapOrderNative
		if c15Adversary {
			switch k {
			case 0:
				order = kit.MapOrderAscending
			case 1:
				order = kit.MapOrderDescending
				how = "fresh instances fed the same log (no snapshot involved), one ranging over maps in ascending and one in descending key order"
			default:
				how = "fresh instances fed the same log (no snapshot involved), one ranging over maps in ascending key order and one in the runtime's order"
			}
		}
		in := c15NewInstOrder(order)
		rets := make([]string, len(cmds))
		for i := 0; i < len(cmds) && !in.dead; i++ {
			rets[i] = in.apply(i, cmds[i])
		}
		hash := ""
		if !in.dead {
			if d, err := in.dumpHash(); err == nil {
				hash = d.Hash
			}
		}
		if k == 0 {
			firstRets, firstHash, first = rets, hash, in
			continue
		}
		for i := range cmds {
			if rets[i] != firstRets[i] {
				rs := []string{strconv.Quote(rets[i]), strconv.Quote(firstRets[i])}
				sort.Strings(rs)
				return &c15Vio{"nondeterministic_apply", cmds[i].Name, fmt.Sprintf("%s: command #%d %s returned %s on one and %s on another",
					how, i-seedLen, cmds[i].Name, rs[0], rs[1])}
			}
		}
		if hash != firstHash {
			detail := how + " end in different catalogues"
			if !first.dead && !in.dead {
				da, ea := first.dump()
				db, eb := in.dump()
				if ea == nil && eb == nil {
					diff, _, _ := c15Diff(da.Lines(), db.Lines(), 12)
					detail += " (- first, + other):\n  " + strings.Join(diff, "\n  ")
				}
			}
			return &c15Vio{"nondeterministic_apply", cmds[len(cmds)-1].Name + " :: catalogue", detail}
		}
	}
	return nil
}

// report re-executes a failing case (determinism rule) and records the violations.  If the verdict is not
// reproducible, the probe decides: apply is nondeterministic (that is the violation, reported instead) or the
// harness is broken (tool error).
func (e *c15Env) report(root int, path []int, cutFrom int, res c15Result) {
	sig := func(r c15Result) string {
		set := map[string]bool{}
		for _, v := range r.Vios {
			set[v.Kind+"|"+v.Key] = true
		}
		ss := make([]string, 0, len(set))
		for k := range set {
			ss = append(ss, k)
		}
		sort.Strings(ss)
		return strings.Join(ss, ";")
	}
	want := sig(res)
	differs := ""
	for i := 0; i < 4 && differs == ""; i++ {
		if got := sig(e.transition(root, path, cutFrom)); got != want {
			differs = got
		}
	}
	resultKind := false
	for _, v := range res.Vios {
		if strings.Contains(v.Kind, "result_divergence") || v.Kind == "replica_divergence" {
			resultKind = true
		}
	}
	if differs != "" || (e.prop == "C15" && resultKind) {
		nd := e.probe(root, path)
		switch {
		case nd != nil && e.prop == "C15":
			res.Vios = []c15Vio{*nd}
		case nd != nil:
			e.rep.Count("transitions_with_nondeterministic_apply_skipped", 1)
			e.rep.Note("observation (C15's subject, not a C16 violation): %s: %s", nd.Key, nd.Detail)
			return
		case differs != "":
			panic(fmt.Sprintf("HARNESS: non-reproducible verdict for root %d path %v (%v): first %q, re-execution %q",
				root, path, e.names(path), want, differs))
		}
	}
	if e.prop == "C15" && c15Adversary && len(res.Vios) > 0 && !strings.HasPrefix(res.Vios[0].Kind, "nondeterministic_") {
		// a snapshot->restore mismatch that disappears when the restored node ranges over maps in the reference's
		// order is an order dependence (of Restore, or of apply on a restored catalogue), not lost snapshot content
		same := e.c15CheckOrders(root, path, cutFrom, c15AllAscending)
		still := map[string]bool{}
		for _, v := range same.Vios {
			still[v.Kind+"|"+v.Key] = true
		}
		for i := range res.Vios {
			v := &res.Vios[i]
			if strings.HasPrefix(v.Kind, "snapshot_") && !still[v.Kind+"|"+v.Key] {
				v.Kind = "restored_node_map_order_divergence"
			}
		}
	}
	cs := c15Case{Prop: e.prop, Root: root, Path: path, Names: e.names(path)}
	if dbg := os.Getenv("VERIF_C15_DEBUG"); dbg != "" {
		if f, err := os.OpenFile(dbg+fmt.Sprintf(".%d", kit.Shard()), os.O_APPEND|os.O_CREATE|os.O_WRONLY, 0o644); err == nil {
			for _, v := range res.Vios {
				fmt.Fprintf(f, "%s\t%s\t%s\t%v\t%s\n", v.Kind, v.Key, e.roots[root].Name, e.names(path), strings.ReplaceAll(v.Detail, "\n", " | "))
			}
			f.Close()
		}
	}
	seen := map[string]bool{}
	e.rep.Count("violating_transitions", 1)
	for _, v := range res.Vios {
		if seen[v.Kind+"|"+v.Key] {
			continue
		}
		seen[v.Kind+"|"+v.Key] = true
		e.rep.Count("violations_of_kind_"+v.Kind, 1)
		e.rep.Violation(v.Kind, v.Key, fmt.Sprintf("root=%s path=%v\n  %s", e.roots[root].Name, e.names(path), v.Detail), cs)
	}
}

func c15Run(t *testing.T, prop string) {
	c15Logger = logger2.NewLogger(errno.ModuleMeta).SetZapLogger(zap.NewNop())
	meta2.DataLogger = zap.NewNop()
	logger2.SetLogger(zap.NewNop())
	rep := kit.NewReport(prop)
	defer rep.Save()
	defer func() {
		// dynamic evidence of the adversary: rewritten range statements started over maps with >= 2 entries, per order
		n := kit.MapOrderRanges()
		rep.Count("map_ranges_2plus_entries_runtime_order", n[kit.MapOrderNative])
		rep.Count("map_ranges_2plus_entries_ascending", n[kit.MapOrderAscending])
		rep.Count("map_ranges_2plus_entries_descending", n[kit.MapOrderDescending])
	}()
	e := &c15Env{prop: prop, menu: c15Menu(), roots: c15Roots(), rep: rep}
	seenNames := map[string]bool{}
	ncore := 0
	for i := range e.menu {
		for _, p := range c15CorePrefixes {
			if strings.HasPrefix(e.menu[i].Name, p+"(") {
				e.menu[i].Core = true
				ncore++
			}
		}
	}
	rep.Max("max_core_commands", int64(ncore))
	for _, c := range e.menu {
		if seenNames[c.Name] {
			panic("duplicate menu name " + c.Name)
		}
		seenNames[c.Name] = true
	}
	rep.Max("max_menu_commands", int64(len(e.menu)))
	rep.Max("max_roots", int64(len(e.roots)))
	// every registered command type must be in the menu
	inMenu := map[proto2.Command_Type]bool{}
	for _, c := range e.menu {
		var cmd proto2.Command
		if err := proto.Unmarshal(c.Data, &cmd); err != nil {
			panic(err)
		}
		inMenu[cmd.GetType()] = true
	}
	for typ := range applyFunc {
		if !inMenu[typ] {
			panic(fmt.Sprintf("menu has no command of registered type %v", typ))
		}
	}
	rep.Max("max_command_types", int64(len(inMenu)))

	if kit.ReplayPath() != "" {
		var cs c15Case
		if err := kit.LoadReplay(&cs); err != nil {
			t.Fatal(err)
		}
		for i, j := range cs.Path {
			if j < 0 || j >= len(e.menu) || (i < len(cs.Names) && e.menu[j].Name != cs.Names[i]) {
				t.Fatalf("replay artefact does not match the current menu at step %d", i)
			}
		}
		// every prefix, so that the artefact is self-contained
		for k := 0; k <= len(cs.Path); k++ {
			if k == 0 && len(cs.Path) > 0 {
				continue
			}
			res := e.transition(cs.Root, cs.Path[:k], 0)
			rep.Eval(1)
			if k == len(cs.Path) {
				if len(res.Vios) == 0 && prop == "C15" {
					// a nondeterministic case may agree by chance in one execution: ask the probe
					if nd := e.probe(cs.Root, cs.Path); nd != nil {
						res.Vios = []c15Vio{*nd}
					}
				}
				if len(res.Vios) > 0 {
					e.report(cs.Root, cs.Path, 0, res)
				}
			}
		}
		return
	}

	round, _ := strconv.Atoi(os.Getenv("VERIF_ROUND"))
	last := os.Getenv("VERIF_LAST") == "1"
	next, err := os.Create(os.Getenv("VERIF_OUT") + ".next")
	if err != nil {
		t.Fatal(err)
	}
	defer next.Close()
	nw := bufio.NewWriter(next)
	defer nw.Flush()
	emitted := map[string]struct{}{}
	emit := func(root int, path []int, hash string) {
		core := "c"
		for _, j := range path {
			if !e.menu[j].Core {
				core = "-"
			}
		}
		// a state is written once per worker, and once more if a core-only path to it turns up later
		if _, ok := emitted[hash+core]; ok {
			return
		}
		if _, ok := emitted[hash+"c"]; ok {
			return
		}
		emitted[hash+core] = struct{}{}
		if last {
			if _, ok := emitted[hash]; !ok {
				emitted[hash] = struct{}{}
				fmt.Fprintf(nw, "%s\n", hash)
			}
		} else {
			fmt.Fprintf(nw, "%d\t%s\t%s\t%s\n", root, c15FmtPath(path), hash, core)
		}
	}

	if round == 0 {
		// the roots: seed-internal cut positions (C15) / invariants of the seeded catalogues (C16)
		for r := range e.roots {
			if !kit.Mine(r) {
				continue
			}
			res := e.transition(r, nil, 0)
			rep.Eval(1)
			rep.Count("transitions", int64(len(e.roots[r].Seed)))
			rep.Count("traces_validated_against_impl", res.Traces)
			rep.Count("transitions_compared_under_opposite_map_orders", res.Opposite)
			rep.Count("restores_compared_under_opposite_map_order", res.OppositeRestores)
			if len(res.Vios) > 0 {
				e.report(r, nil, 0, res)
			}
			rep.Sample(2, map[string]any{"root": e.roots[r].Name, "seed": c15CmdNames(e.roots[r].Seed), "state": res.PostHash})
			fmt.Fprintf(nw, "%d\t\t%s\tc\n", r, res.PostHash)
		}
		return
	}

	frontier := c15LoadFrontier(os.Getenv("VERIF_FRONTIER"))
	visited := c15LoadVisited(os.Getenv("VERIF_VISITED"))
	m := len(e.menu)
	panics := map[string]int{}
	k, mine := 0, 0
	for si := range frontier {
		st := &frontier[si]
		for j := 0; j < m; j++ {
			k++
			if !kit.Mine(si*m + j) {
				continue
			}
			// (the counter of this worker's own transitions: k%64 == 0 is only ever true for the last shard)
			if mine++; mine%64 == 0 && rep.Expired() {
				return
			}
			path := append(append(make([]int, 0, len(st.Path)+1), st.Path...), j)
			res := e.transition(st.Root, path, len(e.roots[st.Root].Seed))
			rep.Eval(1)
			rep.Count("transitions", 1)
			rep.Count("traces_validated_against_impl", res.Traces)
			rep.Count("transitions_compared_under_opposite_map_orders", res.Opposite)
			rep.Count("restores_compared_under_opposite_map_order", res.OppositeRestores)
			if res.PreHash != "" && res.PreHash != st.Hash && len(res.Vios) == 0 {
				res.Vios = append(res.Vios, c15Vio{"nondeterministic_prefix", e.menu[j].Name,
					fmt.Sprintf("replaying the path gives state %s, the frontier recorded %s", res.PreHash, st.Hash)})
			}
			if len(res.Vios) > 0 {
				e.report(st.Root, path, len(e.roots[st.Root].Seed), res)
			}
			if res.OrderDependent {
				rep.Count("transitions_whose_outcome_depends_on_map_order", 1)
			}
			if res.Panicked {
				rep.Count("transitions_panicking_not_taken", 1)
				key := e.menu[j].Name + " => " + res.Ret
				if panics[key] == 0 && len(panics) < 40 {
					rep.Note("observation (not a violation): apply panics: %s", key)
				}
				panics[key]++
				continue
			}
			switch {
			case strings.HasPrefix(res.Ret, "ERR: "):
				rep.Count("transitions_command_failed", 1)
			case res.PostHash == res.PreHash:
				rep.Count("transitions_noop", 1)
			}
			if res.PostHash != res.PreHash {
				if rep.DistinctNontrivial(kit.Hash(res.PreHash, e.menu[j].Name)) {
					rep.Sample(6, map[string]any{"root": e.roots[st.Root].Name, "path": e.names(path), "result": res.Ret,
						"pre": res.PreHash, "post": res.PostHash})
				}
				if _, ok := visited[res.PostHash]; !ok {
					emit(st.Root, path, res.PostHash)
				}
			}
		}
	}
}

// the core alphabet: in thorough the last round expands only states reached by core-only paths
var c15CorePrefixes = []string{"CreateDbPtView", "CreateDatabase", "MarkDatabaseDelete", "DropDatabase", "CreateRetentionPolicy",
	"MarkRetentionPolicyDelete", "DropRetentionPolicy", "SetDefaultRetentionPolicy", "UpdateRetentionPolicy", "CreateMeasurement",
	"AlterShardKey", "UpdateSchema", "MarkMeasurementDelete", "DropMeasurement", "CreateShardGroup", "DeleteShardGroup",
	"DeleteIndexGroup", "PruneGroups", "CreateDataNode", "RemoveNode", "ExpandGroups", "CreateUser", "DropUser", "SetPrivilege"}

func c15CmdNames(cs []c15Cmd) []string {
	out := make([]string, len(cs))
	for i := range cs {
		out[i] = cs[i].Name
	}
	return out
}

func TestVerifC15(t *testing.T) { c15Run(t, "C15") }
func TestVerifC16(t *testing.T) { c15Run(t, "C16") }
