//go:build verif

package meta

// C16 — well-formedness of the catalogue, evaluated on the live meta.Data of the real store after
// every transition of the state graph.  A transition reports the invariant violations that its
// command INTRODUCES (present in the post-state, absent in the pre-state), so that the key names
// the command that broke the invariant.

import (
	"fmt"
	"sort"
	"strings"
	"time"

	meta2 "github.com/openGemini/openGemini/lib/util/lifted/influx/meta"
)

type c16Ids struct {
	kind map[string]map[uint64]string // kind -> id -> where it lives
	max  map[string]uint64            // kind -> counter value
}

func c16EffEnd(g *meta2.ShardGroupInfo) time.Time {
	if g.Truncated() {
		return g.TruncatedAt
	}
	return g.EndTime
}

func c16SortedKeys[V any](m map[string]V) []string {
	ks := make([]string, 0, len(m))
	for k := range m {
		ks = append(ks, k)
	}
	sort.Strings(ks)
	return ks
}

// c16Invariants returns the state invariant violations (descriptor -> kind) and the id sets.
func c16Invariants(d *meta2.Data) (map[string]string, *c16Ids) {
	v := map[string]string{}
	ids := &c16Ids{kind: map[string]map[uint64]string{"shard_group": {}, "shard": {}, "index_group": {}, "index": {}, "measurement": {}},
		max: map[string]uint64{"shard_group": d.MaxShardGroupID, "shard": d.MaxShardID, "index_group": d.MaxIndexGroupID, "index": d.MaxIndexID, "measurement": d.MaxMstID}}
	seen := func(kind string, id uint64, where string) {
		if prev, dup := ids.kind[kind][id]; dup {
			v[fmt.Sprintf("%s id %d is used twice: %s and %s", kind, id, prev, where)] = "duplicate_" + kind + "_id"
			return
		}
		ids.kind[kind][id] = where
	}
	for _, dbName := range c16SortedKeys(d.Databases) {
		db := d.Databases[dbName]
		if db == nil {
			continue
		}
		if db.DefaultRetentionPolicy != "" {
			if _, ok := db.RetentionPolicies[db.DefaultRetentionPolicy]; !ok {
				v[fmt.Sprintf("database %s: default policy %q does not exist", dbName, db.DefaultRetentionPolicy)] = "default_policy_missing"
			}
		}
		pts := d.PtView[dbName]
		for _, rpName := range c16SortedKeys(db.RetentionPolicies) {
			rp := db.RetentionPolicies[rpName]
			if rp == nil {
				continue
			}
			where := dbName + "." + rpName
			for _, mn := range c16SortedKeys(rp.Measurements) {
				seen("measurement", rp.Measurements[mn].ID, where+"."+mn)
			}
			indexIDs := map[uint64]bool{}
			for i := range rp.IndexGroups {
				ig := &rp.IndexGroups[i]
				seen("index_group", ig.ID, where)
				for j := range ig.Indexes {
					seen("index", ig.Indexes[j].ID, fmt.Sprintf("%s/ig%d", where, ig.ID))
					indexIDs[ig.Indexes[j].ID] = true
				}
			}
			// sortedness of the whole slice as the rest of the system assumes it: by (effective end, start)
			for i := 1; i < len(rp.ShardGroups); i++ {
				a, b := &rp.ShardGroups[i-1], &rp.ShardGroups[i]
				ae, be := c16EffEnd(a), c16EffEnd(b)
				if be.Before(ae) || (be.Equal(ae) && b.StartTime.Before(a.StartTime)) {
					v[fmt.Sprintf("%s: shard groups not sorted: #%d id=%d [%d,%d) before #%d id=%d [%d,%d)", where, i-1, a.ID, a.StartTime.UnixNano(), ae.UnixNano(), i, b.ID, b.StartTime.UnixNano(), be.UnixNano())] = "shard_groups_not_sorted"
				}
			}
			for i := range rp.ShardGroups {
				g := &rp.ShardGroups[i]
				seen("shard_group", g.ID, where)
				for j := range g.Shards {
					seen("shard", g.Shards[j].ID, fmt.Sprintf("%s/sg%d", where, g.ID))
				}
				if g.Deleted() {
					continue
				}
				if !g.StartTime.Before(g.EndTime) {
					v[fmt.Sprintf("%s: live shard group id=%d has the empty or inverted range [%d,%d)", where, g.ID, g.StartTime.UnixNano(), g.EndTime.UnixNano())] = "shard_group_empty_range"
				}
				for k := i + 1; k < len(rp.ShardGroups); k++ {
					h := &rp.ShardGroups[k]
					if h.Deleted() || h.EngineType != g.EngineType {
						continue
					}
					if g.StartTime.Before(c16EffEnd(h)) && h.StartTime.Before(c16EffEnd(g)) {
						kind := "live_shard_groups_overlap"
						if g.EndTime.Sub(g.StartTime) != h.EndTime.Sub(h.StartTime) {
							kind = "live_shard_groups_overlap_different_durations"
						}
						v[fmt.Sprintf("%s engine %d: live shard groups overlap: id=%d [%s,%s) and id=%d [%s,%s)", where, g.EngineType, g.ID, c16T(g.StartTime), c16T(c16EffEnd(g)), h.ID, c16T(h.StartTime), c16T(c16EffEnd(h)))] = kind
					}
				}
				for j := range g.Shards {
					sh := &g.Shards[j]
					if sh.MarkDelete {
						continue
					}
					if !indexIDs[sh.IndexID] {
						v[fmt.Sprintf("%s: shard %d of live group %d refers to index %d which is in no index group of the policy", where, sh.ID, g.ID, sh.IndexID)] = "shard_refers_missing_index"
					}
					for _, pt := range sh.Owners {
						if int(pt) >= len(pts) || pts[pt].PtId != pt {
							v[fmt.Sprintf("%s: shard %d of live group %d is owned by partition %d which is not in PtView[%s] (%d partitions)", where, sh.ID, g.ID, pt, dbName, len(pts))] = "shard_owner_partition_missing"
						}
					}
				}
			}
		}
	}
	// pre-incremented counters: every live id <= counter; measurement ids are post-incremented: id < counter
	for _, kind := range []string{"shard_group", "shard", "index_group", "index"} {
		for id, where := range ids.kind[kind] {
			if id > ids.max[kind] {
				v[fmt.Sprintf("%s id %d (%s) is above its counter %d", kind, id, where, ids.max[kind])] = "id_above_counter"
			}
		}
	}
	for id, where := range ids.kind["measurement"] {
		if id >= ids.max["measurement"] {
			v[fmt.Sprintf("measurement id %d (%s) is not below its counter MaxMstID=%d", id, where, ids.max["measurement"])] = "id_above_counter"
		}
	}
	return v, ids
}

func c16T(t time.Time) string { return t.UTC().Format("2006-01-02T15:04:05.999999999Z") }

// c16Check replays seed+path on one instance; invariants are evaluated before and after the last
// command, the ghost set of every id ever seen is carried along the path after the seed.
func (e *c15Env) c16Check(root int, path []int, order int32) (res c15Result) {
	e.setHA(root)
	cmds := e.full(root, path)
	n := len(cmds)
	seedLen := len(e.roots[root].Seed)
	add := func(kind, key, detail string) { res.Vios = append(res.Vios, c15Vio{kind, key, detail}) }
	label := "root:" + e.roots[root].Name
	if len(path) > 0 {
		label = e.menu[path[len(path)-1]].Name
	}
	a := c15NewInstOrder(order)
	res.Traces = 1
	ever := map[string]map[uint64]bool{}
	note := func(ids *c16Ids) {
		for kind, m := range ids.kind {
			if ever[kind] == nil {
				ever[kind] = map[uint64]bool{}
			}
			for id := range m {
				ever[kind][id] = true
			}
		}
	}
	var preV map[string]string
	var preIds *c16Ids
	var preDump *c15Dump
	preTaint := ""
	for i := 0; i < n; i++ {
		last := i == n-1
		if i >= seedLen {
			v, ids := c16Invariants(a.s.data)
			if last {
				preV, preIds = v, ids
				preTaint = c15Taint(a.s.data)
				d, err := a.dump()
				if err != nil {
					add("dump_failed", label, err.Error())
					return
				}
				preDump = d
				res.PreHash = d.Hash
			}
			note(ids)
		}
		ret := a.apply(i, cmds[i])
		if cmds[i].Hist {
			ever = map[string]map[uint64]bool{}
		}
		if a.dead {
			if !last {
				add("nondeterministic_prefix", label, fmt.Sprintf("prefix command %s panicked on replay: %s", cmds[i].Name, ret))
				return
			}
			res.Panicked = true
		}
		if last {
			res.Ret = ret
		}
	}
	if res.Panicked {
		res.PostHash = res.PreHash
		return
	}
	postDump, err := a.dumpHash()
	if err != nil {
		add("dump_failed", label, err.Error())
		return
	}
	res.PostHash = postDump.Hash
	if strings.HasPrefix(res.Ret, "ERR: ") && postDump.Hash != preDump.Hash {
		if full, err := a.dump(); err == nil {
			postDump = full
		}
	}
	postV, postIds := c16Invariants(a.s.data)
	if len(path) == 0 {
		for desc, kind := range postV {
			add(kind, label+" :: "+desc, desc)
		}
		return
	}
	lastCmd := cmds[n-1]
	descs := make([]string, 0, len(postV))
	for desc := range postV {
		descs = append(descs, desc)
	}
	sort.Strings(descs)
	for _, desc := range descs {
		if _, was := preV[desc]; !was {
			kind := postV[desc]
			if strings.HasPrefix(kind, "live_shard_groups_overlap") {
				switch {
				case strings.HasPrefix(lastCmd.Name, "ReSharding("):
					kind = "live_shard_groups_overlap_by_resharding"
				case strings.HasPrefix(lastCmd.Name, "DeleteShardGroup(") && strings.HasSuffix(lastCmd.Name, ",cancel)"):
					kind = "live_shard_groups_overlap_by_cancel_delete"
				}
			}
			add(kind, label+" :: "+desc, desc)
		}
	}
	// a failed command leaves the catalogue unchanged (Term/Index excluded)
	if strings.HasPrefix(res.Ret, "ERR: ") && postDump.Hash != preDump.Hash {
		diff, _, _ := c15Diff(preDump.Lines(), postDump.Lines(), 10)
		add("failed_command_changed_catalogue", label, fmt.Sprintf("command returned %q but changed the catalogue (- before, + after):\n  %s", res.Ret, strings.Join(diff, "\n  ")))
	}
	defer func() {
		// transitions out of a state that contains a renamed policy (UpdateRetentionPolicy with NewName leaves the
		// map key behind): everything that goes wrong there is the fallout of that one defect
		if preTaint == "snapshot_rekeys_renamed_policy" {
			for i := range res.Vios {
				res.Vios[i].Key += " :: " + res.Vios[i].Kind
				res.Vios[i].Kind = "illformed_after_policy_rename"
			}
		}
	}()
	if !lastCmd.Hist {
		// identifiers are never handed out twice; counters never go back
		for _, kind := range []string{"shard_group", "shard", "index_group", "index", "measurement"} {
			var reused []uint64
			for id := range postIds.kind[kind] {
				if _, inPre := preIds.kind[kind][id]; !inPre && ever[kind][id] {
					reused = append(reused, id)
				}
			}
			sort.Slice(reused, func(i, j int) bool { return reused[i] < reused[j] })
			if len(reused) > 0 {
				add("id_handed_out_twice", label+" :: "+kind, fmt.Sprintf("%s ids %v were used earlier on this path, had disappeared, and are handed out again (now at %s)", kind, reused, postIds.kind[kind][reused[0]]))
			}
			if postIds.max[kind] < preIds.max[kind] {
				add("id_counter_went_back", label+" :: "+kind, fmt.Sprintf("%s counter %d -> %d", kind, preIds.max[kind], postIds.max[kind]))
			}
		}
	}
	return
}
