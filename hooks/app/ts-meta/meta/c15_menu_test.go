//go:build verif

package meta

// Command menu and seeded catalogues for C15/C16.  Every entry of store_fsm.go:applyFunc appears
// with 1-6 argument tuples (valid, duplicate, unknown name, absent object).  Commands refer to fixed
// names and ids: database db0 (in the seeds) / db1 (new) / dbX (never exists); policy autogen / rp1
// / rpX; measurement cpu / mem / disk / mstX; data nodes 1..3 (seeds) and 4; shard groups 1,2,
// shards 1..6, index group 1, indexes 1..3 as the seeds number them; 99 = absent.

import (
	"fmt"
	"math"
	"time"

	"github.com/openGemini/openGemini/lib/config"
	meta2 "github.com/openGemini/openGemini/lib/util/lifted/influx/meta"
	proto2 "github.com/openGemini/openGemini/lib/util/lifted/influx/meta/proto"
	"github.com/openGemini/openGemini/lib/util/lifted/protobuf/proto"
)

const (
	c15Day  = 24 * time.Hour
	c15Week = 7 * c15Day
)

// c15B is a boundary instant of the 7d groups of the auto-created policy (a Monday 00:00 UTC).
var c15B = time.Date(2021, 1, 4, 0, 0, 0, 0, time.UTC)

const (
	c15MinNano = int64(math.MinInt64) + 2 // models.MinNanoTime
	c15MaxNano = int64(math.MaxInt64) - 1 // models.MaxNanoTime
)

func c15Mk(name string, t proto2.Command_Type, desc *proto.ExtensionDesc, val proto.Message) c15Cmd {
	cmd := &proto2.Command{Type: &t}
	if err := proto.SetExtension(cmd, desc, val); err != nil {
		panic(fmt.Sprintf("%s: %v", name, err))
	}
	b, err := proto.Marshal(cmd)
	if err != nil {
		panic(fmt.Sprintf("%s: %v", name, err))
	}
	return c15Cmd{Name: name, Data: b}
}

var (
	ps  = proto.String
	pb  = proto.Bool
	pu3 = proto.Uint32
	pu6 = proto.Uint64
	pi3 = proto.Int32
	pi6 = proto.Int64
)

func c15Ski(typ string, keys ...string) *proto2.ShardKeyInfo {
	return &proto2.ShardKeyInfo{ShardKey: keys, Type: ps(typ)}
}

func c15RP(name string, dur, sgd time.Duration, rep uint32) *proto2.RetentionPolicyInfo {
	return &proto2.RetentionPolicyInfo{Name: ps(name), Duration: pi6(int64(dur)), ShardGroupDuration: pi6(int64(sgd)),
		ReplicaN: pu3(rep), HotDuration: pi6(0), WarmDuration: pi6(0), IndexGroupDuration: pi6(0)}
}

func cCreateDataNode(http, tcp, role string) c15Cmd {
	return c15Mk(fmt.Sprintf("CreateDataNode(%s,%s,%q)", http, tcp, role), proto2.Command_CreateDataNodeCommand, proto2.E_CreateDataNodeCommand_Command,
		&proto2.CreateDataNodeCommand{HTTPAddr: ps(http), TCPAddr: ps(tcp), Role: ps(role)})
}

func cUpdateNodeStatus(id uint64, status int32, lt uint64) c15Cmd {
	return c15Mk(fmt.Sprintf("UpdateNodeStatus(node=%d,status=%d,ltime=%d)", id, status, lt), proto2.Command_UpdateNodeStatusCommand, proto2.E_UpdateNodeStatusCommand_Command,
		&proto2.UpdateNodeStatusCommand{ID: pu6(id), Status: pi3(status), Ltime: pu6(lt), GossipAddr: ps("8011")})
}

func cCreateDbPtView(db string, rep uint32) c15Cmd {
	return c15Mk(fmt.Sprintf("CreateDbPtView(%s,replicas=%d)", db, rep), proto2.Command_CreateDbPtViewCommand, proto2.E_CreateDbPtViewCommand_Command,
		&proto2.CreateDbPtViewCommand{DbName: ps(db), ReplicaNum: pu3(rep)})
}

func cCreateDatabase(db string, rep uint32, rp *proto2.RetentionPolicyInfo, tag string) c15Cmd {
	return c15Mk(fmt.Sprintf("CreateDatabase(%q,replicas=%d%s)", db, rep, tag), proto2.Command_CreateDatabaseCommand, proto2.E_CreateDatabaseCommand_Command,
		&proto2.CreateDatabaseCommand{Name: ps(db), ReplicaNum: pu3(rep), RetentionPolicy: rp})
}

func cCreateMeasurement(db, rp, mst string, ski *proto2.ShardKeyInfo, tag string, mod func(c *proto2.CreateMeasurementCommand)) c15Cmd {
	v := &proto2.CreateMeasurementCommand{DBName: ps(db), RpName: ps(rp), Name: ps(mst), Ski: ski, EngineType: pu3(uint32(config.TSSTORE)), InitNumOfShards: pi3(0)}
	if mod != nil {
		mod(v)
	}
	return c15Mk(fmt.Sprintf("CreateMeasurement(%s.%s.%s,%s%v%s)", db, rp, mst, ski.GetType(), ski.GetShardKey(), tag), proto2.Command_CreateMeasurementCommand, proto2.E_CreateMeasurementCommand_Command, v)
}

func cCreateShardGroup(db, rp string, ts int64, tsName string, engine config.EngineType) c15Cmd {
	return c15Mk(fmt.Sprintf("CreateShardGroup(%s.%s,t=%s,engine=%d)", db, rp, tsName, engine), proto2.Command_CreateShardGroupCommand, proto2.E_CreateShardGroupCommand_Command,
		&proto2.CreateShardGroupCommand{Database: ps(db), Policy: ps(rp), Timestamp: pi6(ts), ShardTier: pu6(meta2.StringToTier("HOT")), EngineType: pu3(uint32(engine))})
}

func cCreateUser(name, hash string, admin, rw bool) c15Cmd {
	return c15Mk(fmt.Sprintf("CreateUser(%q,hash=%s,admin=%v)", name, hash, admin), proto2.Command_CreateUserCommand, proto2.E_CreateUserCommand_Command,
		&proto2.CreateUserCommand{Name: ps(name), Hash: ps(hash), Admin: pb(admin), RwUser: pb(rw)})
}

func cUpdateRP(db, rp, tag string, mod func(c *proto2.UpdateRetentionPolicyCommand)) c15Cmd {
	v := &proto2.UpdateRetentionPolicyCommand{Database: ps(db), Name: ps(rp), MakeDefault: pb(false)}
	mod(v)
	return c15Mk(fmt.Sprintf("UpdateRetentionPolicy(%s.%s,%s)", db, rp, tag), proto2.Command_UpdateRetentionPolicyCommand, proto2.E_UpdateRetentionPolicyCommand_Command, v)
}

func cCreateRetentionPolicy(db string, rp *proto2.RetentionPolicyInfo, def bool, tag string) c15Cmd {
	return c15Mk(fmt.Sprintf("CreateRetentionPolicy(%s.%s,%s,default=%v)", db, rp.GetName(), tag, def), proto2.Command_CreateRetentionPolicyCommand, proto2.E_CreateRetentionPolicyCommand_Command,
		&proto2.CreateRetentionPolicyCommand{Database: ps(db), RetentionPolicy: rp, DefaultRP: pb(def)})
}

func cCreateSubscription(db, rp, name string) c15Cmd {
	return c15Mk(fmt.Sprintf("CreateSubscription(%s.%s,%s)", db, rp, name), proto2.Command_CreateSubscriptionCommand, proto2.E_CreateSubscriptionCommand_Command,
		&proto2.CreateSubscriptionCommand{Name: ps(name), Database: ps(db), RetentionPolicy: ps(rp), Mode: ps("ALL"), Destinations: []string{"udp://127.0.0.1:9000"}})
}

func c15Event(id string, db string, pt uint32, opId uint64, cur, pre int32, check bool) *proto2.MigrateEventInfo {
	return &proto2.MigrateEventInfo{EventId: ps(id), EventType: pi3(0), OpId: pu6(opId),
		Pti:       &proto2.DbPt{Db: ps(db), Pt: &proto2.PtInfo{Owner: &proto2.PtOwner{NodeID: pu6(1)}, Status: pu3(uint32(meta2.Offline)), PtId: pu3(pt)}},
		CurrState: pi3(cur), PreState: pi3(pre), Src: pu6(1), Dest: pu6(2), CheckConflict: pb(check), AliveConnId: pu6(1)}
}

func cCreateEvent(id, db string, pt uint32, state int32) c15Cmd {
	return c15Mk(fmt.Sprintf("CreateEvent(%s,state=%d)", id, state), proto2.Command_CreateEventCommand, proto2.E_CreateEventCommand_Command,
		&proto2.CreateEventCommand{EventInfo: c15Event(id, db, pt, 0, state, 0, true)})
}

func c15SeedCluster(ha string) []c15Cmd {
	var s []c15Cmd
	for i := 1; i <= 3; i++ {
		s = append(s, cCreateDataNode(fmt.Sprintf("127.0.0.%d:8400", i), fmt.Sprintf("127.0.0.%d:8401", i), ""))
	}
	for i := 1; i <= 3; i++ {
		s = append(s, cUpdateNodeStatus(uint64(i), 1 /* serf.StatusAlive */, 1))
	}
	return s
}

func c15Roots() []c15Root {
	if !c15B.Truncate(c15Week).Equal(c15B) {
		panic("c15B is not a 7d boundary")
	}
	hash := c15Ski("hash", "hostname")
	base := append(c15SeedCluster(config.WAFPolicy),
		cCreateDbPtView("db0", 1),
		cCreateDatabase("db0", 1, nil, ""),
		cCreateMeasurement("db0", "autogen", "cpu", hash, "", nil))
	two := append(append([]c15Cmd{}, base...),
		cCreateShardGroup("db0", "autogen", c15B.UnixNano(), "B", config.TSSTORE),
		cCreateShardGroup("db0", "autogen", c15B.Add(c15Week).UnixNano(), "B+7d", config.TSSTORE),
		cCreateUser("u1", "h1", false, true))
	repl := append(c15SeedCluster(config.RepPolicy),
		cCreateDbPtView("db0", 3),
		cCreateDatabase("db0", 3, nil, ""),
		cCreateMeasurement("db0", "autogen", "cpu", hash, "", nil),
		cCreateShardGroup("db0", "autogen", c15B.UnixNano(), "B", config.TSSTORE))
	// "two of everything": every Go map of the catalogue that a command ranges over holds at least two entries, so
	// that an order-dependent pick shows within one or two commands (the map-order adversary needs maps with >= 2
	// entries; building them from the other roots uses up the depth bound).  2 databases / partition views, 2
	// policies in db0 (both with a hash-sharded measurement, a shard group and a subscription of the same name),
	// 2 measurements in db0.autogen; one migrate event on db1 (a second event is one command away).  No stream and
	// no event on db0: they would make every mark-delete command of db0 fail (CheckStreamExist*, checkMigrateConflict).
	pairs := append(c15SeedCluster(config.WAFPolicy),
		cCreateDbPtView("db0", 1),
		cCreateDatabase("db0", 1, nil, ""),
		cCreateDbPtView("db1", 1),
		cCreateDatabase("db1", 1, nil, ""),
		cCreateMeasurement("db0", "autogen", "cpu", hash, "", nil),
		cCreateMeasurement("db0", "autogen", "mem", hash, "", nil),
		cCreateRetentionPolicy("db0", c15RP("rp1", 0, 0, 1), false, "dur=0"),
		cCreateMeasurement("db0", "rp1", "cpu", hash, "", nil),
		cCreateShardGroup("db0", "autogen", c15B.UnixNano(), "B", config.TSSTORE),
		cCreateShardGroup("db0", "rp1", c15B.UnixNano(), "B", config.TSSTORE),
		cCreateSubscription("db0", "autogen", "s0"),
		cCreateSubscription("db0", "rp1", "s0"),
		cCreateEvent("db1$0", "db1", 0, 0))
	return []c15Root{
		{Name: "empty", HA: config.WAFPolicy},
		{Name: "cluster3+db0.autogen.cpu", HA: config.WAFPolicy, Seed: base},
		{Name: "cluster3+db0.autogen.cpu+2groups+user", HA: config.WAFPolicy, Seed: two},
		{Name: "replication:cluster3+db0(3 replicas).autogen.cpu+1group", HA: config.RepPolicy, Seed: repl},
		{Name: "pairs:cluster3+db0,db1+db0.autogen{cpu,mem}+db0.rp1{cpu}+group,subscription in both+event on db1", HA: config.WAFPolicy, Seed: pairs},
	}
}

func c15Menu() []c15Cmd {
	var m []c15Cmd
	add := func(c ...c15Cmd) { m = append(m, c...) }
	hashHost := c15Ski("hash", "hostname")

	// ---- databases
	add(cCreateDbPtView("db0", 1), cCreateDbPtView("db1", 1), cCreateDbPtView("db1", 3))
	add(cCreateDatabase("db0", 1, nil, ""), cCreateDatabase("db1", 1, nil, ""), cCreateDatabase("", 1, nil, ""),
		cCreateDatabase("db1", 1, c15RP("rp1", 48*time.Hour, 0, 1), ",rp1=48h"),
		cCreateDatabase("db1", 1, c15RP("rp1", 30*time.Minute, 0, 1), ",rp1=30m(too low)"),
		cCreateDatabase("db1", 3, nil, ""))
	for _, db := range []string{"db0", "dbX"} {
		add(c15Mk("MarkDatabaseDelete("+db+")", proto2.Command_MarkDatabaseDeleteCommand, proto2.E_MarkDatabaseDeleteCommand_Command, &proto2.MarkDatabaseDeleteCommand{Name: ps(db)}))
		add(c15Mk("DropDatabase("+db+")", proto2.Command_DropDatabaseCommand, proto2.E_DropDatabaseCommand_Command, &proto2.DropDatabaseCommand{Name: ps(db)}))
	}

	// ---- retention policies
	crp := func(db string, rp *proto2.RetentionPolicyInfo, def bool, tag string) c15Cmd {
		return c15Mk(fmt.Sprintf("CreateRetentionPolicy(%s.%s,%s,default=%v)", db, rp.GetName(), tag, def), proto2.Command_CreateRetentionPolicyCommand, proto2.E_CreateRetentionPolicyCommand_Command,
			&proto2.CreateRetentionPolicyCommand{Database: ps(db), RetentionPolicy: rp, DefaultRP: pb(def)})
	}
	add(crp("db0", c15RP("rp1", 0, 0, 1), false, "dur=0"), crp("db0", c15RP("rp1", 48*time.Hour, 0, 1), true, "dur=48h"),
		crp("db0", c15RP("autogen", 0, 0, 1), false, "dur=0"), crp("dbX", c15RP("rp1", 0, 0, 1), false, "dur=0"),
		crp("db0", c15RP("rp1", 0, 0, 2), false, "dur=0,replicaN=2"), crp("db0", c15RP("", 0, 0, 1), false, "noname"))
	for _, a := range [][2]string{{"db0", "autogen"}, {"db0", "rp1"}, {"db0", "rpX"}, {"dbX", "autogen"}} {
		add(c15Mk(fmt.Sprintf("MarkRetentionPolicyDelete(%s.%s)", a[0], a[1]), proto2.Command_MarkRetentionPolicyDeleteCommand, proto2.E_MarkRetentionPolicyDeleteCommand_Command,
			&proto2.MarkRetentionPolicyDeleteCommand{Database: ps(a[0]), Name: ps(a[1])}))
		add(c15Mk(fmt.Sprintf("DropRetentionPolicy(%s.%s)", a[0], a[1]), proto2.Command_DropRetentionPolicyCommand, proto2.E_DropRetentionPolicyCommand_Command,
			&proto2.DropRetentionPolicyCommand{Database: ps(a[0]), Name: ps(a[1])}))
	}
	for _, a := range [][2]string{{"db0", "autogen"}, {"db0", "rp1"}, {"db0", "rpX"}, {"dbX", "rp1"}} {
		add(c15Mk(fmt.Sprintf("SetDefaultRetentionPolicy(%s.%s)", a[0], a[1]), proto2.Command_SetDefaultRetentionPolicyCommand, proto2.E_SetDefaultRetentionPolicyCommand_Command,
			&proto2.SetDefaultRetentionPolicyCommand{Database: ps(a[0]), Name: ps(a[1])}))
	}
	add(cUpdateRP("db0", "autogen", "shardGroupDuration=5d", func(c *proto2.UpdateRetentionPolicyCommand) { c.ShardGroupDuration = pi6(int64(5 * c15Day)) }),
		cUpdateRP("db0", "autogen", "shardGroupDuration=14d", func(c *proto2.UpdateRetentionPolicyCommand) { c.ShardGroupDuration = pi6(int64(14 * c15Day)) }),
		cUpdateRP("db0", "autogen", "shardGroupDuration=1d", func(c *proto2.UpdateRetentionPolicyCommand) { c.ShardGroupDuration = pi6(int64(c15Day)) }),
		cUpdateRP("db0", "autogen", "duration=30d", func(c *proto2.UpdateRetentionPolicyCommand) { c.Duration = pi6(int64(30 * c15Day)) }),
		cUpdateRP("db0", "autogen", "duration=1h,shardGroupDuration=2h(incompatible)", func(c *proto2.UpdateRetentionPolicyCommand) {
			c.Duration = pi6(int64(time.Hour))
			c.ShardGroupDuration = pi6(int64(2 * time.Hour))
		}),
		cUpdateRP("db0", "rp1", "makeDefault", func(c *proto2.UpdateRetentionPolicyCommand) { c.MakeDefault = pb(true) }),
		cUpdateRP("db0", "rpX", "duration=30d", func(c *proto2.UpdateRetentionPolicyCommand) { c.Duration = pi6(int64(30 * c15Day)) }),
		// rename: only to a name that no other command of the menu creates (a rename leaves the map key behind, so
		// creating the new name afterwards yields two policies with one Name and a map-order dependent Marshal)
		cUpdateRP("db0", "autogen", "newName=rp9", func(c *proto2.UpdateRetentionPolicyCommand) { c.NewName = ps("rp9") }))

	// ---- measurements
	add(cCreateMeasurement("db0", "autogen", "cpu", hashHost, "", nil),
		cCreateMeasurement("db0", "autogen", "mem", hashHost, "", nil),
		cCreateMeasurement("db0", "autogen", "cpu", c15Ski("hash", "region"), "", nil),
		cCreateMeasurement("db0", "autogen", "mem", c15Ski("range", "hostname"), "", nil),
		cCreateMeasurement("db0", "rp1", "cpu", c15Ski("range", "hostname"), "", nil),
		cCreateMeasurement("dbX", "autogen", "cpu", hashHost, "", nil),
		cCreateMeasurement("db0", "autogen", "disk", hashHost, ",shards=2,schema,options", func(c *proto2.CreateMeasurementCommand) {
			c.InitNumOfShards = pi3(2)
			c.SchemaInfo = []*proto2.FieldSchema{{FieldName: ps("hostname"), FieldType: pi3(6)}, {FieldName: ps("used"), FieldType: pi3(3)}}
			c.Options = &proto2.Options{Ttl: pi6(int64(3 * c15Day))}
		}),
		cCreateMeasurement("db0", "autogen", "col", hashHost, ",columnstore", func(c *proto2.CreateMeasurementCommand) {
			c.EngineType = pu3(uint32(config.COLUMNSTORE))
			c.ColStoreInfo = &proto2.ColStoreInfo{PrimaryKey: []string{"hostname"}, SortKey: []string{"hostname"}}
			c.SchemaInfo = []*proto2.FieldSchema{{FieldName: ps("hostname"), FieldType: pi3(6)}, {FieldName: ps("v"), FieldType: pi3(3)}}
		}))
	ask := func(db, rp, mst string, ski *proto2.ShardKeyInfo) c15Cmd {
		return c15Mk(fmt.Sprintf("AlterShardKey(%s.%s.%s,%s%v)", db, rp, mst, ski.GetType(), ski.GetShardKey()), proto2.Command_AlterShardKeyCmd, proto2.E_AlterShardKeyCmd_Command,
			&proto2.AlterShardKeyCmd{DBName: ps(db), RpName: ps(rp), Name: ps(mst), Ski: ski})
	}
	add(ask("db0", "autogen", "cpu", c15Ski("hash", "region")), ask("db0", "autogen", "cpu", hashHost), ask("db0", "autogen", "cpu", c15Ski("range", "hostname")),
		ask("db0", "autogen", "mstX", hashHost))
	us := func(db, rp, mst, tag string, fs ...*proto2.FieldSchema) c15Cmd {
		return c15Mk(fmt.Sprintf("UpdateSchema(%s.%s.%s,%s)", db, rp, mst, tag), proto2.Command_UpdateSchemaCommand, proto2.E_UpdateSchemaCommand_Command,
			&proto2.UpdateSchemaCommand{Database: ps(db), RpName: ps(rp), Measurement: ps(mst), FieldToCreate: fs})
	}
	fld := func(n string, typ int32, end int32) *proto2.FieldSchema {
		return &proto2.FieldSchema{FieldName: ps(n), FieldType: pi3(typ), EndTime: pi3(end)}
	}
	add(us("db0", "autogen", "cpu", "f0:float", fld("f0", 3, 0)), us("db0", "autogen", "cpu", "f0:int", fld("f0", 1, 0)),
		us("db0", "autogen", "cpu", "f1:float,f0:int", fld("f1", 3, 0), fld("f0", 1, 0)),
		us("db0", "autogen", "cpu", "hostname:tag,f0:float(endtime)", fld("hostname", 6, 400000000), fld("f0", 3, 400000000)),
		us("db0", "autogen", "mstX", "f0:float", fld("f0", 3, 0)))
	for _, mst := range []string{"cpu", "mstX"} {
		add(c15Mk("MarkMeasurementDelete(db0.autogen."+mst+")", proto2.Command_MarkMeasurementDeleteCommand, proto2.E_MarkMeasurementDeleteCommand_Command,
			&proto2.MarkMeasurementDeleteCommand{Database: ps("db0"), Policy: ps("autogen"), Measurement: ps(mst)}))
		add(c15Mk("DropMeasurement(db0.autogen."+mst+"_0000)", proto2.Command_DropMeasurementCommand, proto2.E_DropMeasurementCommand_Command,
			&proto2.DropMeasurementCommand{Database: ps("db0"), Policy: ps("autogen"), Measurement: ps(mst + "_0000")}))
	}
	add(c15Mk("UpdateMeasurement(db0.autogen.cpu,ttl=3d)", proto2.Command_UpdateMeasurementCommand, proto2.E_UpdateMeasurementCommand_Command,
		&proto2.UpdateMeasurementCommand{Db: ps("db0"), Rp: ps("autogen"), Mst: ps("cpu"), Options: &proto2.Options{Ttl: pi6(int64(3 * c15Day))}}),
		c15Mk("UpdateMeasurement(db0.autogen.mstX,ttl=3d)", proto2.Command_UpdateMeasurementCommand, proto2.E_UpdateMeasurementCommand_Command,
			&proto2.UpdateMeasurementCommand{Db: ps("db0"), Rp: ps("autogen"), Mst: ps("mstX"), Options: &proto2.Options{Ttl: pi6(int64(3 * c15Day))}}))

	// ---- shard groups / index groups
	b := c15B.UnixNano()
	add(cCreateShardGroup("db0", "autogen", c15MinNano, "MinNanoTime", config.TSSTORE),
		cCreateShardGroup("db0", "autogen", b-1, "B-1ns", config.TSSTORE),
		cCreateShardGroup("db0", "autogen", b, "B", config.TSSTORE),
		cCreateShardGroup("db0", "autogen", b+1, "B+1ns", config.TSSTORE),
		cCreateShardGroup("db0", "autogen", b+int64(c15Week), "B+7d", config.TSSTORE),
		cCreateShardGroup("db0", "autogen", c15MaxNano, "MaxNanoTime", config.TSSTORE),
		// the Unix epoch and its neighbours: a group boundary that the wire format encodes as 0 (after
		// UpdateRetentionPolicy(shardGroupDuration=1d|2h) a group starts or ends exactly there)
		cCreateShardGroup("db0", "autogen", 0, "epoch", config.TSSTORE),
		cCreateShardGroup("db0", "autogen", -1, "epoch-1ns", config.TSSTORE),
		cCreateShardGroup("db0", "autogen", b, "B", config.COLUMNSTORE),
		cCreateShardGroup("db0", "rp1", b, "B", config.TSSTORE),
		cCreateShardGroup("db0", "rpX", b, "B", config.TSSTORE),
		cCreateShardGroup("dbX", "autogen", b, "B", config.TSSTORE))
	dsg := func(id uint64, at int64, typ int32, tag string) c15Cmd {
		return c15Mk(fmt.Sprintf("DeleteShardGroup(db0.autogen,id=%d,%s)", id, tag), proto2.Command_DeleteShardGroupCommand, proto2.E_DeleteShardGroupCommand_Command,
			&proto2.DeleteShardGroupCommand{Database: ps("db0"), Policy: ps("autogen"), ShardGroupID: pu6(id), DeletedAt: pi6(at), DeleteType: pi3(typ)})
	}
	add(dsg(1, 0, meta2.MarkDelete, "now"), dsg(2, 0, meta2.MarkDelete, "now"), dsg(1, b+5, meta2.MarkDelete, "deletedAt given"),
		dsg(1, 0, meta2.CancelDelete, "cancel"), dsg(99, 0, meta2.MarkDelete, "now"))
	for _, id := range []uint64{1, 99} {
		add(c15Mk(fmt.Sprintf("DeleteIndexGroup(db0.autogen,id=%d)", id), proto2.Command_DeleteIndexGroupCommand, proto2.E_DeleteIndexGroupCommand_Command,
			&proto2.DeleteIndexGroupCommand{Database: ps("db0"), Policy: ps("autogen"), IndexGroupID: pu6(id)}))
	}
	for _, id := range []uint64{1, 2, 3, 4, 99} {
		add(c15Mk(fmt.Sprintf("PruneGroups(shard,id=%d)", id), proto2.Command_PruneGroupsCommand, proto2.E_PruneGroupsCommand_Command, &proto2.PruneGroupsCommand{ShardGroup: pb(true), ID: pu6(id)}))
	}
	for _, id := range []uint64{1, 2, 3, 99} {
		add(c15Mk(fmt.Sprintf("PruneGroups(index,id=%d)", id), proto2.Command_PruneGroupsCommand, proto2.E_PruneGroupsCommand_Command, &proto2.PruneGroupsCommand{ShardGroup: pb(false), ID: pu6(id)}))
	}
	for _, id := range []uint64{1, 99} {
		add(c15Mk(fmt.Sprintf("UpdateShardInfoTier(db0.autogen,shard=%d,WARM)", id), proto2.Command_UpdateShardInfoTierCommand, proto2.E_UpdateShardInfoTierCommand_Command,
			&proto2.UpdateShardInfoTierCommand{ShardID: pu6(id), Tier: pu6(meta2.StringToTier("WARM")), DbName: ps("db0"), RpName: ps("autogen")}))
		add(c15Mk(fmt.Sprintf("UpdateIndexInfoTier(db0.autogen,index=%d,COLD)", id), proto2.Command_UpdateIndexInfoTierCommand, proto2.E_UpdateIndexInfoTierCommand_Command,
			&proto2.UpdateIndexInfoTierCommand{IndexID: pu6(id), Tier: pu6(meta2.StringToTier("COLD")), DbName: ps("db0"), RpName: ps("autogen")}))
		add(c15Mk(fmt.Sprintf("UpdateShardDownSampleInfo(db0.autogen,shard=%d,level=1)", id), proto2.Command_UpdateShardDownSampleInfoCommand, proto2.E_UpdateShardDownSampleInfoCommand_Command,
			&proto2.UpdateShardDownSampleInfoCommand{Ident: &proto2.ShardIdentifier{ShardID: pu6(id), ShardGroupID: pu6(1), OwnerDb: ps("db0"), OwnerPt: pu3(0), Policy: ps("autogen"),
				ShardType: ps("hash"), DownSampleLevel: pi6(1), DownSampleID: pu6(0), ReadOnly: pb(true)}}))
	}
	add(c15Mk("UpdateIndexInfoTier(db0.autogen,index=2,COLD)", proto2.Command_UpdateIndexInfoTierCommand, proto2.E_UpdateIndexInfoTierCommand_Command,
		&proto2.UpdateIndexInfoTierCommand{IndexID: pu6(2), Tier: pu6(meta2.StringToTier("COLD")), DbName: ps("db0"), RpName: ps("autogen")}))
	for _, a := range []struct {
		id    uint64
		split int64
		name  string
	}{{1, b + int64(c15Day), "B+1d"}, {2, b + int64(8*c15Day), "B+8d"}} {
		add(c15Mk(fmt.Sprintf("ReSharding(db0.autogen,group=%d,split=%s,bounds=[m])", a.id, a.name), proto2.Command_ReShardingCommand, proto2.E_ReShardingCommand_Command,
			&proto2.ReShardingCommand{Database: ps("db0"), RpName: ps("autogen"), ShardGroupID: pu6(a.id), SplitTime: pi6(a.split), ShardBounds: []string{"m"}}))
	}
	add(c15Mk("ReplaceMergeShards(db0.autogen,pt=0,shards=[1,4])", proto2.Command_ReplaceMergeShardsCommand, proto2.E_ReplaceMergeShardsCommand_Command,
		&proto2.ReplaceMergeShardsCommand{Db: ps("db0"), Rp: ps("autogen"), PtId: pu3(0), ShardId: []uint64{1, 4}}),
		c15Mk("ReplaceMergeShards(db0.autogen,pt=0,shards=[4,1])", proto2.Command_ReplaceMergeShardsCommand, proto2.E_ReplaceMergeShardsCommand_Command,
			&proto2.ReplaceMergeShardsCommand{Db: ps("db0"), Rp: ps("autogen"), PtId: pu3(0), ShardId: []uint64{4, 1}}),
		c15Mk("ReplaceMergeShards(db0.rpX,pt=0,shards=[1,4])", proto2.Command_ReplaceMergeShardsCommand, proto2.E_ReplaceMergeShardsCommand_Command,
			&proto2.ReplaceMergeShardsCommand{Db: ps("db0"), Rp: ps("rpX"), PtId: pu3(0), ShardId: []uint64{1, 4}}))
	add(c15Mk("ExpandGroups()", proto2.Command_ExpandGroupsCommand, proto2.E_ExpandGroupsCommand_Command, &proto2.ExpandGroupsCommand{}))

	// ---- nodes
	add(cCreateDataNode("127.0.0.4:8400", "127.0.0.4:8401", ""), cCreateDataNode("127.0.0.1:8400", "127.0.0.1:8401", ""),
		cCreateDataNode("127.0.0.5:8400", "127.0.0.5:8401", "reader"))
	for _, h := range []string{"127.0.0.9:8086"} {
		add(c15Mk("CreateSqlNode("+h+")", proto2.Command_CreateSqlNodeCommand, proto2.E_CreateSqlNodeCommand_Command, &proto2.CreateSqlNodeCommand{HTTPAddr: ps(h), GossipAddr: ps("127.0.0.9:8012")}))
	}
	add(c15Mk("CreateMetaNode(127.0.0.7)", proto2.Command_CreateMetaNodeCommand, proto2.E_CreateMetaNodeCommand_Command,
		&proto2.CreateMetaNodeCommand{HTTPAddr: ps("127.0.0.7:8091"), RPCAddr: ps("127.0.0.7:8092"), TCPAddr: ps("127.0.0.7:8088"), Rand: pu6(4711)}),
		c15Mk("CreateMetaNode(127.0.0.1,tcp of data node 1)", proto2.Command_CreateMetaNodeCommand, proto2.E_CreateMetaNodeCommand_Command,
			&proto2.CreateMetaNodeCommand{HTTPAddr: ps("127.0.0.1:8091"), RPCAddr: ps("127.0.0.1:8092"), TCPAddr: ps("127.0.0.1:8401"), Rand: pu6(4712)}),
		c15Mk("SetMetaNode(127.0.0.8)", proto2.Command_SetMetaNodeCommand, proto2.E_SetMetaNodeCommand_Command,
			&proto2.SetMetaNodeCommand{HTTPAddr: ps("127.0.0.8:8091"), RPCAddr: ps("127.0.0.8:8092"), TCPAddr: ps("127.0.0.8:8088"), Rand: pu6(4713)}))
	for _, id := range []uint64{0, 4, 99} {
		add(c15Mk(fmt.Sprintf("DeleteMetaNode(%d)", id), proto2.Command_DeleteMetaNodeCommand, proto2.E_DeleteMetaNodeCommand_Command, &proto2.DeleteMetaNodeCommand{ID: pu6(id)}))
	}
	add(c15Mk("DeleteDataNode(1)", proto2.Command_DeleteDataNodeCommand, proto2.E_DeleteDataNodeCommand_Command, &proto2.DeleteDataNodeCommand{ID: pu6(1)}))
	add(cUpdateNodeStatus(1, 1, 2), cUpdateNodeStatus(1, 4 /* failed */, 2), cUpdateNodeStatus(1, 1, 0), cUpdateNodeStatus(4, 1, 1), cUpdateNodeStatus(99, 1, 1))
	for _, id := range []uint64{4, 99} {
		add(c15Mk(fmt.Sprintf("UpdateSqlNodeStatus(node=%d,alive)", id), proto2.Command_UpdateSqlNodeStatusCommand, proto2.E_UpdateSqlNodeStatusCommand_Command,
			&proto2.UpdateSqlNodeStatusCommand{ID: pu6(id), Status: pi3(1), Ltime: pu6(1), GossipAddr: ps("8012")}))
		add(c15Mk(fmt.Sprintf("UpdateMetaNodeStatus(node=%d,alive)", id), proto2.Command_UpdateMetaNodeStatusCommand, proto2.E_UpdateMetaNodeStatusCommand_Command,
			&proto2.UpdateMetaNodeStatusCommand{ID: pu6(id), Status: pi3(1), Ltime: pu6(1), GossipAddr: ps("8010")}))
	}
	add(c15Mk("SetNodeSegregateStatus(node=1,status=1)", proto2.Command_SetNodeSegregateStatusCommand, proto2.E_SetNodeSegregateStatusCommand_Command,
		&proto2.SetNodeSegregateStatusCommand{Status: []uint64{1}, NodeIds: []uint64{1}}),
		c15Mk("SetNodeSegregateStatus(node=99,status=1)", proto2.Command_SetNodeSegregateStatusCommand, proto2.E_SetNodeSegregateStatusCommand_Command,
			&proto2.SetNodeSegregateStatusCommand{Status: []uint64{1}, NodeIds: []uint64{99}}))
	for _, id := range []uint64{3, 99} {
		add(c15Mk(fmt.Sprintf("RemoveNode(%d)", id), proto2.Command_RemoveNodeCommand, proto2.E_RemoveNodeCommand_Command, &proto2.RemoveNodeCommand{NodeIds: []uint64{id}}))
	}
	add(c15Mk("VerifyDataNode(1)", proto2.Command_VerifyDataNodeCommand, proto2.E_VerifyDataNodeCommand_Command, &proto2.VerifyDataNodeCommand{NodeID: pu6(1)}))
	for _, a := range [][3]uint64{{uint64(meta2.STORE), 7, 1}, {uint64(meta2.SQL), 7, 4}, {uint64(meta2.STORE), 7, 99}, {uint64(meta2.META), 7, 1}} {
		add(c15Mk(fmt.Sprintf("UpdateNodeTmpIndex(role=%d,index=%d,node=%d)", a[0], a[1], a[2]), proto2.Command_UpdateNodeTmpIndexCommand, proto2.E_UpdateNodeTmpIndexCommand_Command,
			&proto2.UpdateNodeTmpIndexCommand{Role: pi3(int32(a[0])), Index: pu6(a[1]), NodeId: pu6(a[2])}))
	}

	// ---- partitions, events, switches
	upi := func(db string, pt uint32, curOwner uint64, curStatus uint32, newOwner uint64, newStatus uint32) c15Cmd {
		return c15Mk(fmt.Sprintf("UpdatePtInfo(%s,pt=%d,expect owner=%d status=%d,set owner=%d status=%d)", db, pt, curOwner, curStatus, newOwner, newStatus),
			proto2.Command_UpdatePtInfoCommand, proto2.E_UpdatePtInfoCommand_Command,
			&proto2.UpdatePtInfoCommand{Db: ps(db), Pt: &proto2.PtInfo{Owner: &proto2.PtOwner{NodeID: pu6(curOwner)}, Status: pu3(curStatus), PtId: pu3(pt)}, OwnerNode: pu6(newOwner), Status: pu3(newStatus)})
	}
	add(upi("db0", 0, 1, uint32(meta2.Offline), 1, uint32(meta2.Online)), upi("db0", 1, 2, uint32(meta2.Offline), 2, uint32(meta2.Online)),
		upi("db0", 0, 1, uint32(meta2.Online), 2, uint32(meta2.Offline)), upi("db0", 9, 1, uint32(meta2.Offline), 1, uint32(meta2.Online)),
		upi("dbX", 0, 1, uint32(meta2.Offline), 1, uint32(meta2.Online)))
	for _, a := range []struct {
		db string
		pt uint32
	}{{"db0", 0}, {"db0", 9}, {"dbX", 0}} {
		add(c15Mk(fmt.Sprintf("UpdatePtVersion(%s,pt=%d)", a.db, a.pt), proto2.Command_UpdatePtVersionCommand, proto2.E_UpdatePtVersionCommand_Command,
			&proto2.UpdatePtVersionCommand{Db: ps(a.db), Pt: pu3(a.pt)}))
	}
	ev := func(id string, db string, pt uint32, opId uint64, cur, pre int32, check bool) *proto2.MigrateEventInfo {
		return &proto2.MigrateEventInfo{EventId: ps(id), EventType: pi3(0), OpId: pu6(opId),
			Pti:       &proto2.DbPt{Db: ps(db), Pt: &proto2.PtInfo{Owner: &proto2.PtOwner{NodeID: pu6(1)}, Status: pu3(uint32(meta2.Offline)), PtId: pu3(pt)}},
			CurrState: pi3(cur), PreState: pi3(pre), Src: pu6(1), Dest: pu6(2), CheckConflict: pb(check), AliveConnId: pu6(1)}
	}
	add(c15Mk("CreateEvent(db0$0,state=0)", proto2.Command_CreateEventCommand, proto2.E_CreateEventCommand_Command, &proto2.CreateEventCommand{EventInfo: ev("db0$0", "db0", 0, 0, 0, 0, true)}),
		c15Mk("CreateEvent(db0$0,state=1)", proto2.Command_CreateEventCommand, proto2.E_CreateEventCommand_Command, &proto2.CreateEventCommand{EventInfo: ev("db0$0", "db0", 0, 0, 1, 0, true)}),
		c15Mk("CreateEvent(dbX$0,state=0)", proto2.Command_CreateEventCommand, proto2.E_CreateEventCommand_Command, &proto2.CreateEventCommand{EventInfo: ev("dbX$0", "dbX", 0, 0, 0, 0, true)}),
		c15Mk("UpdateEvent(db0$0,op=1,cur=2,pre=1)", proto2.Command_UpdateEventCommand, proto2.E_UpdateEventCommand_Command, &proto2.UpdateEventCommand{EventInfo: ev("db0$0", "db0", 0, 1, 2, 1, false)}),
		c15Mk("UpdateEvent(db0$0,op=9,cur=2,pre=1)", proto2.Command_UpdateEventCommand, proto2.E_UpdateEventCommand_Command, &proto2.UpdateEventCommand{EventInfo: ev("db0$0", "db0", 0, 9, 2, 1, false)}),
		c15Mk("RemoveEvent(db0$0)", proto2.Command_RemoveEventCommand, proto2.E_RemoveEventCommand_Command, &proto2.RemoveEventCommand{EventId: ps("db0$0")}),
		c15Mk("RemoveEvent(dbX$0)", proto2.Command_RemoveEventCommand, proto2.E_RemoveEventCommand_Command, &proto2.RemoveEventCommand{EventId: ps("dbX$0")}))
	for _, en := range []bool{false, true} {
		add(c15Mk(fmt.Sprintf("MarkTakeover(%v)", en), proto2.Command_MarkTakeoverCommand, proto2.E_MarkTakeoverCommand_Command, &proto2.MarkTakeoverCommand{Enable: pb(en)}))
	}
	add(c15Mk("MarkBalancer(false)", proto2.Command_MarkBalancerCommand, proto2.E_MarkBalancerCommand_Command, &proto2.MarkBalancerCommand{Enable: pb(false)}))
	add(c15Mk("UpdateReplication(db0,rg=0,master=0,peers=[1:slave,2:catcher])", proto2.Command_UpdateReplicationCommand, proto2.E_UpdateReplicationCommand_Command,
		&proto2.UpdateReplicationCommand{Database: ps("db0"), RepGroupId: pu3(0), MasterId: pu3(0), Peers: []*proto2.Peer{{ID: pu3(1), Role: pu3(uint32(meta2.Slave))}, {ID: pu3(2), Role: pu3(uint32(meta2.Catcher))}}}),
		c15Mk("UpdateReplication(db0,rg=0,master=1,peers=[0:slave,2:slave])", proto2.Command_UpdateReplicationCommand, proto2.E_UpdateReplicationCommand_Command,
			&proto2.UpdateReplicationCommand{Database: ps("db0"), RepGroupId: pu3(0), MasterId: pu3(1), Peers: []*proto2.Peer{{ID: pu3(0), Role: pu3(uint32(meta2.Slave))}, {ID: pu3(2), Role: pu3(uint32(meta2.Slave))}}}),
		c15Mk("UpdateReplication(dbX,rg=0,master=0)", proto2.Command_UpdateReplicationCommand, proto2.E_UpdateReplicationCommand_Command,
			&proto2.UpdateReplicationCommand{Database: ps("dbX"), RepGroupId: pu3(0), MasterId: pu3(0)}))

	// ---- users
	add(cCreateUser("u1", "h1", false, true), cCreateUser("u2", "h2", false, false), cCreateUser("admin", "ha", true, true), cCreateUser("admin2", "hb", true, true), cCreateUser("", "h", false, false))
	for _, u := range []string{"u1", "admin", "uX"} {
		add(c15Mk("DropUser("+u+")", proto2.Command_DropUserCommand, proto2.E_DropUserCommand_Command, &proto2.DropUserCommand{Name: ps(u)}))
	}
	for _, a := range [][2]string{{"u1", "h1"}, {"u1", "h9"}, {"uX", "h9"}} {
		add(c15Mk(fmt.Sprintf("UpdateUser(%s,hash=%s)", a[0], a[1]), proto2.Command_UpdateUserCommand, proto2.E_UpdateUserCommand_Command, &proto2.UpdateUserCommand{Name: ps(a[0]), Hash: ps(a[1])}))
	}
	for _, a := range [][2]string{{"u1", "db0"}, {"u1", "db1"}, {"u1", "dbX"}, {"uX", "db0"}} {
		add(c15Mk(fmt.Sprintf("SetPrivilege(%s,%s,READ)", a[0], a[1]), proto2.Command_SetPrivilegeCommand, proto2.E_SetPrivilegeCommand_Command,
			&proto2.SetPrivilegeCommand{Username: ps(a[0]), Database: ps(a[1]), Privilege: pi3(1)}))
	}
	for _, u := range []string{"u1", "uX"} {
		add(c15Mk("SetAdminPrivilege("+u+",true)", proto2.Command_SetAdminPrivilegeCommand, proto2.E_SetAdminPrivilegeCommand_Command, &proto2.SetAdminPrivilegeCommand{Username: ps(u), Admin: pb(true)}))
	}

	// ---- subscriptions
	for _, a := range [][3]string{{"db0", "autogen", "s0"}, {"db0", "rp1", "s0"}, {"db0", "rpX", "s0"}} {
		add(c15Mk(fmt.Sprintf("CreateSubscription(%s.%s,%s)", a[0], a[1], a[2]), proto2.Command_CreateSubscriptionCommand, proto2.E_CreateSubscriptionCommand_Command,
			&proto2.CreateSubscriptionCommand{Name: ps(a[2]), Database: ps(a[0]), RetentionPolicy: ps(a[1]), Mode: ps("ALL"), Destinations: []string{"udp://127.0.0.1:9000"}}))
	}
	for _, a := range [][3]string{{"db0", "autogen", "s0"}, {"db0", "autogen", "sX"}, {"", "", ""}, {"db0", "", ""}, {"db0", "", "s0"}, {"dbX", "autogen", "s0"}} {
		add(c15Mk(fmt.Sprintf("DropSubscription(db=%q,rp=%q,name=%q)", a[0], a[1], a[2]), proto2.Command_DropSubscriptionCommand, proto2.E_DropSubscriptionCommand_Command,
			&proto2.DropSubscriptionCommand{Name: ps(a[2]), Database: ps(a[0]), RetentionPolicy: ps(a[1])}))
	}

	// ---- streams, continuous queries, downsampling, query ids
	stream := func(name, db, src, des string, delay time.Duration, dims ...string) *proto2.StreamInfo {
		return &proto2.StreamInfo{Name: ps(name), ID: pu6(0), SrcMst: &proto2.StreamMeasurementInfo{Name: ps(src), Database: ps(db), RetentionPolicy: ps("autogen")},
			DesMst: &proto2.StreamMeasurementInfo{Name: ps(des), Database: ps(db), RetentionPolicy: ps("autogen")}, Interval: pi6(int64(time.Minute)), Delay: pi6(int64(delay)), Dims: dims,
			Calls: []*proto2.StreamCall{{Call: ps("sum"), Field: ps("f0"), Alias: ps("sum_f0")}}}
	}
	add(c15Mk("CreateStream(st0,db0.autogen.cpu->mem,delay=10s)", proto2.Command_CreateStreamCommand, proto2.E_CreateStreamCommand_Command, &proto2.CreateStreamCommand{StreamInfo: stream("st0", "db0", "cpu", "mem", 10*time.Second, "hostname")}),
		c15Mk("CreateStream(st0,db0.autogen.cpu->mem,delay=20s)", proto2.Command_CreateStreamCommand, proto2.E_CreateStreamCommand_Command, &proto2.CreateStreamCommand{StreamInfo: stream("st0", "db0", "cpu", "mem", 20*time.Second, "hostname")}),
		c15Mk("CreateStream(st1,dbX.autogen.cpu->mem,delay=10s)", proto2.Command_CreateStreamCommand, proto2.E_CreateStreamCommand_Command, &proto2.CreateStreamCommand{StreamInfo: stream("st1", "dbX", "cpu", "mem", 10*time.Second, "hostname")}))
	for _, n := range []string{"st0", "stX"} {
		add(c15Mk("DropStream("+n+")", proto2.Command_DropStreamCommand, proto2.E_DropStreamCommand_Command, &proto2.DropStreamCommand{Name: ps(n)}))
	}
	q1 := `CREATE CONTINUOUS QUERY "cq0" ON "db0" RESAMPLE EVERY 2h FOR 30m BEGIN SELECT max("f0") INTO "max_f0" FROM "cpu" GROUP BY time(10m) END`
	q2 := `CREATE CONTINUOUS QUERY "cq0" ON "db0" RESAMPLE EVERY 1h FOR 20m BEGIN SELECT max("f0") INTO "max_f0" FROM "cpu" GROUP BY time(1m) END`
	for _, a := range [][3]string{{"db0", "cq0", q1}, {"db0", "cq0", q2}, {"db0", "cq1", q1}, {"dbX", "cq0", q1}} {
		tag := "q1"
		if a[2] == q2 {
			tag = "q2"
		}
		add(c15Mk(fmt.Sprintf("CreateContinuousQuery(%s,%s,%s)", a[0], a[1], tag), proto2.Command_CreateContinuousQueryCommand, proto2.E_CreateContinuousQueryCommand_Command,
			&proto2.CreateContinuousQueryCommand{Database: ps(a[0]), Name: ps(a[1]), Query: ps(a[2])}))
	}
	add(c15Mk("ContinuousQueryReport(cq0@B,cqX@B)", proto2.Command_ContinuousQueryReportCommand, proto2.E_ContinuousQueryReportCommand_Command,
		&proto2.ContinuousQueryReportCommand{CQStates: []*proto2.CQState{{Name: ps("cq0"), LastRunTime: pi6(b)}, {Name: ps("cqX"), LastRunTime: pi6(b)}}}))
	for _, a := range [][2]string{{"cq0", "db0"}, {"cqX", "db0"}, {"cq0", "dbX"}} {
		add(c15Mk(fmt.Sprintf("DropContinuousQuery(%s,%s)", a[0], a[1]), proto2.Command_DropContinuousQueryCommand, proto2.E_DropContinuousQueryCommand_Command,
			&proto2.DropContinuousQueryCommand{Name: ps(a[0]), Database: ps(a[1])}))
	}
	add(c15Mk("NotifyCQLeaseChanged()", proto2.Command_NotifyCQLeaseChangedCommand, proto2.E_NotifyCQLeaseChangedCommand_Command, &proto2.NotifyCQLeaseChangedCommand{}))
	dsInfo := &proto2.DownSamplePolicyInfo{Duration: pi6(int64(30 * c15Day)), TaskID: pu6(0),
		Calls:              []*proto2.DownSampleOperators{{AggOps: []string{"max"}, DataType: pi6(3)}},
		DownSamplePolicies: []*proto2.DownSamplePolicy{{SampleInterval: pi6(int64(c15Day)), TimeInterval: pi6(int64(time.Minute)), WaterMark: pi6(int64(time.Hour))}}}
	for _, a := range [][2]string{{"db0", "autogen"}, {"db0", "rpX"}, {"dbX", "autogen"}} {
		add(c15Mk(fmt.Sprintf("CreateDownSamplePolicy(%s.%s,30d)", a[0], a[1]), proto2.Command_CreateDownSamplePolicyCommand, proto2.E_CreateDownSamplePolicyCommand_Command,
			&proto2.CreateDownSamplePolicyCommand{DownSamplePolicyInfo: dsInfo, Database: ps(a[0]), Name: ps(a[1])}))
	}
	for _, a := range []struct {
		db, rp string
		all    bool
	}{{"db0", "autogen", false}, {"db0", "autogen", true}, {"dbX", "autogen", true}} {
		add(c15Mk(fmt.Sprintf("DropDownSamplePolicy(%s.%s,all=%v)", a.db, a.rp, a.all), proto2.Command_DropDownSamplePolicyCommand, proto2.E_DropDownSamplePolicyCommand_Command,
			&proto2.DropDownSamplePolicyCommand{Database: ps(a.db), RpName: ps(a.rp), DropAll: pb(a.all)}))
	}
	for _, h := range []string{"127.0.0.9:8086", "127.0.0.10:8086"} {
		add(c15Mk("RegisterQueryIDOffset("+h+")", proto2.Command_RegisterQueryIDOffsetCommand, proto2.E_RegisterQueryIDOffsetCommand_Command, &proto2.RegisterQueryIDOffsetCommand{Host: ps(h)}))
	}
	add(c15Mk("InsertFiles(1 file)", proto2.Command_InsertFilesCommand, proto2.E_InsertFilesCommand_Command,
		&proto2.InsertFilesCommand{FileInfos: []*proto2.FileInfo{{Sequence: pu6(1), MstID: pu6(0), ShardID: pu6(1)}}}))

	// ---- wholesale replacement
	{
		d := &meta2.Data{PtNumPerNode: 1, TakeOverEnabled: true, BalancerEnabled: true, ClusterPtNum: 1, MaxNodeID: 1, MaxShardGroupID: 1, MaxShardID: 1, MaxIndexGroupID: 1, MaxIndexID: 1}
		c := c15Mk("SetData(small catalogue)", proto2.Command_SetDataCommand, proto2.E_SetDataCommand_Command, &proto2.SetDataCommand{Data: d.Marshal()})
		c.Hist = true
		add(c)
		r := c15Mk("RecoverMetaData(invalid json)", proto2.Command_RecoverMetaData, proto2.E_RecoverMetaDataCommand_Command, &proto2.RecoverMetaDataCommand{MetaData: []byte("{")})
		r.Hist = true
		add(r)
		r2 := c15Mk("RecoverMetaData(db0 from empty catalogue)", proto2.Command_RecoverMetaData, proto2.E_RecoverMetaDataCommand_Command,
			&proto2.RecoverMetaDataCommand{Databases: []string{"db0"}, MetaData: []byte("{}")})
		r2.Hist = true
		add(r2)
	}
	return m
}
