//go:build verif

package engine_test

// Glue of the C14 harness: package engine cannot import services/retention in its own test files
// (retention imports engine), the external test package can. It hands the in-package harness a
// constructor for the REAL retention service wired to the harness catalogue adapter and the real
// engine; the returned functions are Service.handle and a rendering of what the service remembers
// between two checks (for the state digest).

import (
	"time"

	"github.com/openGemini/openGemini/engine"
	"github.com/openGemini/openGemini/services/retention"
)

func init() {
	engine.VerifC14NewService = func(mc engine.VerifC14MetaClient, e engine.VerifC14Engine, interval time.Duration) (func(), func() string) {
		s := retention.NewService(interval)
		s.MetaClient = mc
		s.Engine = e
		return s.VerifHandle, s.VerifHiddenState
	}
}
