//go:build verif

package engine

import (
	"bytes"
	"runtime"
	"strconv"
	"sync/atomic"

	"github.com/influxdata/influxdb/toml"
	"github.com/openGemini/openGemini/lib/config"
)

// C04, scenarios on the snapshot / flush / drop seams.
//
// The background flush of a shard is the goroutine shard.Snapshot(): every 100 ms it evaluates
// shouldSnapshot() (memtable above config.GetShardMemTableSizeLimit(), or shard write-cold) and, if true, runs
// writeSnapshot + endSnapshot. That goroutine is created by OpenAndEnable, i.e. before a controlled execution
// starts, so for the scheduler it is an outsider that passes through; and with the default limit (30 MB minimum)
// shouldSnapshot() is never true for the few rows of a scenario. Here ONE TICK of that loop is an explicit
// thread of the scenario - the same three calls on the real shard - and the memtable limit is lowered to one
// byte for the concurrent phase, which stands for "the memtable has outgrown its limit" (the only reader of
// the limit is MemTable.NeedFlush, called from shard.shouldSnapshot only).
//
// The shard's own ticker goroutine must not ALSO flush inside the execution (it would do so uncontrolled,
// whenever virtual time passes a multiple of 100 ms): the shard's Storage is wrapped for the concurrent phase by
// c04GatedStorage, which answers shouldSnapshot() = false to every goroutine except the scenario's tick thread
// and delegates everything else to the real tsstoreImpl. The own ticker therefore keeps taking and releasing
// snapshotLock.RLock on its ticks (as an outsider, as in every other scenario) and never starts a snapshot: an
// execution contains at most the one background snapshot that the tick thread performs.

func c04Goid() int64 {
	var buf [64]byte
	b := buf[:runtime.Stack(buf[:], false)]
	b = bytes.TrimPrefix(b, []byte("goroutine "))
	if i := bytes.IndexByte(b, ' '); i > 0 {
		n, _ := strconv.ParseInt(string(b[:i]), 10, 64)
		return n
	}
	return -1
}

type c04GatedStorage struct {
	Storage
	allow atomic.Int64 // goroutine id of the tick thread (0 = nobody)
}

func (g *c04GatedStorage) shouldSnapshot(s *shard) bool {
	if c04Goid() != g.allow.Load() {
		return false
	}
	return g.Storage.shouldSnapshot(s)
}

// c04SnapSetup lowers the memtable limit and gates the shard's own ticker; returns the undo.
func c04SnapSetup(v *vShard) func() {
	sh := v.sh
	mc := config.GetMemTableConfig()
	old := mc.ShardMutableSizeLimit
	// config.SetShardMemTableSizeLimit clamps to 30 MB; the field is set directly (scale-down of "30 MB written")
	mc.ShardMutableSizeLimit = toml.Size(1)
	orig := sh.storage
	sh.storage = &c04GatedStorage{Storage: orig}
	return func() {
		mc.ShardMutableSizeLimit = old
		// the gate stays in place until the shard is closed (the own ticker must not flush after the phase
		// either: the final dump is compared with the history, not with a layout, so it would be harmless, but
		// executions are to be replayable); with the default limit restored NeedFlush is false anyway
		if g, ok := sh.storage.(*c04GatedStorage); ok {
			g.allow.Store(0)
		}
	}
}

// c04SnapshotTick is exactly the body of one firing of the ticker case in shard.Snapshot().
func c04SnapshotTick(v *vShard) func() {
	return func() {
		s := v.sh
		if g, ok := s.storage.(*c04GatedStorage); ok {
			g.allow.Store(c04Goid())
		}
		if !s.shouldSnapshot() {
			return
		}
		s.storage.writeSnapshot(s)
		s.endSnapshot()
	}
}

// c04SnapSeam: the acquisitions of shard.snapshotLock (force-flush flag, table switch, recycling of the snapshot
// table, the reader's and the writer's view) and the publication of flushed files.
var c04SnapSeam = []string{
	"engine.(*shard).enableForceFlush", "engine.(*shard).disableForceFlush", "engine.(*shard).shouldSnapshot",
	"engine.(*tsstoreImpl).writeSnapshot", "engine.(*shard).cloneReaders", "engine.(*shard).writeRows",
	"immutable.(*tsImmTableImpl).AddBothTSSPFiles", "immutable.(*tsImmTableImpl).makeTSSPFiles",
	"immutable.(*MmsTables).GetBothFilesRef",
}

func init() {
	// these scenarios are small (delay-bounded or two threads) and come first, so that a cut run has completed them
	added := []c04Scenario{
		// background snapshot tick || ForceFlush || reader. Preload: one flushed file and a non-empty memtable.
		c04Scenario{Name: "S6_snap_flush_read", Preload: []string{"Wa", "F", "We"}, Setup: c04SnapSetup,
			Seam: &c04Seam{Funcs: c04SnapSeam, FreeQuick: 1, FreeDeep: 2},
			Threads: func(v *vShard, l *c04Log) map[string]func() {
				return map[string]func(){
					"1flush":  func() { v.Flush() },
					"2snap":   c04SnapshotTick(v),
					"3reader": func() { l.dump(v); l.dump(v) },
				}
			}},
		// the same with a writer: what the two flushes leave behind is judged by the dump after the join
		c04Scenario{Name: "S7_snap_flush_write", Preload: []string{"Wa", "F", "We"}, Setup: c04SnapSetup,
			Seam: &c04Seam{Funcs: c04SnapSeam, FreeQuick: 1, FreeDeep: 2},
			Threads: func(v *vShard, l *c04Log) map[string]func() {
				return map[string]func(){
					"1flush":  func() { v.Flush() },
					"2snap":   c04SnapshotTick(v),
					"3writer": func() { l.write(v, 10, c04Gen("Wc", 10)) },
				}
			}},
		// DropMeasurement(m) || reader(m) || writer(m), shard stays open. Oracle leniency (c04Log.dropStartedBefore):
		// from the start of the drop on, rows of m may be absent and a query of m may be refused; what IS returned must
		// have been written; no panic, no deadlock.
		c04Scenario{Name: "S8a_drop_read_write", Preload: []string{"We", "F", "Wa"},
			Seam: &c04Seam{FreeQuick: 1, FreeDeep: 2},
			Threads: func(v *vShard, l *c04Log) map[string]func() {
				return map[string]func(){
					"1drop":   func() { l.drop(v, "m") },
					"2reader": func() { l.dump(v); l.dump(v) },
					"3writer": func() { l.write(v, 10, c04Gen("Wc", 10)) },
				}
			}},
		// DropMeasurement(m2) || reader(m) || writer(m): dropping ANOTHER measurement (which flushes the whole memtable)
		// must not cost m anything - the full oracle applies to m
		c04Scenario{Name: "S8b_dropother_read_write", Preload: []string{"Wg", "We", "F", "Wa"},
			Seam: &c04Seam{FreeQuick: 1, FreeDeep: 2},
			Threads: func(v *vShard, l *c04Log) map[string]func() {
				return map[string]func(){
					"1drop":   func() { l.drop(v, "m2") },
					"2reader": func() { l.dump(v); l.dump(v) },
					"3writer": func() { l.write(v, 10, c04Gen("Wc", 10)) },
				}
			}},
		// full compaction of two ordered files || reader
		c04Scenario{Name: "S9_fullcompact_read", Preload: []string{"Wa", "F", "We", "F"},
			Threads: func(v *vShard, l *c04Log) map[string]func() {
				return map[string]func(){
					"1fullcompact": func() { _ = v.FullCompact() },
					"2reader":      func() { l.dump(v); l.dump(v) },
				}
			}},
	}
	all := map[string]c04Scenario{}
	for _, sc := range append(added, c04Scenarios...) {
		all[sc.Name] = sc
	}
	// order of exploration inside one bound: the small ones first, so that a run cut by its deadline has completed them
	order := []string{"S6_snap_flush_read", "S7_snap_flush_write", "S3_read_merge_write", "S8b_dropother_read_write",
		"S8a_drop_read_write", "S9_fullcompact_read", "S1_write_flush_read", "S5_two_writers_read", "S4a_write_close",
		"S4b_read_close", "S4c_flush_close", "S4d_drop_close", "S2_read_compact_flush"}
	if len(order) != len(all) {
		panic("c04: scenario order list out of date")
	}
	c04Scenarios = c04Scenarios[:0]
	for _, n := range order {
		c04Scenarios = append(c04Scenarios, all[n])
	}
}
