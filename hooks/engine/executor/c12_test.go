//go:build verif

package executor

// C12, part 3: the serialisation seams of engine/executor.
//
//   chunks   ChunkImpl.Marshal / Unmarshal (chunk_codec.gen.go): every column type, every null pattern of
//            length <= 4, one and two columns, with / without tags, interval index and dimension columns
//   plans    MarshalBinary / UnmarshalBinary (logic_plan_codec.go) for every chain of plan operators of
//            bounded length over LogicalSeries built with the package's constructors (as its tests do),
//            and MarshalQueryNode / UnmarshalQueryNode for the shapes the package's own codec tests use
//   schema   query.EncodeQuerySchema / DecodeQuerySchema (the |schema|node| message of MarshalQueryNode)
//            with the field list of every accepted text of the C12 codec grammar; hybridqp.ExprOptions too
//   rpc      RemoteQuery.Marshal / Unmarshal (rpc_message.go): every member with a small alphabet
// Oracle: decoded object == original (observed through accessors; expressions as canonical typed trees).

import (
	"fmt"
	"math"
	"reflect"
	"runtime/debug"
	"strconv"
	"strings"
	"testing"
	"time"

	"github.com/openGemini/openGemini/engine/hybridqp"
	"github.com/openGemini/openGemini/lib/util/lifted/influx/influxql"
	"github.com/openGemini/openGemini/lib/util/lifted/influx/query"
	internal "github.com/openGemini/openGemini/lib/util/lifted/influx/query/proto"
	"github.com/openGemini/openGemini/lib/util/lifted/vm/protoparser/influx"
	kit "github.com/openGemini/openGemini/lib/verifkit"
	"google.golang.org/protobuf/proto"
)

type c12xCase struct {
	Part  string   `json:"part"` // chunks | plans | querynode | schema | expropt | rpc
	Text  string   `json:"text,omitempty"`
	Chunk *c12xCk  `json:"chunk,omitempty"`
	Chain []string `json:"chain,omitempty"`
	Field string   `json:"field,omitempty"`
	Index int      `json:"index"`
}

type c12x struct {
	rep  *kit.Report
	kept map[string]int
}

func (c *c12x) vio(kind, key string, cs c12xCase, detail func() string) {
	if c.kept == nil {
		c.kept = map[string]int{}
	}
	c.kept[kind]++
	d := ""
	if c.kept[kind] <= 8 {
		d = detail()
	}
	c.rep.Count("kind_"+kind, 1)
	c.rep.Count("violations_part_"+cs.Part, 1)
	c.rep.Violation(kind, key, d, cs)
}

func (c *c12x) vios(kinds []string, fallback, key string, cs c12xCase, detail func() string) {
	if len(kinds) == 0 {
		c.vio(fallback, key, cs, detail)
		return
	}
	for _, k := range kinds {
		c.vio(k, key, cs, detail)
	}
}

// ---------------------------------------------------------------- chunks

// c12xCk describes one chunk: columns (type + presence pattern), tag sets, interval index, dimension column.
type c12xCk struct {
	Rows     int      `json:"rows"`
	Types    []int    `json:"types"`    // influxql.DataType per column
	Patterns []uint   `json:"patterns"` // bit i set = row i has a value
	Tags     int      `json:"tags"`     // number of tag sets (0..2)
	Interval int      `json:"interval"` // 0 none, 1 one bucket, 2 every row its own bucket
	Dim      bool     `json:"dim"`
	Name     string   `json:"name"`
	_        struct{} `json:"-"`
}

var c12xTypes = []influxql.DataType{influxql.Float, influxql.Integer, influxql.String, influxql.Boolean, influxql.FloatTuple}
var c12xFloats = []float64{1.5, math.Copysign(0, -1), math.MaxFloat64, math.Inf(-1), math.NaN(), 0}
var c12xInts = []int64{7, -1, math.MaxInt64, math.MinInt64, 0}
var c12xStrs = []string{"a", "", "héllo\x00w", "x y,z=1", "'\"\\"}
var c12xBools = []bool{true, false, false, true}
var c12xTimes = []int64{1, math.MinInt64, math.MaxInt64, 0, 1700000000000000000}

func c12xBuildChunk(d *c12xCk) Chunk {
	refs := make([]influxql.VarRef, len(d.Types))
	for i, t := range d.Types {
		refs[i] = influxql.VarRef{Val: "c" + strconv.Itoa(i), Type: influxql.DataType(t)}
	}
	ck := NewChunkBuilder(hybridqp.NewRowDataTypeImpl(refs...)).NewChunk(d.Name)
	for r := 0; r < d.Rows; r++ {
		ck.AppendTime(c12xTimes[r%len(c12xTimes)])
	}
	for ci, t := range d.Types {
		col := ck.Column(ci)
		for r := 0; r < d.Rows; r++ {
			if d.Patterns[ci]&(1<<uint(r)) == 0 {
				col.AppendNil()
				continue
			}
			k := r + ci
			switch influxql.DataType(t) {
			case influxql.Float:
				col.AppendFloatValue(c12xFloats[k%len(c12xFloats)])
			case influxql.Integer:
				col.AppendIntegerValue(c12xInts[k%len(c12xInts)])
			case influxql.String:
				col.AppendStringValue(c12xStrs[k%len(c12xStrs)])
			case influxql.Boolean:
				col.AppendBooleanValue(c12xBools[k%len(c12xBools)])
			case influxql.FloatTuple:
				col.AppendFloatTuple(*NewfloatTuple([]float64{c12xFloats[k%len(c12xFloats)], float64(k)}))
			}
			col.AppendNotNil()
			if ci == 0 && influxql.DataType(t) != influxql.FloatTuple {
				col.AppendColumnTime(c12xTimes[(k+1)%len(c12xTimes)])
			}
		}
	}
	for i := 0; i < d.Tags; i++ {
		tags := influx.PointTags{{Key: "host", Value: "h" + strconv.Itoa(i)}, {Key: "t g", Value: "v,=\"" + strconv.Itoa(i)}}
		idx := 0
		if i > 0 {
			idx = d.Rows / 2
		}
		ck.AppendTagsAndIndex(*NewChunkTags(tags, []string{"host", "t g"}), idx)
	}
	switch d.Interval {
	case 1:
		ck.AppendIntervalIndex(0)
	case 2:
		for r := 0; r < d.Rows; r++ {
			ck.AppendIntervalIndex(r)
		}
	}
	if d.Dim {
		dim := NewColumnImpl(influxql.String)
		for r := 0; r < d.Rows; r++ {
			if r%2 == 0 {
				dim.AppendStringValue(c12xStrs[r%len(c12xStrs)])
				dim.AppendNotNil()
			} else {
				dim.AppendNil()
			}
		}
		ck.AddDim(dim)
	}
	return ck
}

func c12xDumpColumn(b *strings.Builder, col Column) {
	if col == nil {
		b.WriteString("<nil column>")
		return
	}
	fmt.Fprintf(b, "{type=%d len=%d nil=%d present=", col.DataType(), col.Length(), col.NilCount())
	for i := 0; i < col.Length(); i++ {
		if col.IsNilV2(i) {
			b.WriteByte('0')
		} else {
			b.WriteByte('1')
		}
	}
	b.WriteString(" f=")
	for _, v := range col.FloatValues() {
		fmt.Fprintf(b, "%x,", math.Float64bits(v))
	}
	fmt.Fprintf(b, " i=%v s=%q b=%v t=%v ft=", col.IntegerValues(), col.StringValuesV2(nil), col.BooleanValues(), col.ColumnTimes())
	for _, ft := range col.FloatTuples() {
		for _, v := range ft.values {
			fmt.Fprintf(b, "%x,", math.Float64bits(v))
		}
		b.WriteByte(';')
	}
	b.WriteString("}")
}

func c12xDumpChunk(ck Chunk) (s string, err error) {
	defer func() {
		if r := recover(); r != nil {
			err = fmt.Errorf("PANIC while reading the chunk: %v", r)
		}
	}()
	var b strings.Builder
	fmt.Fprintf(&b, "name=%q tags=", ck.Name())
	for _, t := range ck.Tags() {
		fmt.Fprintf(&b, "%q;", t.Subset(nil))
	}
	fmt.Fprintf(&b, " tagIndex=%v time=%v interval=%v cols=", ck.TagIndex(), ck.Time(), ck.IntervalIndex())
	for _, col := range ck.Columns() {
		c12xDumpColumn(&b, col)
	}
	b.WriteString(" dims=")
	for _, col := range ck.Dims() {
		c12xDumpColumn(&b, col)
	}
	return b.String(), nil
}

func (c *c12x) chunk(d *c12xCk) {
	rep := c.rep
	rep.Eval(1)
	cs := c12xCase{Part: "chunks", Chunk: d}
	key := fmt.Sprintf("chunks: rows=%d types=%v patterns=%v tags=%d interval=%d dim=%v", d.Rows, d.Types, d.Patterns, d.Tags, d.Interval, d.Dim)
	orig := c12xBuildChunk(d)
	want, err := c12xDumpChunk(orig)
	if err != nil {
		c.vio("chunk_not_readable", key, cs, func() string { return "original: " + err.Error() })
		return
	}
	if rep.DistinctNontrivial(kit.Hash("chunk", want)) {
		rep.Sample(1, map[string]interface{}{"part": "chunks", "chunk": d})
	}
	var buf []byte
	var dec *ChunkImpl
	func() {
		defer func() {
			if r := recover(); r != nil {
				err = fmt.Errorf("PANIC in chunk codec: %v", r)
			}
		}()
		buf, err = orig.(*ChunkImpl).Marshal(make([]byte, 0, orig.(*ChunkImpl).Size()))
		if err != nil {
			return
		}
		dec = &ChunkImpl{}
		err = dec.Unmarshal(buf)
	}()
	if err != nil {
		c.vio("chunk_codec_error", key, cs, func() string { return err.Error() })
		return
	}
	got, err := c12xDumpChunk(dec)
	if err != nil {
		c.vio("chunk_not_readable", key, cs, func() string { return "decoded: " + err.Error() + "\n  original: " + want })
		return
	}
	if got != want {
		c.vio("chunk_not_preserved", key, cs, func() string { return "original: " + want + "\n  decoded:  " + got })
		return
	}
	// The sql node decodes a chunk out of the connection's pooled receive buffer and gives the buffer back at once
	// (lib/spdy mux: decode, then FreeData); the next frame overwrites it while the chunk is still queued downstream.
	// A decoded chunk must therefore own its data: overwrite the frame and read the chunk again.
	for i := range buf {
		buf[i] = 0xEE
	}
	got, err = c12xDumpChunk(dec)
	if err != nil || got != want {
		c.vio("chunk_aliases_receive_buffer", key, cs, func() string {
			return fmt.Sprintf("after the receive buffer was reused the decoded chunk reads differently (err=%v)\n  original: %s\n  decoded:  %s", err, want, got)
		})
	}
}

func (c *c12x) chunks() {
	idx := 0
	emit := func(d *c12xCk) {
		idx++
		if kit.Mine(idx) {
			c.chunk(d)
		}
	}
	variants := func(rows int, types []int, patterns []uint) {
		for tags := 0; tags <= 2; tags++ {
			if tags == 2 && rows < 2 {
				continue
			}
			for interval := 0; interval <= 2; interval++ {
				for _, dim := range []bool{false, true} {
					emit(&c12xCk{Rows: rows, Types: types, Patterns: patterns, Tags: tags, Interval: interval, Dim: dim, Name: "m st"})
				}
			}
		}
	}
	for rows := 0; rows <= 4; rows++ {
		np := uint(1) << uint(rows)
		for _, t1 := range c12xTypes {
			for p1 := uint(0); p1 < np; p1++ {
				variants(rows, []int{int(t1)}, []uint{p1})
				for _, t2 := range c12xTypes {
					for p2 := uint(0); p2 < np; p2++ {
						if c.rep.Expired() {
							return
						}
						emit(&c12xCk{Rows: rows, Types: []int{int(t1), int(t2)}, Patterns: []uint{p1, p2}, Tags: rows % 3, Interval: (rows + 1) % 3, Dim: p2%2 == 1, Name: "m"})
					}
				}
			}
		}
	}
	// no columns at all, and an empty name
	emit(&c12xCk{Rows: 0, Name: ""})
	emit(&c12xCk{Rows: 2, Name: "", Tags: 1, Interval: 1})
}

// ---------------------------------------------------------------- plans

func c12xSchema(fields influxql.Fields, names []string, opt *query.ProcessorOptions) *QuerySchema {
	s := NewQuerySchema(fields, names, opt, nil)
	s.AddTable(&influxql.Measurement{Name: "students"}, s.MakeRefs())
	return s
}

func c12xDefaultFields() (influxql.Fields, []string) {
	return influxql.Fields{
		{Expr: &influxql.VarRef{Val: "id", Type: influxql.Integer}},
		{Expr: &influxql.VarRef{Val: "name", Type: influxql.String}},
		{Expr: &influxql.VarRef{Val: "score", Type: influxql.Float}},
		{Expr: &influxql.VarRef{Val: "good", Type: influxql.Boolean}},
	}, []string{"id", "name", "score", "good"}
}

type c12xOp struct {
	name  string
	build func(in hybridqp.QueryNode, s hybridqp.Catalog) hybridqp.QueryNode
}

func c12xOps() []c12xOp {
	ops := []c12xOp{
		{"IndexScan", func(in hybridqp.QueryNode, s hybridqp.Catalog) hybridqp.QueryNode { return NewLogicalIndexScan(in, s) }},
		{"Reader", func(in hybridqp.QueryNode, s hybridqp.Catalog) hybridqp.QueryNode { return NewLogicalReader(in, s) }},
		{"TagSubset", func(in hybridqp.QueryNode, s hybridqp.Catalog) hybridqp.QueryNode { return NewLogicalTagSubset(in, s) }},
		{"Aggregate", func(in hybridqp.QueryNode, s hybridqp.Catalog) hybridqp.QueryNode { return NewLogicalAggregate(in, s) }},
		{"CountDistinct", func(in hybridqp.QueryNode, s hybridqp.Catalog) hybridqp.QueryNode {
			return NewCountDistinctAggregate(in, s)
		}},
		{"TagSetAggregate", func(in hybridqp.QueryNode, s hybridqp.Catalog) hybridqp.QueryNode {
			return NewLogicalTagSetAggregate(in, s)
		}},
		{"Merge1", func(in hybridqp.QueryNode, s hybridqp.Catalog) hybridqp.QueryNode {
			return NewLogicalMerge([]hybridqp.QueryNode{in}, s)
		}},
		{"Merge2", func(in hybridqp.QueryNode, s hybridqp.Catalog) hybridqp.QueryNode {
			return NewLogicalMerge([]hybridqp.QueryNode{in, NewLogicalReader(NewLogicalSeries(s), s)}, s)
		}},
		{"SortMerge", func(in hybridqp.QueryNode, s hybridqp.Catalog) hybridqp.QueryNode {
			return NewLogicalSortMerge([]hybridqp.QueryNode{in}, s)
		}},
		{"Distinct", func(in hybridqp.QueryNode, s hybridqp.Catalog) hybridqp.QueryNode { return NewLogicalDistinct(in, s) }},
		{"Interval", func(in hybridqp.QueryNode, s hybridqp.Catalog) hybridqp.QueryNode { return NewLogicalInterval(in, s) }},
		{"Fill", func(in hybridqp.QueryNode, s hybridqp.Catalog) hybridqp.QueryNode { return NewLogicalFill(in, s) }},
		{"Align", func(in hybridqp.QueryNode, s hybridqp.Catalog) hybridqp.QueryNode { return NewLogicalAlign(in, s) }},
		{"Project", func(in hybridqp.QueryNode, s hybridqp.Catalog) hybridqp.QueryNode { return NewLogicalProject(in, s) }},
		{"Filter", func(in hybridqp.QueryNode, s hybridqp.Catalog) hybridqp.QueryNode { return NewLogicalFilter(in, s) }},
		{"SlidingWindow", func(in hybridqp.QueryNode, s hybridqp.Catalog) hybridqp.QueryNode {
			return NewLogicalSlidingWindow(in, s)
		}},
		{"SparseIndexScan", func(in hybridqp.QueryNode, s hybridqp.Catalog) hybridqp.QueryNode {
			return NewLogicalSparseIndexScan(in, s)
		}},
		{"ColumnStoreReader", func(in hybridqp.QueryNode, s hybridqp.Catalog) hybridqp.QueryNode {
			return NewLogicalColumnStoreReader(in, s)
		}},
		{"OrderBy", func(in hybridqp.QueryNode, s hybridqp.Catalog) hybridqp.QueryNode { return NewLogicalOrderBy(in, s) }},
		{"GroupBy", func(in hybridqp.QueryNode, s hybridqp.Catalog) hybridqp.QueryNode { return NewLogicalGroupBy(in, s) }},
		{"SubQuery", func(in hybridqp.QueryNode, s hybridqp.Catalog) hybridqp.QueryNode { return NewLogicalSubQuery(in, s) }},
	}
	for _, lp := range []LimitTransformParameters{{}, {Limit: 10, Offset: 3, LimitType: hybridqp.SingleRowLimit}, {Limit: math.MaxInt64, Offset: 1, LimitType: hybridqp.MultipleRowsLimit}, {Limit: 1, LimitType: hybridqp.SingleRowIgnoreTagLimit}} {
		lp := lp
		ops = append(ops, c12xOp{fmt.Sprintf("Limit(%d,%d,%d)", lp.Limit, lp.Offset, lp.LimitType), func(in hybridqp.QueryNode, s hybridqp.Catalog) hybridqp.QueryNode {
			return NewLogicalLimit(in, s, lp)
		}})
	}
	for _, et := range []ExchangeType{NODE_EXCHANGE, SHARD_EXCHANGE, SINGLE_SHARD_EXCHANGE, READER_EXCHANGE, SERIES_EXCHANGE, SEGMENT_EXCHANGE, PARTITION_EXCHANGE, SUBQUERY_EXCHANGE} {
		for _, producer := range []bool{false, true} {
			et, producer := et, producer
			ops = append(ops, c12xOp{fmt.Sprintf("Exchange(%d,producer=%v)", et, producer), func(in hybridqp.QueryNode, s hybridqp.Catalog) hybridqp.QueryNode {
				n := NewLogicalExchange(in, et, []hybridqp.Trait{1, 2}, s)
				if producer {
					n.ToProducer()
				}
				return n
			}})
			if et == NODE_EXCHANGE || et == SHARD_EXCHANGE || et == READER_EXCHANGE {
				ops = append(ops, c12xOp{fmt.Sprintf("HashMerge(%d,producer=%v)", et, producer), func(in hybridqp.QueryNode, s hybridqp.Catalog) hybridqp.QueryNode {
					n := NewLogicalHashMerge(in, s, et, nil)
					if producer {
						n.ToProducer()
					}
					return n
				}})
				ops = append(ops, c12xOp{fmt.Sprintf("HashAgg(%d,producer=%v)", et, producer), func(in hybridqp.QueryNode, s hybridqp.Catalog) hybridqp.QueryNode {
					n := NewLogicalHashAgg(in, s, et, nil)
					if producer {
						n.ToProducer()
					}
					return n
				}})
			}
		}
	}
	return ops
}

// c12xDumpPlan prints what a plan tree is, as far as the wire message is meant to carry it.
func c12xDumpPlan(n hybridqp.QueryNode) string {
	if n == nil {
		return "<nil>"
	}
	var b strings.Builder
	b.WriteString(reflect.TypeOf(n).Elem().Name())
	switch p := n.(type) {
	case *LogicalExchange:
		fmt.Fprintf(&b, "[type=%d role=%d]", p.eType, p.eRole)
	case *LogicalHashMerge:
		fmt.Fprintf(&b, "[type=%d role=%d]", p.eType, p.eRole)
	case *LogicalHashAgg:
		fmt.Fprintf(&b, "[type=%d role=%d]", p.eType, p.eRole)
	case *LogicalLimit:
		fmt.Fprintf(&b, "[limit=%d offset=%d type=%d]", p.LimitPara.Limit, p.LimitPara.Offset, p.LimitPara.LimitType)
	case *LogicalAggregate:
		fmt.Fprintf(&b, "[countDistinct=%v tagSet=%v]", p.isCountDistinct, p.aggType == tagSetAgg)
	}
	if rt := n.RowDataType(); rt != nil {
		b.WriteString("<")
		for _, f := range rt.Fields() {
			b.WriteString(f.Expr.String())
			b.WriteString(",")
		}
		b.WriteString(">")
	}
	b.WriteString("(")
	for i, ch := range n.Children() {
		if i > 0 {
			b.WriteString(", ")
		}
		b.WriteString(c12xDumpPlan(ch))
	}
	b.WriteString(")")
	return b.String()
}

func c12xBuildChain(names []string, ops map[string]c12xOp, s hybridqp.Catalog) (n hybridqp.QueryNode, err error) {
	defer func() {
		if r := recover(); r != nil {
			n, err = nil, fmt.Errorf("constructor panic: %v", r)
		}
	}()
	n = NewLogicalSeries(s)
	for _, name := range names {
		n = ops[name].build(n, s)
	}
	return n, nil
}

func (c *c12x) plan(names []string, ops map[string]c12xOp) {
	rep := c.rep
	rep.Eval(1)
	fields, cols := c12xDefaultFields()
	opt := &query.ProcessorOptions{}
	s := c12xSchema(fields, cols, opt)
	cs := c12xCase{Part: "plans", Chain: names}
	key := "plans: Series > " + strings.Join(names, " > ")
	root, err := c12xBuildChain(names, ops, s)
	if err != nil {
		rep.Count("plans_constructor_rejected", 1)
		return
	}
	want := c12xDumpPlan(root)
	if rep.DistinctNontrivial(kit.Hash("plan", want)) {
		rep.Sample(2, map[string]interface{}{"part": "plans", "chain": names})
	}
	var dec hybridqp.QueryNode
	func() {
		defer func() {
			if r := recover(); r != nil {
				err = fmt.Errorf("PANIC in plan codec: %v", r)
			}
		}()
		var buf []byte
		buf, err = MarshalBinary(root)
		if err != nil {
			return
		}
		dec, err = UnmarshalBinary(buf, s)
		for i := range buf { // the message buffer is recycled after decoding: the plan must not alias it
			buf[i] = 0xEE
		}
	}()
	if err != nil {
		c.vio("plan_codec_error", key, cs, func() string { return err.Error() + "\n  plan: " + want })
		return
	}
	if got := c12xDumpPlan(dec); got != want {
		c.vio("plan_not_preserved", key, cs, func() string { return "original: " + want + "\n  decoded:  " + got })
	}
}

func (c *c12x) plans(maxLen int) {
	list := c12xOps()
	ops := map[string]c12xOp{}
	for _, o := range list {
		ops[o.name] = o
	}
	idx := 0
	var rec func(prefix []string)
	rec = func(prefix []string) {
		if len(prefix) > 0 {
			idx++
			if kit.Mine(idx) {
				c.plan(append([]string(nil), prefix...), ops)
			}
		}
		if len(prefix) == maxLen || c.rep.Expired() {
			return
		}
		for _, o := range list {
			rec(append(prefix, o.name))
		}
	}
	rec(nil)
}

// queryNodes: the |schema|plan| message of MarshalQueryNode / UnmarshalQueryNode for the plan shapes of the
// package's own codec tests (UnmarshalQueryNode also runs the store-side heuristic planner, which leaves
// these shapes alone), with every option set of a small menu.
func (c *c12x) queryNodes() {
	shapes := [][]string{
		{"IndexScan", "Reader", "TagSubset", "Aggregate", "Merge1", "SortMerge", "Limit(0,0,0)", "Distinct", "Interval", "Fill", "Align", "Project", "Filter", "Exchange(1,producer=false)"},
		{"IndexScan", "Reader", "Merge2", "Project", "Filter", "Exchange(1,producer=false)"},
		{"ColumnStoreReader", "Exchange(1,producer=false)"},
		{"IndexScan", "Reader", "Exchange(1,producer=true)"},
		{"IndexScan", "Reader", "Limit(10,3,1)", "Exchange(1,producer=false)"},
	}
	list := c12xOps()
	ops := map[string]c12xOp{}
	for _, o := range list {
		ops[o.name] = o
	}
	for i, names := range shapes {
		if !kit.Mine(i) {
			continue
		}
		c.rep.Eval(1)
		fields, cols := c12xDefaultFields()
		opt := &query.ProcessorOptions{}
		s := c12xSchema(fields, cols, opt)
		s.SetFill(influxql.NoFill)
		cs := c12xCase{Part: "querynode", Chain: names, Index: i}
		key := "querynode: Series > " + strings.Join(names, " > ")
		root, err := c12xBuildChain(names, ops, s)
		if err != nil {
			c.vio("plan_codec_error", key, cs, func() string { return err.Error() })
			continue
		}
		want := c12xDumpPlan(root)
		c.rep.DistinctNontrivial(kit.Hash("querynode", want))
		var dec hybridqp.QueryNode
		func() {
			defer func() {
				if r := recover(); r != nil {
					err = fmt.Errorf("PANIC in plan codec: %v", r)
				}
			}()
			var buf []byte
			buf, err = MarshalQueryNode(root)
			if err != nil {
				return
			}
			dec, err = UnmarshalQueryNode(buf, 2, opt)
			for i := range buf { // the message buffer is recycled after decoding
				buf[i] = 0xEE
			}
		}()
		if err != nil {
			c.vio("plan_codec_error", key, cs, func() string { return err.Error() + "\n  plan: " + want })
			continue
		}
		if got := c12xDumpPlan(dec); got != want {
			c.vio("plan_not_preserved", key, cs, func() string { return "original: " + want + "\n  decoded:  " + got })
		}
	}
}

// ---------------------------------------------------------------- schema and expression options

func (c *c12x) schemaText(text string) {
	rep := c.rep
	rep.Eval(1)
	sel, err := influxql.VerifC12Yacc("SELECT " + text + " FROM m")
	if err != nil || len(sel.Fields) == 0 {
		return
	}
	printed, perr := influxql.VerifC12String(sel.Fields)
	if perr != nil {
		return
	}
	if influxql.VerifC12LeadingRegex(printed) {
		rep.Count("schema_skipped_leading_regex_pool_state_dependent", 1)
		return
	}
	planned := make([]influxql.Expr, len(sel.Fields))
	names := make([]string, len(sel.Fields))
	for i, f := range sel.Fields {
		planned[i] = f.Expr
		names[i] = f.Name()
	}
	want := influxql.VerifC12CanonFields(sel.Fields)
	if rep.DistinctNontrivial(kit.Hash("fields", want)) {
		rep.Sample(3, map[string]string{"part": "schema", "text": text, "printed": printed})
	}

	// --- QuerySchema
	func() {
		cs := c12xCase{Part: "schema", Text: text}
		key := "schema: " + text
		var dec hybridqp.Catalog
		var err error
		opt := &query.ProcessorOptions{}
		var s *QuerySchema
		func() {
			defer func() {
				if r := recover(); r != nil {
					s = nil
				}
			}()
			s = NewQuerySchema(sel.Fields, names, opt, nil)
		}()
		if s == nil {
			// the planner itself refuses these fields (type error ...): no planned object
			rep.Count("schema_constructor_rejected", 1)
			return
		}
		func() {
			defer func() {
				if r := recover(); r != nil {
					err = fmt.Errorf("PANIC: %v", r)
				}
			}()
			var buf []byte
			buf, err = proto.Marshal(query.EncodeQuerySchema(s))
			if err != nil {
				return
			}
			pb := &internal.QuerySchema{}
			if err = proto.Unmarshal(buf, pb); err != nil {
				return
			}
			dec, err = query.DecodeQuerySchema(pb, opt)
		}()
		rep.Count("schema_objects", 1)
		if err != nil {
			kinds := c12xNonEmpty(influxql.VerifC12ExplainFailure(planned, err.Error(), true))
			if len(kinds) == 0 && strings.Contains(err.Error(), "derive type") {
				// the decoded field list was refused by the schema constructor (type error): look at the tree that
				// arrived (the decoder's own re-parse) -- if it differs from the planned one for a known reason,
				// the refusal is a consequence of that defect
				if fs, perr := hybridqp.ParseFields(printed); perr == nil && influxql.VerifC12CanonFields(fs) != want {
					kinds = influxql.VerifC12ExplainFields(sel.Fields, fs)
				}
			}
			c.vios(kinds, "print_not_reparsable", key, cs, func() string {
				return fmt.Sprintf("QuerySchema with fields %q does not decode: %v\n  planned: %s", printed, err, want)
			})
			return
		}
		if got := influxql.VerifC12CanonFields(dec.GetQueryFields()); got != want {
			c.vios(influxql.VerifC12ExplainFields(sel.Fields, dec.GetQueryFields()), "roundtrip_mismatch", key, cs, func() string {
				return fmt.Sprintf("QuerySchema.QueryFields shipped as %q\n  planned: %s\n  shipped: %s", printed, want, got)
			})
			return
		}
		if !reflect.DeepEqual(dec.GetColumnNames(), names) {
			c.vio("schema_column_names_not_preserved", key, cs, func() string {
				return fmt.Sprintf("original %q, decoded %q", names, dec.GetColumnNames())
			})
		}
	}()

	// --- hybridqp.ExprOptions (plan.go): the per-operator expression with its output reference
	if len(sel.Fields) == 1 {
		cs := c12xCase{Part: "expropt", Text: text}
		key := "expropt: " + text
		for i, ref := range []influxql.VarRef{{Val: "f", Type: influxql.Float}, {Val: "a b", Type: influxql.Integer}, {Val: `q"x`, Type: influxql.Tag}, {Val: "select", Type: influxql.Unknown}} {
			eo := hybridqp.ExprOptions{Expr: planned[0], Ref: ref}
			var other hybridqp.ExprOptions
			var err error
			func() {
				defer func() {
					if r := recover(); r != nil {
						err = fmt.Errorf("PANIC: %v", r)
					}
				}()
				err = other.Unmarshal(eo.Marshal())
			}()
			rep.Count("expropt_objects", 1)
			cs.Index = i
			if err != nil {
				c.vios(c12xNonEmpty(influxql.VerifC12ExplainFailure(planned, err.Error(), true)), "print_not_reparsable", key, cs, func() string {
					return fmt.Sprintf("ExprOptions{Expr: %q, Ref: %q} does not decode: %v", printed, ref.String(), err)
				})
				break
			}
			if got, w := influxql.VerifC12Canon(other.Expr), influxql.VerifC12Canon(planned[0]); got != w {
				kinds := influxql.VerifC12ExplainExpr(planned[0], other.Expr)
				if len(kinds) == 0 {
					kinds = c12xNonEmpty(influxql.VerifC12ExplainFailure(planned, "", true))
				}
				c.vios(kinds, "roundtrip_mismatch", key, cs, func() string {
					return fmt.Sprintf("ExprOptions.Expr shipped as %q\n  planned: %s\n  shipped: %s", printed, w, got)
				})
				break
			}
			if other.Ref != ref {
				c.vio("expr_options_ref_not_preserved", key, cs, func() string { return fmt.Sprintf("original %#v, decoded %#v", ref, other.Ref) })
				break
			}
		}
	}
}

func c12xNonEmpty(k string) []string {
	if k == "" {
		return nil
	}
	return []string{k}
}

// ---------------------------------------------------------------- rpc

func c12xRemoteQueries() []RemoteQuery {
	cond, _ := influxql.ParseExpr(`"a b" = 'it\'s' AND c < 1.5`)
	opt := query.ProcessorOptions{Name: "n", Condition: cond, Limit: 3, Ascending: true, Dimensions: []string{"t"}, ChunkSize: 7,
		Sources: []influxql.Source{&influxql.Measurement{Database: "db", RetentionPolicy: "rp", Name: "m"}}}
	opt2 := query.ProcessorOptions{Name: "second", Offset: 9}
	return []RemoteQuery{
		{Database: "db0"},
		{Database: "my db\"'"},
		{PtID: 1},
		{PtID: math.MaxUint32},
		{NodeID: 1},
		{NodeID: math.MaxUint64},
		{ShardIDs: []uint64{1}},
		{ShardIDs: []uint64{3, 1, math.MaxUint64, 0}},
		{PtQuerys: []PtQuery{{PtID: 2, ShardInfos: []ShardInfo{{ID: 5, Path: "/obs/p a", Version: 3}, {ID: 6}}}, {PtID: 7}}},
		{Opt: opt},
		{Analyze: true},
		{Node: []byte{0, 1, 2, 255}},
		{MstInfos: []*MultiMstInfo{{ShardIds: []uint64{4, 2}, Opt: opt}, {ShardIds: []uint64{9}, Opt: opt2}}},
		{Database: "db0", PtID: 3, NodeID: 4, ShardIDs: []uint64{8, 9}, PtQuerys: []PtQuery{{PtID: 1}}, Opt: opt, Analyze: true, Node: []byte("plan"), MstInfos: []*MultiMstInfo{{ShardIds: []uint64{1}, Opt: opt2}}},
	}
}

func c12xDumpOpt(o *query.ProcessorOptions) string {
	cond := "<nil>"
	if o.Condition != nil {
		cond = influxql.VerifC12Canon(o.Condition)
	}
	src := ""
	for _, s := range o.Sources {
		src += s.String() + ";"
	}
	return fmt.Sprintf("{name=%q cond=%s limit=%d offset=%d asc=%v dims=%q chunk=%d sources=%s}", o.Name, cond, o.Limit, o.Offset, o.Ascending, o.Dimensions, o.ChunkSize, src)
}

func c12xDumpRemoteQuery(q *RemoteQuery) string {
	var b strings.Builder
	fmt.Fprintf(&b, "db=%q pt=%d node=%d shards=%v ptq=", q.Database, q.PtID, q.NodeID, q.ShardIDs)
	for _, p := range q.PtQuerys {
		fmt.Fprintf(&b, "{%d %v}", p.PtID, p.ShardInfos)
	}
	fmt.Fprintf(&b, " opt=%s analyze=%v plan=%x mst=", c12xDumpOpt(&q.Opt), q.Analyze, q.Node)
	for _, m := range q.MstInfos {
		fmt.Fprintf(&b, "{%v %s}", m.ShardIds, c12xDumpOpt(&m.Opt))
	}
	return b.String()
}

func (c *c12x) rpc(only int) {
	for i, q := range c12xRemoteQueries() {
		if only >= 0 && i != only {
			continue
		}
		if only < 0 && !kit.Mine(i) {
			continue
		}
		q := q
		c.rep.Eval(1)
		cs := c12xCase{Part: "rpc", Index: i}
		key := fmt.Sprintf("rpc: RemoteQuery[%d]", i)
		want := c12xDumpRemoteQuery(&q)
		c.rep.DistinctNontrivial(kit.Hash("rpc", want))
		var dec RemoteQuery
		var err error
		func() {
			defer func() {
				if r := recover(); r != nil {
					err = fmt.Errorf("PANIC: %v", r)
				}
			}()
			var buf []byte
			buf, err = q.Marshal(nil)
			if err != nil {
				return
			}
			err = dec.Unmarshal(buf)
			for i := range buf { // the message buffer is recycled after decoding
				buf[i] = 0xEE
			}
		}()
		if err != nil {
			c.vio("remote_query_codec_error", key, cs, func() string { return err.Error() })
			continue
		}
		if got := c12xDumpRemoteQuery(&dec); got != want {
			c.vio("remote_query_not_preserved", key, cs, func() string { return "original: " + want + "\n  decoded:  " + got })
		}
	}
}

// ---------------------------------------------------------------- driver

func TestVerifC12Executor(t *testing.T) {
	rep := kit.NewReport("C12")
	defer rep.Save()
	start := time.Now()
	debug.SetGCPercent(1000)
	c := &c12x{rep: rep}
	if kit.ReplayPath() != "" {
		var cs c12xCase
		if err := kit.LoadReplay(&cs); err != nil {
			t.Fatal(err)
		}
		switch cs.Part {
		case "chunks":
			c.chunk(cs.Chunk)
		case "plans":
			ops := map[string]c12xOp{}
			for _, o := range c12xOps() {
				ops[o.name] = o
			}
			c.plan(cs.Chain, ops)
		case "querynode":
			c.queryNodes()
		case "schema", "expropt":
			c.schemaText(cs.Text)
		case "rpc":
			c.rpc(cs.Index)
		}
		return
	}
	c.chunks()
	c.rpc(-1)
	c.queryNodes()
	maxLen := 2
	if kit.Thorough() {
		maxLen = 3
	}
	c.plans(maxLen)
	block := 0
	mine := func() bool { block++; return kit.Mine(int(kit.Hash("block", strconv.Itoa(block)) % (1 << 30))) }
	influxql.VerifC12EnumerateCodec(mine, rep.Expired, c.schemaText)
	rep.Max("max_worker_seconds_executor", int64(time.Since(start).Seconds()))
}
