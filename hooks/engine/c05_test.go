//go:build verif

package engine

// C05 part (a): replica-group fault enumeration on real components inside one synctest bubble.
//
// Real: raftconn.RaftNode x3 (etcd raft, real raftlog directories), EngineImpl.startRaftNode (store init, StartNode,
// InitAndStartNode, TransferLeadership goroutine, readCommitFromRaft goroutine), EngineImpl.SendRaftMessage /
// StepRaftMessage on the receiving side, EngineImpl.WriteToRaft, dealCommitData / dealNormalData (pointsdecoder),
// EngineImpl.WriteRows -> real shard per replica (SetSnapShotter, memtable; the shard WAL is not written on the raft
// path because binaryRows is nil there), shard.ForceFlush -> RaftFlushC -> snapShot, deleteEntryLogPeriodically ->
// deleteEntryLog -> ClearEntryLog proposal -> DeleteBefore, restart = raftlog.Init + replay + readReplayForReplication.
// Harness stand-ins: the transport (ISend -> in-memory router that copies every message through Marshal/Unmarshal), the
// meta client (pt view, replica group with master pt 0, node alive <=> replica up, shard group), the StorageService
// (Write calls the closure, WriteDataFunc calls EngineImpl.WriteRows), the coordinator (writes go to a replica chosen
// by raft role), shard loading (one pre-created real shard per replica instead of loadDbPtShards).

import (
	"encoding/json"
	"fmt"
	"io"
	stdlog "log"
	"os"
	"path/filepath"
	"runtime"
	"sort"
	"strings"
	"sync"
	"sync/atomic"
	"testing"
	"testing/synctest"
	"time"

	"github.com/influxdata/influxdb/toml"
	"github.com/openGemini/openGemini/engine/immutable"
	"github.com/openGemini/openGemini/engine/index/tsi"
	"github.com/openGemini/openGemini/lib/config"
	"github.com/openGemini/openGemini/lib/errno"
	"github.com/openGemini/openGemini/lib/fileops"
	"github.com/openGemini/openGemini/lib/index"
	"github.com/openGemini/openGemini/lib/interruptsignal"
	"github.com/openGemini/openGemini/lib/logger"
	"github.com/openGemini/openGemini/lib/metaclient"
	"github.com/openGemini/openGemini/lib/netstorage"
	"github.com/openGemini/openGemini/lib/raftconn"
	"github.com/openGemini/openGemini/lib/raftlog"
	"github.com/openGemini/openGemini/lib/util"
	"github.com/openGemini/openGemini/lib/util/lifted/hashicorp/serf/serf"
	"github.com/openGemini/openGemini/lib/util/lifted/influx/meta"
	"github.com/openGemini/openGemini/lib/util/lifted/vm/protoparser/influx"
	kit "github.com/openGemini/openGemini/lib/verifkit"
	"go.etcd.io/etcd/raft/v3"
	"go.etcd.io/etcd/raft/v3/raftpb"
	"go.etcd.io/etcd/raft/v3/tracker"
	"go.uber.org/zap"
)

const (
	c05DB         = defaultDb
	c05Tick       = 400 * time.Millisecond // raftconn tickInterval
	c05LeaderWait = 120 * time.Second      // virtual; generous: a split vote repeats with probability ~0.1 per round
	c05LongT      = time.Minute            // the log-truncation ticker of raftconn
)

// c05ElectionTimeout is one maximal randomized election timeout (2*ElectionTick ticks).
func c05ElectionTimeout() time.Duration {
	return time.Duration(2*config.ElectionTick) * c05Tick
}

func c05ShardID(pt int) uint64 { return uint64(11 + pt) }

// ---- stand-ins ---------------------------------------------------------------------------------

type c05Meta struct {
	metaclient.MetaClient // nil: any method the real code calls beyond the ones below panics (tool error)
	g                     *c05Group
}

func (m *c05Meta) DBPtView(database string) (meta.DBPtInfos, error) {
	return meta.DBPtInfos{
		{PtId: 0, Owner: meta.PtOwner{NodeID: 1}, Status: meta.Online, RGID: 0},
		{PtId: 1, Owner: meta.PtOwner{NodeID: 2}, Status: meta.Online, RGID: 0},
		{PtId: 2, Owner: meta.PtOwner{NodeID: 3}, Status: meta.Online, RGID: 0},
	}, nil
}

func (m *c05Meta) DBRepGroups(database string) []meta.ReplicaGroup {
	return []meta.ReplicaGroup{{ID: 0, MasterPtID: 0, Peers: []meta.Peer{{ID: 1, PtRole: meta.Slave}, {ID: 2, PtRole: meta.Slave}}, Status: meta.Health}}
}

func (m *c05Meta) DataNode(id uint64) (*meta.DataNode, error) {
	st := serf.StatusFailed
	if id >= 1 && id <= 3 && m.g.isUp(int(id-1)) {
		st = serf.StatusAlive
	}
	return &meta.DataNode{NodeInfo: meta.NodeInfo{ID: id, Status: st}}, nil
}

func (m *c05Meta) ShardOwner(shardID uint64) (string, string, *meta.ShardGroupInfo) {
	if shardID < c05ShardID(0) || shardID > c05ShardID(2) {
		return "", "", nil
	}
	return c05DB, defaultRp, &meta.ShardGroupInfo{ID: 1, Shards: []meta.ShardInfo{{ID: c05ShardID(0)}, {ID: c05ShardID(1)}, {ID: c05ShardID(2)}}}
}

type c05Storage struct {
	eng    *EngineImpl
	nodeID uint64
}

func (s *c05Storage) Write(db, rp, mst string, ptId uint32, shardID uint64, writeData func() error) error {
	return writeData()
}

func (s *c05Storage) WriteDataFunc(db, rp string, ptId uint32, shardID uint64, rows []influx.Row, binaryRows []byte, snp *raftlog.SnapShotter) error {
	return s.eng.WriteRows(db, rp, ptId, shardID, rows, binaryRows, snp)
}

func (s *c05Storage) GetNodeId() uint64 { return s.nodeID }

// c05Router replaces raftconn's ISend. Delivery is what the RPC handler of the receiving store does
// (EngineImpl.SendRaftMessage); the message crosses the "wire" as bytes.
type c05Router struct {
	mu       sync.Mutex
	g        *c05Group
	cut      [3]bool
	routed   int64
	dropped  int64
	snaps    int64
	snapTo   [3]int64
	apps     int64
	votes    int64
	timeouts int64
}

func (r *c05Router) SendRaftMessages(nodeID uint64, database string, pt uint32, msg raftpb.Message) error {
	// the real transport addresses the store process by node id; that store looks the partition up itself
	from, to := int(msg.From)-1, int(nodeID)-1
	r.mu.Lock()
	blocked := to < 0 || to > 2 || from < 0 || from > 2
	var eng *EngineImpl
	if !blocked {
		rt, rf := r.g.reps[to], r.g.reps[from]
		blocked = !rt.up || !rf.up || r.cut[to] || r.cut[from]
		eng = rt.eng
	}
	if blocked {
		r.dropped++
		r.mu.Unlock()
		return nil
	}
	r.routed++
	switch msg.Type {
	case raftpb.MsgSnap:
		r.snaps++
		r.snapTo[to]++
	case raftpb.MsgApp:
		if len(msg.Entries) > 0 {
			r.apps++
		}
	case raftpb.MsgVote, raftpb.MsgPreVote:
		r.votes++
	case raftpb.MsgTimeoutNow:
		r.timeouts++
	}
	r.mu.Unlock()
	b, err := msg.Marshal()
	if err != nil {
		return err
	}
	var m2 raftpb.Message
	if err = m2.Unmarshal(b); err != nil {
		return err
	}
	return eng.SendRaftMessage(database, uint64(pt), m2)
}

// ---- replicas ----------------------------------------------------------------------------------

type c05Replica struct {
	id      int
	dir     string
	up      bool
	eng     *EngineImpl
	dbpt    *DBPTInfo
	sh      *vShard
	node    *raftconn.RaftNode
	storage *c05Storage

	// harness book-keeping (role selection and oracle)
	touch          int  // sequence number of the last event that addressed this replica
	lagging        bool // restarted and not yet observed with every acknowledged write
	floor          int  // acknowledged writes this replica was observed to hold (never decreases)
	restarts       int
	clock          uint64 // logical clock handed to the index on every (re)start, as the meta service does
	seq            uint64 // series-id sequence of THIS replica's index
	behind         bool   // observed, after its restart, without some acknowledged write
	snapsAtRestart int64
}

type c05Write struct {
	ID     int
	Via    string
	Pts    []vPoint
	Acked  bool
	Err    string
	Leader int
	Ev     int // number of the event that issued the write (the batches of one Wj share it)
}

type c05Group struct {
	dir    string
	reps   [3]*c05Replica
	router *c05Router
	meta   *c05Meta
	writes []*c05Write
	evNo   int

	lastLeader    int
	lastTerm      uint64
	leaderChanges int
	maxElectMs    int64
	catchLog      int
	catchSnap     int
	log           []string
}

func (g *c05Group) isUp(i int) bool {
	g.router.mu.Lock()
	defer g.router.mu.Unlock()
	return g.reps[i].up
}

func (g *c05Group) logf(format string, a ...any) {
	g.log = append(g.log, fmt.Sprintf(format, a...))
}

var c05Progress atomic.Int64

// c05Expired: wall-clock deadline measured with the real clock by a goroutine outside the bubble (the shared kit counts
// 250 ms sleeps, which under-counts badly on an overloaded machine).
var c05Expired atomic.Bool

var c05NopLogger = logger.NewLogger(errno.ModuleUnknown).SetZapLogger(zap.NewNop())

func c05NewGroup(dir string) (*c05Group, error) {
	g := &c05Group{dir: dir, lastLeader: -1}
	g.router = &c05Router{g: g}
	g.meta = &c05Meta{g: g}
	for i := 0; i < 3; i++ {
		g.reps[i] = &c05Replica{id: i, dir: filepath.Join(dir, fmt.Sprintf("r%d", i))}
		if err := os.MkdirAll(g.reps[i].dir, 0o755); err != nil {
			return nil, err
		}
	}
	for i := 0; i < 3; i++ {
		if err := g.start(g.reps[i]); err != nil {
			return nil, fmt.Errorf("start replica %d: %w", i, err)
		}
	}
	// the three stores have "assigned" the partition; the group elects and (TransferLeadership of
	// startRaftNode) moves the leadership to the master partition of the catalogue (pt 0)
	deadline := 60 * time.Second
	for t := time.Duration(0); ; t += c05Tick {
		synctest.Wait()
		if l := g.leader(); l != nil && l.id == 0 {
			break
		}
		if t >= deadline {
			l := g.leader()
			return nil, fmt.Errorf("set-up: leadership did not reach pt 0 within %v (leader %v)", deadline, l != nil)
		}
		time.Sleep(c05Tick)
	}
	g.noteLeader()
	return g, nil
}

// start opens the replica from its directories: the shard (real recovery path), then what
// EngineImpl.Assign does for a replicated partition: startRaftNode, addDBPTInfo, readReplayForReplication.
func (g *c05Group) start(r *c05Replica) error {
	r.clock++
	sh, err := c05OpenShard(filepath.Join(r.dir, "shard"), r.clock, &r.seq)
	if err != nil {
		return err
	}
	eng := &EngineImpl{
		closed:        interruptsignal.NewInterruptSignal(),
		dataPath:      filepath.Join(r.dir, "data"),
		walPath:       r.dir,
		DBPartitions:  make(map[string]map[uint32]*DBPTInfo, 1),
		droppingDB:    make(map[string]string),
		droppingRP:    make(map[string]string),
		droppingMst:   make(map[string]string),
		migratingDbPT: make(map[string]map[uint32]struct{}),
	}
	eng.log = c05NopLogger
	eng.metaClient = g.meta
	dbpt := NewDBPTInfo(c05DB, uint32(r.id), eng.dataPath, eng.walPath, nil, nil, nil)
	dbpt.logger = c05NopLogger
	dbpt.opt = DefaultEngineOption
	dbpt.opt.RaftEntrySyncInterval = config.DefaultRaftEntrySyncInterval
	dbpt.shards[c05ShardID(r.id)] = sh.sh
	st := &c05Storage{eng: eng, nodeID: uint64(r.id + 1)}
	if err = eng.startRaftNode(1, uint64(r.id+1), dbpt, g.meta, st); err != nil {
		_ = sh.Close()
		return err
	}
	node, ok := dbpt.node.(*raftconn.RaftNode)
	if !ok {
		return fmt.Errorf("unexpected node type %T", dbpt.node)
	}
	node.ISend = g.router // no tick has fired yet (virtual clock): nothing was sent through the real transport
	eng.mu.Lock()
	eng.addDBPTInfo(dbpt)
	eng.mu.Unlock()
	g.router.mu.Lock()
	r.eng, r.dbpt, r.sh, r.node, r.storage = eng, dbpt, sh, node, st
	r.up = true
	g.router.mu.Unlock()
	readReplayForReplication(dbpt.ReplayC, g.meta, st, c05DB, uint32(r.id))
	return nil
}

// c05OpenShard is vOpenShard of the shared base with one difference: the series-id sequence and the logical clock belong
// to the replica. (vOpenShard resets ONE package-level sequence on every open, which is right for one shard at a time but
// makes a live replica hand out an already used series id after another replica restarts.)
func c05OpenShard(dir string, clock uint64, seq *uint64) (*vShard, error) {
	dataPath := dir + "/data"
	walPath := dir + "/wal"
	lockPath := filepath.Join(dataPath, "LOCK")
	indexPath := filepath.Join(dir, defaultDb, "/index/data")
	ident := &meta.IndexIdentifier{OwnerDb: defaultDb, OwnerPt: defaultPtId, Policy: defaultRp}
	ident.Index = &meta.IndexDescriptor{IndexID: 1, IndexGroupID: 2, TimeRange: meta.TimeRangeInfo{}}
	*seq = 1 << 20
	opts := new(tsi.Options).
		Ident(ident).
		Path(indexPath).
		IndexType(index.MergeSet).
		EngineType(config.TSSTORE).
		StartTime(time.Unix(0, 0)).
		EndTime(time.Unix(0, 0).Add(200 * 365 * 24 * time.Hour)).
		Duration(time.Hour).
		LogicalClock(clock).
		SequenceId(seq).
		Lock(&lockPath)
	indexBuilder := tsi.NewIndexBuilder(opts)
	primaryIndex, err := tsi.NewIndex(opts)
	if err != nil {
		return nil, err
	}
	primaryIndex.SetIndexBuilder(indexBuilder)
	indexRelation, _ := tsi.NewIndexRelation(opts, primaryIndex, indexBuilder)
	indexBuilder.Relations[uint32(index.MergeSet)] = indexRelation
	if err = indexBuilder.Open(); err != nil {
		return nil, err
	}
	shardDuration := &meta.DurationDescriptor{Tier: util.Hot, TierDuration: time.Hour}
	tr := &meta.TimeRangeInfo{StartTime: mustParseTime(time.RFC3339Nano, "1970-01-01T01:00:00Z"),
		EndTime: mustParseTime(time.RFC3339Nano, "2099-01-01T01:00:00Z")}
	shardIdent := &meta.ShardIdentifier{ShardID: defaultShardId, ShardGroupID: 1, OwnerDb: defaultDb, OwnerPt: defaultPtId, Policy: defaultRp}
	sh := NewShard(dataPath, walPath, &lockPath, shardIdent, shardDuration, tr, DefaultEngineOption, config.TSSTORE, nil)
	sh.indexBuilder = indexBuilder
	sh.SetWriteColdDuration(24 * time.Hour)
	if err := sh.OpenAndEnable(nil); err != nil {
		_ = sh.Close()
		_ = indexBuilder.Close()
		return nil, err
	}
	compWorker.UnregisterShard(sh.ident.ShardID)
	return &vShard{dir: dir, sh: sh}, nil
}

// kill: the store process dies. Nothing of it runs any more; its memtable is gone (shard.Close drops it
// without flushing; the raft write path does not write the shard WAL); files stay as they are.
func (g *c05Group) kill(r *c05Replica) {
	g.router.mu.Lock()
	r.up = false
	g.router.mu.Unlock()
	r.node.Stop()
	synctest.Wait()
	_ = r.node.Store.Close()
	if err := r.sh.Close(); err != nil {
		g.logf("close of killed shard %d: %v", r.id, err)
	}
}

func (g *c05Group) teardown() {
	for _, r := range g.reps {
		if r != nil && r.up {
			g.kill(r)
		}
	}
	synctest.Wait()
	_ = os.RemoveAll(g.dir)
}

// leader returns the up replica that is raft leader with the highest term (nil if none).
func (g *c05Group) leader() *c05Replica {
	var best *c05Replica
	var bestTerm uint64
	for _, r := range g.reps {
		if !r.up {
			continue
		}
		st := r.node.VerifStatus()
		if st.RaftState == raft.StateLeader && (best == nil || st.Term > bestTerm) {
			best, bestTerm = r, st.Term
		}
	}
	return best
}

func (g *c05Group) noteLeader() {
	l := g.leader()
	if l == nil {
		return
	}
	term := l.node.VerifStatus().Term
	if l.id != g.lastLeader || term != g.lastTerm {
		if g.lastLeader >= 0 {
			g.leaderChanges++
		}
		g.lastLeader, g.lastTerm = l.id, term
	}
}

// waitLeader advances virtual time tick by tick until an up replica is leader and no leadership transfer is
// pending on it.
func (g *c05Group) waitLeader() *c05Replica {
	for t := time.Duration(0); ; t += c05Tick {
		synctest.Wait()
		if l := g.leader(); l != nil && l.node.VerifStatus().LeadTransferee == 0 {
			if ms := t.Milliseconds(); ms > g.maxElectMs {
				g.maxElectMs = ms
			}
			g.noteLeader()
			return l
		}
		if t >= c05LeaderWait {
			return nil
		}
		time.Sleep(c05Tick)
	}
}

// followers returns the up non-leader replicas, least recently addressed first (ties by id).
func (g *c05Group) followers(l *c05Replica) []*c05Replica {
	var fs []*c05Replica
	for _, r := range g.reps {
		if r.up && r != l {
			fs = append(fs, r)
		}
	}
	sort.SliceStable(fs, func(i, j int) bool {
		if fs[i].touch != fs[j].touch {
			return fs[i].touch < fs[j].touch
		}
		return fs[i].id < fs[j].id
	})
	return fs
}

func (g *c05Group) dead() *c05Replica {
	for _, r := range g.reps {
		if !r.up {
			return r
		}
	}
	return nil
}

// ---- events ------------------------------------------------------------------------------------

var c05Menu = []string{"Wa", "Wc", "We", "Wb", "Wd", "Wh"}

type c05Fail struct {
	Kind   string
	Detail string
	Tool   bool // harness-level problem, not a verdict
}

func c05Tail(r *c05Replica, pts []vPoint) ([]byte, error) {
	rows := make([]influx.Row, len(pts))
	for i := range pts {
		rows[i] = vRow(pts[i])
	}
	ctx := &netstorage.WriteContext{Rows: rows, Shard: &meta.ShardInfo{ID: c05ShardID(r.id)}}
	buf, err := netstorage.MarshalRows(ctx, c05DB, defaultRp, uint32(r.id))
	if err != nil {
		return nil, err
	}
	// what pointsdecoder.DecodeDBPT strips on the store side: type, db, rp, pt id
	hdr := 1 + 1 + len(c05DB) + 1 + len(defaultRp) + 4
	return append([]byte(nil), buf[hdr:]...), nil
}

func (g *c05Group) write(via string) *c05Fail {
	l := g.waitLeader()
	if l == nil {
		return &c05Fail{Kind: "no_leader_with_majority_up", Detail: fmt.Sprintf("no raft leader among the up replicas after %v of virtual time", c05LeaderWait)}
	}
	target := l
	switch via {
	case "Wf":
		fs := g.followers(l)
		if len(fs) == 0 {
			return &c05Fail{Kind: "harness_no_follower", Tool: true}
		}
		target = fs[0]
	case "Wi", "Wj":
		g.router.mu.Lock()
		g.router.cut[l.id] = true
		g.router.mu.Unlock()
	}
	if via == "Wj" {
		// several batches to the cut-off leader: its log then ends in c05StaleEntries entries that never reach a quorum. With one
		// (Wi) the index is always taken by the next leader's empty entry; every change of leadership that follows (election,
		// transfer back to the catalogue's master) costs one more empty entry, so it takes more stale entries than leader
		// changes for a REAL entry of a later leader to overwrite a discarded one.
		for k := 1; k < c05StaleEntries; k++ {
			id0 := len(g.writes) + 1
			w0 := &c05Write{ID: id0, Via: via, Pts: vWriteMenu[vWriteIndex(c05Menu[(id0-1)%len(c05Menu)])].Gen(id0), Leader: l.id, Ev: g.evNo}
			g.writes = append(g.writes, w0)
			tail0, err := c05Tail(target, w0.Pts)
			if err != nil {
				return &c05Fail{Kind: "harness_marshal", Detail: err.Error(), Tool: true}
			}
			if err = target.eng.WriteToRaft(c05DB, defaultRp, uint32(target.id), tail0); err == nil {
				w0.Acked = true
			} else {
				w0.Err = err.Error()
			}
			g.logf("write %d via %s (%d of %d) to replica %d: acked=%v %s", id0, via, k, c05StaleEntries, target.id, w0.Acked, w0.Err)
		}
	}
	id := len(g.writes) + 1
	w := &c05Write{ID: id, Via: via, Pts: vWriteMenu[vWriteIndex(c05Menu[(id-1)%len(c05Menu)])].Gen(id), Leader: l.id, Ev: g.evNo}
	g.writes = append(g.writes, w)
	tail, err := c05Tail(target, w.Pts)
	if err != nil {
		return &c05Fail{Kind: "harness_marshal", Detail: err.Error(), Tool: true}
	}
	target.touch = g.evNo
	start := time.Now()
	err = target.eng.WriteToRaft(c05DB, defaultRp, uint32(target.id), tail)
	took := time.Since(start)
	if err == nil {
		w.Acked = true
	} else {
		w.Err = err.Error()
	}
	g.logf("write %d via %s to replica %d (leader %d): acked=%v after %v %s", id, via, target.id, l.id, w.Acked, took, w.Err)
	if via == "Wi" || via == "Wj" {
		// The cut lasts until the connected majority has a leader of its own (whatever the write call did meanwhile),
		// so the outcome does not depend on election jitter: the old leader is deposed and its uncommitted entry dropped.
		var nl *c05Replica
		for t := time.Duration(0); nl == nil; t += c05Tick {
			synctest.Wait()
			for _, r := range g.reps {
				if r.up && r != l && r.node.VerifStatus().RaftState == raft.StateLeader {
					nl = r
				}
			}
			if nl == nil {
				if t >= c05LeaderWait {
					g.router.mu.Lock()
					g.router.cut[l.id] = false
					g.router.mu.Unlock()
					return &c05Fail{Kind: "no_leader_with_majority_up", Detail: fmt.Sprintf("the two replicas that can reach each other elected no leader within %v while replica %d was cut off", c05LeaderWait, l.id)}
				}
				time.Sleep(c05Tick)
			}
		}
		g.router.mu.Lock()
		g.router.cut[l.id] = false
		g.router.mu.Unlock()
		// the connection is back: let a heartbeat round pass so that the deposed leader learns the new term
		time.Sleep(2 * c05Tick)
		synctest.Wait()
		g.logf("%s: replica %d was cut off until replica %d led the others", via, l.id, nl.id)
		return nil // an acknowledgement given meanwhile is judged by the state oracle: the write must survive
	}
	if !w.Acked {
		return &c05Fail{Kind: "write_not_accepted_with_leader_and_majority_up",
			Detail: fmt.Sprintf("write %d via %s (replica %d, leader %d) returned %q after %v although a leader exists and at most one replica is down", id, via, target.id, l.id, w.Err, took)}
	}
	return nil
}

func (g *c05Group) apply(ev string) *c05Fail {
	g.evNo++
	defer c05Progress.Add(1)
	switch ev {
	case "W", "Wf", "Wi", "Wj":
		if f := g.write(ev); f != nil {
			return f
		}
	case "Kl", "Kf", "Kg", "Fl", "Ff", "Fg":
		l := g.waitLeader()
		if l == nil {
			return &c05Fail{Kind: "no_leader_with_majority_up", Detail: fmt.Sprintf("no raft leader among the up replicas after %v of virtual time (event %s)", c05LeaderWait, ev)}
		}
		target := l
		if ev[1] != 'l' {
			fs := g.followers(l)
			idx := 0
			if ev[1] == 'g' {
				idx = 1
			}
			if idx >= len(fs) {
				return &c05Fail{Kind: "harness_no_such_follower", Detail: ev, Tool: true}
			}
			target = fs[idx]
		}
		target.touch = g.evNo
		if ev[0] == 'K' {
			g.logf("%s: kill replica %d (leader %d)", ev, target.id, l.id)
			g.kill(target)
		} else {
			g.logf("%s: flush replica %d (leader %d)", ev, target.id, l.id)
			target.sh.Flush()
		}
	case "R":
		d := g.dead()
		if d == nil {
			return &c05Fail{Kind: "harness_nothing_to_restart", Tool: true}
		}
		d.touch = g.evNo
		d.restarts++
		d.lagging, d.behind = true, false
		g.router.mu.Lock()
		d.snapsAtRestart = g.router.snapTo[d.id]
		g.router.mu.Unlock()
		g.logf("R: restart replica %d", d.id)
		if err := g.start(d); err != nil {
			return &c05Fail{Kind: "restart_failed", Detail: fmt.Sprintf("replica %d does not start from its directories: %v", d.id, err)}
		}
	case "T":
		time.Sleep(c05LongT)
	case "E":
		time.Sleep(c05ElectionTimeout())
	default:
		return &c05Fail{Kind: "harness_unknown_event", Detail: ev, Tool: true}
	}
	synctest.Wait()
	g.noteLeader()
	if c05Verbose {
		g.logf("after %s: %s", ev, g.describeRaft())
	}
	return nil
}

var c05Verbose bool

// ---- oracle ------------------------------------------------------------------------------------

type c05State map[vKey]map[string]vVal

func (s c05State) apply(pts []vPoint) {
	for _, p := range pts {
		if s[p.K] == nil {
			s[p.K] = map[string]vVal{}
		}
		for n, v := range p.V {
			s[p.K][n] = v
		}
	}
}

func (s c05State) String() string {
	keys := make([]string, 0, len(s))
	for k, fs := range s {
		names := make([]string, 0, len(fs))
		for n := range fs {
			names = append(names, n)
		}
		sort.Strings(names)
		var b strings.Builder
		for _, n := range names {
			fmt.Fprintf(&b, "%s=%v ", n, fs[n])
		}
		keys = append(keys, fmt.Sprintf("%v{%s}", k, strings.TrimSpace(b.String())))
	}
	sort.Strings(keys)
	return strings.Join(keys, " ")
}

func (r *c05Replica) dump() (c05State, error) {
	r.sh.IndexBarrier()
	got, shape, err := r.sh.Dump(vFullDumpQuery("m"))
	if err != nil {
		return nil, err
	}
	if len(shape) > 0 {
		return nil, fmt.Errorf("malformed result stream: %s", strings.Join(shape, "; "))
	}
	return c05State(got), nil
}

// match: the replica's content must be the last-write-wins result of a prefix of the replicated log. The log is the
// sequence of writes in proposal order, where an unacknowledged write may be present or absent. Returns the largest
// number of acknowledged writes covered by a matching prefix, or -1.
func (g *c05Group) match(state string) int {
	// Unacknowledged writes are grouped: the batches one Wj event sent to the cut-off leader were appended to that leader's
	// log one after the other, so whatever part of them a replicated log holds is a PREFIX of the group (log matching);
	// every other unacknowledged write is a group of one (present or absent). Enumerating prefixes per group instead of
	// subsets keeps the number of candidate logs small (6 per Wj instead of 32).
	var groups [][]int
	for i, w := range g.writes {
		if w.Acked {
			continue
		}
		if n := len(groups); n > 0 && w.Via == "Wj" {
			last := groups[n-1]
			lw := g.writes[last[len(last)-1]]
			if lw.Via == "Wj" && lw.Ev == w.Ev && last[len(last)-1] == i-1 {
				groups[n-1] = append(last, i)
				continue
			}
		}
		groups = append(groups, []int{i})
	}
	best := -1
	choice := make([]int, len(groups)) // choice[k] = number of leading writes of group k that are in the log
	for {
		in := map[int]bool{}
		for k, grp := range groups {
			for j := 0; j < choice[k]; j++ {
				in[grp[j]] = true
			}
		}
		s := c05State{}
		acked := 0
		if s.String() == state && acked > best {
			best = acked
		}
		for i, w := range g.writes {
			if !w.Acked && !in[i] {
				continue
			}
			s.apply(w.Pts)
			if w.Acked {
				acked++
			}
			if s.String() == state && acked > best {
				best = acked
			}
		}
		// next choice vector (odometer)
		k := 0
		for ; k < len(groups); k++ {
			choice[k]++
			if choice[k] <= len(groups[k]) {
				break
			}
			choice[k] = 0
		}
		if k == len(groups) {
			break
		}
	}
	return best
}

func (g *c05Group) ackedTotal() int {
	n := 0
	for _, w := range g.writes {
		if w.Acked {
			n++
		}
	}
	return n
}

func (g *c05Group) describeRaft() string {
	var b strings.Builder
	for _, r := range g.reps {
		if !r.up {
			fmt.Fprintf(&b, "r%d down; ", r.id)
			continue
		}
		st := r.node.VerifStatus()
		first, last := r.node.Store.GetFirstLast()
		fmt.Fprintf(&b, "r%d %v term %d commit %d applied %d log [%d,%d] snapIdx %d lead %d", r.id, st.RaftState, st.Term, st.Commit, st.Applied, first, last, r.node.SnapShotter.CommittedIndex, st.Lead)
		if st.RaftState == raft.StateLeader {
			for id, p := range st.Progress {
				fmt.Fprintf(&b, " p%d{match %d next %d %v paused %v}", id-1, p.Match, p.Next, p.State, p.IsPaused())
			}
		}
		b.WriteString("; ")
	}
	return b.String()
}

func (g *c05Group) describeWrites() string {
	var b strings.Builder
	for _, w := range g.writes {
		fmt.Fprintf(&b, "w%d(%s acked=%v)=%v; ", w.ID, w.Via, w.Acked, c05PtsString(w.Pts))
	}
	return b.String()
}

func c05PtsString(pts []vPoint) string {
	s := c05State{}
	s.apply(pts)
	return s.String()
}

// stepCheck is evaluated after every event at quiescence, without advancing time.
func (g *c05Group) stepCheck() *c05Fail {
	total := g.ackedTotal()
	// "up and caught up": the statement lets a replica that has just (re)joined lag. A replica counts as caught up when
	// the current leader replicates to it in steady state (raft progress StateReplicate, which a restarted or newly led
	// member reaches with its first successful append response); until then it only must not lose what it had.
	inSync := map[int]bool{}
	if l := g.leader(); l != nil {
		inSync[l.id] = true
		for id, p := range l.node.VerifStatus().Progress {
			if p.State == tracker.StateReplicate {
				inSync[int(id)-1] = true
			}
		}
	}
	for _, r := range g.reps {
		if !r.up {
			continue
		}
		if !inSync[r.id] && !r.lagging {
			r.lagging = true // catching up with a (new) leader
		}
		st, err := r.dump()
		if err != nil {
			return &c05Fail{Kind: "replica_read_failed", Detail: fmt.Sprintf("replica %d: %v", r.id, err)}
		}
		have := g.match(st.String())
		if have < 0 {
			return &c05Fail{Kind: "replica_state_not_a_prefix_of_the_log",
				Detail: fmt.Sprintf("replica %d returns {%s}, which is not the result of any prefix of the write sequence [%s]", r.id, st.String(), g.describeWrites())}
		}
		need := total
		if r.lagging {
			need = r.floor
		}
		if have < need {
			kind := "acked_write_missing_on_up_replica"
			if r.lagging && r.restarts > 0 {
				kind = "restart_lost_applied_writes"
				// the member replays its log from its own snapshot index (its own last flush): is that range still there?
				first, _ := r.node.Store.GetFirstLast()
				if sp, errSp := r.node.Store.Snapshot(); errSp == nil && first > 1 && first > sp.Metadata.Index {
					kind = "restart_lost_writes_log_truncated_past_own_flush"
				}
			}
			return &c05Fail{Kind: kind,
				Detail: fmt.Sprintf("replica %d (restarts %d, catching up %v) holds %d acknowledged writes, must hold %d: {%s}; writes [%s]; raft: %s", r.id, r.restarts, r.lagging, have, need, st.String(), g.describeWrites(), g.describeRaft())}
		}
		if have > r.floor {
			r.floor = have
		}
		if have == total && inSync[r.id] {
			if r.lagging && r.behind {
				g.router.mu.Lock()
				bySnap := g.router.snapTo[r.id] > r.snapsAtRestart
				g.router.mu.Unlock()
				if bySnap {
					g.catchSnap++
				} else {
					g.catchLog++
				}
			}
			r.lagging, r.behind = false, false
		} else if r.lagging {
			r.behind = true
		}
	}
	return nil
}

// finalCheck: everybody is restarted, a leader must emerge, and within a bounded virtual time all three replicas
// must hold every acknowledged write and be equal.
func (g *c05Group) finalCheck() *c05Fail {
	if d := g.dead(); d != nil {
		if f := g.apply("R"); f != nil {
			return f
		}
		if f := g.stepCheck(); f != nil {
			return f
		}
	}
	if l := g.waitLeader(); l == nil {
		return &c05Fail{Kind: "no_leader_with_majority_up", Detail: fmt.Sprintf("final phase: no raft leader after %v of virtual time with all replicas up", c05LeaderWait)}
	}
	total := g.ackedTotal()
	var states [3]string
	var have [3]int
	var detail string
	for round := 0; round < 5; round++ {
		switch round {
		case 0: // nothing to wait for when everybody is already in step
		case 1:
			time.Sleep(c05ElectionTimeout())
		default:
			time.Sleep(c05LongT)
		}
		synctest.Wait()
		c05Progress.Add(1)
		ok := true
		for i, r := range g.reps {
			st, err := r.dump()
			if err != nil {
				return &c05Fail{Kind: "replica_read_failed", Detail: fmt.Sprintf("replica %d: %v", r.id, err)}
			}
			states[i] = st.String()
			have[i] = g.match(states[i])
			if have[i] != total || states[i] != states[0] {
				ok = false
			}
		}
		if ok {
			for _, r := range g.reps {
				if r.lagging && r.behind {
					g.router.mu.Lock()
					bySnap := g.router.snapTo[r.id] > r.snapsAtRestart
					g.router.mu.Unlock()
					if bySnap {
						g.catchSnap++
					} else {
						g.catchLog++
					}
				}
				r.lagging, r.behind = false, false
			}
			return nil
		}
		for i, r := range g.reps {
			if r.lagging && have[i] < total {
				r.behind = true
			}
		}
	}
	l := g.leader()
	kind := "replicas_do_not_converge"
	for i, r := range g.reps {
		if have[i] < 0 {
			kind = "replica_state_not_a_prefix_of_the_log"
			break
		}
		if have[i] < total {
			kind = "replica_not_caught_up_after_rejoin"
			if l != nil && l != r {
				lf, _ := l.node.Store.GetFirstLast()
				_, rl := r.node.Store.GetFirstLast()
				g.router.mu.Lock()
				snaps := g.router.snapTo[i]
				g.router.mu.Unlock()
				if lf > rl+1 || snaps > 0 {
					kind = "entries_needed_by_member_truncated"
					detail = fmt.Sprintf("leader %d's log starts at %d, replica %d's log ends at %d, %d snapshot messages (which carry no data) were sent to it; ", l.id, lf, r.id, rl, snaps)
				}
			}
		}
	}
	allSame := states[0] == states[1] && states[1] == states[2]
	if allSame && have[0] >= 0 && have[0] < total {
		kind = "acked_write_lost"
	}
	return &c05Fail{Kind: kind, Detail: fmt.Sprintf("%safter restart of everything, a leader and %v of virtual time: acknowledged writes %d; replica0 (%d) {%s}; replica1 (%d) {%s}; replica2 (%d) {%s}; writes [%s]",
		detail, c05ElectionTimeout()+3*c05LongT, total, have[0], states[0], have[1], states[1], have[2], states[2], g.describeWrites())}
}

// ---- one sequence ------------------------------------------------------------------------------

type c05Case struct {
	Part string   `json:"part"`
	Seq  []string `json:"seq"`
}

type c05Outcome struct {
	Fail      *c05Fail
	FailStep  int // 1-based event index; len+1 = final phase; 0 = set-up
	Acked     int
	Unacked   int
	Kills     int
	Restarts  int
	Routed    int64
	Dropped   int64
	Snaps     int64
	Apps      int64
	Votes     int64
	Leaders   int
	MaxElect  int64
	CatchLog  int
	CatchSnap int
	Truncated int // replicas whose raft log no longer starts at index 1 at the end
	Snapshots int // replicas with a raft snapshot index > 0 at the end
	Log       []string
	Stacks    string
}

var c05RunSeq int

func c05Run(base string, seq []string) (out c05Outcome) {
	c05RunSeq++
	dir := filepath.Join(base, fmt.Sprintf("g%d", c05RunSeq))
	g, err := c05NewGroup(dir)
	if err != nil {
		out.Fail = &c05Fail{Kind: "harness_setup", Detail: err.Error(), Tool: true}
		if g != nil {
			g.teardown()
		}
		return
	}
	defer func() {
		out.Acked = g.ackedTotal()
		out.Unacked = len(g.writes) - out.Acked
		g.router.mu.Lock()
		out.Routed, out.Dropped, out.Snaps, out.Apps, out.Votes = g.router.routed, g.router.dropped, g.router.snaps, g.router.apps, g.router.votes
		g.router.mu.Unlock()
		out.Leaders, out.MaxElect = g.leaderChanges, g.maxElectMs
		out.CatchLog, out.CatchSnap = g.catchLog, g.catchSnap
		for _, r := range g.reps {
			if !r.up {
				continue
			}
			if first, _ := r.node.Store.GetFirstLast(); first > 1 {
				out.Truncated++
			}
			if sp, err := r.node.Store.Snapshot(); err == nil && sp.Metadata.Index > 0 {
				out.Snapshots++
			}
		}
		for _, r := range g.reps {
			out.Restarts += r.restarts
		}
		out.Log = g.log
		g.teardown()
	}()
	for i, ev := range seq {
		if ev[0] == 'K' {
			out.Kills++
		}
		if f := g.apply(ev); f != nil {
			out.Fail, out.FailStep = f, i+1
			return
		}
		if f := g.stepCheck(); f != nil {
			out.Fail, out.FailStep = f, i+1
			if kit.Getenv("VERIF_C05_STACKS", "") != "" {
				buf := make([]byte, 8<<20)
				out.Stacks = string(buf[:runtime.Stack(buf, true)])
			}
			return
		}
	}
	if f := g.finalCheck(); f != nil {
		out.Fail, out.FailStep = f, len(seq)+1
	}
	return
}

// ---- enumeration -------------------------------------------------------------------------------

// c05Sequences: every event sequence of length 1..depth with at most one replica down. Kg / Fg (the other
// follower) are generated only once the two followers can differ (some event has addressed a single replica).
func c05Sequences(depth int, alphabet map[string]bool) [][]string {
	var out [][]string
	var rec func(prefix []string, dead, asym bool)
	rec = func(prefix []string, dead, asym bool) {
		if len(prefix) > 0 {
			out = append(out, append([]string(nil), prefix...))
		}
		if len(prefix) == depth {
			return
		}
		var evs []string
		if dead {
			evs = []string{"W", "Wf", "R", "Fl", "Ff", "T", "E"}
		} else {
			evs = []string{"W", "Wf", "Wi", "Wj", "Kl", "Kf", "Kg", "Fl", "Ff", "Fg", "T", "E"}
		}
		for _, ev := range evs {
			if !alphabet[ev] {
				continue
			}
			if (ev == "Kg" || ev == "Fg") && !asym {
				continue
			}
			d, a := dead, asym
			switch ev {
			case "Kl", "Kf", "Kg":
				d, a = true, true
			case "R":
				d = false
			case "Wf", "Wi", "Wj", "Ff", "Fg", "Fl":
				a = true
			}
			rec(append(prefix, ev), d, a)
		}
	}
	rec(nil, false, false)
	return out
}

func c05Alphabet(names string) map[string]bool {
	m := map[string]bool{}
	for _, n := range strings.Fields(names) {
		m[n] = true
	}
	return m
}

// c05StaleEntries: number of batches event Wj sends to the cut-off leader
const c05StaleEntries = 5

const (
	c05AlphaBase = "W Wi Kl Kf R Fl Ff T E"
	c05AlphaFull = "W Wf Wi Wj Kl Kf Kg R Fl Ff Fg T E"
)

func TestVerifC05(t *testing.T) {
	rep := kit.NewReport("C05")
	go func() { // real-time watchdog and deadline outside the bubble (time.Now is the real clock here)
		last, lastT := int64(-1), time.Now()
		start := time.Now()
		dl := 0
		fmt.Sscanf(kit.Getenv("VERIF_DEADLINE_S", "0"), "%d", &dl)
		for {
			time.Sleep(2 * time.Second)
			if dl > 0 && time.Since(start) > time.Duration(dl)*time.Second {
				c05Expired.Store(true)
			}
			if p := c05Progress.Load(); p != last {
				last, lastT = p, time.Now()
				continue
			}
			if time.Since(lastT) > 240*time.Second {
				buf := make([]byte, 4<<20)
				buf = buf[:runtime.Stack(buf, true)]
				fmt.Fprintf(os.Stderr, "WATCHDOG: no progress for 240s\n%s\n", buf)
				os.Exit(3)
			}
		}
	}()
	synctest.Test(t, func(t *testing.T) {
		c05Main(t, rep)
		rep.Save()
		os.Exit(0) // background goroutines of closed shards may still sit in the bubble
	})
}

func c05Main(t *testing.T, rep *kit.Report) {
	// The package-global compaction worker runs on a real-time ticker OUTSIDE the bubble; a shard that it sees between
	// OpenAndEnable (register) and vOpenShard's unregister makes the runtime abort ("receive on synctest channel from
	// outside bubble"). Shards of this harness register with an inert worker instead (no goroutine); compaction is not
	// part of the alphabet.
	compWorker = &Compactor{
		sources: make(map[uint64]*shard, 32),
		plans:   make(map[uint64][immutable.CompactLevels]map[string][][]uint64, 8),
	}
	logger.SetLogger(zap.NewNop())
	raft.SetLogger(&raft.DefaultLogger{Logger: c05DiscardLogger()})
	vSetupEngineKnobs()
	// what app/ts-store/run/server.go installs with config.SetStoreConfig(conf.Data): the package-level default has a
	// zero tolerate time / size, which would let a leader truncate its log at once while a member is down
	def := config.NewStore()
	config.GetStoreConfig().ClearEntryLogTolerateTime = def.ClearEntryLogTolerateTime
	config.GetStoreConfig().ClearEntryLogTolerateSize = def.ClearEntryLogTolerateSize
	if tt := kit.Getenv("VERIF_C05_TOLERATE", ""); tt != "" {
		if d, err := time.ParseDuration(tt); err == nil {
			config.GetStoreConfig().ClearEntryLogTolerateTime = toml.Duration(d)
		}
	}
	if kit.Getenv("VERIF_C05_FSYNC", "") == "" {
		fileops.C05NoFsync()
	}
	scratch := kit.Scratch()
	base := vMkdir(scratch, "c05")
	debug := kit.Getenv("VERIF_C05_DEBUG", "") != ""

	if kit.ReplayPath() != "" {
		var c c05Case
		if err := kit.LoadReplay(&c); err != nil {
			t.Fatal(err)
		}
		out := c05Run(base, c.Seq)
		rep.Eval(1)
		for _, l := range out.Log {
			fmt.Println("C05-LOG", l)
		}
		if out.Fail != nil {
			rep.Violation(out.Fail.Kind, c05Key(c.Seq, out.FailStep), out.Fail.Detail, c)
		}
		return
	}

	depth, alpha := 4, c05AlphaFull
	type phase struct {
		depth int
		alpha string
	}
	phases := []phase{{3, c05AlphaFull}, {4, c05AlphaBase}}
	if kit.Thorough() {
		phases = []phase{{4, c05AlphaFull}, {6, c05AlphaBase}}
	}
	if d := kit.Getenv("VERIF_C05_DEPTH", ""); d != "" {
		fmt.Sscanf(d, "%d", &depth)
		if a := kit.Getenv("VERIF_C05_ALPHA", ""); a != "" {
			alpha = a
		}
		phases = []phase{{depth, alpha}}
	}
	if sq := kit.Getenv("VERIF_C05_SEQ", ""); sq != "" {
		c05Verbose = true
		out := c05Run(base, strings.Fields(sq))
		for _, l := range out.Log {
			fmt.Println("C05-LOG", l)
		}
		fmt.Printf("C05-RESULT fail=%v step=%d acked=%d unacked=%d routed=%d snaps=%d catchLog=%d catchSnap=%d truncated=%d snapshots=%d\n", out.Fail, out.FailStep, out.Acked, out.Unacked, out.Routed, out.Snaps, out.CatchLog, out.CatchSnap, out.Truncated, out.Snapshots)
		if out.Fail != nil {
			fmt.Printf("C05-RESULT %s: %s\n", out.Fail.Kind, out.Fail.Detail)
		}
		return
	}
	seen := map[string]bool{}
	var all [][]string
	for _, ph := range phases {
		for _, s := range c05Sequences(ph.depth, c05Alphabet(ph.alpha)) {
			k := strings.Join(s, " ")
			if !seen[k] {
				seen[k] = true
				all = append(all, s)
			}
		}
	}
	// shortest first, then lexicographic in alphabet order: a failing prefix is reported by the shortest sequence
	sort.SliceStable(all, func(i, j int) bool { return len(all[i]) < len(all[j]) })
	rep.Count("sequences_in_bound", 0)
	if kit.Shard() == 0 {
		rep.Count("sequences_in_bound", int64(len(all)))
	}
	// Work units: the front end starts many short-lived worker processes (a process that has opened some thousand shards
	// inside a bubble occasionally hangs inside the Go 1.25.0 runtime, see notes); unit u of U takes the u-th contiguous
	// block of the list, so that a deadline cuts the longest sequences.
	units, unit := kit.NShard(), kit.Shard()
	block := (len(all) + units - 1) / units
	lo, hi := unit*block, (unit+1)*block
	if hi > len(all) {
		hi = len(all)
	}
	for i := lo; i < hi; i++ {
		seq := all[i]
		if rep.Expired() || c05Expired.Load() {
			rep.Cut(fmt.Sprintf("deadline: unit %d of %d stopped at sequence %d of its block [%d,%d) (list of %d, shortest first)", unit, units, i, lo, hi, len(all)))
			break
		}
		if debug {
			fmt.Printf("C05-DEBUG start %v\n", seq)
		}
		out := c05Run(base, seq)
		if debug {
			fmt.Printf("C05-DEBUG %v fail=%v acked=%d routed=%d\n", seq, out.Fail != nil, out.Acked, out.Routed)
			if out.Fail != nil {
				fmt.Printf("C05-DEBUG   step %d %s: %s\n", out.FailStep, out.Fail.Kind, out.Fail.Detail)
				if out.Stacks != "" {
					fmt.Printf("C05-STACKS\n%s\n", out.Stacks)
				}
			}
		}
		if out.Fail != nil && out.Fail.Tool {
			for _, l := range out.Log {
				fmt.Println("C05-LOG", l)
			}
			fmt.Fprintf(os.Stderr, "TOOL ERROR in sequence %v: %s %s\n", seq, out.Fail.Kind, out.Fail.Detail)
			rep.Save()
			os.Exit(3)
		}
		rep.Eval(1)
		rep.Count("events_executed", int64(len(seq)))
		rep.Count("raft_messages_routed", out.Routed)
		rep.Count("raft_messages_dropped_to_or_from_down_replica", out.Dropped)
		rep.Count("append_messages_with_entries", out.Apps)
		rep.Count("vote_messages", out.Votes)
		rep.Count("snapshot_messages", out.Snaps)
		rep.Count("leader_changes_observed", int64(out.Leaders))
		rep.Count("kills", int64(out.Kills))
		rep.Count("restarts", int64(out.Restarts))
		rep.Count("writes_acknowledged", int64(out.Acked))
		rep.Count("writes_not_acknowledged", int64(out.Unacked))
		rep.Max("max_virtual_ms_until_leader", out.MaxElect)
		rep.Count("catch_ups_by_log", int64(out.CatchLog))
		rep.Count("catch_ups_by_snapshot", int64(out.CatchSnap))
		rep.Count("replicas_ending_with_truncated_raft_log", int64(out.Truncated))
		rep.Count("replicas_ending_with_raft_snapshot", int64(out.Snapshots))
		if out.Kills > 0 && out.Acked > 0 {
			rep.DistinctNontrivial(kit.Hash(append([]string{"a"}, seq...)...))
		}
		if i%97 == 0 {
			rep.Sample(4, map[string]any{"part": "a", "seq": seq, "acked": out.Acked, "unacked": out.Unacked, "raft_messages": out.Routed, "restarts": out.Restarts, "leader_changes": out.Leaders})
		}
		if out.Fail == nil {
			continue
		}
		if out.FailStep <= len(seq)-1 {
			// a proper prefix already fails at that step; the shorter sequence reports it
			rep.Count("sequences_with_failing_prefix", 1)
			continue
		}
		// determinism: the verdict must repeat
		same := 0
		for k := 0; k < 3; k++ {
			again := c05Run(base, seq)
			if again.Fail != nil && again.Fail.Kind == out.Fail.Kind && again.FailStep == out.FailStep {
				same++
			}
		}
		if same < 3 {
			rep.Count("flaky_failures", 1)
			rep.Cut(fmt.Sprintf("sequence %v failed (%s at step %d) but only %d of 3 re-executions repeated it: %s", seq, out.Fail.Kind, out.FailStep, same, out.Fail.Detail))
			for _, l := range out.Log {
				fmt.Println("C05-LOG", l)
			}
			continue
		}
		b, _ := json.Marshal(out.Log)
		rep.Violation(out.Fail.Kind, c05Key(seq, out.FailStep), out.Fail.Detail+" | trace: "+string(b), c05Case{Part: "a", Seq: seq})
	}
}

func c05Key(seq []string, step int) string {
	where := fmt.Sprintf("step %d", step)
	if step > len(seq) {
		where = "final phase"
	}
	return strings.Join(seq, " ") + " @ " + where
}

func c05DiscardLogger() *stdlog.Logger { return stdlog.New(io.Discard, "", 0) }
