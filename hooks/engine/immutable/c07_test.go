//go:build verif && c07

package immutable

// C07 seam 4: column builder + chunk encoder with null bitmaps, segment split, pre-aggregation statistics
// (chunk cases, in memory, exactly the functions MsBuilder.WriteData and tsspFileReader.readSegmentRecord call)
// and MsBuilder -> file on disk -> TSSPFile readers (file cases: trailer, meta index, chunk meta, segments).

import (
	"bytes"
	"fmt"
	"math"
	"os"
	"path/filepath"
	"runtime/debug"
	"strings"
	"testing"

	"github.com/openGemini/openGemini/lib/config"
	"github.com/openGemini/openGemini/lib/fileops"
	"github.com/openGemini/openGemini/lib/record"
	"github.com/openGemini/openGemini/lib/util"
	"github.com/openGemini/openGemini/lib/util/lifted/vm/protoparser/influx"
	kit "github.com/openGemini/openGemini/lib/verifkit"
	gen "github.com/openGemini/openGemini/lib/verifkit/c07gen"
)

type c07Case struct {
	Seam string `json:"seam"`
	Kind string `json:"kind"` // chunk-seq | chunk-shape | file
	// chunk-seq: one field column of Type; Seq digits index the type's alphabet, digit == len(alphabet) is null
	Type    int   `json:"type,omitempty"`
	Seq     []int `json:"seq,omitempty"`
	TimeVar int   `json:"timevar,omitempty"`
	// chunk-shape / file
	Shape   gen.Shape `json:"shape,omitempty"`
	Variant int       `json:"variant,omitempty"`
	NullPat int       `json:"nullpat,omitempty"`
	MaxRows int       `json:"maxrows,omitempty"`
	Self    bool      `json:"self,omitempty"` // chunk cases: chunk-meta "self" compression (VLC statistics) on/off
	// file
	Schema  []int `json:"schema,omitempty"`
	NSeries int   `json:"nseries,omitempty"`
	RowsIdx int   `json:"rowsidx,omitempty"`
	Mode    int   `json:"mode,omitempty"` // chunk meta compress mode 0..3
}

func (c *c07Case) key() string {
	switch c.Kind {
	case "chunk-seq":
		return fmt.Sprintf("file/chunk/%s/seq%v/t%d/self=%v", gen.TypeNames[c.Type], c.Seq, c.TimeVar, c.Self)
	case "chunk-shape":
		return fmt.Sprintf("file/chunk/%s/%s/v%d/nulls=%s/maxrows%d/self=%v", gen.TypeNames[c.Type], c.Shape.String(), c.Variant, gen.NullPatternNames[c.NullPat], c.MaxRows, c.Self)
	}
	return fmt.Sprintf("file/tssp/%s/series%d/rows%d/nulls%d/v%d/mode%d", gen.SchemaName(c.Schema), c.NSeries, c.RowsIdx, c.NullPat, c.Variant, c.Mode)
}

// ---------------------------------------------------------------- model

type c07Col struct {
	typ  int      // gen.T*
	rows [][]byte // nil = null, otherwise the value bytes (8 / 1 / string bytes)
}

type c07Series struct {
	id    uint64
	times []int64
	cols  []c07Col
}

var c07RepoType = []int{influx.Field_Type_Int, influx.Field_Type_Float, influx.Field_Type_Boolean, influx.Field_Type_String}
var c07ColNames = []string{"c0", "c1", "c2"}

func c07U64(v uint64) []byte { return append([]byte(nil), util.Uint64Slice2byte([]uint64{v})...) }

func c07Schema(s *c07Series) record.Schemas {
	var sc record.Schemas
	for j := range s.cols {
		sc = append(sc, record.Field{Name: c07ColNames[j], Type: c07RepoType[s.cols[j].typ]})
	}
	return append(sc, record.Field{Name: record.TimeField, Type: influx.Field_Type_Int})
}

func c07Record(s *c07Series) *record.Record {
	rec := record.NewRecordBuilder(c07Schema(s))
	for j := range s.cols {
		col := &rec.ColVals[j]
		for _, v := range s.cols[j].rows {
			switch s.cols[j].typ {
			case gen.TInt:
				if v == nil {
					col.AppendIntegerNull()
				} else {
					col.AppendInteger(util.Bytes2Int64Slice(v)[0])
				}
			case gen.TFloat:
				if v == nil {
					col.AppendFloatNull()
				} else {
					col.AppendFloat(util.Bytes2Float64Slice(v)[0])
				}
			case gen.TBool:
				if v == nil {
					col.AppendBooleanNull()
				} else {
					col.AppendBoolean(v[0] == 1)
				}
			case gen.TString:
				if v == nil {
					col.AppendStringNull()
				} else {
					col.AppendString(string(v))
				}
			}
		}
	}
	rec.ColVals[len(s.cols)].AppendIntegers(s.times...)
	return rec
}

// c07Rows renders a decoded column row by row (nil = null).
func c07Rows(col *record.ColVal, typ int) ([][]byte, string) {
	out := make([][]byte, 0, col.Len)
	k := 0
	for i := 0; i < col.Len; i++ {
		if col.IsNil(i) {
			out = append(out, nil)
			continue
		}
		switch typ {
		case gen.TInt, gen.TFloat:
			if 8*k+8 > len(col.Val) {
				return out, fmt.Sprintf("row %d is marked valid but the column has only %d value bytes", i, len(col.Val))
			}
			out = append(out, col.Val[8*k:8*k+8])
		case gen.TBool:
			if k >= len(col.Val) {
				return out, fmt.Sprintf("row %d is marked valid but the column has only %d value bytes", i, len(col.Val))
			}
			out = append(out, col.Val[k:k+1])
		case gen.TString:
			if i >= len(col.Offset) {
				return out, fmt.Sprintf("row %d has no offset (%d offsets)", i, len(col.Offset))
			}
			st := int(col.Offset[i])
			en := len(col.Val)
			if i+1 < len(col.Offset) {
				en = int(col.Offset[i+1])
			}
			if st > en || en > len(col.Val) {
				return out, fmt.Sprintf("row %d: offsets %d..%d outside %d value bytes", i, st, en, len(col.Val))
			}
			v := col.Val[st:en]
			if v == nil {
				v = []byte{}
			}
			out = append(out, v)
		}
		k++
	}
	return out, ""
}

func c07CompareRows(want, got [][]byte) string {
	if len(want) != len(got) {
		return fmt.Sprintf("%d rows written, %d rows read", len(want), len(got))
	}
	for i := range want {
		if (want[i] == nil) != (got[i] == nil) {
			return fmt.Sprintf("row %d: null=%v written, null=%v read", i, want[i] == nil, got[i] == nil)
		}
		if !bytes.Equal(want[i], got[i]) {
			return fmt.Sprintf("row %d: wrote %x, read %x", i, want[i], got[i])
		}
	}
	return ""
}

// ---------------------------------------------------------------- statistics oracle

// c07CheckStats compares the decoded pre-aggregation of one column with values computed directly.
// Returns (kind, detail).
func c07CheckStats(col *c07Col, times []int64, preAgg []byte) (string, string) {
	b := acquireColumnBuilder(c07RepoType[col.typ])
	defer b.release()
	var err error
	func() {
		defer func() {
			if r := recover(); r != nil {
				err = fmt.Errorf("panic: %v", r)
			}
		}()
		_, err = b.unmarshal(preAgg)
	}()
	if err != nil {
		return "preagg_undecodable", fmt.Sprintf("statistics bytes % x: %v", preAgg, err)
	}
	cnt := int64(0)
	for _, v := range col.rows {
		if v != nil {
			cnt++
		}
	}
	if b.count() != cnt {
		return "preagg_count_mismatch", fmt.Sprintf("count: %d non-null values written, statistics say %d", cnt, b.count())
	}
	if cnt == 0 || col.typ == gen.TString {
		return "", ""
	}
	rowHas := func(tm int64, pred func(v []byte) bool) bool {
		for i, v := range col.rows {
			if v != nil && times[i] == tm && pred(v) {
				return true
			}
		}
		return false
	}
	switch col.typ {
	case gen.TInt:
		var sum int64
		mn, mx := int64(math.MaxInt64), int64(math.MinInt64)
		for _, v := range col.rows {
			if v == nil {
				continue
			}
			x := util.Bytes2Int64Slice(v)[0]
			sum += x
			mn, mx = min(mn, x), max(mx, x)
		}
		gmn, tmn := b.min()
		gmx, tmx := b.max()
		if gmn.(int64) != mn || gmx.(int64) != mx {
			return "preagg_minmax_mismatch", fmt.Sprintf("int min/max: expected %d/%d, statistics say %d/%d", mn, mx, gmn, gmx)
		}
		if b.sum().(int64) != sum {
			return "preagg_sum_mismatch", fmt.Sprintf("int sum: expected %d, statistics say %d", sum, b.sum())
		}
		if !rowHas(tmn, func(v []byte) bool { return util.Bytes2Int64Slice(v)[0] == mn }) {
			kind := "preagg_minmax_time_mismatch"
			if mn == math.MaxInt64 {
				kind = "preagg_min_time_unset_when_min_is_maxint64"
			}
			return kind, fmt.Sprintf("time of min: statistics say %d, no row with value %d at that time", tmn, mn)
		}
		if !rowHas(tmx, func(v []byte) bool { return util.Bytes2Int64Slice(v)[0] == mx }) {
			kind := "preagg_minmax_time_mismatch"
			if mx == math.MinInt64 {
				kind = "preagg_max_time_unset_when_max_is_minint64"
			}
			return kind, fmt.Sprintf("time of max: statistics say %d, no row with value %d at that time", tmx, mx)
		}
	case gen.TFloat:
		var sum float64
		mn, mx := math.Inf(1), math.Inf(-1)
		for _, v := range col.rows {
			if v == nil {
				continue
			}
			x := util.Bytes2Float64Slice(v)[0]
			if math.IsNaN(x) {
				return "", "" // ordering and sums with NaN are not defined by the statement
			}
			sum += x
			mn, mx = math.Min(mn, x), math.Max(mx, x)
		}
		gmn, tmn := b.min()
		gmx, tmx := b.max()
		if gmn.(float64) != mn || gmx.(float64) != mx {
			kind := "preagg_minmax_mismatch"
			if (gmn.(float64) != mn && mn > math.MaxFloat64) || (gmx.(float64) != mx && mx < -math.MaxFloat64) {
				kind = "preagg_float_minmax_wrong_for_all_infinite_column"
			}
			return kind, fmt.Sprintf("float min/max: expected %v/%v, statistics say %v/%v", mn, mx, gmn, gmx)
		}
		gs := b.sum().(float64)
		if !(math.IsNaN(gs) && math.IsNaN(sum)) && gs != sum {
			return "preagg_sum_mismatch", fmt.Sprintf("float sum: expected %v, statistics say %v", sum, gs)
		}
		if !rowHas(tmn, func(v []byte) bool { return util.Bytes2Float64Slice(v)[0] == mn }) {
			return "preagg_minmax_time_mismatch", fmt.Sprintf("time of min: statistics say %d, no row with value %v at that time", tmn, mn)
		}
		if !rowHas(tmx, func(v []byte) bool { return util.Bytes2Float64Slice(v)[0] == mx }) {
			return "preagg_minmax_time_mismatch", fmt.Sprintf("time of max: statistics say %d, no row with value %v at that time", tmx, mx)
		}
	case gen.TBool:
		mn, mx := true, false
		for _, v := range col.rows {
			if v == nil {
				continue
			}
			if v[0] == 0 {
				mn = false
			} else {
				mx = true
			}
		}
		gmn, tmn := b.min()
		gmx, tmx := b.max()
		if gmn.(bool) != mn || gmx.(bool) != mx {
			return "preagg_minmax_mismatch", fmt.Sprintf("bool min/max: expected %v/%v, statistics say %v/%v", mn, mx, gmn, gmx)
		}
		if !rowHas(tmn, func(v []byte) bool { return (v[0] == 1) == mn }) || !rowHas(tmx, func(v []byte) bool { return (v[0] == 1) == mx }) {
			return "preagg_minmax_time_mismatch", fmt.Sprintf("bool min/max times %d/%d do not point at rows with those values", tmn, tmx)
		}
	}
	return "", ""
}

// ---------------------------------------------------------------- chunk cases (in memory)

func c07Stack() string {
	s := string(debug.Stack())
	if len(s) > 1800 {
		s = s[:1800]
	}
	return s
}

type c07Runner struct {
	rep *kit.Report
	dir string
	seq uint64
	// reused like the real writers/readers reuse them
	builders map[int]*ChunkDataBuilder
	rctx     *ReadContext
	chunkBuf []byte
}

func c07Times(variant, n int) []int64 {
	t := make([]int64, n)
	for i := range t {
		switch variant % 3 {
		case 0:
			t[i] = 1600000000000000000 + int64(i)*1e9
		case 1:
			t[i] = math.MinInt64 + int64(i)
		default:
			t[i] = -5 + int64(i)*7 + int64(i%3)
		}
	}
	return t
}

func c07CellValue(typ, d int) []byte {
	switch typ {
	case gen.TInt:
		if d == len(gen.Ints) {
			return nil
		}
		return c07U64(uint64(gen.Ints[d]))
	case gen.TFloat:
		if d == len(gen.FloatBits) {
			return nil
		}
		return c07U64(gen.FloatBits[d])
	case gen.TBool:
		if d == 2 {
			return nil
		}
		return []byte{byte(d)}
	default:
		if d == len(gen.Strings) {
			return nil
		}
		return []byte(gen.Strings[d])
	}
}

func c07AlphaSize(typ int) int {
	return []int{len(gen.Ints), len(gen.FloatBits), 2, len(gen.Strings)}[typ] + 1
}

func c07ShapeCol(typ int, sh gen.Shape, variant, nullPat int) c07Col {
	n := sh.Rows()
	col := c07Col{typ: typ, rows: make([][]byte, n)}
	switch typ {
	case gen.TInt:
		v := gen.GenInts(sh, variant)
		for i := range v {
			col.rows[i] = c07U64(uint64(v[i]))
		}
	case gen.TFloat:
		v := gen.GenFloatBits(sh, variant)
		for i := range v {
			col.rows[i] = c07U64(v[i])
		}
	case gen.TBool:
		v := gen.GenBools(sh, variant)
		for i := range v {
			col.rows[i] = []byte{0}
			if v[i] {
				col.rows[i][0] = 1
			}
		}
	case gen.TString:
		v := gen.GenStrings(sh, variant)
		for i := range v {
			col.rows[i] = []byte(v[i])
		}
	}
	for i := 0; i < n; i++ {
		if gen.IsNull(nullPat, i, n) {
			col.rows[i] = nil
		}
	}
	return col
}

func (r *c07Runner) builder(maxRows int) *ChunkDataBuilder {
	b := r.builders[maxRows]
	if b == nil {
		b = NewChunkDataBuilder(maxRows, math.MaxUint16)
		b.chunkMeta = &ChunkMeta{}
		r.builders[maxRows] = b
	}
	return b
}

// c07VerifyChunk decodes every segment of one series from chunk bytes (data(off,size) returns the bytes at a file offset).
func (r *c07Runner) c07VerifyChunk(s *c07Series, cm *ChunkMeta, maxRows int, data func(off int64, size uint32) []byte) (string, string) {
	n := len(s.times)
	wantSegs := (n + maxRows - 1) / maxRows
	if cm.sid != s.id {
		return "chunkmeta_mismatch", fmt.Sprintf("series id %d written, %d in chunk meta", s.id, cm.sid)
	}
	if int(cm.segCount) != wantSegs || len(cm.timeRange) != wantSegs {
		return "chunkmeta_mismatch", fmt.Sprintf("%d rows / %d per segment = %d segments expected, chunk meta has %d (%d time ranges)", n, maxRows, wantSegs, cm.segCount, len(cm.timeRange))
	}
	if len(cm.colMeta) != len(s.cols)+1 {
		return "chunkmeta_mismatch", fmt.Sprintf("%d columns (+time) written, chunk meta has %d", len(s.cols), len(cm.colMeta))
	}
	for j := range s.cols {
		m := &cm.colMeta[j]
		if m.name != c07ColNames[j] || int(m.ty) != c07RepoType[s.cols[j].typ] {
			return "chunkmeta_mismatch", fmt.Sprintf("column %d: wrote %s/%d, chunk meta says %s/%d", j, c07ColNames[j], c07RepoType[s.cols[j].typ], m.name, m.ty)
		}
	}
	tm := cm.timeMeta()
	if tm.name != record.TimeField {
		return "chunkmeta_mismatch", "last column of the chunk meta is not time: " + tm.name
	}
	for seg := 0; seg < wantSegs; seg++ {
		lo, hi := seg*maxRows, min((seg+1)*maxRows, n)
		if cm.timeRange[seg].minTime() != s.times[lo] || cm.timeRange[seg].maxTime() != s.times[hi-1] {
			return "segment_time_range_mismatch", fmt.Sprintf("segment %d holds times %d..%d, chunk meta says %d..%d", seg, s.times[lo], s.times[hi-1], cm.timeRange[seg].minTime(), cm.timeRange[seg].maxTime())
		}
		// time column
		var tcol record.ColVal
		off, size := tm.entries[seg].OffsetSize()
		if err := appendTimeColumnData(data(off, size), &tcol, r.rctx, false); err != nil {
			return "decoder_error", fmt.Sprintf("segment %d time column: %v", seg, err)
		}
		got := tcol.IntegerValues()
		if len(got) != hi-lo || tcol.Len != hi-lo {
			return "time_mismatch", fmt.Sprintf("segment %d: %d times written, %d read", seg, hi-lo, len(got))
		}
		for i := range got {
			if got[i] != s.times[lo+i] {
				return "time_mismatch", fmt.Sprintf("segment %d row %d: time %d written, %d read", seg, i, s.times[lo+i], got[i])
			}
		}
		for j := range s.cols {
			ref := record.Field{Name: c07ColNames[j], Type: c07RepoType[s.cols[j].typ]}
			var col record.ColVal
			off, size := cm.colMeta[j].entries[seg].OffsetSize()
			if err := decodeColumnData(&ref, data(off, size), &col, r.rctx, false); err != nil {
				return "decoder_error", fmt.Sprintf("segment %d column %d: %v", seg, j, err)
			}
			rows, bad := c07Rows(&col, s.cols[j].typ)
			if bad != "" {
				return "column_malformed", fmt.Sprintf("segment %d column %d (%s): %s", seg, j, gen.TypeNames[s.cols[j].typ], bad)
			}
			if d := c07CompareRows(s.cols[j].rows[lo:hi], rows); d != "" {
				kind := "value_mismatch"
				if s.cols[j].typ == gen.TFloat && c07OnlyZeroSign(s.cols[j].rows[lo:hi], rows) {
					kind = "float_negative_zero_sign_lost"
				}
				return kind, fmt.Sprintf("segment %d column %d (%s): %s", seg, j, gen.TypeNames[s.cols[j].typ], d)
			}
			nulls := 0
			for _, v := range rows {
				if v == nil {
					nulls++
				}
			}
			if col.NilCount != nulls {
				return "column_malformed", fmt.Sprintf("segment %d column %d: NilCount %d but %d null rows", seg, j, col.NilCount, nulls)
			}
		}
	}
	// statistics
	for j := range s.cols {
		if k, d := c07CheckStats(&s.cols[j], s.times, cm.colMeta[j].preAgg); k != "" {
			return k, fmt.Sprintf("column %d (%s): %s", j, gen.TypeNames[s.cols[j].typ], d)
		}
	}
	tb := acquireTimePreAggBuilder()
	defer tb.release()
	if _, err := tb.unmarshal(tm.preAgg); err != nil || tb.count() != int64(n) {
		return "preagg_count_mismatch", fmt.Sprintf("time column: %d rows written, statistics say %d (%v)", n, tb.count(), err)
	}
	return "", ""
}

func c07OnlyZeroSign(want, got [][]byte) bool {
	if len(want) != len(got) {
		return false
	}
	for i := range want {
		if bytes.Equal(want[i], got[i]) {
			continue
		}
		if want[i] == nil || got[i] == nil || len(got[i]) != 8 {
			return false
		}
		if util.Bytes2Uint64Slice(want[i])[0] != 1<<63 || util.Bytes2Uint64Slice(got[i])[0] != 0 {
			return false
		}
	}
	return true
}

func c07BothInf(s *c07Series) bool {
	for _, c := range s.cols {
		if c.typ != gen.TFloat {
			continue
		}
		var p, n, nan bool
		for _, v := range c.rows {
			if v == nil {
				continue
			}
			f := util.Bytes2Float64Slice(v)[0]
			p, n, nan = p || math.IsInf(f, 1), n || math.IsInf(f, -1), nan || math.IsNaN(f)
		}
		if p && n {
			return true
		}
	}
	return false
}

func (r *c07Runner) runChunk(c *c07Case, s *c07Series, maxRows int) {
	rep := r.rep
	rep.Eval(1)
	old := chunkMetaCompressMode
	if c.Self {
		chunkMetaCompressMode = ChunkMetaCompressSelf
	} else {
		chunkMetaCompressMode = ChunkMetaCompressNone
	}
	defer func() { chunkMetaCompressMode = old }()
	rec := c07Record(s)
	b := r.builder(maxRows)
	var chunk []byte
	var err error
	pan := ""
	func() {
		defer func() {
			if p := recover(); p != nil {
				pan = fmt.Sprintf("%v\n%s", p, c07Stack())
			}
		}()
		record.CheckRecord(rec)
		chunk, err = (&TsChunkDataImp{}).EncodeChunk(b, s.id, 0, rec, r.chunkBuf[:0], true)
	}()
	if pan != "" {
		kind := "encoder_panic"
		if c07BothInf(s) && strings.Contains(pan, "lib/compress.(*Float)") {
			kind = "float_encoder_panic_pos_and_neg_inf"
		}
		rep.Violation(kind, c.key(), pan, c)
		delete(r.builders, maxRows)
		return
	}
	if err != nil {
		rep.Violation("encoder_error", c.key(), "EncodeChunk failed on an accepted record: "+err.Error(), c)
		delete(r.builders, maxRows)
		return
	}
	r.chunkBuf = chunk
	frozen := append([]byte(nil), chunk...)
	data := func(off int64, size uint32) []byte {
		if off < 0 || off+int64(size) > int64(len(frozen)) {
			panic(fmt.Sprintf("chunk meta points outside the chunk: offset %d size %d, chunk %d bytes", off, size, len(frozen)))
		}
		return frozen[off : off+int64(size)]
	}
	var kind, detail string
	func() {
		defer func() {
			if p := recover(); p != nil {
				kind, detail = "decoder_panic", fmt.Sprintf("%v\n%s", p, c07Stack())
				r.rctx = NewReadContext(true)
			}
		}()
		kind, detail = r.c07VerifyChunk(s, b.chunkMeta, maxRows, data)
	}()
	if kind != "" {
		rep.Violation(kind, c.key(), detail, c)
		return
	}
	if len(s.times) > 0 {
		rep.Count(fmt.Sprintf("chunk_%s", gen.TypeNames[s.cols[0].typ]), 1)
		if rep.DistinctNontrivial(kit.Hash("chunk", fmt.Sprint(c.Self), fmt.Sprint(maxRows), string(frozen))) {
			rep.Sample(3, map[string]any{"seam": "engine/immutable chunk", "case": c.key(), "bytes": len(frozen), "segments": b.chunkMeta.segCount})
		}
	}
}

func (r *c07Runner) run(c *c07Case) {
	switch c.Kind {
	case "chunk-seq":
		s := &c07Series{id: 7, times: c07Times(c.TimeVar, len(c.Seq)), cols: []c07Col{{typ: c.Type}}}
		for _, d := range c.Seq {
			v := c07CellValue(c.Type, d)
			s.cols[0].rows = append(s.cols[0].rows, v)
		}
		r.runChunk(c, s, 8)
	case "chunk-shape":
		s := &c07Series{id: 9, times: gen.GenTimes(c.Shape, c.Variant), cols: []c07Col{c07ShapeCol(c.Type, c.Shape, c.Variant, c.NullPat)}}
		r.runChunk(c, s, c.MaxRows)
	case "file":
		r.runFile(c)
	}
}

// ---------------------------------------------------------------- file cases

var c07RowSets = []struct{ rows, maxRows int }{{1, 8}, {2, 8}, {9, 8}, {24, 8}, {250, 16}, {1001, 1000}}

func c07FileSeries(c *c07Case) []*c07Series {
	rs := c07RowSets[c.RowsIdx]
	var out []*c07Series
	for k := 0; k < c.NSeries; k++ {
		n := rs.rows + k // series of one file differ in length
		sh := gen.Shape{{Kind: (k + c.Variant) % gen.NKinds, Len: n}}
		if n > 20 {
			sh = gen.Shape{{Kind: (k + c.Variant) % gen.NKinds, Len: n / 2}, {Kind: (k + c.Variant + 1) % gen.NKinds, Len: n - n/2}}
		}
		s := &c07Series{id: uint64(10 + 5*k), times: gen.GenTimes(sh, (c.Variant+k)%2)}
		for j, t := range c.Schema {
			s.cols = append(s.cols, c07ShapeCol(t, sh, (c.Variant+j)%2, (c.NullPat+j+k)%gen.NNullPatterns))
		}
		out = append(out, s)
	}
	return out
}

func (r *c07Runner) runFile(c *c07Case) {
	rep := r.rep
	rep.Eval(1)
	series := c07FileSeries(c)
	rs := c07RowSets[c.RowsIdx]
	old := chunkMetaCompressMode
	chunkMetaCompressMode = c.Mode
	defer func() { chunkMetaCompressMode = old }()

	r.seq++
	dir := filepath.Join(r.dir, fmt.Sprintf("f%d", r.seq))
	defer os.RemoveAll(dir)
	lockPath := ""
	conf := NewTsStoreConfig()
	conf.maxRowsPerSegment = rs.maxRows
	conf.maxChunkMetaItemCount = 2 // several meta-index items even with 3 series
	var f TSSPFile
	var kind, detail string
	func() {
		defer func() {
			if p := recover(); p != nil {
				kind, detail = "file_writer_panic", fmt.Sprintf("%v\n%s", p, c07Stack())
				for _, s := range series {
					if c07BothInf(s) && strings.Contains(detail, "lib/compress.(*Float)") {
						kind = "float_encoder_panic_pos_and_neg_inf"
					}
				}
			}
		}()
		fileName := NewTSSPFileName(r.seq, 0, 0, 0, true, &lockPath)
		msb := NewMsBuilder(dir, "mst_0000", &lockPath, conf, len(series), fileName, 0, nil, 2, config.TSSTORE, nil, 0)
		for _, s := range series {
			if err := msb.WriteData(s.id, c07Record(s)); err != nil {
				kind, detail = "file_writer_error", fmt.Sprintf("WriteData(series %d): %v", s.id, err)
				return
			}
		}
		nf, err := msb.NewTSSPFile(false)
		if err != nil || nf == nil {
			kind, detail = "file_writer_error", fmt.Sprintf("NewTSSPFile: file=%v err=%v", nf != nil, err)
			return
		}
		f = nf
		if err := RenameTmpFiles([]TSSPFile{f}); err != nil {
			kind, detail = "file_writer_error", "rename: "+err.Error()
		}
	}()
	if kind != "" {
		rep.Violation(kind, c.key(), detail, c)
		if f != nil {
			_ = f.Close()
		}
		return
	}
	path := f.Path()
	// pass 0: the object the writer hands to the table store; pass 1: the file re-opened from disk
	for pass := 0; pass < 2; pass++ {
		if pass == 1 {
			_ = f.Close()
			var err error
			f, err = OpenTSSPFile(path, &lockPath, true)
			if err != nil {
				rep.Violation("file_reopen_error", c.key(), "OpenTSSPFile: "+err.Error(), c)
				return
			}
		}
		func() {
			defer func() {
				if p := recover(); p != nil {
					kind, detail = "file_reader_panic", fmt.Sprintf("%v\n%s", p, c07Stack())
					r.rctx = NewReadContext(true)
				}
			}()
			kind, detail = r.verifyFile(f, series, rs.maxRows)
		}()
		if kind != "" {
			rep.Violation(kind, c.key(), fmt.Sprintf("pass %d (%s): %s", pass, []string{"writer's file object", "re-opened file"}[pass], detail), c)
			_ = f.Close()
			return
		}
	}
	st, _ := os.Stat(path)
	_ = f.Close()
	rep.Count("files", 1)
	var size int64
	if st != nil {
		size = st.Size()
	}
	if rep.DistinctNontrivial(kit.Hash("tssp", c.key())) {
		rep.Sample(3, map[string]any{"seam": "engine/immutable file", "case": c.key(), "file_bytes": size})
	}
}

func (r *c07Runner) verifyFile(f TSSPFile, series []*c07Series, maxRows int) (string, string) {
	tr := f.FileStat()
	minT, maxT := int64(math.MaxInt64), int64(math.MinInt64)
	for _, s := range series {
		minT, maxT = min(minT, s.times[0]), max(maxT, s.times[len(s.times)-1])
	}
	if tr.idCount != int64(len(series)) || tr.minId != series[0].id || tr.maxId != series[len(series)-1].id {
		return "trailer_mismatch", fmt.Sprintf("ids: wrote %d series %d..%d, trailer says %d series %d..%d", len(series), series[0].id, series[len(series)-1].id, tr.idCount, tr.minId, tr.maxId)
	}
	if tr.minTime != minT || tr.maxTime != maxT {
		return "trailer_mismatch", fmt.Sprintf("time range: wrote %d..%d, trailer says %d..%d", minT, maxT, tr.minTime, tr.maxTime)
	}
	if a, b, err := f.MinMaxTime(); err != nil || a != minT || b != maxT {
		return "trailer_mismatch", fmt.Sprintf("MinMaxTime() = %d..%d (%v), wrote %d..%d", a, b, err, minT, maxT)
	}
	var cms []ChunkMeta
	nItems := int(f.MetaIndexItemNum())
	seen := 0
	for i := 0; i < nItems; i++ {
		mi, err := f.MetaIndexAt(i)
		if err != nil || mi == nil {
			return "metaindex_mismatch", fmt.Sprintf("MetaIndexAt(%d): %v", i, err)
		}
		var err2 error
		cms, err2 = f.ReadChunkMetaData(i, mi, cms[:0], fileops.IO_PRIORITY_LOW_READ)
		if err2 != nil {
			return "chunkmeta_undecodable", fmt.Sprintf("ReadChunkMetaData(%d): %v", i, err2)
		}
		if len(cms) != int(mi.count) || len(cms) == 0 {
			return "metaindex_mismatch", fmt.Sprintf("meta index item %d announces %d chunk metas, %d decoded", i, mi.count, len(cms))
		}
		if seen+len(cms) > len(series) {
			return "metaindex_mismatch", fmt.Sprintf("more chunk metas (%d+) than series written (%d)", seen+len(cms), len(series))
		}
		if mi.id != series[seen].id {
			return "metaindex_mismatch", fmt.Sprintf("meta index item %d starts at series %d, expected %d", i, mi.id, series[seen].id)
		}
		imin, imax := int64(math.MaxInt64), int64(math.MinInt64)
		for k := range cms {
			s := series[seen+k]
			imin, imax = min(imin, s.times[0]), max(imax, s.times[len(s.times)-1])
		}
		if mi.minTime != imin || mi.maxTime != imax {
			return "metaindex_mismatch", fmt.Sprintf("meta index item %d time range %d..%d, its series span %d..%d", i, mi.minTime, mi.maxTime, imin, imax)
		}
		for k := range cms {
			s := series[seen+k]
			cm := &cms[k]
			// low-level check of every segment through ReadData (offset/size from the chunk meta)
			var rerr error
			data := func(off int64, size uint32) []byte {
				var buf []byte
				b, err := f.ReadData(off, size, &buf, fileops.IO_PRIORITY_LOW_READ)
				if err != nil {
					rerr = err
					return []byte{0}
				}
				return append([]byte(nil), b...)
			}
			if kind, d := r.c07VerifyChunk(s, cm, maxRows, data); kind != "" {
				if rerr != nil {
					return "file_read_error", fmt.Sprintf("series %d: %v", s.id, rerr)
				}
				return kind, fmt.Sprintf("series %d: %s", s.id, d)
			}
			// the reader API the cursors use
			schema := c07Schema(s)
			for seg := 0; seg < int(cm.segCount); seg++ {
				rec := record.NewRecordBuilder(schema)
				got, err := f.ReadAt(cm, seg, rec, r.rctx, fileops.IO_PRIORITY_LOW_READ)
				if err != nil || got == nil {
					return "file_read_error", fmt.Sprintf("ReadAt(series %d, segment %d): rec=%v err=%v", s.id, seg, got != nil, err)
				}
				lo, hi := seg*maxRows, min((seg+1)*maxRows, len(s.times))
				tm := got.Times()
				if len(tm) != hi-lo {
					return "time_mismatch", fmt.Sprintf("ReadAt(series %d, segment %d): %d rows written, %d read", s.id, seg, hi-lo, len(tm))
				}
				for i := range tm {
					if tm[i] != s.times[lo+i] {
						return "time_mismatch", fmt.Sprintf("ReadAt(series %d, segment %d) row %d: time %d written, %d read", s.id, seg, i, s.times[lo+i], tm[i])
					}
				}
				for j := range s.cols {
					rows, bad := c07Rows(got.Column(j), s.cols[j].typ)
					if bad != "" {
						return "column_malformed", fmt.Sprintf("ReadAt(series %d, segment %d) column %d: %s", s.id, seg, j, bad)
					}
					if d := c07CompareRows(s.cols[j].rows[lo:hi], rows); d != "" {
						kind := "value_mismatch"
						if s.cols[j].typ == gen.TFloat && c07OnlyZeroSign(s.cols[j].rows[lo:hi], rows) {
							kind = "float_negative_zero_sign_lost"
						}
						return kind, fmt.Sprintf("ReadAt(series %d, segment %d) column %d (%s): %s", s.id, seg, j, gen.TypeNames[s.cols[j].typ], d)
					}
				}
			}
			if ok, err := f.Contains(s.id); err != nil || !ok {
				return "bloom_mismatch", fmt.Sprintf("Contains(%d) = %v, %v for a written series", s.id, ok, err)
			}
		}
		seen += len(cms)
	}
	// asked only after the components were loaded: the accessor is lazily initialised on the writer's file object
	if f.ChunkMetaCompressMode() != uint8(chunkMetaCompressMode) {
		return "trailer_mismatch", fmt.Sprintf("chunk meta compress mode %d written, %d read", chunkMetaCompressMode, f.ChunkMetaCompressMode())
	}
	if seen != len(series) {
		return "metaindex_mismatch", fmt.Sprintf("%d series written, %d found through the meta index", len(series), seen)
	}
	// lookup by id
	for _, s := range series {
		_, mi, err := f.MetaIndex(s.id, util.TimeRange{Min: math.MinInt64, Max: math.MaxInt64})
		if err != nil || mi == nil {
			return "metaindex_mismatch", fmt.Sprintf("MetaIndex(%d) = %v, %v", s.id, mi, err)
		}
	}
	return "", ""
}

// ---------------------------------------------------------------- driver

func TestVerifC07File(t *testing.T) {
	rep := kit.NewReport("C07")
	defer rep.Save()
	InitDecFunctions()
	r := &c07Runner{rep: rep, dir: kit.Scratch(), builders: map[int]*ChunkDataBuilder{}, rctx: NewReadContext(true)}
	if kit.ReplayPath() != "" {
		var c c07Case
		if err := kit.LoadReplay(&c); err != nil {
			t.Fatal(err)
		}
		if c.Seam == "file" {
			r.run(&c)
		}
		return
	}
	thorough := kit.Thorough()
	maxLen, maxSegs := 4, 2
	if thorough {
		maxLen, maxSegs = 6, 3
	}
	item := 0
	// Part A: one field column, every sequence over (alphabet + null) up to maxLen rows, statistics coded both ways
	for typ := 0; typ < gen.NTypes; typ++ {
		ml := maxLen
		if typ == gen.TBool {
			ml = 9 + maxLen/6 // 9 (10) rows: crosses the 8-row segment limit with every null bitmap
		}
		for l := 1; l <= ml; l++ {
			kit.Sequences(c07AlphaSize(typ), l, func(seq []int) bool {
				item++
				if !kit.Mine(item / 64) {
					return true
				}
				c := &c07Case{Seam: "file", Kind: "chunk-seq", Type: typ, Seq: append([]int(nil), seq...), TimeVar: item % 3, Self: item%2 == 0}
				r.run(c)
				return !rep.Expired()
			})
		}
	}
	// Part B: shapes x null patterns x segment limits {8, 1000} x statistics coding
	ns := gen.NumShapes(maxSegs)
	for typ := 0; typ < gen.NTypes; typ++ {
		for i := 0; i < ns; i++ {
			for np := 0; np < gen.NNullPatterns; np++ {
				for variant := 0; variant < 2; variant++ {
					for _, mr := range []int{8, 1000} {
						item++
						if !kit.Mine(item) {
							continue
						}
						if rep.Expired() {
							return
						}
						r.run(&c07Case{Seam: "file", Kind: "chunk-shape", Type: typ, Shape: gen.ShapeAt(i), Variant: variant, NullPat: np, MaxRows: mr, Self: item%2 == 0})
					}
				}
			}
		}
	}
	// Part C: real files - every schema of <= 3 typed columns x row sets x 1|3 series x null rotations x chunk-meta modes
	modes := []int{ChunkMetaCompressNone, ChunkMetaCompressSelf}
	rots := []int{0, 1, 4, 6}
	if thorough {
		modes = []int{ChunkMetaCompressNone, ChunkMetaCompressSnappy, ChunkMetaCompressLZ4, ChunkMetaCompressSelf}
		rots = []int{0, 1, 2, 3, 4, 5, 6, 7}
	}
	for si := 0; si < gen.NumSchemas(3); si++ {
		for ri := range c07RowSets {
			for _, nser := range []int{1, 3} {
				for _, rot := range rots {
					for _, mode := range modes {
						item++
						if !kit.Mine(item) {
							continue
						}
						if rep.Expired() {
							return
						}
						r.run(&c07Case{Seam: "file", Kind: "file", Schema: gen.SchemaAt(si), NSeries: nser, RowsIdx: ri, NullPat: rot, Variant: (si + ri) % 2, Mode: mode})
					}
				}
			}
		}
	}
}
