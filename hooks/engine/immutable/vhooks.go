//go:build verif

package immutable

import (
	"github.com/openGemini/openGemini/lib/fileops"
	"golang.org/x/time/rate"
)

// VerifNoRateLimits removes the token-bucket write/read limits. Under the controlled scheduler time is
// virtual, and a limiter that has to wait would make an execution depend on how much virtual time earlier
// executions of the same process consumed (executions must be replayable).
func VerifNoRateLimits() {
	compWriteLimiter.SetLimit(rate.Inf)
	snapshotWriteLimiter.SetLimit(rate.Inf)
	fileops.BackgroundReadLimiter.SetLimit(rate.Inf)
}

// VerifNewTableGC replaces the package-level file collector (whose goroutine was started at package
// initialisation, outside the synctest bubble, on a real-time ticker) by a fresh instance and returns
// its service loop, which the harness runs as a scheduled background thread on virtual time.
func VerifNewTableGC() func() {
	gc := NewTableStoreGC()
	nodeTableStoreGC = gc
	return gc.GC
}

// VerifCopyPieceSize, when > 0, replaces the size of the pieces (2 x fileops.DefaultBufferSize = 512 KiB) in which
// mergePerformer.WriteOriginal copies the chunk of a series that an out-of-order merge does not touch. Only the C03
// overlay rewrites that one line to call VerifCopyPiece; with the value 0 the behaviour is the unmodified one.
var VerifCopyPieceSize = 0

func VerifCopyPiece(orig int) int {
	if VerifCopyPieceSize > 0 {
		return VerifCopyPieceSize
	}
	return orig
}
