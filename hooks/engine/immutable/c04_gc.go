//go:build verif

package immutable

// VerifDrainTableGC empties the file collector that VerifNewTableGC installed: every file still queued for removal is
// removed now if nobody holds it, and forgotten either way. C04 calls it after every explored execution (shard closed,
// scheduler inactive). The collector is one instance per worker process; an execution that ended while replaced files
// were still queued left them for a tick of a LATER execution, which then met one lock acquisition (Inuse of the stale
// file) that the recorded parent of that schedule had not met - the replay divergences of S9 at bound 2. Executions must
// not inherit state from each other.
func VerifDrainTableGC() int {
	gc, ok := nodeTableStoreGC.(*TableStoreGC)
	if !ok {
		return 0
	}
	gc.mu.Lock()
	defer gc.mu.Unlock()
	n := len(gc.removeFiles)
	for fn, f := range gc.removeFiles {
		if !f.Inuse() {
			_ = f.Remove()
		}
		delete(gc.removeFiles, fn)
	}
	return n
}
