//go:build verif

package immutable

import (
	"fmt"
	"runtime/debug"

	"github.com/openGemini/openGemini/lib/util"
)

// Accessors used by the wide stage of C02 (hooks/engine/c02_wide_test.go) for the two size thresholds of the
// TSSTORE file builders that have no setter reaching small values:
//   - Config.fileSizeLimit (default 8 GiB; Config.SetFilesLimit clamps to >= 1 MiB): a flush / compaction output
//     whose size reaches the limit after a series' chunk was written is continued in a new file;
//   - Config.maxChunkMetaItemCount (default 512; 16 when chunk metas are compressed; no setter): number of chunk
//     metas per meta-index item (an item is also closed when its chunk metas reach maxChunkMetaItemSize = 256 KiB).
// A value <= 0 restores the default. The values are fields of the same global Config the product reads.

func VerifC02SetFileSizeLimit(n int64) {
	if n <= 0 {
		n = util.DefaultFileSizeLimit
	}
	tsStoreConf.fileSizeLimit = n
}

func VerifC02SetChunkMetaItemCount(n int) {
	if n <= 0 {
		n = util.DefaultMaxChunkMetaItemCount
	}
	tsStoreConf.maxChunkMetaItemCount = n
}

func VerifC02Conf() (maxSegmentLimit, maxRowsPerSegment int, fileSizeLimit int64, metaItemCount int, streaming int32) {
	c := &tsStoreConf
	return c.maxSegmentLimit, c.maxRowsPerSegment, c.fileSizeLimit, c.maxChunkMetaItemCount, c.streamingCompact
}

// VerifC02Recovered is called by the two deferred functions of engine/immutable that are meant to recover a panic of
// a compaction (task.go, CompactTask.Execute) or of an out-of-order merge (merge_out_of_order.go, execMergeContext)
// when compact-recovery is on. In the tree as it is they call CompactRecovery / MergeRecovery, whose recover() is one
// call too deep to recover anything (it is not called directly by the deferred function), so the panic ends the
// process. The C02 overlay rewrites exactly those two call lines into `if e := recover(); e != nil {
// VerifC02Recovered(...) }`: the panic is then logged the way CompactRecovery / MergeRecovery would have logged it and the
// worker process survives to report the history as a violation.
func VerifC02Recovered(what string, err interface{}, path string) {
	log.Error(fmt.Sprintf("[%s Panic:err:%v, path:%s] %s", what, err, path, debug.Stack()))
}
