//go:build verif

package immutable

import "github.com/openGemini/openGemini/lib/util"

// Accessors used by the wide stage of C02 (hooks/engine/c02_wide_test.go) for the two size thresholds of the
// TSSTORE file builders that have no setter reaching small values:
//   - Config.fileSizeLimit (default 8 GiB; Config.SetFilesLimit clamps to >= 1 MiB): a flush / compaction output
//     whose size reaches the limit after a series' chunk was written is continued in a new file;
//   - Config.maxChunkMetaItemCount (default 512; 16 when chunk metas are compressed; no setter): number of chunk
//     metas per meta-index item (an item is also closed when its chunk metas reach maxChunkMetaItemSize = 256 KiB).
// A value <= 0 restores the default. The values are fields of the same global Config the product reads.

func VerifC02SetFileSizeLimit(n int64) {
	if n <= 0 {
		n = util.DefaultFileSizeLimit
	}
	tsStoreConf.fileSizeLimit = n
}

func VerifC02SetChunkMetaItemCount(n int) {
	if n <= 0 {
		n = util.DefaultMaxChunkMetaItemCount
	}
	tsStoreConf.maxChunkMetaItemCount = n
}

func VerifC02Conf() (maxSegmentLimit, maxRowsPerSegment int, fileSizeLimit int64, metaItemCount int, streaming int32) {
	c := &tsStoreConf
	return c.maxSegmentLimit, c.maxRowsPerSegment, c.fileSizeLimit, c.maxChunkMetaItemCount, c.streamingCompact
}
