//go:build verif

package immutable

import (
	"fmt"
	"sort"
	"strings"
	"sync/atomic"

	"go.uber.org/zap"
	"go.uber.org/zap/zapcore"
	"github.com/openGemini/openGemini/lib/util/lifted/vm/protoparser/influx"
)

// Accessor of the injected-level-layout family of C03 (hooks/engine/c03_inject_test.go).

// VerifC03File is what one ordered file holds, read with the package's own chunk iterator (the reader the compaction
// itself uses): per series the rows in the order they are stored.
type VerifC03File struct {
	Name   string // sequence-level-merge name, e.g. 00000001-0002-00000000
	Level  uint16
	Seq    uint64
	Series []uint64            // series ids in the order of the file
	Times  map[uint64][]int64  // series id -> times in stored order
	Rows   map[uint64][]string // series id -> rows rendered as text (all columns), same order
}

// VerifC03WalkOrdered reads the ordered files of one measurement in LIST order - the order in which the query cursors
// (engine/tsm_merge_cursor.go AddLocations) and the next compaction visit them. sorted reports sort.IsSorted of the list.
func VerifC03WalkOrdered(m *MmsTables, mst string) (files []VerifC03File, sorted bool, err error) {
	m.mu.RLock()
	fs, ok := m.Order[mst]
	m.mu.RUnlock()
	if !ok || fs == nil {
		return nil, true, nil
	}
	fs.lock.RLock()
	list := append([]TSSPFile(nil), fs.files...)
	sorted = sort.IsSorted(fs)
	for _, f := range list {
		f.Ref()
	}
	fs.lock.RUnlock()
	defer func() {
		for _, f := range list {
			f.Unref()
		}
	}()
	for _, f := range list {
		lv, seq := f.LevelAndSequence()
		fn := f.FileName()
		out := VerifC03File{Name: fn.String(), Level: lv, Seq: seq, Times: map[uint64][]int64{}, Rows: map[uint64][]string{}}
		itr := NewChunkIterator(NewFileIterator(f, CLog))
		for itr.Next() {
			sid := itr.GetSeriesID()
			rec := itr.GetRecord()
			if _, seen := out.Times[sid]; !seen {
				out.Series = append(out.Series, sid)
			}
			tm := rec.Times()
			for r := 0; r < rec.RowNums(); r++ {
				var b strings.Builder
				fmt.Fprintf(&b, "t=%d", tm[r])
				for c := 0; c < len(rec.Schema)-1; c++ {
					col := rec.Column(c)
					ref := rec.Schema[c]
					if col.IsNil(r) {
						continue
					}
					switch ref.Type {
					case influx.Field_Type_Int:
						v, _ := col.IntegerValue(r)
						fmt.Fprintf(&b, " %s=%di", ref.Name, v)
					case influx.Field_Type_Float:
						v, _ := col.FloatValue(r)
						fmt.Fprintf(&b, " %s=%g", ref.Name, v)
					case influx.Field_Type_Boolean:
						v, _ := col.BooleanValue(r)
						fmt.Fprintf(&b, " %s=%v", ref.Name, v)
					case influx.Field_Type_String:
						v, _ := col.StringValueSafe(r)
						fmt.Fprintf(&b, " %s=%q", ref.Name, v)
					}
				}
				out.Times[sid] = append(out.Times[sid], tm[r])
				out.Rows[sid] = append(out.Rows[sid], b.String())
			}
		}
		ierr := itr.err
		itr.Close()
		if ierr != nil {
			return nil, sorted, fmt.Errorf("read %s: %v", f.Path(), ierr)
		}
		files = append(files, out)
	}
	return files, sorted, nil
}

// ---- panics of a compaction task ------------------------------------------------------------------------------------

// With compact-recovery on (the product's default; the zero-valued configuration of a test binary has it off) a panic
// inside CompactTask.Execute - e.g. the package's own consistency assertions record.CheckTimes / CheckRecord - is
// recovered and logged by logCompactPanic, the task ends and the old files stay. The harness has to see that: a hook on
// the package logger counts those log entries.
var verifC03Panics int64
var verifC03LastPanic atomic.Value

func VerifC03WatchCompactPanics() {
	log = log.WithOptions(zap.Hooks(func(e zapcore.Entry) error {
		if strings.Contains(e.Message, "Compact Panic:") {
			atomic.AddInt64(&verifC03Panics, 1)
			msg := e.Message
			if i := strings.Index(msg, "\n"); i > 0 {
				msg = msg[:i]
			}
			verifC03LastPanic.Store(msg)
		}
		return nil
	}))
}

// VerifC03CompactPanics returns the number of recovered compaction panics so far and the head line of the last one.
func VerifC03CompactPanics() (int64, string) {
	s, _ := verifC03LastPanic.Load().(string)
	return atomic.LoadInt64(&verifC03Panics), s
}
