//go:build verif

package sparseindex

// C20 — column-store sparse (primary key) and skip indexes never prune a block with a match.
//
// Bounded exhaustive enumeration (odometer, no randomness) of
//   sorted key records x fragment layouts x condition trees x reader settings
// on the real code: PKIndexWriterImpl.Build, NewKeyCondition, PKIndexReaderImpl.Scan and the
// skip-index readers' MayBeInFragment.  Oracle: brute-force row evaluation (comparison with
// null is false); every fragment holding a matching row must be inside the returned ranges.
// Soundness only: over-reading is never reported.

import (
	"fmt"
	"math"
	"os"
	"path/filepath"
	"sort"
	"strconv"
	"strings"
	"testing"

	"github.com/openGemini/openGemini/lib/binaryfilterfunc"
	"github.com/openGemini/openGemini/lib/fragment"
	"github.com/openGemini/openGemini/lib/record"
	"github.com/openGemini/openGemini/lib/util"
	"github.com/openGemini/openGemini/lib/util/lifted/influx/influxql"
	"github.com/openGemini/openGemini/lib/util/lifted/vm/protoparser/influx"
	kit "github.com/openGemini/openGemini/lib/verifkit"
)

// ---------------------------------------------------------------------------------------------
// model of the data: columns, literals, rows
// ---------------------------------------------------------------------------------------------

// c20Lit is a literal usable in an atom on a column. Rank places it on the column's order:
// domain value k has rank 2k+1, literals between / outside the domain have even ranks.
type c20Lit struct {
	Text string // InfluxQL text of the literal
	Rank int
}

type c20Col struct {
	Name     string
	Typ      int      // influx.Field_Type_*
	Dom      []string // domain, ascending, as literal text (strings without quotes)
	Lits     []c20Lit
	Ops      []string
	Nullable bool
	// how the writer's sorter (lib/record/sort_item.go Pad*Slice) orders a null: strings as "",
	// integers as MinInt64, floats as -MaxFloat64 => before every domain value; booleans as false
	// => tied with Dom[0].
	NullTiesFirst bool
	ByPosition    bool // non-key column whose value is Dom[row % len(Dom)] (never seen by an index)
}

type c20Schema struct {
	Name string
	Cols []c20Col // key columns first (in key order), then non-key columns
	NKey int
}

func (s *c20Schema) timeIdx() int {
	for i := 0; i < s.NKey; i++ {
		if s.Cols[i].Name == record.TimeField {
			return i
		}
	}
	return -1
}

func c20Cmp6() []string { return []string{"=", "!=", "<", "<=", ">", ">="} }

func c20StrCol(name string, thorough, nullable bool) c20Col {
	c := c20Col{Name: name, Typ: influx.Field_Type_String, Dom: []string{"A", "C", "D"}, Nullable: nullable,
		Ops: append(c20Cmp6(), "MATCHPHRASE", "IN")}
	c.Lits = []c20Lit{{"'A'", 1}, {"'B'", 2}, {"'C'", 3}, {"'D'", 5}, {"'E'", 6}}
	if thorough {
		c.Lits = append(c.Lits, c20Lit{"'0'", 0}, c20Lit{"'CC'", 4})
	}
	return c
}

func c20IntCol(name string, thorough, nullable bool) c20Col {
	c := c20Col{Name: name, Typ: influx.Field_Type_Int, Dom: []string{"1", "2"}, Nullable: nullable, Ops: c20Cmp6()}
	c.Lits = []c20Lit{{"0", 0}, {"1", 1}, {"2", 3}, {"3", 4}}
	return c
}

// c20IntGapCol has a hole in its domain so that an integer literal can sit strictly between two values.
func c20IntGapCol(name string, nullable bool) c20Col {
	c := c20Col{Name: name, Typ: influx.Field_Type_Int, Dom: []string{"1", "2", "4"}, Nullable: nullable, Ops: c20Cmp6()}
	c.Lits = []c20Lit{{"0", 0}, {"1", 1}, {"2", 3}, {"3", 4}, {"4", 5}, {"5", 6}}
	return c
}

func c20FloatCol(name string, nullable bool) c20Col {
	c := c20Col{Name: name, Typ: influx.Field_Type_Float, Dom: []string{"1.5", "2.5"}, Nullable: nullable, Ops: c20Cmp6()}
	c.Lits = []c20Lit{{"1.0", 0}, {"1.5", 1}, {"2.0", 2}, {"2.5", 3}, {"3.0", 4}}
	return c
}

func c20BoolCol(name string, nullable bool) c20Col {
	c := c20Col{Name: name, Typ: influx.Field_Type_Boolean, Dom: []string{"false", "true"}, Nullable: nullable,
		NullTiesFirst: true, Ops: c20Cmp6()}
	c.Lits = []c20Lit{{"false", 1}, {"true", 3}}
	return c
}

func c20TimeCol() c20Col {
	// time is an integer key column; it is constrained through the query's time range only
	return c20Col{Name: record.TimeField, Typ: influx.Field_Type_Int, Dom: []string{"1", "2"}}
}

func c20NonKeyCol() c20Col {
	c := c20Col{Name: "v", Typ: influx.Field_Type_Int, Dom: []string{"1", "2"}, ByPosition: true,
		Ops: []string{"=", "!=", ">", "<="}}
	c.Lits = []c20Lit{{"1", 1}, {"2", 3}}
	return c
}

// a row is a slice of codes, one per column: -1 = null, k = Dom[k]
type c20Row []int8

// sortKey of a cell under the writer's order
func (c *c20Col) sortKey(code int8) int {
	if code < 0 {
		if c.NullTiesFirst {
			return 0
		}
		return -1
	}
	return int(code)
}

func (s *c20Schema) rowLE(a, b c20Row) bool {
	for i := 0; i < s.NKey; i++ {
		x, y := s.Cols[i].sortKey(a[i]), s.Cols[i].sortKey(b[i])
		if x != y {
			return x < y
		}
	}
	return true
}

// tuples enumerates every key tuple of the schema.
func (s *c20Schema) tuples() []c20Row {
	radix := make([]int, s.NKey)
	for i := 0; i < s.NKey; i++ {
		radix[i] = len(s.Cols[i].Dom)
		if s.Cols[i].Nullable {
			radix[i]++
		}
	}
	var out []c20Row
	kit.Odometer(radix, func(d []int) bool {
		r := make(c20Row, s.NKey)
		for i := range d {
			if s.Cols[i].Nullable {
				r[i] = int8(d[i] - 1)
			} else {
				r[i] = int8(d[i])
			}
		}
		out = append(out, r)
		return true
	})
	return out
}

// sortedRecords calls f for every sequence of n tuples that is non-decreasing under the writer's order
// (tuples that tie may appear in any order).
func (s *c20Schema) sortedRecords(tuples []c20Row, n int, f func(rows []c20Row)) {
	cur := make([]c20Row, 0, n)
	var rec func()
	rec = func() {
		if len(cur) == n {
			f(cur)
			return
		}
		for _, t := range tuples {
			if len(cur) > 0 && !s.rowLE(cur[len(cur)-1], t) {
				continue
			}
			cur = append(cur, t)
			rec()
			cur = cur[:len(cur)-1]
		}
	}
	rec()
}

// cell returns the code of column c in row i (non-key by-position columns are derived).
func (s *c20Schema) cell(rows []c20Row, i, c int) int8 {
	if s.Cols[c].ByPosition {
		return int8(i % len(s.Cols[c].Dom))
	}
	return rows[i][c]
}

func c20Append(cv *record.ColVal, col *c20Col, code int8) {
	switch col.Typ {
	case influx.Field_Type_String:
		if code < 0 {
			cv.AppendStringNull()
		} else {
			cv.AppendString(col.Dom[code])
		}
	case influx.Field_Type_Int:
		if code < 0 {
			cv.AppendIntegerNull()
		} else {
			v, _ := strconv.ParseInt(col.Dom[code], 10, 64)
			cv.AppendInteger(v)
		}
	case influx.Field_Type_Float:
		if code < 0 {
			cv.AppendFloatNull()
		} else {
			v, _ := strconv.ParseFloat(col.Dom[code], 64)
			cv.AppendFloat(v)
		}
	case influx.Field_Type_Boolean:
		if code < 0 {
			cv.AppendBooleanNull()
		} else {
			cv.AppendBoolean(col.Dom[code] == "true")
		}
	}
}

func (s *c20Schema) recSchema(nCols int) record.Schemas {
	var sc record.Schemas
	for i := 0; i < nCols; i++ {
		sc = append(sc, record.Field{Name: s.Cols[i].Name, Type: s.Cols[i].Typ})
	}
	return sc
}

// dataRecord builds the data record (all columns) the writer would be handed.
func (s *c20Schema) dataRecord(rows []c20Row) *record.Record {
	rec := record.NewRecord(s.recSchema(len(s.Cols)), false)
	for c := range s.Cols {
		for i := range rows {
			c20Append(rec.Column(c), &s.Cols[c], s.cell(rows, i, c))
		}
	}
	return rec
}

// c20Layout: accumulated row offsets as the column-store writer computes them
// (engine/immutable/msbuilder.go GenFixRowsPerSegment / genAccumulateRowsIndex):
// [end of fragment 0, end of fragment 1, ..., rowNum-1].
func c20FixedLayout(n, fs int) []int {
	num, rem := n/fs, n%fs
	if rem > 0 {
		num++
	}
	res := make([]int, num)
	for i := 0; i < num-1; i++ {
		res[i] = fs * (i + 1)
	}
	res[num-1] = n - 1
	return res
}

func c20SizesLayout(sizes []int) []int {
	res := make([]int, len(sizes))
	acc := 0
	for i, s := range sizes {
		acc += s
		res[i] = acc
	}
	res[len(res)-1] = acc - 1
	return res
}

// fragment j holds rows [bounds[j], bounds[j+1])
func c20Bounds(layout []int, n int) []int {
	b := make([]int, 0, len(layout)+1)
	b = append(b, 0)
	for j := 0; j < len(layout)-1; j++ {
		b = append(b, layout[j])
	}
	return append(b, n)
}

// ---------------------------------------------------------------------------------------------
// conditions
// ---------------------------------------------------------------------------------------------

type c20Atom struct {
	Col int
	Op  string
	Lit int   // index into Lits; for IN: first member
	Lit2 int  // IN only: second member
}

func (s *c20Schema) atomText(a c20Atom) string {
	c := &s.Cols[a.Col]
	switch a.Op {
	case "MATCHPHRASE":
		return fmt.Sprintf("MATCHPHRASE(%s, %s)", c.Name, c.Lits[a.Lit].Text)
	case "IN":
		return fmt.Sprintf("%s IN (%s, %s)", c.Name, c.Lits[a.Lit].Text, c.Lits[a.Lit2].Text)
	}
	return fmt.Sprintf("%s %s %s", c.Name, a.Op, c.Lits[a.Lit].Text)
}

func c20VarType(typ int) influxql.DataType {
	switch typ {
	case influx.Field_Type_String:
		return influxql.String
	case influx.Field_Type_Int:
		return influxql.Integer
	case influx.Field_Type_Float:
		return influxql.Float
	case influx.Field_Type_Boolean:
		return influxql.Boolean
	}
	return influxql.Unknown
}

func c20LitExpr(typ int, text string) influxql.Expr {
	switch typ {
	case influx.Field_Type_String:
		return &influxql.StringLiteral{Val: strings.Trim(text, "'")}
	case influx.Field_Type_Int:
		v, _ := strconv.ParseInt(text, 10, 64)
		return &influxql.IntegerLiteral{Val: v}
	case influx.Field_Type_Float:
		v, _ := strconv.ParseFloat(text, 64)
		return &influxql.NumberLiteral{Val: v}
	case influx.Field_Type_Boolean:
		return &influxql.BooleanLiteral{Val: text == "true"}
	}
	return nil
}

var c20Tok = map[string]influxql.Token{"=": influxql.EQ, "!=": influxql.NEQ, "<": influxql.LT, "<=": influxql.LTE,
	">": influxql.GT, ">=": influxql.GTE, "MATCHPHRASE": influxql.MATCHPHRASE, "IN": influxql.IN}

func (s *c20Schema) atomExpr(a c20Atom) influxql.Expr {
	c := &s.Cols[a.Col]
	ref := &influxql.VarRef{Val: c.Name, Type: c20VarType(c.Typ)}
	if a.Op == "IN" {
		vals := map[interface{}]bool{}
		for _, l := range []int{a.Lit, a.Lit2} {
			switch e := c20LitExpr(c.Typ, c.Lits[l].Text).(type) {
			case *influxql.StringLiteral:
				vals[e.Val] = true
			case *influxql.IntegerLiteral:
				vals[float64(e.Val)] = true
			case *influxql.NumberLiteral:
				vals[e.Val] = true
			}
		}
		return &influxql.BinaryExpr{Op: influxql.IN, LHS: ref, RHS: &influxql.SetLiteral{Vals: vals}}
	}
	return &influxql.BinaryExpr{Op: c20Tok[a.Op], LHS: ref, RHS: c20LitExpr(c.Typ, c.Lits[a.Lit].Text)}
}

// atomTruth: SQL-ish row semantics, comparison with null is false (this is also what the column-store
// row filter lib/binaryfilterfunc does: null rows are cleared for every operator, != included).
func (s *c20Schema) atomTruth(a c20Atom, code int8) bool {
	if code < 0 {
		return false
	}
	v := 2*int(code) + 1
	c := &s.Cols[a.Col]
	r := c.Lits[a.Lit].Rank
	switch a.Op {
	case "=", "MATCHPHRASE": // single-token values and phrases: phrase match is token equality
		return v == r
	case "!=":
		return v != r
	case "<":
		return v < r
	case "<=":
		return v <= r
	case ">":
		return v > r
	case ">=":
		return v >= r
	case "IN":
		return v == r || v == c.Lits[a.Lit2].Rank
	}
	panic("op")
}

// a condition tree over <= 3 atoms.
// Shape: 0 = a ; 1 = a o0 b ; 2 = (a o0 b) o1 c ; 3 = a o0 (b o1 c).  Ops[i]: true = AND, false = OR.
type c20Cond struct {
	Atoms []int // indexes into the schema's atom list
	Shape int
	And   [2]bool
}

func c20OpName(and bool) string {
	if and {
		return "AND"
	}
	return "OR"
}

func (s *c20Schema) condText(atoms []c20Atom, c c20Cond) string {
	t := func(i int) string { return s.atomText(atoms[c.Atoms[i]]) }
	switch c.Shape {
	case 0:
		return t(0)
	case 1:
		return t(0) + " " + c20OpName(c.And[0]) + " " + t(1)
	case 2:
		return "(" + t(0) + " " + c20OpName(c.And[0]) + " " + t(1) + ") " + c20OpName(c.And[1]) + " " + t(2)
	default:
		return t(0) + " " + c20OpName(c.And[0]) + " (" + t(1) + " " + c20OpName(c.And[1]) + " " + t(2) + ")"
	}
}

func c20Bin(and bool, l, r influxql.Expr) influxql.Expr {
	op := influxql.Token(influxql.OR)
	if and {
		op = influxql.AND
	}
	return &influxql.BinaryExpr{Op: op, LHS: l, RHS: r}
}

func (s *c20Schema) condExpr(atoms []c20Atom, c c20Cond) influxql.Expr {
	e := func(i int) influxql.Expr { return s.atomExpr(atoms[c.Atoms[i]]) }
	switch c.Shape {
	case 0:
		return e(0)
	case 1:
		return c20Bin(c.And[0], e(0), e(1))
	case 2:
		return c20Bin(c.And[1], &influxql.ParenExpr{Expr: c20Bin(c.And[0], e(0), e(1))}, e(2))
	default:
		return c20Bin(c.And[0], e(0), &influxql.ParenExpr{Expr: c20Bin(c.And[1], e(1), e(2))})
	}
}

func (c c20Cond) mask(am []uint16) uint16 {
	f := func(and bool, x, y uint16) uint16 {
		if and {
			return x & y
		}
		return x | y
	}
	switch c.Shape {
	case 0:
		return am[c.Atoms[0]]
	case 1:
		return f(c.And[0], am[c.Atoms[0]], am[c.Atoms[1]])
	case 2:
		return f(c.And[1], f(c.And[0], am[c.Atoms[0]], am[c.Atoms[1]]), am[c.Atoms[2]])
	default:
		return f(c.And[0], am[c.Atoms[0]], f(c.And[1], am[c.Atoms[1]], am[c.Atoms[2]]))
	}
}

// allAtoms lists every atom of the schema's grammar. reduced = the smaller alphabet used for 3-atom trees.
func (s *c20Schema) allAtoms(reduced bool) []c20Atom {
	var out []c20Atom
	for ci := range s.Cols {
		c := &s.Cols[ci]
		for _, op := range c.Ops {
			if reduced && (op == "<=" || op == ">" || op == "MATCHPHRASE" || op == "IN") {
				continue
			}
			if op == "IN" {
				// one on-domain pair and one pair with an absent member
				out = append(out, c20Atom{Col: ci, Op: op, Lit: 0, Lit2: 2}, c20Atom{Col: ci, Op: op, Lit: 1, Lit2: 3})
				continue
			}
			for li, l := range c.Lits {
				if op == "MATCHPHRASE" && l.Rank != 1 && l.Rank != 3 && l.Rank != 6 {
					continue
				}
				if reduced && l.Rank%2 == 0 && l.Rank != 2 {
					continue // keep on-domain literals and one literal between two values
				}
				out = append(out, c20Atom{Col: ci, Op: op, Lit: li})
			}
		}
	}
	return out
}

type c20TimeRange struct {
	Min, Max int64
	Set      bool
}

func (t c20TimeRange) String() string {
	if !t.Set {
		return "-"
	}
	f := func(v int64) string {
		if v == influxql.MinTime {
			return "min"
		}
		if v == influxql.MaxTime {
			return "max"
		}
		return strconv.FormatInt(v, 10)
	}
	return "[" + f(t.Min) + "," + f(t.Max) + "]"
}

// ---------------------------------------------------------------------------------------------
// the replayable case
// ---------------------------------------------------------------------------------------------

type c20Case struct {
	Part    string     `json:"part"`   // "pk" | "bloom" | "minmax" | "set"
	Schema  string     `json:"schema"` // schema name (resolved through c20Schemas with the recorded tier)
	Tier    string     `json:"tier"`
	Rows    [][]int8   `json:"rows"`   // codes per key column (-1 = null)
	Layout  []int      `json:"layout"` // accumulated row offsets handed to the index writer
	Cond    c20CondRef `json:"cond"`
	Time    [2]int64   `json:"time"`
	TimeSet bool       `json:"time_set"`
	Coarse  int        `json:"coarse_index_fragment"`
	MinSeek int        `json:"min_rows_for_seek"`
	ForceEx bool       `json:"force_exclusion_search"`
	Warm    int        `json:"warm_scans"` // scans of the same condition on the same cached index record before the checked one
	// human readable
	Text     string   `json:"text"`
	RowsText []string `json:"rows_text"`
}

type c20CondRef struct {
	Atoms []c20Atom `json:"atoms"`
	Shape int       `json:"shape"`
	And   [2]bool   `json:"and"`
}

type c20Setting struct {
	Coarse, MinSeek int
	ForceEx         bool
}

// c20NoBinary forces the generic exclusion search for a condition that could use binary search.
type c20NoBinary struct{ KeyCondition }

func (c20NoBinary) CanDoBinarySearch() bool { return false }

// ---------------------------------------------------------------------------------------------
// primary-key sparse index
// ---------------------------------------------------------------------------------------------

func (s *c20Schema) rowsText(rows []c20Row) []string {
	out := make([]string, len(rows))
	for i := range rows {
		var p []string
		for c := range s.Cols {
			code := s.cell(rows, i, c)
			if code < 0 {
				p = append(p, s.Cols[c].Name+"=null")
			} else {
				p = append(p, s.Cols[c].Name+"="+s.Cols[c].Dom[code])
			}
		}
		out[i] = strings.Join(p, " ")
	}
	return out
}

// c20BuildPK runs the real index writer.
func (s *c20Schema) buildPK(rows []c20Row, layout []int) (*record.Record, fragment.IndexFragment, error) {
	data := s.dataRecord(rows)
	w := NewPKIndexWriter()
	return w.Build(data, s.recSchema(s.NKey), layout, -1 /* colstore.DefaultTCLocation */, 0)
}

func c20RecSig(r *record.Record) string {
	var b strings.Builder
	for i := range r.ColVals {
		cv := &r.ColVals[i]
		fmt.Fprintf(&b, "%x|%v|%x|%d|%d;", cv.Val, cv.Offset, cv.Bitmap, cv.Len, cv.NilCount)
	}
	return b.String()
}

func (s *c20Schema) timeCond(tr c20TimeRange) influxql.Expr {
	ti := s.timeIdx()
	if !tr.Set || ti < 0 {
		return nil
	}
	return binaryfilterfunc.GetTimeCondition(util.TimeRange{Min: tr.Min, Max: tr.Max}, s.recSchema(s.NKey), ti)
}

// scanOnce runs Scan and returns the set of covered fragments (bit j) or an error/panic text.
func c20Scan(pkRec *record.Record, mark fragment.IndexFragment, kc KeyCondition, set c20Setting, fs int) (cov uint16, errText string) {
	defer func() {
		if r := recover(); r != nil {
			errText = fmt.Sprintf("panic: %v", r)
		}
	}()
	rd := NewPKIndexReader(fs, set.Coarse, set.MinSeek)
	if set.ForceEx {
		kc = c20NoBinary{kc}
	}
	frs, err := rd.Scan("c20.idx", pkRec, mark, kc)
	if err != nil {
		return 0, "error: " + err.Error()
	}
	n := mark.GetFragmentCount()
	for _, fr := range frs {
		for j := fr.Start; j < fr.End && j < n; j++ {
			cov |= 1 << j
		}
	}
	return cov, ""
}

// needed: bit j set iff fragment j holds a row of matchMask
func c20Needed(bounds []int, matchMask uint16) uint16 {
	var need uint16
	for j := 0; j+1 < len(bounds); j++ {
		for i := bounds[j]; i < bounds[j+1]; i++ {
			if matchMask&(1<<i) != 0 {
				need |= 1 << j
				break
			}
		}
	}
	return need
}

func (s *c20Schema) atomMasks(atoms []c20Atom, rows []c20Row) []uint16 {
	am := make([]uint16, len(atoms))
	for ai, a := range atoms {
		for i := range rows {
			if s.atomTruth(a, s.cell(rows, i, a.Col)) {
				am[ai] |= 1 << i
			}
		}
	}
	return am
}

func (s *c20Schema) timeMask(tr c20TimeRange, rows []c20Row) uint16 {
	all := uint16(1<<len(rows)) - 1
	ti := s.timeIdx()
	if !tr.Set || ti < 0 {
		return all
	}
	var m uint16
	for i := range rows {
		v, _ := strconv.ParseInt(s.Cols[ti].Dom[rows[i][ti]], 10, 64)
		if v >= tr.Min && v <= tr.Max {
			m |= 1 << i
		}
	}
	return m
}

// c20Classify names the cause of a primary-key violation (matched against KNOWN_FINDINGS signatures).
func (s *c20Schema) classifyPK(atoms []c20Atom, c c20Cond, rows []c20Row, warm int, errText string) string {
	if warm > 0 {
		return "pk_wrong_after_index_record_mutated_by_earlier_scan"
	}
	hasNullKey := false
	for _, r := range rows {
		for i := 0; i < s.NKey; i++ {
			if r[i] < 0 {
				hasNullKey = true
			}
		}
	}
	if hasNullKey {
		return "pk_null_key_pruned"
	}
	return "pk_fragment_with_match_pruned"
}

type c20PKStats struct {
	scans, cases, nontrivial, condRejected, scanErr, mutated int64
}

// checkPKCase is the plain, cache-free execution of one case (replay path and re-verification of
// every violation found by the explorer).
func (s *c20Schema) checkPKCase(atoms []c20Atom, rows []c20Row, layout []int, c c20Cond, tr c20TimeRange, set c20Setting, warm int) (bad bool, kind, detail string) {
	pkRec, mark, err := s.buildPK(rows, layout)
	if err != nil {
		return false, "", "build: " + err.Error()
	}
	kc, err := NewKeyCondition(s.timeCond(tr), s.condExpr(atoms, c), s.recSchema(s.NKey))
	if err != nil {
		return false, "", "condition rejected: " + err.Error()
	}
	fs := layout[0]
	if fs < 1 {
		fs = 1
	}
	var cov uint16
	var et string
	for k := 0; k <= warm; k++ {
		cov, et = c20Scan(pkRec, mark, kc, set, fs)
	}
	if et != "" {
		return false, "", et
	}
	am := s.atomMasks(atoms, rows)
	match := c.mask(am) & s.timeMask(tr, rows)
	need := c20Needed(c20Bounds(layout, len(rows)), match)
	if need&^cov == 0 {
		return false, "", ""
	}
	return true, s.classifyPK(atoms, c, rows, warm, et),
		fmt.Sprintf("fragments with a matching row: %s; fragments returned by Scan: %s; pruned wrongly: %s; matching rows: %s; index record: %s",
			c20Bits(need), c20Bits(cov), c20Bits(need&^cov), c20Bits(match), strings.ReplaceAll(pkRec.String(), "\n", " "))
}

func c20Bits(m uint16) string {
	var p []string
	for i := 0; i < 16; i++ {
		if m&(1<<i) != 0 {
			p = append(p, strconv.Itoa(i))
		}
	}
	return "{" + strings.Join(p, ",") + "}"
}

func (s *c20Schema) mkCase(part string, atoms []c20Atom, rows []c20Row, layout []int, c c20Cond, tr c20TimeRange, set c20Setting, warm int) c20Case {
	cs := c20Case{Part: part, Schema: s.Name, Tier: kit.Tier(), Layout: layout, Coarse: set.Coarse, MinSeek: set.MinSeek, ForceEx: set.ForceEx,
		Warm: warm, TimeSet: tr.Set, Time: [2]int64{tr.Min, tr.Max}}
	for _, r := range rows {
		cs.Rows = append(cs.Rows, append([]int8(nil), r...))
	}
	for _, ai := range c.Atoms {
		cs.Cond.Atoms = append(cs.Cond.Atoms, atoms[ai])
	}
	cs.Cond.Shape, cs.Cond.And = c.Shape, c.And
	cs.Text = s.condText(atoms, c)
	if tr.Set {
		cs.Text += " time" + tr.String()
	}
	cs.RowsText = s.rowsText(rows)
	return cs
}

func (cs *c20Case) key() string {
	return fmt.Sprintf("%s schema=%s cond={%s} rows=[%s] layout=%v coarse=%d minseek=%d forceEx=%v warm=%d",
		cs.Part, cs.Schema, cs.Text, strings.Join(cs.RowsText, " | "), cs.Layout, cs.Coarse, cs.MinSeek, cs.ForceEx, cs.Warm)
}

// ---------------------------------------------------------------------------------------------
// enumeration plan
// ---------------------------------------------------------------------------------------------

type c20Plan struct {
	Schema     c20Schema
	MaxRows    int
	MaxAtoms   int          // full atom alphabet up to this many atoms
	Max3Rows   int          // 3-atom trees (reduced alphabet) on records up to this many rows (0 = none)
	Times      []c20TimeRange
	Times2     []c20TimeRange // time ranges combined with 2-atom trees (subset)
	Settings   []c20Setting
	Settings2  []c20Setting // settings used for trees of >= 2 atoms
	AllLayouts bool         // every composition of the rows into fragments of 1..3 rows instead of fixed sizes
	Warm       bool         // additionally scan twice on the same cached index record
}

func c20Plans(thorough bool) []c20Plan {
	nk := c20NonKeyCol()
	mk := func(name string, key ...c20Col) c20Schema {
		return c20Schema{Name: name, Cols: append(append([]c20Col{}, key...), nk), NKey: len(key)}
	}
	noTime := []c20TimeRange{{}}
	times := []c20TimeRange{{}, {1, 1, true}, {2, 2, true}, {0, 1, true}, {2, 3, true}, {3, 3, true},
		{1, influxql.MaxTime, true}, {2, influxql.MaxTime, true}, {influxql.MinTime, 1, true}, {influxql.MinTime, 0, true}}
	times2 := []c20TimeRange{{}, {2, 2, true}, {influxql.MinTime, 1, true}}
	setAll := []c20Setting{{8, 0, false}, {2, 0, false}, {3, 0, false}, {8, 1, false}, {2, 2, false}, {8, 0, true}, {2, 0, true}, {3, 1, true}}
	set2 := []c20Setting{{8, 0, false}, {2, 0, false}, {2, 0, true}}
	var ps []c20Plan
	if !thorough {
		ps = append(ps,
			c20Plan{Schema: mk("s", c20StrCol("s", false, true)), MaxRows: 5, MaxAtoms: 2, Max3Rows: 5, Times: noTime, Times2: noTime, Settings: setAll, Settings2: set2, Warm: true},
			c20Plan{Schema: mk("i", c20IntCol("i", false, true)), MaxRows: 5, MaxAtoms: 2, Max3Rows: 5, Times: noTime, Times2: noTime, Settings: setAll, Settings2: set2, Warm: true},
			c20Plan{Schema: mk("s,i", c20StrCol("s", false, true), c20IntCol("i", false, true)), MaxRows: 5, MaxAtoms: 2, Max3Rows: 3, Times: noTime, Times2: noTime, Settings: setAll, Settings2: set2},
			c20Plan{Schema: mk("i,s", c20IntCol("i", false, true), c20StrCol("s", false, true)), MaxRows: 4, MaxAtoms: 2, Max3Rows: 0, Times: noTime, Times2: noTime, Settings: setAll, Settings2: set2},
			c20Plan{Schema: mk("s,time", c20StrCol("s", false, false), c20TimeCol()), MaxRows: 5, MaxAtoms: 2, Max3Rows: 0, Times: times, Times2: times2, Settings: setAll, Settings2: set2},
			c20Plan{Schema: mk("s,i,time", c20StrCol("s", false, false), c20IntCol("i", false, false), c20TimeCol()), MaxRows: 4, MaxAtoms: 2, Max3Rows: 0, Times: times, Times2: times2[:2], Settings: setAll, Settings2: set2[:2], Warm: true},
		)
		return ps
	}
	return ps
}
