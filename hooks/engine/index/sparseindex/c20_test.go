//go:build verif

package sparseindex

// C20 — column-store sparse (primary key) and skip indexes never prune a block with a match.
//
// Bounded exhaustive enumeration (odometer, no randomness) of
//   sorted key records x fragment layouts x condition trees x reader settings
// on the real code: PKIndexWriterImpl.Build, NewKeyCondition, PKIndexReaderImpl.Scan and the
// skip-index readers' MayBeInFragment.  Oracle: brute-force row evaluation (comparison with
// null is false); every fragment holding a matching row must be inside the returned ranges.
// Soundness only: over-reading is never reported.
// Skip indexes over several columns / several indexes at once (CreateSKFileReaders, Scan chain): c20_multi_test.go.

import (
	"fmt"
	"math"
	"os"
	"path/filepath"
	"runtime"
	"runtime/debug"
	"strconv"
	"strings"
	"testing"
	"time"

	"github.com/openGemini/openGemini/engine/immutable/colstore"
	"github.com/openGemini/openGemini/lib/binaryfilterfunc"
	"github.com/openGemini/openGemini/lib/fragment"
	"github.com/openGemini/openGemini/lib/record"
	"github.com/openGemini/openGemini/lib/rpn"
	"github.com/openGemini/openGemini/lib/tokenizer"
	"github.com/openGemini/openGemini/lib/util"
	"github.com/openGemini/openGemini/lib/util/lifted/influx/influxql"
	"github.com/openGemini/openGemini/lib/util/lifted/influx/query"
	"github.com/openGemini/openGemini/lib/util/lifted/vm/protoparser/influx"
	kit "github.com/openGemini/openGemini/lib/verifkit"
)

// ---------------------------------------------------------------------------------------------
// model of the data: columns, literals, rows
// ---------------------------------------------------------------------------------------------

// c20Lit is a literal usable in an atom on a column. Rank places it on the column's order:
// domain value k has rank 2k+1, literals between / outside the domain have even ranks.
type c20Lit struct {
	Text string // InfluxQL text of the literal
	Rank int
}

type c20Col struct {
	Name     string
	Typ      int      // influx.Field_Type_*
	Dom      []string // domain, ascending, as literal text (strings without quotes)
	Lits     []c20Lit
	Ops      []string
	Nullable bool
	// how the writer's sorter (lib/record/sort_item.go Pad*Slice) orders a null: strings as "",
	// integers as MinInt64, floats as -MaxFloat64 => before every domain value; booleans as false
	// => tied with Dom[0].
	NullTiesFirst bool
	ByPosition    bool // non-key column whose value is Dom[row % len(Dom)] (never seen by an index)
}

type c20Schema struct {
	Name string
	Cols []c20Col // key columns first (in key order), then non-key columns
	NKey int
	// TC: column 0 is the time-cluster column (record.TimeClusterCol) that PKIndexWriterImpl.Build
	// prepends to the primary key when tcLocation > colstore.DefaultTCLocation
	TC bool
}

// timeIdx: the key column constrained by the query's time range (time itself, or the clustered time).
func (s *c20Schema) timeIdx() int {
	for i := 0; i < s.NKey; i++ {
		if s.Cols[i].Name == record.TimeField || s.Cols[i].Name == record.TimeClusterCol {
			return i
		}
	}
	return -1
}

func c20Cmp6() []string { return []string{"=", "!=", "<", "<=", ">", ">="} }

func c20StrCol(name string, thorough, nullable bool) c20Col {
	c := c20Col{Name: name, Typ: influx.Field_Type_String, Dom: []string{"A", "C", "D"}, Nullable: nullable,
		Ops: append(c20Cmp6(), "MATCHPHRASE", "IN")}
	c.Lits = []c20Lit{{"'A'", 1}, {"'B'", 2}, {"'C'", 3}, {"'D'", 5}, {"'E'", 6}}
	if thorough {
		c.Lits = append(c.Lits, c20Lit{"'0'", 0}, c20Lit{"'CC'", 4})
	}
	return c
}

func c20IntCol(name string, thorough, nullable bool) c20Col {
	c := c20Col{Name: name, Typ: influx.Field_Type_Int, Dom: []string{"1", "2"}, Nullable: nullable, Ops: c20Cmp6()}
	c.Lits = []c20Lit{{"0", 0}, {"1", 1}, {"2", 3}, {"3", 4}}
	return c
}

// c20IntGapCol has a hole in its domain so that an integer literal can sit strictly between two values.
func c20IntGapCol(name string, nullable bool) c20Col {
	c := c20Col{Name: name, Typ: influx.Field_Type_Int, Dom: []string{"1", "2", "4"}, Nullable: nullable, Ops: c20Cmp6()}
	c.Lits = []c20Lit{{"0", 0}, {"1", 1}, {"2", 3}, {"3", 4}, {"4", 5}, {"5", 6}}
	return c
}

func c20FloatCol(name string, nullable bool) c20Col {
	c := c20Col{Name: name, Typ: influx.Field_Type_Float, Dom: []string{"1.5", "2.5"}, Nullable: nullable, Ops: c20Cmp6()}
	c.Lits = []c20Lit{{"1.0", 0}, {"1.5", 1}, {"2.0", 2}, {"2.5", 3}, {"3.0", 4}}
	return c
}

func c20BoolCol(name string, nullable bool) c20Col {
	c := c20Col{Name: name, Typ: influx.Field_Type_Boolean, Dom: []string{"false", "true"}, Nullable: nullable,
		NullTiesFirst: true, Ops: c20Cmp6()}
	c.Lits = []c20Lit{{"false", 1}, {"true", 3}}
	return c
}

func c20TCCol() c20Col {
	return c20Col{Name: record.TimeClusterCol, Typ: influx.Field_Type_Int, Dom: []string{"1", "2"}}
}

func c20TimeCol() c20Col {
	// time is an integer key column; it is constrained through the query's time range only
	return c20Col{Name: record.TimeField, Typ: influx.Field_Type_Int, Dom: []string{"1", "2"}}
}

func c20NonKeyCol() c20Col {
	c := c20Col{Name: "v", Typ: influx.Field_Type_Int, Dom: []string{"1", "2"}, ByPosition: true,
		Ops: []string{"=", "!=", ">", "<="}}
	c.Lits = []c20Lit{{"1", 1}, {"2", 3}}
	return c
}

// a row is a slice of codes, one per column: -1 = null, k = Dom[k]
type c20Row []int8

// sortKey of a cell under the writer's order
func (c *c20Col) sortKey(code int8) int {
	if code < 0 {
		if c.NullTiesFirst {
			return 0
		}
		return -1
	}
	return int(code)
}

func (s *c20Schema) rowLE(a, b c20Row) bool {
	for i := 0; i < s.NKey; i++ {
		x, y := s.Cols[i].sortKey(a[i]), s.Cols[i].sortKey(b[i])
		if x != y {
			return x < y
		}
	}
	return true
}

// tuples enumerates every key tuple of the schema.
func (s *c20Schema) tuples() []c20Row {
	radix := make([]int, s.NKey)
	for i := 0; i < s.NKey; i++ {
		radix[i] = len(s.Cols[i].Dom)
		if s.Cols[i].Nullable {
			radix[i]++
		}
	}
	var out []c20Row
	kit.Odometer(radix, func(d []int) bool {
		r := make(c20Row, s.NKey)
		for i := range d {
			if s.Cols[i].Nullable {
				r[i] = int8(d[i] - 1)
			} else {
				r[i] = int8(d[i])
			}
		}
		out = append(out, r)
		return true
	})
	return out
}

// sortedRecords calls f for every sequence of n tuples that is non-decreasing under the writer's order
// (tuples that tie may appear in any order).
func (s *c20Schema) sortedRecords(tuples []c20Row, n int, f func(rows []c20Row)) {
	cur := make([]c20Row, 0, n)
	var rec func()
	rec = func() {
		if len(cur) == n {
			f(cur)
			return
		}
		for _, t := range tuples {
			if len(cur) > 0 && !s.rowLE(cur[len(cur)-1], t) {
				continue
			}
			cur = append(cur, t)
			rec()
			cur = cur[:len(cur)-1]
		}
	}
	rec()
}

// cell returns the code of column c in row i (non-key by-position columns are derived).
func (s *c20Schema) cell(rows []c20Row, i, c int) int8 {
	if s.Cols[c].ByPosition {
		return int8(i % len(s.Cols[c].Dom))
	}
	return rows[i][c]
}

func c20Append(cv *record.ColVal, col *c20Col, code int8) {
	switch col.Typ {
	case influx.Field_Type_String:
		if code < 0 {
			cv.AppendStringNull()
		} else {
			cv.AppendString(col.Dom[code])
		}
	case influx.Field_Type_Int:
		if code < 0 {
			cv.AppendIntegerNull()
		} else {
			v, _ := strconv.ParseInt(col.Dom[code], 10, 64)
			cv.AppendInteger(v)
		}
	case influx.Field_Type_Float:
		if code < 0 {
			cv.AppendFloatNull()
		} else {
			v, _ := strconv.ParseFloat(col.Dom[code], 64)
			cv.AppendFloat(v)
		}
	case influx.Field_Type_Boolean:
		if code < 0 {
			cv.AppendBooleanNull()
		} else {
			cv.AppendBoolean(col.Dom[code] == "true")
		}
	}
}

func (s *c20Schema) recSchema(nCols int) record.Schemas {
	var sc record.Schemas
	for i := 0; i < nCols; i++ {
		sc = append(sc, record.Field{Name: s.Cols[i].Name, Type: s.Cols[i].Typ})
	}
	return sc
}

// dataRecord builds the data record (all columns) the writer would be handed.
func (s *c20Schema) dataRecord(rows []c20Row) *record.Record {
	rec := record.NewRecord(s.recSchema(len(s.Cols)), false)
	for c := range s.Cols {
		for i := range rows {
			c20Append(rec.Column(c), &s.Cols[c], s.cell(rows, i, c))
		}
	}
	return rec
}

// c20Layout: accumulated row offsets as the column-store writer computes them
// (engine/immutable/msbuilder.go GenFixRowsPerSegment / genAccumulateRowsIndex):
// [end of fragment 0, end of fragment 1, ..., rowNum-1].
func c20FixedLayout(n, fs int) []int {
	num, rem := n/fs, n%fs
	if rem > 0 {
		num++
	}
	res := make([]int, num)
	for i := 0; i < num-1; i++ {
		res[i] = fs * (i + 1)
	}
	res[num-1] = n - 1
	return res
}

func c20SizesLayout(sizes []int) []int {
	res := make([]int, len(sizes))
	acc := 0
	for i, s := range sizes {
		acc += s
		res[i] = acc
	}
	res[len(res)-1] = acc - 1
	return res
}

// fragment j holds rows [bounds[j], bounds[j+1])
func c20Bounds(layout []int, n int) []int {
	b := make([]int, 0, len(layout)+1)
	b = append(b, 0)
	for j := 0; j < len(layout)-1; j++ {
		b = append(b, layout[j])
	}
	return append(b, n)
}

// ---------------------------------------------------------------------------------------------
// conditions
// ---------------------------------------------------------------------------------------------

type c20Atom struct {
	Col int
	Op  string
	Lit int   // index into Lits; for IN: first member
	Lit2 int  // IN only: second member
}

func (s *c20Schema) atomText(a c20Atom) string {
	c := &s.Cols[a.Col]
	switch a.Op {
	case "MATCHPHRASE":
		return fmt.Sprintf("MATCHPHRASE(%s, %s)", c.Name, c.Lits[a.Lit].Text)
	case "IN":
		return fmt.Sprintf("%s IN (%s, %s)", c.Name, c.Lits[a.Lit].Text, c.Lits[a.Lit2].Text)
	}
	return fmt.Sprintf("%s %s %s", c.Name, a.Op, c.Lits[a.Lit].Text)
}

func c20VarType(typ int) influxql.DataType {
	switch typ {
	case influx.Field_Type_String:
		return influxql.String
	case influx.Field_Type_Int:
		return influxql.Integer
	case influx.Field_Type_Float:
		return influxql.Float
	case influx.Field_Type_Boolean:
		return influxql.Boolean
	}
	return influxql.Unknown
}

func c20LitExpr(typ int, text string) influxql.Expr {
	switch typ {
	case influx.Field_Type_String:
		return &influxql.StringLiteral{Val: strings.Trim(text, "'")}
	case influx.Field_Type_Int:
		v, _ := strconv.ParseInt(text, 10, 64)
		return &influxql.IntegerLiteral{Val: v}
	case influx.Field_Type_Float:
		v, _ := strconv.ParseFloat(text, 64)
		return &influxql.NumberLiteral{Val: v}
	case influx.Field_Type_Boolean:
		return &influxql.BooleanLiteral{Val: text == "true"}
	}
	return nil
}

var c20Tok = map[string]influxql.Token{"=": influxql.EQ, "!=": influxql.NEQ, "<": influxql.LT, "<=": influxql.LTE,
	">": influxql.GT, ">=": influxql.GTE, "MATCHPHRASE": influxql.MATCHPHRASE, "IN": influxql.IN, "IPINRANGE": influxql.IPINRANGE}

func (s *c20Schema) atomExpr(a c20Atom) influxql.Expr {
	c := &s.Cols[a.Col]
	ref := &influxql.VarRef{Val: c.Name, Type: c20VarType(c.Typ)}
	if a.Op == "IN" {
		vals := map[interface{}]bool{}
		for _, l := range []int{a.Lit, a.Lit2} {
			switch e := c20LitExpr(c.Typ, c.Lits[l].Text).(type) {
			case *influxql.StringLiteral:
				vals[e.Val] = true
			case *influxql.IntegerLiteral:
				vals[float64(e.Val)] = true
			case *influxql.NumberLiteral:
				vals[e.Val] = true
			}
		}
		return &influxql.BinaryExpr{Op: influxql.IN, LHS: ref, RHS: &influxql.SetLiteral{Vals: vals}}
	}
	return &influxql.BinaryExpr{Op: c20Tok[a.Op], LHS: ref, RHS: c20LitExpr(c.Typ, c.Lits[a.Lit].Text)}
}

// atomTruth: SQL-ish row semantics, comparison with null is false (this is also what the column-store
// row filter lib/binaryfilterfunc does: null rows are cleared for every operator, != included).
func (s *c20Schema) atomTruth(a c20Atom, code int8) bool {
	if code < 0 {
		return false
	}
	v := 2*int(code) + 1
	c := &s.Cols[a.Col]
	r := c.Lits[a.Lit].Rank
	switch a.Op {
	case "=", "MATCHPHRASE": // single-token values and phrases: phrase match is token equality
		return v == r
	case "!=":
		return v != r
	case "<":
		return v < r
	case "<=":
		return v <= r
	case ">":
		return v > r
	case ">=":
		return v >= r
	case "IN":
		return v == r || v == c.Lits[a.Lit2].Rank
	}
	panic("op")
}

// a condition tree over <= 4 atoms.
// Shape: 0 = a ; 1 = a o0 b ; 2 = (a o0 b) o1 c ; 3 = a o0 (b o1 c) ; 4 = ((a o0 b) o1 c) o2 d ; 5 = (a o0 b) o1 (c o2 d).
// And[i]: true = AND, false = OR.
type c20Cond struct {
	Atoms []int // indexes into the schema's atom list
	Shape int
	And   [3]bool
}

func c20OpName(and bool) string {
	if and {
		return "AND"
	}
	return "OR"
}

func (s *c20Schema) condText(atoms []c20Atom, c c20Cond) string {
	t := func(i int) string { return s.atomText(atoms[c.Atoms[i]]) }
	switch c.Shape {
	case 0:
		return t(0)
	case 1:
		return t(0) + " " + c20OpName(c.And[0]) + " " + t(1)
	case 2:
		return "(" + t(0) + " " + c20OpName(c.And[0]) + " " + t(1) + ") " + c20OpName(c.And[1]) + " " + t(2)
	case 4:
		return "((" + t(0) + " " + c20OpName(c.And[0]) + " " + t(1) + ") " + c20OpName(c.And[1]) + " " + t(2) + ") " + c20OpName(c.And[2]) + " " + t(3)
	case 5:
		return "(" + t(0) + " " + c20OpName(c.And[0]) + " " + t(1) + ") " + c20OpName(c.And[1]) + " (" + t(2) + " " + c20OpName(c.And[2]) + " " + t(3) + ")"
	default:
		return t(0) + " " + c20OpName(c.And[0]) + " (" + t(1) + " " + c20OpName(c.And[1]) + " " + t(2) + ")"
	}
}

func c20Bin(and bool, l, r influxql.Expr) influxql.Expr {
	op := influxql.Token(influxql.OR)
	if and {
		op = influxql.AND
	}
	return &influxql.BinaryExpr{Op: op, LHS: l, RHS: r}
}

func (s *c20Schema) condExpr(atoms []c20Atom, c c20Cond) influxql.Expr {
	e := func(i int) influxql.Expr { return s.atomExpr(atoms[c.Atoms[i]]) }
	switch c.Shape {
	case 0:
		return e(0)
	case 1:
		return c20Bin(c.And[0], e(0), e(1))
	case 2:
		return c20Bin(c.And[1], &influxql.ParenExpr{Expr: c20Bin(c.And[0], e(0), e(1))}, e(2))
	case 4:
		in := &influxql.ParenExpr{Expr: c20Bin(c.And[0], e(0), e(1))}
		return c20Bin(c.And[2], &influxql.ParenExpr{Expr: c20Bin(c.And[1], in, e(2))}, e(3))
	case 5:
		return c20Bin(c.And[1], &influxql.ParenExpr{Expr: c20Bin(c.And[0], e(0), e(1))}, &influxql.ParenExpr{Expr: c20Bin(c.And[2], e(2), e(3))})
	default:
		return c20Bin(c.And[0], e(0), &influxql.ParenExpr{Expr: c20Bin(c.And[1], e(1), e(2))})
	}
}

func (c c20Cond) mask(am []uint16) uint16 {
	f := func(and bool, x, y uint16) uint16 {
		if and {
			return x & y
		}
		return x | y
	}
	switch c.Shape {
	case 0:
		return am[c.Atoms[0]]
	case 1:
		return f(c.And[0], am[c.Atoms[0]], am[c.Atoms[1]])
	case 2:
		return f(c.And[1], f(c.And[0], am[c.Atoms[0]], am[c.Atoms[1]]), am[c.Atoms[2]])
	case 4:
		return f(c.And[2], f(c.And[1], f(c.And[0], am[c.Atoms[0]], am[c.Atoms[1]]), am[c.Atoms[2]]), am[c.Atoms[3]])
	case 5:
		return f(c.And[1], f(c.And[0], am[c.Atoms[0]], am[c.Atoms[1]]), f(c.And[2], am[c.Atoms[2]], am[c.Atoms[3]]))
	default:
		return f(c.And[0], am[c.Atoms[0]], f(c.And[1], am[c.Atoms[1]], am[c.Atoms[2]]))
	}
}

// allAtoms lists every atom of the schema's grammar. reduced = the smaller alphabet used for 3-atom trees:
// operators = != < >=, the first two domain values, plus "= <literal between them>"; one atom on the non-key column.
func (s *c20Schema) allAtoms(reduced bool) []c20Atom {
	var out []c20Atom
	for ci := range s.Cols {
		c := &s.Cols[ci]
		for _, op := range c.Ops {
			if reduced && (op == "<=" || op == ">" || op == "MATCHPHRASE" || op == "IN") {
				continue
			}
			if op == "IN" {
				// one on-domain pair and one pair with an absent member
				out = append(out, c20Atom{Col: ci, Op: op, Lit: 0, Lit2: 2}, c20Atom{Col: ci, Op: op, Lit: 1, Lit2: 3})
				continue
			}
			for li, l := range c.Lits {
				if op == "MATCHPHRASE" && l.Rank != 1 && l.Rank != 3 && l.Rank != 6 {
					continue
				}
				if reduced {
					if c.ByPosition && !(op == "=" && l.Rank == 1) {
						continue
					}
					if !(l.Rank == 1 || l.Rank == 3 || (l.Rank == 2 && op == "=")) {
						continue
					}
				}
				out = append(out, c20Atom{Col: ci, Op: op, Lit: li})
			}
		}
	}
	return out
}

type c20TimeRange struct {
	Min, Max int64
	Set      bool
}

func (t c20TimeRange) String() string {
	if !t.Set {
		return "-"
	}
	f := func(v int64) string {
		if v == influxql.MinTime {
			return "min"
		}
		if v == influxql.MaxTime {
			return "max"
		}
		return strconv.FormatInt(v, 10)
	}
	return "[" + f(t.Min) + "," + f(t.Max) + "]"
}

// ---------------------------------------------------------------------------------------------
// the replayable case
// ---------------------------------------------------------------------------------------------

type c20Case struct {
	Part    string     `json:"part"`   // "pk" | "bloom" | "minmax" | "set"
	Schema  string     `json:"schema"` // schema name (resolved through c20Schemas with the recorded tier)
	Tier    string     `json:"tier"`
	Rows    [][]int8   `json:"rows"`   // codes per key column (-1 = null)
	Layout  []int      `json:"layout"` // accumulated row offsets handed to the index writer
	Cond    c20CondRef `json:"cond"`
	Time    [2]int64   `json:"time"`
	TimeSet bool       `json:"time_set"`
	Coarse  int        `json:"coarse_index_fragment"`
	MinSeek int        `json:"min_rows_for_seek"`
	ForceEx bool       `json:"force_exclusion_search"`
	Warm    int        `json:"warm_scans"` // scans of the same condition on the same cached index record before the checked one
	// human readable
	Text     string   `json:"text"`
	RowsText []string `json:"rows_text"`
}

type c20CondRef struct {
	Atoms []c20Atom `json:"atoms"`
	Shape int       `json:"shape"`
	And   [3]bool   `json:"and"`
}

type c20Setting struct {
	Coarse, MinSeek int
	ForceEx         bool
}

// c20NoBinary forces the generic exclusion search for a condition that could use binary search.
type c20NoBinary struct{ KeyCondition }

func (c20NoBinary) CanDoBinarySearch() bool { return false }

// ---------------------------------------------------------------------------------------------
// primary-key sparse index
// ---------------------------------------------------------------------------------------------

func (s *c20Schema) rowsText(rows []c20Row) []string {
	out := make([]string, len(rows))
	for i := range rows {
		var p []string
		for c := range s.Cols {
			code := s.cell(rows, i, c)
			if code < 0 {
				p = append(p, s.Cols[c].Name+"=null")
			} else {
				p = append(p, s.Cols[c].Name+"="+s.Cols[c].Dom[code])
			}
		}
		out[i] = strings.Join(p, " ")
	}
	return out
}

// c20BuildPK runs the real index writer.
func (s *c20Schema) buildPK(rows []c20Row, layout []int) (*record.Record, fragment.IndexFragment, error) {
	data := s.dataRecord(rows)
	w := NewPKIndexWriter()
	if s.TC {
		return w.Build(data, s.recSchema(s.NKey)[1:], layout, 0, 0)
	}
	return w.Build(data, s.recSchema(s.NKey), layout, colstore.DefaultTCLocation, 0)
}

func c20RecSig(r *record.Record) string {
	var b strings.Builder
	for i := range r.ColVals {
		cv := &r.ColVals[i]
		fmt.Fprintf(&b, "%x|%v|%x|%d|%d;", cv.Val, cv.Offset, cv.Bitmap, cv.Len, cv.NilCount)
	}
	return b.String()
}

func (s *c20Schema) timeCond(tr c20TimeRange) influxql.Expr {
	ti := s.timeIdx()
	if !tr.Set || ti < 0 {
		return nil
	}
	return binaryfilterfunc.GetTimeCondition(util.TimeRange{Min: tr.Min, Max: tr.Max}, s.recSchema(s.NKey), ti)
}

// scanOnce runs Scan and returns the set of covered fragments (bit j) or an error/panic text.
func c20Scan(pkRec *record.Record, mark fragment.IndexFragment, kc KeyCondition, set c20Setting, fs int) (cov uint16, errText string) {
	defer func() {
		if r := recover(); r != nil {
			errText = fmt.Sprintf("panic: %v", r)
		}
	}()
	rd := NewPKIndexReader(fs, set.Coarse, set.MinSeek)
	if set.ForceEx {
		kc = c20NoBinary{kc}
	}
	frs, err := rd.Scan("c20.idx", pkRec, mark, kc)
	if err != nil {
		return 0, "error: " + err.Error()
	}
	n := mark.GetFragmentCount()
	for _, fr := range frs {
		for j := fr.Start; j < fr.End && j < n; j++ {
			cov |= 1 << j
		}
	}
	return cov, ""
}

// needed: bit j set iff fragment j holds a row of matchMask
func c20Needed(bounds []int, matchMask uint16) uint16 {
	var need uint16
	for j := 0; j+1 < len(bounds); j++ {
		for i := bounds[j]; i < bounds[j+1]; i++ {
			if matchMask&(1<<i) != 0 {
				need |= 1 << j
				break
			}
		}
	}
	return need
}

func (s *c20Schema) atomMasks(atoms []c20Atom, rows []c20Row) []uint16 {
	am := make([]uint16, len(atoms))
	for ai, a := range atoms {
		for i := range rows {
			if s.atomTruth(a, s.cell(rows, i, a.Col)) {
				am[ai] |= 1 << i
			}
		}
	}
	return am
}

func (s *c20Schema) timeMask(tr c20TimeRange, rows []c20Row) uint16 {
	all := uint16(1<<len(rows)) - 1
	ti := s.timeIdx()
	if !tr.Set || ti < 0 {
		return all
	}
	var m uint16
	for i := range rows {
		v, _ := strconv.ParseInt(s.Cols[ti].Dom[rows[i][ti]], 10, 64)
		if v >= tr.Min && v <= tr.Max {
			m |= 1 << i
		}
	}
	return m
}

type c20PKStats struct {
	scans, cases, nontrivial, condRejected, scanErr, mutated int64
}

// checkPKCase is the plain, cache-free execution of one case (replay path and re-verification of
// every violation found by the explorer).
func (s *c20Schema) checkPKCase(atoms []c20Atom, rows []c20Row, layout []int, c c20Cond, tr c20TimeRange, set c20Setting, warm int) (bad bool, kind, detail string) {
	pkRec, mark, err := s.buildPK(rows, layout)
	if err != nil {
		return false, "", "build: " + err.Error()
	}
	kc, err := NewKeyCondition(s.timeCond(tr), s.condExpr(atoms, c), s.recSchema(s.NKey))
	if err != nil {
		return false, "", "condition rejected: " + err.Error()
	}
	fs := layout[0]
	if fs < 1 {
		fs = 1
	}
	snap := c20SnapRec(pkRec)
	var cov uint16
	var et string
	for k := 0; k <= warm; k++ {
		cov, et = c20Scan(pkRec, mark, kc, set, fs)
	}
	if et != "" {
		return false, "", et
	}
	am := s.atomMasks(atoms, rows)
	match := c.mask(am) & s.timeMask(tr, rows)
	need := c20Needed(c20Bounds(layout, len(rows)), match)
	if need&^cov == 0 {
		return false, "", ""
	}
	after := strings.ReplaceAll(pkRec.String(), "\n", " ")
	kind, why := c20Causes[2], "wrong only after an earlier scan of the same condition rewrote the cached index record"
	if warm == 0 {
		kind, why = (&c20Classifier{pkRec: pkRec, mark: mark, kc: kc, set: set, fs: fs, snap: snap}).kind(need, s.nullBoolKey(rows), cov)
	}
	c20RestoreRec(pkRec, snap)
	return true, kind,
		fmt.Sprintf("fragments with a matching row: %s; fragments returned by Scan: %s; pruned wrongly: %s; matching rows: %s; %s; index record as built: %s; after the scan: %s",
			c20Bits(need), c20Bits(cov), c20Bits(need&^cov), c20Bits(match), why, strings.ReplaceAll(pkRec.String(), "\n", " "), after)
}

func c20Bits(m uint16) string {
	var p []string
	for i := 0; i < 16; i++ {
		if m&(1<<i) != 0 {
			p = append(p, strconv.Itoa(i))
		}
	}
	return "{" + strings.Join(p, ",") + "}"
}

func (s *c20Schema) mkCase(part string, atoms []c20Atom, rows []c20Row, layout []int, c c20Cond, tr c20TimeRange, set c20Setting, warm int) c20Case {
	cs := c20Case{Part: part, Schema: s.Name, Tier: kit.Tier(), Layout: layout, Coarse: set.Coarse, MinSeek: set.MinSeek, ForceEx: set.ForceEx,
		Warm: warm, TimeSet: tr.Set, Time: [2]int64{tr.Min, tr.Max}}
	for _, r := range rows {
		cs.Rows = append(cs.Rows, append([]int8(nil), r...))
	}
	for _, ai := range c.Atoms {
		cs.Cond.Atoms = append(cs.Cond.Atoms, atoms[ai])
	}
	cs.Cond.Shape, cs.Cond.And = c.Shape, c.And
	cs.Text = s.condText(atoms, c)
	if tr.Set {
		cs.Text += " time" + tr.String()
	}
	cs.RowsText = s.rowsText(rows)
	return cs
}

func (cs *c20Case) key() string {
	return fmt.Sprintf("%s schema=%s cond={%s} rows=[%s] layout=%v coarse=%d minseek=%d forceEx=%v warm=%d",
		cs.Part, cs.Schema, cs.Text, strings.Join(cs.RowsText, " | "), cs.Layout, cs.Coarse, cs.MinSeek, cs.ForceEx, cs.Warm)
}

// ---------------------------------------------------------------------------------------------
// enumeration plan
// ---------------------------------------------------------------------------------------------

type c20Plan struct {
	Schema     c20Schema
	Rows       [3]int            // Rows[k-1] = largest record (rows) on which trees of k atoms are run; 3-atom trees use the reduced alphabet
	Times      [3][]c20TimeRange // time ranges combined with trees of k atoms
	Settings   [3][]c20Setting   // reader settings used for trees of k atoms
	AllLayouts bool              // every composition of the rows into fragments of 1..3 rows instead of the fixed sizes 1,2,3
	// Wide3: additional 3-atom family on records of <= Wide3 rows: two comparison atoms on the leading key column
	// over the FULL literal alphabet plus one atom of the reduced alphabet on another column (a window on the
	// leading key combined with a second key column; settings/time ranges of 3-atom trees)
	Wide3 int
	// Deep: families aimed at the recursion of KeyConditionImpl.checkInAnyRange below its first level (>= 3 used key
	// columns), run on records of <= Deep rows:
	//   pairs   - for every two key columns a < b: every comparison atom on a x every comparison atom on b x {AND, OR}
	//   triples - for every three key columns a < b < c: one atom per column (full comparison alphabet if DeepFull3,
	//             else the reduced alphabet), shapes (a o b) o c and a o (b o c), all four operator pairs
	//   quads   - for four key columns a < b < c < d (DeepQuad): one reduced-alphabet atom per column,
	//             ((a o b) o c) o d and (a o b) o (c o d), all eight operator triples
	// with their own time ranges and reader settings. Records of exactly Deep rows are only laid out with fragments
	// of >= DeepMinFS rows (one MayBeInRange call sees two marks and the rows between them; with 3 rows and
	// fragments of 2 or 3 rows every (left mark, row, right mark) triple of the schema is covered).
	Deep         int
	DeepFull3    bool
	DeepQuad     bool // add the quads
	DeepMinFS    int
	DeepMinRows  int // deep families only on records of >= DeepMinRows rows (a second plan continues where another one stops)
	DeepTimes    []c20TimeRange
	DeepSettings []c20Setting
}

// c20Class: the bounds shared by a family of condition trees of a plan.
type c20Class struct {
	maxRow int // largest record the trees are run on
	minRow int // smallest record the trees are run on
	minFS  int // records of exactly maxRow rows: only layouts whose largest fragment has >= minFS rows
	times  []c20TimeRange
	sets   []c20Setting
}

func c20Plans(thorough bool) []c20Plan {
	nk := c20NonKeyCol()
	mk := func(name string, key ...c20Col) c20Schema {
		return c20Schema{Name: name, Cols: append(append([]c20Col{}, key...), nk), NKey: len(key)}
	}
	noTime := []c20TimeRange{{}}
	times := []c20TimeRange{{}, {1, 1, true}, {2, 2, true}, {0, 1, true}, {2, 3, true}, {3, 3, true},
		{1, influxql.MaxTime, true}, {2, influxql.MaxTime, true}, {influxql.MinTime, 1, true}, {influxql.MinTime, 0, true}}
	times2 := []c20TimeRange{{}, {2, 2, true}, {influxql.MinTime, 1, true}}
	// (CoarseIndexFragment, MinRowsForSeek, force exclusion search); production: (8, 0)
	setAll := []c20Setting{{8, 0, false}, {2, 0, false}, {3, 0, false}, {8, 1, false}, {2, 2, false}, {8, 0, true}, {2, 0, true}, {3, 1, true}}
	set2 := []c20Setting{{8, 0, false}, {2, 0, true}}
	set1 := []c20Setting{{8, 0, false}}
	setCoarse := []c20Setting{{8, 0, false}, {2, 0, false}}
	setCoarse3 := []c20Setting{{8, 0, false}, {2, 0, false}, {3, 1, false}}
	deepTimes := append(append([]c20TimeRange{}, times[1:2]...), times[3:]...) // all but "none" and [2,2] (= times2[:2])
	nt := [3][]c20TimeRange{noTime, noTime, noTime}
	var ps []c20Plan
	if !thorough {
		ps = append(ps,
			c20Plan{Schema: mk("s", c20StrCol("s", false, true)), Rows: [3]int{5, 5, 5}, Times: nt,
				Settings: [3][]c20Setting{setAll, setAll[:3], set2}},
			c20Plan{Schema: mk("i", c20IntCol("i", false, true)), Rows: [3]int{5, 5, 5}, Times: nt,
				Settings: [3][]c20Setting{setAll, setAll[:3], set2}},
			c20Plan{Schema: mk("s,i", c20StrCol("s", false, true), c20IntCol("i", false, true)), Rows: [3]int{5, 3, 2}, Times: nt,
				Settings: [3][]c20Setting{setAll, set2, set1}},
			c20Plan{Schema: mk("i,s", c20IntCol("i", false, true), c20StrCol("s", false, true)), Rows: [3]int{4, 3, 0}, Times: nt,
				Settings: [3][]c20Setting{setAll, set2, set1}},
			c20Plan{Schema: mk("s,time", c20StrCol("s", false, false), c20TimeCol()), Rows: [3]int{5, 5, 0},
				Times: [3][]c20TimeRange{times, times2, noTime}, Settings: [3][]c20Setting{setAll, set2, set1}},
			// three used key columns (time is the third): besides the general 1- and 2-atom trees, the deep pairs
			// `<atom on s> AND/OR <atom on i>` under the eight time ranges the general 2-atom trees do not use
			c20Plan{Schema: mk("s,i,time", c20StrCol("s", false, false), c20IntCol("i", false, false), c20TimeCol()), Rows: [3]int{4, 3, 0},
				Times: [3][]c20TimeRange{times, times2[:2], noTime}, Settings: [3][]c20Setting{setAll, set2, set1},
				Deep: 3, DeepMinFS: 1, DeepTimes: deepTimes, DeepSettings: set1},
			c20Plan{Schema: mk("sw,iw", c20StrCol("sw", false, false), c20IntGapCol("iw", false)), Rows: [3]int{3, 0, 0}, Times: nt,
				Settings: [3][]c20Setting{set1, set1, set1}, Wide3: 3},
			// three data key columns, tiny domains: every record of <= 4 rows, every layout, deep pairs and triples
			c20Plan{Schema: mk("i,j,k", c20IntCol("i", false, false), c20IntCol("j", false, false), c20IntCol("k", false, false)),
				Rows: [3]int{4, 0, 0}, Times: nt, Settings: [3][]c20Setting{setAll, set1, set1},
				Deep: 4, DeepMinFS: 1, DeepTimes: noTime, DeepSettings: setCoarse},
			// three data key columns with three-valued leading columns (a row can lie strictly between the marks in the
			// first and in the second key; integer literals between the values): (left mark, row, right mark) triples
			c20Plan{Schema: mk("sw,iw,k", c20StrCol("sw", false, false), c20IntGapCol("iw", false), c20IntCol("k", false, false)),
				Rows: [3]int{3, 0, 0}, Times: nt, Settings: [3][]c20Setting{set2, set1, set1},
				Deep: 3, DeepMinFS: 2, DeepTimes: noTime, DeepSettings: set1},
			// four key columns in a reduced form: (left mark, row, right mark) triples; 1-atom trees, deep pairs and triples
			c20Plan{Schema: mk("i,j,k,l", c20IntCol("i", false, false), c20IntCol("j", false, false), c20IntCol("k", false, false), c20IntCol("l", false, false)),
				Rows: [3]int{3, 0, 0}, Times: nt, Settings: [3][]c20Setting{set2, set1, set1},
				Deep: 3, DeepMinFS: 2, DeepTimes: noTime, DeepSettings: set1},
		)
		return ps
	}
	at := [3][]c20TimeRange{times, times2, times2[:2]}
	sAll := [3][]c20Setting{setAll, setAll, set2}
	sMid := [3][]c20Setting{setAll, set2, set1}
	tc := mk("tc,s", c20TCCol(), c20StrCol("s", false, false))
	tc.TC = true
	ps = append(ps,
		c20Plan{Schema: mk("s", c20StrCol("s", true, true)), Rows: [3]int{6, 6, 6}, Times: nt, Settings: sAll, AllLayouts: true},
		c20Plan{Schema: mk("i", c20IntGapCol("i", true)), Rows: [3]int{6, 6, 6}, Times: nt, Settings: sAll, AllLayouts: true},
		c20Plan{Schema: mk("f", c20FloatCol("f", true)), Rows: [3]int{6, 6, 6}, Times: nt, Settings: sAll, AllLayouts: true},
		c20Plan{Schema: mk("b", c20BoolCol("b", true)), Rows: [3]int{6, 6, 6}, Times: nt, Settings: sAll, AllLayouts: true},
		c20Plan{Schema: mk("s,i", c20StrCol("s", false, true), c20IntCol("i", false, true)), Rows: [3]int{6, 5, 3}, Times: nt, Settings: sMid},
		c20Plan{Schema: mk("i,s", c20IntCol("i", false, true), c20StrCol("s", false, true)), Rows: [3]int{6, 5, 3}, Times: nt, Settings: sMid},
		c20Plan{Schema: mk("s,f", c20StrCol("s", false, false), c20FloatCol("f", true)), Rows: [3]int{5, 4, 3}, Times: nt, Settings: sMid, AllLayouts: true},
		c20Plan{Schema: mk("b,i", c20BoolCol("b", false), c20IntGapCol("i", true)), Rows: [3]int{5, 4, 3}, Times: nt, Settings: sMid, AllLayouts: true},
		c20Plan{Schema: mk("bn,s", c20BoolCol("bn", true), c20StrCol("s", false, false)), Rows: [3]int{4, 3, 0}, Times: nt, Settings: sMid},
		c20Plan{Schema: mk("s,time", c20StrCol("s", false, true), c20TimeCol()), Rows: [3]int{6, 5, 3}, Times: at, Settings: sMid},
		c20Plan{Schema: tc, Rows: [3]int{6, 5, 3}, Times: at, Settings: sMid},
		c20Plan{Schema: mk("s,i,time", c20StrCol("s", false, false), c20IntCol("i", false, false), c20TimeCol()), Rows: [3]int{5, 4, 2}, Times: at, Settings: sMid,
			Deep: 3, DeepMinFS: 1, DeepTimes: deepTimes[1:], DeepSettings: set2}, // deep pairs under the 7 time ranges not in times2
		c20Plan{Schema: mk("sn,in,time", c20StrCol("sn", false, true), c20IntCol("in", false, true), c20TimeCol()), Rows: [3]int{4, 3, 0},
			Times: [3][]c20TimeRange{times2, times2[:2], noTime}, Settings: sMid},
		c20Plan{Schema: mk("i,s,time", c20IntCol("i", false, false), c20StrCol("s", false, false), c20TimeCol()), Rows: [3]int{4, 3, 0}, Times: at, Settings: sMid},
		c20Plan{Schema: mk("s,i,j", c20StrCol("s", false, false), c20IntCol("i", false, true), c20IntCol("j", false, false)), Rows: [3]int{4, 3, 2}, Times: nt, Settings: sMid},
		c20Plan{Schema: mk("sw,iw", c20StrCol("sw", false, false), c20IntGapCol("iw", false)), Rows: [3]int{4, 0, 0}, Times: nt,
			Settings: [3][]c20Setting{set1, set1, set1}, Wide3: 4},
		c20Plan{Schema: mk("iw,sw", c20IntGapCol("iw", false), c20StrCol("sw", false, false)), Rows: [3]int{4, 0, 0}, Times: nt,
			Settings: [3][]c20Setting{set1, set1, set1}, Wide3: 4},
		// ---- recursion depth >= 2 of checkInAnyRange (three and four used key columns), see c20Plan.Deep
		// tiny domains: (a) records <= 3 rows, every layout, triples over the FULL comparison alphabet (a superset of the
		// reduced one); (b) records of 4 and 5 rows, every layout, three coarse-index settings, reduced triples
		c20Plan{Schema: mk("i,j,k", c20IntCol("i", false, false), c20IntCol("j", false, false), c20IntCol("k", false, false)),
			Rows: [3]int{5, 0, 0}, Times: nt, Settings: sMid,
			Deep: 3, DeepMinFS: 1, DeepFull3: true, DeepTimes: noTime, DeepSettings: set2},
		c20Plan{Schema: mk("i,j,k-long", c20IntCol("i", false, false), c20IntCol("j", false, false), c20IntCol("k", false, false)),
			Rows: [3]int{0, 0, 0}, Times: nt, Settings: sMid,
			Deep: 5, DeepMinRows: 4, DeepMinFS: 1, DeepTimes: noTime, DeepSettings: setCoarse3},
		// nulls in the first two of three key columns
		c20Plan{Schema: mk("in,jn,k", c20IntCol("in", false, true), c20IntCol("jn", false, true), c20IntCol("k", false, false)),
			Rows: [3]int{4, 0, 0}, Times: nt, Settings: sMid,
			Deep: 4, DeepMinFS: 2, DeepTimes: noTime, DeepSettings: setCoarse},
		// three-valued leading columns (rows strictly between the marks in the first and second key, literals between values)
		c20Plan{Schema: mk("sw,iw,k", c20StrCol("sw", false, false), c20IntGapCol("iw", false), c20IntCol("k", false, false)),
			Rows: [3]int{4, 0, 0}, Times: nt, Settings: sMid,
			Deep: 4, DeepMinFS: 2, DeepTimes: noTime, DeepSettings: setCoarse},
		// four key columns: pairs, triples and quads (one atom per column)
		c20Plan{Schema: mk("i,j,k,l", c20IntCol("i", false, false), c20IntCol("j", false, false), c20IntCol("k", false, false), c20IntCol("l", false, false)),
			Rows: [3]int{4, 0, 0}, Times: nt, Settings: sMid,
			Deep: 3, DeepMinFS: 2, DeepQuad: true, DeepTimes: noTime, DeepSettings: set1},
		// three data key columns + time = four used key columns
		c20Plan{Schema: mk("s,i,j,time", c20StrCol("s", false, false), c20IntCol("i", false, false), c20IntCol("j", false, false), c20TimeCol()),
			Rows: [3]int{3, 0, 0}, Times: at, Settings: sMid,
			Deep: 3, DeepMinFS: 2, DeepTimes: []c20TimeRange{{}, {1, 1, true}, {2, 2, true}, {influxql.MinTime, 1, true}}, DeepSettings: set1},
	)
	return ps
}

// ---------------------------------------------------------------------------------------------
// explorer for the primary-key index
// ---------------------------------------------------------------------------------------------

type c20PKRun struct {
	p      *c20Plan
	s      *c20Schema
	rep    *kit.Report
	atoms  []c20Atom
	conds  []c20Cond // ordered by family
	class   []uint8   // per condition: index into classes
	classes []c20Class
	nMax    int // largest record of the plan
	kcs    map[[2]int]KeyCondition // (cond, time) -> key condition; nil = rejected by NewKeyCondition
	vio    map[string]int
	panicSeen map[string]bool
	st     c20PKStats
	wi     *int // global work-item counter (sharding)
}

func c20NewPKRun(p *c20Plan, rep *kit.Report, wi *int) *c20PKRun {
	r := &c20PKRun{p: p, s: &p.Schema, rep: rep, kcs: map[[2]int]KeyCondition{}, vio: map[string]int{}, wi: wi}
	r.atoms = r.s.allAtoms(false)
	// classes 0..2: trees of 1..3 atoms of the general grammar; 3: the "wide" family; 4: the "deep" families
	for k := 0; k < 3; k++ {
		r.classes = append(r.classes, c20Class{maxRow: p.Rows[k], times: p.Times[k], sets: p.Settings[k]})
	}
	r.classes = append(r.classes, c20Class{maxRow: p.Wide3, times: p.Times[2], sets: p.Settings[2]},
		c20Class{maxRow: p.Deep, minRow: p.DeepMinRows, minFS: p.DeepMinFS, times: p.DeepTimes, sets: p.DeepSettings})
	for _, c := range r.classes {
		if c.maxRow > r.nMax {
			r.nMax = c.maxRow
		}
	}
	add := func(class int, c c20Cond) {
		r.conds = append(r.conds, c)
		r.class = append(r.class, uint8(class))
	}
	for a := range r.atoms {
		add(0, c20Cond{Atoms: []int{a}})
	}
	if p.Rows[1] > 0 {
		for a := range r.atoms {
			for b := range r.atoms {
				add(1, c20Cond{Atoms: []int{a, b}, Shape: 1, And: [3]bool{true}})
				add(1, c20Cond{Atoms: []int{a, b}, Shape: 1, And: [3]bool{false}})
			}
		}
	}
	// indexes (into r.atoms) of the reduced alphabet
	var red []int
	for _, ra := range r.s.allAtoms(true) {
		for i, a := range r.atoms {
			if a == ra {
				red = append(red, i)
			}
		}
	}
	if p.Rows[2] > 0 {
		for _, a := range red {
			for _, b := range red {
				for _, c := range red {
					for shape := 2; shape <= 3; shape++ {
						for o := 0; o < 4; o++ {
							add(2, c20Cond{Atoms: []int{a, b, c}, Shape: shape, And: [3]bool{o&1 != 0, o&2 != 0}})
						}
					}
				}
			}
		}
	}
	if p.Wide3 > 0 {
		var lead, other []int
		for i, a := range r.atoms {
			if a.Col == 0 && a.Op != "MATCHPHRASE" && a.Op != "IN" {
				lead = append(lead, i)
			}
		}
		for _, i := range red {
			if r.atoms[i].Col != 0 {
				other = append(other, i)
			}
		}
		for _, a := range lead {
			for _, b := range lead {
				for _, c := range other {
					for o := 0; o < 4; o++ {
						add(3, c20Cond{Atoms: []int{a, b, c}, Shape: 2, And: [3]bool{o&1 != 0, o&2 != 0}})
						add(3, c20Cond{Atoms: []int{c, a, b}, Shape: 3, And: [3]bool{o&1 != 0, o&2 != 0}})
					}
				}
			}
		}
	}
	if p.Deep > 0 {
		// per key column: the comparison atoms (full alphabet) and the reduced ones; the time column has no atoms
		// (it is constrained by the time range)
		nk := r.s.NKey
		full, small := make([][]int, nk), make([][]int, nk)
		for i, a := range r.atoms {
			if a.Col < nk && a.Op != "MATCHPHRASE" && a.Op != "IN" {
				full[a.Col] = append(full[a.Col], i)
			}
		}
		for _, i := range red {
			if c := r.atoms[i].Col; c < nk {
				small[c] = append(small[c], i)
			}
		}
		for ca := 0; ca < nk; ca++ {
			for cb := ca + 1; cb < nk; cb++ {
				for _, a := range full[ca] {
					for _, b := range full[cb] {
						add(4, c20Cond{Atoms: []int{a, b}, Shape: 1, And: [3]bool{true}})
						add(4, c20Cond{Atoms: []int{a, b}, Shape: 1, And: [3]bool{false}})
					}
				}
			}
		}
		tri := small
		if p.DeepFull3 {
			tri = full
		}
		for ca := 0; ca < nk; ca++ {
			for cb := ca + 1; cb < nk; cb++ {
				for cc := cb + 1; cc < nk; cc++ {
					for _, a := range tri[ca] {
						for _, b := range tri[cb] {
							for _, c := range tri[cc] {
								for shape := 2; shape <= 3; shape++ {
									for o := 0; o < 4; o++ {
										add(4, c20Cond{Atoms: []int{a, b, c}, Shape: shape, And: [3]bool{o&1 != 0, o&2 != 0}})
									}
								}
							}
						}
					}
				}
			}
		}
		if p.DeepQuad && nk >= 4 {
			for _, a := range small[0] {
				for _, b := range small[1] {
					for _, c := range small[2] {
						for _, d := range small[3] {
							for shape := 4; shape <= 5; shape++ {
								for o := 0; o < 8; o++ {
									add(4, c20Cond{Atoms: []int{a, b, c, d}, Shape: shape, And: [3]bool{o&1 != 0, o&2 != 0, o&4 != 0}})
								}
							}
						}
					}
				}
			}
		}
	}
	return r
}

func (r *c20PKRun) kc(ci, ti int, tr c20TimeRange) KeyCondition {
	k := [2]int{ci, ti}
	if v, ok := r.kcs[k]; ok {
		return v
	}
	var out KeyCondition
	func() {
		defer func() {
			if p := recover(); p != nil {
				r.rep.Count("pk_condition_build_panic", 1)
			}
		}()
		kc, err := NewKeyCondition(r.s.timeCond(tr), r.s.condExpr(r.atoms, r.conds[ci]), r.s.recSchema(r.s.NKey))
		if err != nil {
			r.rep.Count("pk_condition_rejected_with_error", 1)
			return
		}
		out = kc
	}()
	r.kcs[k] = out
	return out
}

// snapshot of everything a scan can change in the index record (Range.turnOpenRangeIntoClosed ->
// ColVal.UpdateIntegerValue touches Val, Bitmap and NilCount); entry 3i+2 holds NilCount
func c20SnapRec(rec *record.Record) [][]byte {
	var out [][]byte
	for i := range rec.ColVals {
		out = append(out, append([]byte(nil), rec.ColVals[i].Val...), append([]byte(nil), rec.ColVals[i].Bitmap...),
			[]byte(strconv.Itoa(rec.ColVals[i].NilCount)))
	}
	return out
}

func c20RecChanged(rec *record.Record, snap [][]byte) bool {
	for i := range rec.ColVals {
		if string(rec.ColVals[i].Val) != string(snap[3*i]) || string(rec.ColVals[i].Bitmap) != string(snap[3*i+1]) ||
			strconv.Itoa(rec.ColVals[i].NilCount) != string(snap[3*i+2]) {
			return true
		}
	}
	return false
}

func c20RestoreRec(rec *record.Record, snap [][]byte) {
	for i := range rec.ColVals {
		rec.ColVals[i].Val = append(rec.ColVals[i].Val[:0], snap[3*i]...)
		rec.ColVals[i].Bitmap = append(rec.ColVals[i].Bitmap[:0], snap[3*i+1]...)
		rec.ColVals[i].NilCount, _ = strconv.Atoi(string(snap[3*i+2]))
	}
}

func (r *c20PKRun) layouts(n int) [][]int {
	var out [][]int
	if !r.p.AllLayouts {
		for fs := 1; fs <= 3; fs++ {
			// fragment sizes >= n all give the one-fragment layout: keep it once
			if fs > 1 && fs > n {
				continue
			}
			out = append(out, c20FixedLayout(n, fs))
		}
		return out
	}
	var cur []int
	var rec func(left int)
	rec = func(left int) {
		if left == 0 {
			out = append(out, c20SizesLayout(cur))
			return
		}
		for sz := 1; sz <= 3 && sz <= left; sz++ {
			cur = append(cur, sz)
			rec(left - sz)
			cur = cur[:len(cur)-1]
		}
	}
	rec(n)
	return out
}

func (r *c20PKRun) report(kind string, rows []c20Row, layout []int, ci int, tr c20TimeRange, set c20Setting, warm int) {
	c := r.conds[ci]
	r.vio[kind]++
	r.rep.Count("violations_"+kind, 1)
	r.rep.Count("violations_"+kind+"_schema_"+r.s.Name, 1)
	if r.vio[kind] > 12 {
		r.rep.Violation(kind, "", "", nil) // counted; the kit keeps the first 8 per kind with detail
		return
	}
	// re-execute the case from scratch (no caches): this is exactly what `replay` does
	bad, kind2, detail := r.s.checkPKCase(r.atoms, rows, layout, c, tr, set, warm)
	cs := r.s.mkCase("pk", r.atoms, rows, layout, c, tr, set, warm)
	if !bad || kind2 != kind {
		r.rep.Count("harness_violation_not_reproduced_from_scratch", 1)
		r.rep.Note("NOT REPRODUCED FROM SCRATCH (harness bug): explorer kind=%s scratch bad=%v kind=%s: %s", kind, bad, kind2, cs.key())
		return
	}
	r.rep.Violation(kind, cs.key(), detail, cs)
}

func (r *c20PKRun) run() {
	s := r.s
	tuples := s.tuples()
	for n := 1; n <= r.nMax; n++ {
		var recs [][]c20Row
		s.sortedRecords(tuples, n, func(rows []c20Row) { recs = append(recs, append([]c20Row(nil), rows...)) })
		r.rep.Count("pk_records", int64(len(recs)))
		for _, layout := range r.layouts(n) {
			bounds := c20Bounds(layout, n)
			maxFrag := 0
			for j := 0; j+1 < len(bounds); j++ {
				if bounds[j+1]-bounds[j] > maxFrag {
					maxFrag = bounds[j+1] - bounds[j]
				}
			}
			// does any condition family run on this (record size, layout)?
			used := false
			for _, cl := range r.classes {
				if n <= cl.maxRow && n >= cl.minRow && !(n == cl.maxRow && maxFrag < cl.minFS) {
					used = true
				}
			}
			if !used {
				continue
			}
			// group the records by the rows the index writer copies (fragment starts + last row)
			idxRows := append(append([]int{0}, layout...))
			groups := map[string][]int{}
			var order []string
			for ri, rows := range recs {
				var kb []byte
				for _, ir := range idxRows {
					for c := 0; c < s.NKey; c++ {
						kb = append(kb, byte(rows[ir][c]+1))
					}
				}
				k := string(kb)
				if _, ok := groups[k]; !ok {
					order = append(order, k)
				}
				groups[k] = append(groups[k], ri)
			}
			for _, gk := range order {
				mine := kit.Mine(*r.wi)
				*r.wi++
				if !mine {
					continue
				}
				if r.rep.Expired() {
					return
				}
				r.group(recs, groups[gk], layout, bounds, n, maxFrag)
			}
		}
	}
}

func (r *c20PKRun) group(recs [][]c20Row, members []int, layout, bounds []int, n, maxFrag int) {
	s := r.s
	pkRec, mark, err := s.buildPK(recs[members[0]], layout)
	if err != nil {
		r.rep.Count("pk_build_error", 1)
		return
	}
	snap := c20SnapRec(pkRec)
	fs := layout[0]
	if fs < 1 {
		fs = 1
	}
	nfrag := len(layout)
	allFrag := uint16(1<<nfrag) - 1
	ams := make([][]uint16, len(members))
	for mi, m := range members {
		ams[mi] = s.atomMasks(r.atoms, recs[m])
	}
	var evals, nontrivial int64
	for ci, c := range r.conds {
		cl := &r.classes[r.class[ci]]
		if n > cl.maxRow || n < cl.minRow || (n == cl.maxRow && maxFrag < cl.minFS) {
			continue
		}
		times, sets := cl.times, cl.sets
		for ti, tr := range times {
			kc := r.kc(ci, ti, tr)
			if kc == nil {
				continue
			}
			for si, set := range sets {
				cov, et := c20Scan(pkRec, mark, kc, set, fs)
				r.st.scans++
				var cov2 uint16
				mutated := false
				if c20RecChanged(pkRec, snap) {
					mutated = true
					r.st.mutated++
					var et2 string
					cov2, et2 = c20Scan(pkRec, mark, kc, set, fs)
					if et2 != "" {
						cov2 = allFrag
					}
					c20RestoreRec(pkRec, snap)
				}
				if et != "" {
					r.st.scanErr++
					if strings.HasPrefix(et, "panic") {
						r.rep.Count("pk_scan_panic", 1)
						r.rep.Count("pk_scan_panic_schema_"+s.Name, 1)
						if r.panicSeen == nil {
							r.panicSeen = map[string]bool{}
						}
						if !r.panicSeen[et] && len(r.panicSeen) < 4 {
							r.panicSeen[et] = true
							cs := s.mkCase("pk", r.atoms, recs[members[0]], layout, c, tr, set, 0)
							r.rep.Note("Scan panic (not a pruning decision, counted only): %s: %s", et, cs.key())
						}
					}
					continue
				}
				if cov == allFrag && (!mutated || cov2 == allFrag) {
					evals += int64(len(members))
					continue
				}
				var cls *c20Classifier
				for mi, m := range members {
					evals++
					match := c.mask(ams[mi]) & s.timeMask(tr, recs[m])
					if match == 0 {
						continue
					}
					if si == 0 {
						nontrivial++
						if nontrivial&1023 == 1 {
							if r.rep.DistinctNontrivial(kit.Hash(s.Name, fmt.Sprint(layout), s.condText(r.atoms, c), tr.String())) {
								cs := s.mkCase("pk", r.atoms, recs[m], layout, c, tr, set, 0)
								r.rep.Sample(4, map[string]any{"part": "pk", "schema": s.Name, "rows": cs.RowsText, "layout": layout, "cond": cs.Text,
									"fragments_returned": c20Bits(cov), "matching_rows": c20Bits(match)})
							}
						}
					}
					need := c20Needed(bounds, match)
					if need&^cov != 0 {
						if cls == nil {
							cls = &c20Classifier{pkRec: pkRec, mark: mark, kc: kc, set: set, fs: fs, snap: snap}
						}
						kind, _ := cls.kind(need, s.nullBoolKey(recs[m]), cov)
						r.report(kind, recs[m], layout, ci, tr, set, 0)
					} else if mutated && need&^cov2 != 0 {
						r.report(c20Causes[2], recs[m], layout, ci, tr, set, 1)
					}
				}
			}
		}
	}
	r.rep.Eval(evals)
	r.rep.Count("nontrivial_cases", nontrivial)
}

func (r *c20PKRun) flush() {
	r.rep.Count("pk_scans", r.st.scans)
	r.rep.Count("pk_scan_error_or_panic", r.st.scanErr)
	r.rep.Count("pk_index_record_mutated_by_scan", r.st.mutated)
	r.rep.Count("pk_conditions", int64(len(r.conds)))
}

// ---------------------------------------------------------------------------------------------
// test entry
// ---------------------------------------------------------------------------------------------

func c20FindPlan(name string, thorough bool) *c20Plan {
	ps := c20Plans(thorough)
	for i := range ps {
		if ps[i].Schema.Name == name {
			return &ps[i]
		}
	}
	return nil
}

func TestVerifC20(t *testing.T) {
	rep := kit.NewReport("C20")
	defer rep.Save()
	// the code under test allocates on every range check; the harness keeps a modest live heap
	// (records, cached key conditions), so a lazier collector only trades memory for time
	debug.SetGCPercent(800)
	// a worker is one goroutine; 16 workers with 16 Ps each only make the collectors of the 16 processes fight for the
	// cores on a shared machine (measured: 760 -> 1215 CPU-seconds for the same quick run under load)
	runtime.GOMAXPROCS(2)
	if kit.ReplayPath() != "" {
		var part struct {
			Part string `json:"part"`
		}
		if err := kit.LoadReplay(&part); err != nil {
			t.Fatal(err)
		}
		var cs c20Case
		if part.Part != "skip" {
			if err := kit.LoadReplay(&cs); err != nil {
				t.Fatal(err)
			}
		}
		if part.Part == "skip" {
			var sk c20SkCase
			if err := kit.LoadReplay(&sk); err != nil {
				t.Fatal(err)
			}
			rep.Eval(1)
			nIdx := len(sk.Cols) - 1 // the last column is the non-indexed by-position column
			res := sk.check(&c20SkEnv{scratch: kit.Scratch()}, nIdx)
			if res.bad {
				rep.Violation(res.kind, sk.key(), res.detail, sk)
			} else if res.errText != "" {
				rep.Note("replay: %s", res.errText)
			}
			return
		}
		c20Replay(t, rep, &cs)
		return
	}
	wi := 0
	for _, p := range c20Plans(kit.Thorough()) {
		p := p
		if only := os.Getenv("C20_ONLY"); only != "" && only != p.Schema.Name {
			continue
		}
		if err := p.Schema.checkSorterModel(); err != nil {
			t.Fatalf("schema %s: %v", p.Schema.Name, err)
		}
		rep.Count("sorter_model_checked_schemas", 1)
		r := c20NewPKRun(&p, rep, &wi)
		t0 := time.Now()
		r.run()
		r.flush()
		rep.Max("max_ms_plan_"+p.Schema.Name, time.Since(t0).Milliseconds())
		rep.Count("scans_plan_"+p.Schema.Name, r.st.scans)
		if rep.Expired() {
			return
		}
	}
	if only := os.Getenv("C20_ONLY"); only != "" && only != "skip" {
		return
	}
	env := &c20SkEnv{scratch: kit.Scratch()}
	for _, sp := range append(c20SkPlans(kit.Thorough()), c20MultiPlans(kit.Thorough())...) {
		sp := sp
		if only := os.Getenv("C20_SKIP_ONLY"); only != "" && only != sp.Index {
			continue
		}
		t0 := time.Now()
		sp.run(rep, env, &wi)
		rep.Max("max_ms_skip_"+sp.Index+"_"+sp.Cols[0].Name+strconv.Itoa(sp.NIdx), time.Since(t0).Milliseconds())
		if rep.Expired() {
			return
		}
	}
}

func c20Replay(t *testing.T, rep *kit.Report, cs *c20Case) {
	p := c20FindPlan(cs.Schema, cs.Tier == "thorough")
	if p == nil {
		t.Fatalf("unknown schema %q", cs.Schema)
	}
	s := &p.Schema
	rows := make([]c20Row, len(cs.Rows))
	for i := range cs.Rows {
		rows[i] = c20Row(cs.Rows[i])
	}
	atoms := cs.Cond.Atoms
	c := c20Cond{Shape: cs.Cond.Shape, And: cs.Cond.And}
	for i := range atoms {
		c.Atoms = append(c.Atoms, i)
	}
	tr := c20TimeRange{Min: cs.Time[0], Max: cs.Time[1], Set: cs.TimeSet}
	rep.Eval(1)
	switch cs.Part {
	case "pk":
		bad, kind, detail := s.checkPKCase(atoms, rows, cs.Layout, c, tr, c20Setting{cs.Coarse, cs.MinSeek, cs.ForceEx}, cs.Warm)
		if bad {
			rep.Violation(kind, cs.key(), detail, cs)
		} else if detail != "" {
			rep.Note("replay: %s", detail)
		}
	default:
		t.Fatalf("unknown part %q", cs.Part)
	}
}

// ---------------------------------------------------------------------------------------------
// classification of primary-key violations by cause
// ---------------------------------------------------------------------------------------------

// c20RefKC re-implements KeyConditionImpl.checkInAnyRange (the recursion only; leaf evaluation, range
// construction and the middle part are the original methods) with one switch per defect this check found in it
// (all three are fixed in the repository now; the switches stay to name a regression):
//   fixRight   - checkRangeRightBound returns the accumulated mark (current code) instead of only the right part's mark
//   nullFirst  - a null index key that arrives as +infinity is read as -infinity (where the writer's sorter puts it);
//                the current reader already hands over -infinity, so this is a no-op unless that regresses
//   isolate    - a bound that Range.turnOpenRangeIntoClosed might rewrite in place (open integer bound) is a private
//                copy instead of a reference into the cached index record (no-op with the current range.go)
// It is used only to NAME the cause of a violation that the real code produced (see c20Classifier.kind).
type c20RefKC struct {
	*KeyConditionImpl
	fixRight, nullFirst, isolate bool
}

// c20CloneRefs gives the key references private copies of the index columns, so that
// Range.turnOpenRangeIntoClosed (which rewrites an integer bound in place) cannot reach the cached index record.
func c20CloneRefs(refs []*FieldRef) []*FieldRef {
	out := make([]*FieldRef, len(refs))
	var cols []*ColumnRef
	for i, f := range refs {
		if cols == nil && f.cols != nil {
			cols = make([]*ColumnRef, len(f.cols))
			for j, c := range f.cols {
				cv := *c.column
				cv.Val = append([]byte(nil), cv.Val...)
				cv.Bitmap = append([]byte(nil), cv.Bitmap...)
				cv.Offset = append([]uint32(nil), cv.Offset...)
				cols[j] = &ColumnRef{name: c.name, dataType: c.dataType, column: &cv}
			}
		}
		out[i] = &FieldRef{column: f.column, row: f.row, cols: cols}
	}
	return out
}

func (w *c20RefKC) MayBeInRange(usedKeySize int, l, r []*FieldRef, dataTypes []int) (bool, error) {
	if w.nullFirst {
		for i := 0; i < usedKeySize; i++ {
			if l[i].IsPositiveInfinity() {
				l[i].SetNegativeInfinity()
			}
			if r[i].IsPositiveInfinity() {
				r[i].SetNegativeInfinity()
			}
		}
	}
	rgs := make([]*Range, 0, usedKeySize)
	for i := 0; i < usedKeySize; i++ {
		if dataTypes[i] == influx.Field_Type_Unknown {
			rgs = append(rgs, createWholeRangeIncludeBound())
		} else {
			rgs = append(rgs, createWholeRangeWithoutBound())
		}
	}
	m, err := w.anyRange(usedKeySize, l, r, true, true, rgs, dataTypes, 0, ConsiderOnlyBeTrue)
	return m.canBeTrue, err
}

func (w *c20RefKC) anyRange(keySize int, l, r []*FieldRef, lb, rb bool, rgs []*Range, dt []int, prefix int, init Mark) (Mark, error) {
	cb := func(rgs []*Range) (Mark, error) { return w.KeyConditionImpl.CheckInRange(rgs, dt) }
	if !lb && !rb {
		return cb(rgs)
	}
	if lb && rb {
		for prefix < keySize {
			if l[prefix].Equals(r[prefix]) {
				rgs[prefix] = NewRange(l[prefix], l[prefix], true, true)
				prefix++
			} else {
				break
			}
		}
	}
	if prefix == keySize {
		return cb(rgs)
	}
	res, completed, err := w.middle(l, r, lb, rb, keySize, init, rgs, dt, prefix, cb)
	if err != nil || completed {
		return res, err
	}
	if lb {
		rgs[prefix] = NewRange(l[prefix], l[prefix], true, true)
		m, err := w.anyRange(keySize, l, r, true, false, rgs, dt, prefix+1, init)
		if err != nil {
			return res, err
		}
		res = res.Or(m)
		if res.isComplete() {
			return res, nil
		}
	}
	if rb {
		rgs[prefix] = NewRange(r[prefix], r[prefix], true, true)
		m, err := w.anyRange(keySize, l, r, false, true, rgs, dt, prefix+1, init)
		if err != nil {
			return m, err
		}
		if w.fixRight {
			res = res.Or(m)
		} else {
			res = m // what condition.go:checkRangeRightBound returns
		}
	}
	return res, nil
}

// middle is KeyConditionImpl.checkRangeLeftRightBound; with isolate the bound handed to createLeftBounded /
// createRightBounded (which rewrite an open integer bound in place) is a private copy.
func (w *c20RefKC) middle(l, r []*FieldRef, lb, rb bool, keySize int, init Mark, rgs []*Range, dt []int, prefix int, cb checkInRangeFunc) (Mark, bool, error) {
	own := func(f *FieldRef) *FieldRef {
		if !w.isolate {
			return f
		}
		return c20CloneRefs([]*FieldRef{f})[0]
	}
	if prefix+1 == keySize {
		if lb && rb {
			rgs[prefix] = NewRange(l[prefix], r[prefix], true, true)
		} else if lb {
			rgs[prefix] = createLeftBounded(own(l[prefix]), true, false)
		} else if rb {
			rgs[prefix] = createRightBounded(own(r[prefix]), true, false)
		}
		m, err := cb(rgs)
		return m, true, err
	}
	if lb && rb {
		rgs[prefix] = NewRange(l[prefix], r[prefix], false, false)
	} else if lb {
		rgs[prefix] = createLeftBounded(own(l[prefix]), false, dt[prefix] == influx.Field_Type_Unknown)
	} else if rb {
		rgs[prefix] = createRightBounded(own(r[prefix]), false, dt[prefix] == influx.Field_Type_Unknown)
	}
	for i := prefix + 1; i < keySize; i++ {
		if dt[i] == influx.Field_Type_Unknown {
			rgs[i] = createWholeRangeIncludeBound()
		} else {
			rgs[i] = createWholeRangeWithoutBound()
		}
	}
	m, err := cb(rgs)
	if err != nil {
		return Mark{}, false, err
	}
	res := init.Or(m)
	if res.isComplete() {
		return res, true, nil
	}
	return res, false, nil
}

// c20Classifier re-runs the scan on pkRec with the reference recursion (each variant at most once per
// (index record, condition, setting)); need = fragments that must be returned.
type c20Classifier struct {
	pkRec *record.Record
	mark  fragment.IndexFragment
	kc    KeyCondition
	set   c20Setting
	fs    int
	snap  [][]byte // pristine index record; restored before and after every variant scan
	have  [8]bool
	cov   [8]uint16
	ok    [8]bool
}

func (c *c20Classifier) variant(i int) (uint16, bool) {
	if !c.have[i] {
		c.have[i] = true
		if impl, isImpl := c.kc.(*KeyConditionImpl); isImpl {
			c20RestoreRec(c.pkRec, c.snap)
			cov, et := c20Scan(c.pkRec, c.mark, &c20RefKC{impl, i&1 != 0, i&2 != 0, i&4 != 0}, c.set, c.fs)
			c.cov[i], c.ok[i] = cov, et == ""
			c20RestoreRec(c.pkRec, c.snap)
		}
	}
	return c.cov[i], c.ok[i]
}

var c20Causes = []string{
	"pk_right_bound_mark_overwrites_accumulated_result", // bit 0
	"pk_null_key_read_as_plus_infinity",                 // bit 1
	"pk_index_int_key_mutated_by_scan",                  // bit 2
}

// kind names the cause of a wrongly pruned fragment (need = fragments that must be returned, actual = fragments the
// real scan returned). The three defects the switches stand for are fixed in the repository, so the model of the
// CURRENT recursion is variant 1 (accumulated right-bound mark; the other two switches act on the key references the
// real reader hands over and are no-ops while the reader is correct).
//   * base = the model that reproduces the real scan: variant 1 (current code) or variant 0 (right-bound mark lost again).
//     Neither does => the recursion itself deviates from both models: catch-all.
//   * the smallest set of further repairs (switches on top of base) under which the fragments in need are returned names
//     a regression of a fixed defect; the violation is filed under the first cause of that set.
//   * no set helps: the recursion works as designed on the marks it is given; with a null boolean key that is the
//     sorter's tie (known finding), otherwise the catch-all.
func (c *c20Classifier) kind(need uint16, nullBool bool, actual uint16) (string, string) {
	pass := func(i int) bool { cov, ok := c.variant(i); return ok && need&^cov == 0 }
	base := -1
	for _, b := range []int{1, 0} {
		if cov, ok := c.variant(b); ok && cov == actual {
			base = b
			break
		}
	}
	if base < 0 {
		cov1, _ := c.variant(1)
		cov0, _ := c.variant(0)
		return "pk_fragment_with_match_pruned", fmt.Sprintf("the reference copy of the recursion returns %s (without the right-bound fix %s), the real scan %s",
			c20Bits(cov1), c20Bits(cov0), c20Bits(actual))
	}
	for _, i := range []int{1, 2, 4, 3, 5, 6, 7} {
		if i&base != base || i == base {
			continue
		}
		if pass(i) {
			var names []string
			for b := 0; b < 3; b++ {
				if i&(1<<b) != 0 && base&(1<<b) == 0 {
					names = append(names, c20Causes[b])
				}
			}
			return names[0], "repairs needed to keep the fragment: " + strings.Join(names, " + ")
		}
	}
	if nullBool {
		// the writer's sorter pads a null boolean with false (record.BooleanSlice.PadBoolSlice): null and false keys
		// tie and may interleave, so no placement of null marks (+inf or -inf) makes the marks monotone
		return "pk_null_boolean_key_sorted_with_false", "record has a null boolean key; the recursion works as designed on non-monotone marks"
	}
	return "pk_fragment_with_match_pruned", "the reference copy of the recursion agrees with the real scan; none of the repairs of the fixed defects keeps the fragment"
}

// nullBoolKey: some boolean key column of the record holds a null
func (s *c20Schema) nullBoolKey(rows []c20Row) bool {
	for c := 0; c < s.NKey; c++ {
		if s.Cols[c].Typ != influx.Field_Type_Boolean {
			continue
		}
		for _, r := range rows {
			if r[c] < 0 {
				return true
			}
		}
	}
	return false
}

// ---------------------------------------------------------------------------------------------
// skip indexes: bloom filter, min-max, set
// ---------------------------------------------------------------------------------------------

type c20File struct{ path string }

func (f *c20File) Path() string { return f.path }
func (f *c20File) Name() string { return filepath.Base(f.path) }

// free-form atoms for the skip-index part (values are arbitrary strings / integers)
type c20SkAtom struct {
	Col string `json:"col"`
	Typ int    `json:"typ"`
	Op  string `json:"op"`
	Lit string `json:"lit"`
}

func (a c20SkAtom) text() string {
	lit := a.Lit
	if a.Typ == influx.Field_Type_String {
		lit = "'" + lit + "'"
	}
	if a.Op == "MATCHPHRASE" || a.Op == "IPINRANGE" {
		return a.Op + "(" + a.Col + ", " + lit + ")"
	}
	return a.Col + " " + a.Op + " " + lit
}

func (a c20SkAtom) expr() influxql.Expr {
	return &influxql.BinaryExpr{Op: c20Tok[a.Op], LHS: &influxql.VarRef{Val: a.Col, Type: c20VarType(a.Typ)}, RHS: c20LitExpr(a.Typ, a.Lit)}
}

// truth of an atom on a cell (nil = null). MATCHPHRASE uses the row filter's own token finder
// (lib/tokenizer.SimpleTokenFinder with the default split table) - that is what a full scan evaluates.
func (a c20SkAtom) truth(cell *string) bool {
	if cell == nil {
		return false
	}
	switch a.Typ {
	case influx.Field_Type_String:
		if a.Op == "MATCHPHRASE" {
			return c20PhraseMatch(*cell, a.Lit)
		}
		if a.Op == "IPINRANGE" {
			return binaryfilterfunc.IsIpInRange(*cell, a.Lit) // the row filter's own function (GetStringIPInRangeBitMap)
		}
		return c20CmpOp(a.Op, strings.Compare(*cell, a.Lit))
	case influx.Field_Type_Int:
		x, _ := strconv.ParseInt(*cell, 10, 64)
		y, _ := strconv.ParseInt(a.Lit, 10, 64)
		c := 0
		if x < y {
			c = -1
		} else if x > y {
			c = 1
		}
		return c20CmpOp(a.Op, c)
	case influx.Field_Type_Float:
		x, _ := strconv.ParseFloat(*cell, 64)
		y, _ := strconv.ParseFloat(a.Lit, 64)
		c := 0
		if x < y {
			c = -1
		} else if x > y {
			c = 1
		}
		return c20CmpOp(a.Op, c)
	}
	panic("type")
}

func c20CmpOp(op string, c int) bool {
	switch op {
	case "=":
		return c == 0
	case "!=":
		return c != 0
	case "<":
		return c < 0
	case "<=":
		return c <= 0
	case ">":
		return c > 0
	case ">=":
		return c >= 0
	}
	panic("op " + op)
}

type c20SkCol struct {
	Name string
	Typ  int
	Dom  []*string // nil entry = null
	ByPosition bool
}

type c20SkCase struct {
	Part   string      `json:"part"`
	Index  string      `json:"index"` // bloomfilter | minmax | set
	Cols   []string    `json:"cols"`
	Types  []int       `json:"types"`
	Rows   [][]*string `json:"rows"` // per row, per column; null = JSON null
	Layout []int       `json:"layout"`
	Atoms  []c20SkAtom `json:"atoms"`
	Shape  int         `json:"shape"`
	And    [3]bool     `json:"and"`
	Text   string      `json:"text"`
	// several indexed columns / several indexes at once, readers created by CreateSKFileReaders (c20_multi_test.go)
	Indexes []c20SkIdx `json:"indexes,omitempty"`
	Order   int        `json:"order,omitempty"` // permutation of the readers CreateSKFileReaders returned (map order in production)
}

func (cs *c20SkCase) key() string {
	var rows []string
	for _, r := range cs.Rows {
		var p []string
		for i, c := range r {
			if c == nil {
				p = append(p, cs.Cols[i]+"=null")
			} else {
				p = append(p, cs.Cols[i]+"="+strconv.Quote(*c))
			}
		}
		rows = append(rows, strings.Join(p, " "))
	}
	if cs.Order != 0 {
		return fmt.Sprintf("%s cond={%s} rows=[%s] layout=%v readers-reversed", cs.Index, cs.Text, strings.Join(rows, " | "), cs.Layout)
	}
	return fmt.Sprintf("%s cond={%s} rows=[%s] layout=%v", cs.Index, cs.Text, strings.Join(rows, " | "), cs.Layout)
}

func (cs *c20SkCase) cond() c20Cond {
	c := c20Cond{Shape: cs.Shape, And: cs.And}
	for i := range cs.Atoms {
		c.Atoms = append(c.Atoms, i)
	}
	return c
}

func (cs *c20SkCase) condText() string {
	t := func(i int) string { return cs.Atoms[i].text() }
	switch cs.Shape {
	case 0:
		return t(0)
	case 1:
		return t(0) + " " + c20OpName(cs.And[0]) + " " + t(1)
	case 2:
		return "(" + t(0) + " " + c20OpName(cs.And[0]) + " " + t(1) + ") " + c20OpName(cs.And[1]) + " " + t(2)
	default:
		return t(0) + " " + c20OpName(cs.And[0]) + " (" + t(1) + " " + c20OpName(cs.And[1]) + " " + t(2) + ")"
	}
}

func (cs *c20SkCase) condExpr() influxql.Expr {
	e := func(i int) influxql.Expr { return cs.Atoms[i].expr() }
	switch cs.Shape {
	case 0:
		return e(0)
	case 1:
		return c20Bin(cs.And[0], e(0), e(1))
	case 2:
		return c20Bin(cs.And[1], &influxql.ParenExpr{Expr: c20Bin(cs.And[0], e(0), e(1))}, e(2))
	default:
		return c20Bin(cs.And[0], e(0), &influxql.ParenExpr{Expr: c20Bin(cs.And[1], e(1), e(2))})
	}
}

func (cs *c20SkCase) colIdx(name string) int {
	for i, c := range cs.Cols {
		if c == name {
			return i
		}
	}
	return -1
}

func (cs *c20SkCase) matchMask() uint16 {
	am := make([]uint16, len(cs.Atoms))
	for ai, a := range cs.Atoms {
		if a.Col == c20FullTextCol {
			// the row filter (binaryfilterfunc genRPNElementByFullText) expands an atom on the full-text pseudo column
			// into the OR of the same atom on every column of the full-text index
			for _, name := range cs.fullTextCols() {
				ci := cs.colIdx(name)
				for i, r := range cs.Rows {
					if a.truth(r[ci]) {
						am[ai] |= 1 << i
					}
				}
			}
			continue
		}
		ci := cs.colIdx(a.Col)
		for i, r := range cs.Rows {
			if a.truth(r[ci]) {
				am[ai] |= 1 << i
			}
		}
	}
	return cs.cond().mask(am)
}

func c20SkColVal(typ int, rows [][]*string, ci int) *record.ColVal {
	cv := &record.ColVal{}
	for _, r := range rows {
		c := r[ci]
		switch typ {
		case influx.Field_Type_String:
			if c == nil {
				cv.AppendStringNull()
			} else {
				cv.AppendString(*c)
			}
		case influx.Field_Type_Int:
			if c == nil {
				cv.AppendIntegerNull()
			} else {
				v, _ := strconv.ParseInt(*c, 10, 64)
				cv.AppendInteger(v)
			}
		case influx.Field_Type_Float:
			if c == nil {
				cv.AppendFloatNull()
			} else {
				v, _ := strconv.ParseFloat(*c, 64)
				cv.AppendFloat(v)
			}
		}
	}
	return cv
}

var c20Finder = tokenizer.NewSimpleTokenFinder(tokenizer.CONTENT_SPLIT_TABLE)

func c20PhraseMatch(content, phrase string) bool {
	c20Finder.InitInput([]byte(content), []byte(phrase))
	return c20Finder.Next()
}

type c20SkEnv struct {
	scratch   string
	bfKey     string
	bfDir     string
	bfSeq     int
	sinceGC   int
}

func (e *c20SkEnv) bloomFile(cs *c20SkCase) (string, error) {
	var kb strings.Builder
	for _, r := range cs.Rows {
		if r[0] == nil {
			kb.WriteString("\x00N|")
		} else {
			kb.WriteString(*r[0] + "|")
		}
	}
	fmt.Fprintf(&kb, "%v", cs.Layout)
	dataFile := filepath.Join(e.bfDir, "00000001-0001-00000000.tssp")
	if kb.String() == e.bfKey && e.bfDir != "" {
		return dataFile, nil
	}
	if e.bfDir != "" {
		_ = os.RemoveAll(e.bfDir)
	}
	e.bfSeq++
	e.bfDir = filepath.Join(e.scratch, "bf"+strconv.Itoa(e.bfSeq))
	if err := os.MkdirAll(e.bfDir, 0o755); err != nil {
		return "", err
	}
	dataFile = filepath.Join(e.bfDir, "00000001-0001-00000000.tssp")
	w := NewBloomFilterWriter("", "", "", "", tokenizer.CONTENT_SPLITTER)
	data := w.GenBloomFilterData(c20SkColVal(cs.Types[0], cs.Rows, 0), cs.Layout, cs.Types[0])
	name := filepath.Join(e.bfDir, "00000001-0001-00000000."+cs.Cols[0]+colstore.BloomFilterIndexFileSuffix)
	if err := os.WriteFile(name, data, 0o644); err != nil {
		return "", err
	}
	e.bfKey = kb.String()
	return dataFile, nil
}

func c20SkScan(reader SKFileReader, nfrag int) (cov uint16, errText string) {
	defer func() {
		if r := recover(); r != nil {
			errText = fmt.Sprintf("panic: %v", r)
		}
	}()
	sk := NewSKIndexReader(1, 8, 0)
	frs, err := sk.Scan(reader, fragment.FragmentRanges{fragment.NewFragmentRange(0, uint32(nfrag))})
	if err != nil {
		return 0, "error: " + err.Error()
	}
	for _, fr := range frs {
		for j := fr.Start; j < fr.End && int(j) < nfrag; j++ {
			cov |= 1 << j
		}
	}
	return cov, ""
}

// c20MinMaxRecord lays the min-max index record out the way MinMaxIndexReader.MayBeInFragment indexes it:
// row k is the lower bound and row k+1 the upper bound of fragment k (the repository has no writer for this
// index). For one fragment that is [min, max]; for several fragments of a column that is non-decreasing
// across fragment boundaries it is [min(f0), min(f1), ..., min(f_last), max(f_last)] (nulls ignored; a
// fragment with only nulls gives null).
func c20MinMaxRecord(cs *c20SkCase, nIdx int, bounds []int) *record.Record {
	var sc record.Schemas
	for i := 0; i < nIdx; i++ {
		sc = append(sc, record.Field{Name: cs.Cols[i], Type: cs.Types[i]})
	}
	rec := record.NewRecord(sc, false)
	for ci := 0; ci < nIdx; ci++ {
		less := func(a, b string) bool {
			at := c20SkAtom{Typ: cs.Types[ci], Op: "<", Lit: b}
			return at.truth(&a)
		}
		ext := func(j int, wantMax bool) *string {
			var best *string
			for i := bounds[j]; i < bounds[j+1]; i++ {
				c := cs.Rows[i][ci]
				if c == nil {
					continue
				}
				if best == nil || (wantMax && less(*best, *c)) || (!wantMax && less(*c, *best)) {
					best = c
				}
			}
			return best
		}
		var rows [][]*string
		nf := len(bounds) - 1
		for j := 0; j < nf; j++ {
			rows = append(rows, []*string{ext(j, false)})
		}
		rows = append(rows, []*string{ext(nf-1, true)})
		rec.ColVals[ci] = *c20SkColVal(cs.Types[ci], rows, 0)
	}
	return rec
}

// check executes one skip-index case from scratch.
func (cs *c20SkCase) check(env *c20SkEnv, nIdx int) (r c20SkResult) {
	if len(cs.Indexes) > 0 {
		return cs.checkMulti(env)
	}
	expr := cs.condExpr()
	opt := &query.ProcessorOptions{Condition: expr}
	var sc record.Schemas
	for i := 0; i < nIdx; i++ {
		sc = append(sc, record.Field{Name: cs.Cols[i], Type: cs.Types[i]})
	}
	bounds := c20Bounds(cs.Layout, len(cs.Rows))
	nfrag := len(cs.Layout)
	var reader SKFileReader
	var file interface{}
	var err error
	func() {
		defer func() {
			if r := recover(); r != nil {
				err = fmt.Errorf("panic: %v", r)
			}
		}()
		switch cs.Index {
		case "bloomfilter":
			var df string
			if df, err = env.bloomFile(cs); err != nil {
				return
			}
			file = &c20File{df}
			reader, err = NewBloomFilterIndexReader(rpn.ConvertToRPNExpr(expr), sc[:1], opt, true)
		case "minmax":
			idx := c20MinMaxRecord(cs, nIdx, bounds)
			var r *MinMaxIndexReader
			r, err = NewMinMaxIndexReader(rpn.ConvertToRPNExpr(expr), sc, opt, true)
			if err == nil {
				r.ReadFunc = func(interface{}, *record.Record, bool) (*record.Record, error) { return idx, nil }
				reader, file = r, "c20"
			}
		case "set":
			reader, err = NewSetIndexReader(rpn.ConvertToRPNExpr(expr), sc, opt, true)
			file = "c20"
		}
		if err == nil {
			err = reader.ReInit(file)
		}
	}()
	if err != nil {
		r.errText = "reader: " + err.Error()
		return
	}
	cov, et := c20SkScan(reader, nfrag)
	if NEGATIVE_INFINITY.row != math.MinInt64 || POSITIVE_INFINITY.row != math.MaxInt64 {
		// MinMaxIndexReader writes through the shared infinity constants; undo so that later cases are unaffected
		NEGATIVE_INFINITY.row, POSITIVE_INFINITY.row = math.MinInt64, math.MaxInt64
		if et == "" {
			et = "error: global NEGATIVE_INFINITY/POSITIVE_INFINITY modified"
		} else {
			et += " (global NEGATIVE_INFINITY/POSITIVE_INFINITY modified)"
		}
	}
	if et != "" {
		r.errText = et
		return
	}
	match := cs.matchMask()
	need := c20Needed(bounds, match)
	r.cov, r.need, r.match = cov, need, match
	if need&^cov == 0 {
		return
	}
	r.bad = true
	kind := ""
	switch cs.Index {
	case "bloomfilter":
		kind = "bloom_block_with_match_pruned"
	case "minmax":
		kind = "minmax_block_with_match_pruned"
	default:
		kind = "set_index_reader_prunes_every_block"
		if cov != 0 {
			kind = "set_block_with_match_pruned"
		}
	}
	r.kind = kind
	r.detail = fmt.Sprintf("blocks with a matching row: %s; blocks MayBeInFragment kept: %s; pruned wrongly: %s; matching rows: %s",
		c20Bits(need), c20Bits(cov), c20Bits(need&^cov), c20Bits(match))
	return
}

type c20SkResult struct {
	bad              bool
	kind, detail     string
	errText          string
	cov, need, match uint16
	readers          int // multi-column part: number of readers CreateSKFileReaders returned
}


type c20SkPlan struct {
	Index    string
	Cols     []c20SkCol // indexed columns first
	NIdx     int
	Sorted   bool // rows non-decreasing on column 0 (nulls first)
	Rows    [3]int // Rows[k-1] = largest record on which trees of k atoms are run (3-atom trees over Atoms3)
	Layouts string // "fixed" | "all" | "single"
	Atoms   []c20SkAtom
	Atoms3  []c20SkAtom
	// multi-column part (c20_multi_test.go): the indexes of the measurement; readers come from CreateSKFileReaders
	Indexes []c20SkIdx
}

func c20Str(s string) *string { return &s }

func (p *c20SkPlan) conds() []c20SkCase {
	var out []c20SkCase
	for _, a := range p.Atoms {
		out = append(out, c20SkCase{Atoms: []c20SkAtom{a}})
	}
	if p.Rows[1] > 0 {
		for _, a := range p.Atoms {
			for _, b := range p.Atoms {
				out = append(out, c20SkCase{Atoms: []c20SkAtom{a, b}, Shape: 1, And: [3]bool{true}},
					c20SkCase{Atoms: []c20SkAtom{a, b}, Shape: 1, And: [3]bool{false}})
			}
		}
	}
	if p.Rows[2] > 0 {
		for _, a := range p.Atoms3 {
			for _, b := range p.Atoms3 {
				for _, c := range p.Atoms3 {
					for shape := 2; shape <= 3; shape++ {
						for o := 0; o < 4; o++ {
							out = append(out, c20SkCase{Atoms: []c20SkAtom{a, b, c}, Shape: shape, And: [3]bool{o&1 != 0, o&2 != 0}})
						}
					}
				}
			}
		}
	}
	return out
}

func (p *c20SkPlan) run(rep *kit.Report, env *c20SkEnv, wi *int) {
	conds := p.conds()
	var cols []string
	var types []int
	radix := []int{}
	for _, c := range p.Cols {
		cols = append(cols, c.Name)
		types = append(types, c.Typ)
		if !c.ByPosition {
			radix = append(radix, len(c.Dom))
		}
	}
	var tuples [][]int
	kit.Odometer(radix, func(d []int) bool { tuples = append(tuples, append([]int(nil), d...)); return true })
	vio := map[string]int{}
	var evals, nontrivial, errs, pruned int64
	// one executes a case and books the result; it returns the number of readers the factory created
	one := func(cs c20SkCase, layout []int) int {
		res := cs.check(env, p.NIdx)
		evals++
		env.sinceGC += 1 + res.readers
		if env.sinceGC >= 400 {
			env.sinceGC = 0
			runtime.GC() // LineFilterReader file handles are only released by finalizers
		}
		if res.errText != "" {
			errs++
			if strings.Contains(res.errText, "panic") {
				rep.Count("sk_"+p.Index+"_panic", 1)
			}
			if strings.Contains(res.errText, "INFINITY") {
				rep.Count("sk_minmax_shared_infinity_constant_modified", 1)
			}
			return res.readers
		}
		if res.cov != uint16(1<<len(layout))-1 {
			pruned++
		}
		if !res.bad {
			// non-trivial iff some block was pruned and some row matches
			if res.match != 0 && res.cov != uint16(1<<len(layout))-1 {
				nontrivial++
				if nontrivial&63 == 1 {
					cs.Text = cs.condText()
					if rep.DistinctNontrivial(kit.Hash("sk", p.Index, cs.Text, fmt.Sprint(layout))) {
						rep.Sample(8, map[string]any{"part": "skip:" + p.Index, "case": cs.key(), "blocks_kept": c20Bits(res.cov)})
					}
				}
			}
			return res.readers
		}
		kind, detail := res.kind, res.detail
		nontrivial++
		vio[kind]++
		rep.Count("violations_"+kind, 1)
		if vio[kind] > 12 {
			rep.Violation(kind, "", "", nil)
			return res.readers
		}
		cs.Text = cs.condText()
		cp := cs
		rep.Violation(kind, cs.key(), detail, cp)
		return res.readers
	}
	for n := 1; n <= p.Rows[0]; n++ {
		var layouts [][]int
		switch p.Layouts {
		case "single":
			layouts = [][]int{{n - 1}}
		case "fixed":
			for fs := 1; fs <= 3; fs++ {
				layouts = append(layouts, c20FixedLayout(n, fs))
			}
		default:
			r := &c20PKRun{p: &c20Plan{AllLayouts: true}}
			layouts = r.layouts(n)
		}
		seq := make([]int, n)
		var rec func(pos int)
		rec = func(pos int) {
			if pos < n {
				for ti := range tuples {
					if p.Sorted && pos > 0 && tuples[ti][0] < tuples[seq[pos-1]][0] {
						continue
					}
					seq[pos] = ti
					rec(pos + 1)
				}
				return
			}
			rows := make([][]*string, n)
			for i := 0; i < n; i++ {
				k := 0
				for _, c := range p.Cols {
					if c.ByPosition {
						rows[i] = append(rows[i], c.Dom[i%len(c.Dom)])
					} else {
						rows[i] = append(rows[i], c.Dom[tuples[seq[i]][k]])
						k++
					}
				}
			}
			for _, layout := range layouts {
				mine := kit.Mine(*wi)
				*wi++
				if !mine || rep.Expired() {
					continue
				}
				for ci := range conds {
					cs := conds[ci]
					if n > p.Rows[len(cs.Atoms)-1] {
						continue
					}
					if ci&255 == 255 && rep.Expired() {
						break
					}
					cs.Part, cs.Index, cs.Cols, cs.Types, cs.Rows, cs.Layout = "skip", p.Index, cols, types, rows, layout
					cs.Indexes = p.Indexes
					// with several indexes production iterates a map of readers: both orders of two readers are legal and
					// enumerated (the second order only if the condition made CreateSKFileReaders return two readers)
					if one(cs, layout) >= 2 {
						cs.Order = 1
						one(cs, layout)
					}
				}
			}
		}
		rec(0)
	}
	rep.Eval(evals)
	rep.Count("nontrivial_cases", nontrivial)
	rep.Count("sk_"+p.Index+"_cases", evals)
	rep.Count("sk_"+p.Index+"_cases_with_a_pruned_block", pruned)
	rep.Count("sk_"+p.Index+"_nontrivial_cases", nontrivial)
	rep.Count("sk_"+p.Index+"_error_or_panic", errs)
}


func c20SkPlans(thorough bool) []c20SkPlan {
	S, I := influx.Field_Type_String, influx.Field_Type_Int
	v := c20SkCol{Name: "v", Typ: I, Dom: []*string{c20Str("1"), c20Str("2")}, ByPosition: true}
	vAtom := c20SkAtom{"v", I, "=", "1"}
	cmp := func(col string, typ int, lits ...string) []c20SkAtom {
		var out []c20SkAtom
		for _, op := range c20Cmp6() {
			for _, l := range lits {
				out = append(out, c20SkAtom{col, typ, op, l})
			}
		}
		return out
	}
	// bloom filter on string column c (unsorted), non-indexed column v. ACDC: a longer token that starts with
	// another token (a hash seed only reaches the addressed filter bits from the third byte on).
	cDom := []*string{nil, c20Str("A"), c20Str("C"), c20Str("ACDC"), c20Str("A C")}
	mp := func(l string) c20SkAtom { return c20SkAtom{"c", S, "MATCHPHRASE", l} }
	bfAtoms := []c20SkAtom{mp("A"), mp("C"), mp("E"), mp("A C"), mp("C A"), mp("ACDC"),
		{"c", S, "=", "A"}, {"c", S, "!=", "A"}, {"c", S, ">=", "C"}, vAtom}
	bfAtoms3 := []c20SkAtom{mp("A"), mp("A C"), mp("ACDC"), {"c", S, "!=", "A"}, vAtom}
	bfRows := [3]int{3, 3, 2}
	if thorough {
		cDom = append(cDom, c20Str("C-A"), c20Str("a"))
		bfAtoms = append(bfAtoms, mp("a"), mp("C-A"), mp("A-C"))
		bfAtoms3 = append(bfAtoms3, mp("C"), mp("E"))
		bfRows = [3]int{4, 3, 2}
	}
	sDom := []*string{nil, c20Str("A"), c20Str("C"), c20Str("D")}
	iDom := []*string{nil, c20Str("1"), c20Str("2")}
	sAtoms := append(cmp("s", S, "A", "B", "C", "D", "E"), vAtom, c20SkAtom{"v", I, "!=", "1"})
	iAtoms := append(cmp("i", I, "0", "1", "2", "3"), vAtom, c20SkAtom{"v", I, "!=", "1"})
	siAtoms := append(append(cmp("s", S, "A", "B", "C", "D"), cmp("i", I, "0", "1", "2", "3")...), vAtom)
	mmRows, mm2Rows := [3]int{4, 4, 0}, [3]int{2, 2, 0}
	if thorough {
		mmRows, mm2Rows = [3]int{6, 5, 0}, [3]int{3, 3, 0}
	}
	ps := []c20SkPlan{
		{Index: "set", Cols: []c20SkCol{{Name: "s", Typ: S, Dom: sDom}, v}, NIdx: 1, Rows: [3]int{2, 0, 0}, Layouts: "fixed", Atoms: sAtoms},
		{Index: "minmax", Cols: []c20SkCol{{Name: "s", Typ: S, Dom: sDom}, v}, NIdx: 1, Sorted: true, Rows: mmRows, Layouts: "fixed", Atoms: sAtoms},
		{Index: "minmax", Cols: []c20SkCol{{Name: "i", Typ: I, Dom: iDom}, v}, NIdx: 1, Sorted: true, Rows: mmRows, Layouts: "fixed", Atoms: iAtoms},
		// two min-max columns: through the factory (CreateSKFileReaders), i.e. with the reader schema production builds -
		// the index columns in the order the condition mentions them, a column mentioned twice appears twice
		{Index: "minmax", Cols: []c20SkCol{{Name: "s", Typ: S, Dom: sDom}, {Name: "i", Typ: I, Dom: iDom}, v}, NIdx: 2, Rows: mm2Rows, Layouts: "single", Atoms: siAtoms,
			Indexes: []c20SkIdx{{"minmax", []string{"s", "i"}}}},
		{Index: "bloomfilter", Cols: []c20SkCol{{Name: "c", Typ: S, Dom: cDom}, v}, NIdx: 1, Rows: bfRows, Layouts: "all", Atoms: bfAtoms, Atoms3: bfAtoms3},
	}
	if thorough {
		fDom := []*string{nil, c20Str("1.5"), c20Str("2.5")}
		fAtoms := append(cmp("f", influx.Field_Type_Float, "1.0", "1.5", "2.0", "2.5", "3.0"), vAtom)
		ps = append(ps, c20SkPlan{Index: "minmax", Cols: []c20SkCol{{Name: "f", Typ: influx.Field_Type_Float, Dom: fDom}, v}, NIdx: 1, Sorted: true,
			Rows: mmRows, Layouts: "fixed", Atoms: fAtoms})
	}
	return ps
}

// ---------------------------------------------------------------------------------------------
// self-check of the harness' order model against the writer's real sorter
// ---------------------------------------------------------------------------------------------

// checkSorterModel sorts every key tuple of the schema (handed over in descending model order) with the
// column-store writer's sorter, record.SortHelper.SortForColumnStore, and verifies that the result is
// non-decreasing under rowLE, i.e. that the records the harness enumerates are records the writer can produce
// (in particular: null keys first).
func (s *c20Schema) checkSorterModel() error {
	if s.TC {
		return nil // the clustered time column is produced by the sorter itself
	}
	tuples := s.tuples()
	n := len(tuples)
	var sc record.Schemas
	var keyCols []int
	var order []record.PrimaryKey
	ti := -1
	for c := 0; c < s.NKey; c++ {
		order = append(order, record.PrimaryKey{Key: s.Cols[c].Name, Type: int32(s.Cols[c].Typ)})
		if s.Cols[c].Name == record.TimeField {
			ti = c
			continue
		}
		keyCols = append(keyCols, c)
		sc = append(sc, record.Field{Name: s.Cols[c].Name, Type: s.Cols[c].Typ})
	}
	sc = append(sc, record.Field{Name: record.TimeField, Type: influx.Field_Type_Int})
	rec := record.NewRecord(sc, false)
	for k := n - 1; k >= 0; k-- {
		for j, c := range keyCols {
			c20Append(rec.Column(j), &s.Cols[c], tuples[k][c])
		}
		if ti >= 0 {
			v, _ := strconv.ParseInt(s.Cols[ti].Dom[tuples[k][ti]], 10, 64)
			rec.Column(len(keyCols)).AppendInteger(v)
		} else {
			rec.Column(len(keyCols)).AppendInteger(int64(n - k))
		}
	}
	h := record.NewSortHelper()
	out := h.SortForColumnStore(rec, order, false, 0)
	if out.RowNums() != n {
		return fmt.Errorf("sorter returned %d rows, want %d", out.RowNums(), n)
	}
	code := func(col *c20Col, cv *record.ColVal, i int) (int8, error) {
		if cv.IsNil(i) {
			return -1, nil
		}
		var text string
		switch col.Typ {
		case influx.Field_Type_String:
			text, _ = cv.StringValueSafe(i)
		case influx.Field_Type_Int:
			v, _ := cv.IntegerValue(i)
			text = strconv.FormatInt(v, 10)
		case influx.Field_Type_Float:
			v, _ := cv.FloatValue(i)
			text = strconv.FormatFloat(v, 'f', 1, 64)
		case influx.Field_Type_Boolean:
			v, _ := cv.BooleanValue(i)
			text = strconv.FormatBool(v)
		}
		for k, d := range col.Dom {
			if d == text {
				return int8(k), nil
			}
		}
		return 0, fmt.Errorf("value %q of column %s not in the domain", text, col.Name)
	}
	rows := make([]c20Row, n)
	for i := 0; i < n; i++ {
		rows[i] = make(c20Row, s.NKey)
		for j, c := range keyCols {
			v, err := code(&s.Cols[c], out.Column(j), i)
			if err != nil {
				return err
			}
			rows[i][c] = v
		}
		if ti >= 0 {
			v, err := code(&s.Cols[ti], out.Column(len(keyCols)), i)
			if err != nil {
				return err
			}
			rows[i][ti] = v
		}
	}
	for i := 1; i < n; i++ {
		if !s.rowLE(rows[i-1], rows[i]) {
			return fmt.Errorf("writer's sorter order differs from the harness model at row %d: %v", i, s.rowsText(rows))
		}
	}
	return nil
}
