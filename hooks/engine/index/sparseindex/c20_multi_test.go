//go:build verif

package sparseindex

// C20, part "skip", several indexed columns and several skip indexes at once.
//
// Everything here goes through the path a column-store query takes (engine/hybrid_index_reader.go):
//   writer:  IndexWriter.CreateAttachIndex(record, schemaIdx of every index column, accumulated rows per segment)
//            -> one `<data>.<column>.bf.init` per column, renamed to `<data>.<column>.bf` (immutable.RenameIndexFiles)
//   reader:  SKIndexReaderImpl.CreateSKFileReaders(options with the condition and the measurement's IndexRelation)
//            -> one reader per index *that the condition mentions*, its schema = the index columns in the order the
//               condition mentions them (a column mentioned twice appears twice)
//            for every reader: ReInit(data file); ranges = SKIndexReaderImpl.Scan(reader, ranges); stop when empty
// A bloom-filter reader opens the filter file of its FIRST schema column only but is asked about the whole condition;
// what it may say about atoms on the other columns is the subject of this part.
// Oracle as in the single-column part: every block with a row that satisfies the condition must be kept.

import (
	"fmt"
	"math"
	"net"
	"os"
	"path/filepath"
	"sort"
	"strconv"
	"strings"

	"github.com/openGemini/openGemini/engine/immutable/colstore"
	"github.com/openGemini/openGemini/lib/fragment"
	"github.com/openGemini/openGemini/lib/index"
	"github.com/openGemini/openGemini/lib/record"
	"github.com/openGemini/openGemini/lib/tokenizer"
	"github.com/openGemini/openGemini/lib/util/lifted/influx/influxql"
	"github.com/openGemini/openGemini/lib/util/lifted/influx/query"
	"github.com/openGemini/openGemini/lib/util/lifted/logparser"
	"github.com/openGemini/openGemini/lib/util/lifted/vm/protoparser/influx"
)

// the pseudo column of a full-text condition (`MATCHPHRASE(__log___, 'x')` = any column of the full-text index)
const c20FullTextCol = logparser.DefaultFieldForFullText

// c20SkIdx is one skip index of the measurement: bloomfilter | bloomfilter_ip | fulltext | minmax over Cols.
type c20SkIdx struct {
	Type string   `json:"type"`
	Cols []string `json:"cols"`
}

func (cs *c20SkCase) fullTextCols() []string {
	for _, ix := range cs.Indexes {
		if ix.Type == "fulltext" {
			return ix.Cols
		}
	}
	return nil
}

func (cs *c20SkCase) indexOf(col string) string {
	for _, ix := range cs.Indexes {
		for _, c := range ix.Cols {
			if c == col {
				return ix.Type
			}
		}
	}
	return ""
}

const c20DataBase = "00000001-0001-00000000"

// indexRelation describes the indexes the way the meta data of a measurement does.
func (cs *c20SkCase) indexRelation() *influxql.IndexRelation {
	ir := &influxql.IndexRelation{}
	for _, ix := range cs.Indexes {
		switch ix.Type {
		case "bloomfilter":
			ir.Oids = append(ir.Oids, uint32(index.BloomFilter))
			ir.IndexNames = append(ir.IndexNames, index.BloomFilterIndex)
		case "bloomfilter_ip":
			ir.Oids = append(ir.Oids, uint32(index.BloomFilterIp))
			ir.IndexNames = append(ir.IndexNames, index.BloomFilterIpIndex)
		case "fulltext":
			ir.Oids = append(ir.Oids, uint32(index.BloomFilterFullText))
			ir.IndexNames = append(ir.IndexNames, index.BloomFilterFullTextIndex)
		case "minmax":
			ir.Oids = append(ir.Oids, uint32(index.MinMax))
			ir.IndexNames = append(ir.IndexNames, index.MinMaxIndex)
		default:
			panic("index type " + ix.Type)
		}
		ir.IndexList = append(ir.IndexList, &influxql.IndexList{IList: append([]string(nil), ix.Cols...)})
	}
	return ir
}

// multiFiles writes the index files of the case's record with the production writers (cached while record, layout and
// indexes stay the same: the enumeration runs all conditions on one record/layout).
func (e *c20SkEnv) multiFiles(cs *c20SkCase) (string, error) {
	var kb strings.Builder
	kb.WriteString("multi|")
	for _, ix := range cs.Indexes {
		fmt.Fprintf(&kb, "%s%v|", ix.Type, ix.Cols)
	}
	for _, r := range cs.Rows {
		for _, c := range r {
			if c == nil {
				kb.WriteString("\x00N,")
			} else {
				kb.WriteString(*c + ",")
			}
		}
		kb.WriteString("|")
	}
	fmt.Fprintf(&kb, "%v", cs.Layout)
	if kb.String() == e.bfKey && e.bfDir != "" {
		return filepath.Join(e.bfDir, c20DataBase+".tssp"), nil
	}
	if e.bfDir != "" {
		_ = os.RemoveAll(e.bfDir)
	}
	e.bfKey = ""
	e.bfSeq++
	e.bfDir = filepath.Join(e.scratch, "bf"+strconv.Itoa(e.bfSeq))
	if err := os.MkdirAll(e.bfDir, 0o755); err != nil {
		return "", err
	}
	var sc record.Schemas
	for i := range cs.Cols {
		sc = append(sc, record.Field{Name: cs.Cols[i], Type: cs.Types[i]})
	}
	rec := record.NewRecord(sc, false)
	for i := range cs.Cols {
		rec.ColVals[i] = *c20SkColVal(cs.Types[i], cs.Rows, i)
	}
	tokens := tokenizer.GetFullTextOption(cs.indexRelation()).Tokens // what index.IndexWriterBuilder.NewIndexWriters passes
	rename := func(from, to string) error {
		return os.Rename(filepath.Join(e.bfDir, from), filepath.Join(e.bfDir, to))
	}
	for _, ix := range cs.Indexes {
		var schemaIdx []int
		for _, c := range ix.Cols {
			schemaIdx = append(schemaIdx, cs.colIdx(c))
		}
		switch ix.Type {
		case "bloomfilter", "bloomfilter_ip":
			var err error
			if ix.Type == "bloomfilter" {
				err = NewBloomFilterWriter(e.bfDir, "", c20DataBase, "", tokens).CreateAttachIndex(rec, schemaIdx, cs.Layout)
			} else {
				err = NewBloomFilterIpWriter(e.bfDir, "", c20DataBase, "", tokens).CreateAttachIndex(rec, schemaIdx, cs.Layout)
			}
			if err != nil {
				return "", err
			}
			for _, c := range ix.Cols { // immutable.RenameIndexFiles
				name := c20DataBase + "." + c + colstore.BloomFilterIndexFileSuffix
				if err = rename(name+tmpFileSuffix, name); err != nil {
					return "", err
				}
			}
		case "fulltext":
			// the writer indexes every string column of the record (index.GetSchemaIndex: schema.StringFieldIndex())
			w := NewBloomFilterFullTextWriter(e.bfDir, "", c20DataBase, "", tokens)
			if err := w.CreateAttachIndex(rec, rec.Schema.StringFieldIndex(), cs.Layout); err != nil {
				return "", err
			}
			// the attached writer names the file <data>.fullText.bf, the attached reader opens
			// <data>.bloomfilter_fullText.bf: the harness gives the file the name the reader asks for
			if err := rename(c20DataBase+"."+FullTextIndex+colstore.BloomFilterIndexFileSuffix,
				c20DataBase+"."+BloomFilterFilePrefix+FullTextIndex+colstore.BloomFilterIndexFileSuffix); err != nil {
				return "", err
			}
		case "minmax":
			// no writer exists; the reader gets its index record from ReadFunc (see checkMulti)
		}
	}
	e.bfKey = kb.String()
	return filepath.Join(e.bfDir, c20DataBase+".tssp"), nil
}

// c20MinMaxRecordFor lays out the min-max index record for the schema a reader asks for (the index columns in the
// order the condition mentions them), see c20MinMaxRecord.
func c20MinMaxRecordFor(cs *c20SkCase, sc record.Schemas, bounds []int) *record.Record {
	sub := &c20SkCase{Rows: cs.Rows}
	for _, f := range sc {
		ci := cs.colIdx(f.Name)
		sub.Cols = append(sub.Cols, f.Name)
		sub.Types = append(sub.Types, cs.Types[ci])
	}
	rows := make([][]*string, len(cs.Rows))
	for i, r := range cs.Rows {
		for _, f := range sc {
			rows[i] = append(rows[i], r[cs.colIdx(f.Name)])
		}
	}
	sub.Rows = rows
	return c20MinMaxRecord(sub, len(sc), bounds)
}

func c20ReaderName(r SKFileReader) string {
	switch v := r.(type) {
	case *BloomFilterIndexReader:
		return fmt.Sprintf("1-bloomfilter-%d-%s", v.indexType, v.schema[0].Name)
	case *BloomFilterFullTextIndexReader:
		return "2-fulltext"
	case *MinMaxIndexReader:
		return "3-minmax"
	case *SetIndexReader:
		return "4-set"
	}
	return fmt.Sprintf("9-%T", r)
}

// runMulti drives the production path for one case: index files, CreateSKFileReaders, ReInit + Scan per reader.
func (cs *c20SkCase) runMulti(env *c20SkEnv) (cov uint16, nReaders int, errText string) {
	expr := cs.condExpr()
	mst := &influxql.Measurement{Name: "mst", IndexRelation: cs.indexRelation()}
	opt := &query.ProcessorOptions{Condition: expr, Sources: influxql.Sources{mst}}
	bounds := c20Bounds(cs.Layout, len(cs.Rows))
	nfrag := len(cs.Layout)
	var frs fragment.FragmentRanges
	var err error
	func() {
		defer func() {
			if p := recover(); p != nil {
				err = fmt.Errorf("panic: %v", p)
			}
		}()
		var df string
		if df, err = env.multiFiles(cs); err != nil {
			err = fmt.Errorf("harness: writing the index files: %v", err)
			return
		}
		file := &c20File{df}
		sk := NewSKIndexReader(1, 8, 0)
		var readers []SKFileReader
		if readers, err = sk.CreateSKFileReaders(opt, mst, true); err != nil {
			return
		}
		nReaders = len(readers)
		// CreateSKFileReaders iterates a map: any order is a legal production order. Order 0 = sorted by kind, 1 = reversed.
		sort.SliceStable(readers, func(i, j int) bool { return c20ReaderName(readers[i]) < c20ReaderName(readers[j]) })
		if cs.Order == 1 {
			for i, j := 0, len(readers)-1; i < j; i, j = i+1, j-1 {
				readers[i], readers[j] = readers[j], readers[i]
			}
		}
		frs = fragment.FragmentRanges{fragment.NewFragmentRange(0, uint32(nfrag))}
		for _, rd := range readers { // engine/hybrid_index_reader.go
			if mm, ok := rd.(*MinMaxIndexReader); ok {
				mm.ReadFunc = func(_ interface{}, rec *record.Record, _ bool) (*record.Record, error) {
					return c20MinMaxRecordFor(cs, rec.Schema, bounds), nil
				}
			}
			if err = rd.ReInit(file); err != nil {
				return
			}
			if frs, err = sk.Scan(rd, frs); err != nil {
				return
			}
			if frs.Empty() {
				break
			}
		}
	}()
	if err != nil {
		errText = "error: " + err.Error()
	}
	if NEGATIVE_INFINITY.row != math.MinInt64 || POSITIVE_INFINITY.row != math.MaxInt64 {
		NEGATIVE_INFINITY.row, POSITIVE_INFINITY.row = math.MinInt64, math.MaxInt64
		errText += " (global NEGATIVE_INFINITY/POSITIVE_INFINITY modified)"
	}
	if errText != "" {
		return 0, nReaders, errText
	}
	for _, fr := range frs {
		for j := fr.Start; j < fr.End && int(j) < nfrag; j++ {
			cov |= 1 << j
		}
	}
	return cov, nReaders, ""
}

// checkMulti executes one case of the multi-column part from scratch.
func (cs *c20SkCase) checkMulti(env *c20SkEnv) (r c20SkResult) {
	cov, nReaders, et := cs.runMulti(env)
	r.readers = nReaders
	if et != "" {
		r.errText = et
		return
	}
	bounds := c20Bounds(cs.Layout, len(cs.Rows))
	match := cs.matchMask()
	need := c20Needed(bounds, match)
	r.cov, r.need, r.match = cov, need, match
	if need&^cov == 0 {
		return
	}
	r.bad = true
	var why string
	r.kind, why = cs.multiKind(env, need)
	r.detail = fmt.Sprintf("blocks with a matching row: %s; blocks kept by the chain of %d reader(s): %s; pruned wrongly: %s; matching rows: %s; %s",
		c20Bits(need), r.readers, c20Bits(cov), c20Bits(need&^cov), c20Bits(match), why)
	return
}

// Causes of wrongly pruned blocks found on the unchanged tree by this part. Each is a class of atoms the reader should treat as
// "unknown, may match" but answers from a bloom filter that cannot know:
//   0  ip index: `=` / IPINRANGE atom on a column other than the one whose filter file the reader opened
//      (bloomfilter.LineFilterIpReader.hitExpr never looks at the column name)
//   1  ip index: IPINRANGE with a prefix shorter than 8 bits (no stored mask matches, the probe list is empty, "not found")
//   2  full-text index: a comparison atom (!= < <= > >=) on a column of the index is probed as if it were a phrase
//      (SKConditionImpl.genRPNElementByVal makes an InRange element for every operator)
var c20MultiCauses = []string{
	"ip_index_atom_on_other_column_probed_in_first_column_filter",
	"ip_index_subnet_prefix_below_8_prunes_every_block",
	"fulltext_index_comparison_atom_probed_as_phrase",
}

// atomCause: the cause class an atom belongs to (-1 = none). first = the column whose filter file each index's reader opens.
func (cs *c20SkCase) atomCause(a c20SkAtom, first map[string]string) int {
	if first["bloomfilter_ip"] != "" && a.Typ == influx.Field_Type_String {
		if a.Op == "IPINRANGE" {
			if _, n, err := net.ParseCIDR(a.Lit); err == nil {
				if ones, _ := n.Mask.Size(); ones < 8 {
					return 1
				}
			}
		}
		if (a.Op == "=" || a.Op == "IPINRANGE") && a.Col != first["bloomfilter_ip"] {
			return 0
		}
	}
	if cs.indexOf(a.Col) == "fulltext" && a.Op != "=" && a.Op != "MATCHPHRASE" {
		return 2
	}
	return -1
}

// multiKind names the cause of a wrongly pruned block. It does not model the readers: the same case is executed again on
// the real code with the atoms of a cause class replaced by an atom the reader in question never probes (ip reader: `!=` on the
// same column; full-text reader: `n != <literal>` on the non-indexed column), i.e. what a reader without the defect would make
// of them. A cause (or, if no single one
// suffices, the first of a pair) is named only if that makes the real readers keep every block that is needed for the
// ORIGINAL condition; everything else is the catch-all of the index.
func (cs *c20SkCase) multiKind(env *c20SkEnv, need uint16) (kind, why string) {
	var types []string
	for _, ix := range cs.Indexes {
		types = append(types, ix.Type)
	}
	catchAll := "multi_" + strings.Join(types, "_") + "_block_with_match_pruned"
	if len(types) == 1 && types[0] == "minmax" {
		catchAll = "minmax_block_with_match_pruned"
	}
	first := map[string]string{}
	for _, a := range cs.Atoms {
		if t := cs.indexOf(a.Col); t != "" && first[t] == "" {
			first[t] = a.Col
		}
	}
	present := 0
	for _, a := range cs.Atoms {
		if c := cs.atomCause(a, first); c >= 0 {
			present |= 1 << c
		}
	}
	if present == 0 {
		return catchAll, "no atom of a known cause class in the condition"
	}
	nonIdx := cs.Cols[len(cs.Cols)-1]
	try := func(set int) bool {
		alt := *cs
		alt.Atoms = append([]c20SkAtom(nil), cs.Atoms...)
		for i, a := range alt.Atoms {
			if c := cs.atomCause(a, first); c >= 0 && set&(1<<c) != 0 {
				if c == 2 {
					// full-text reader: every atom on an index column is probed, so the neutral atom sits on the non-indexed column
					alt.Atoms[i] = c20SkAtom{Col: nonIdx, Typ: cs.Types[len(cs.Types)-1], Op: "!=", Lit: a.Lit}
				} else {
					// ip reader: `!=` is never probed; staying on the atom's own column keeps the order in which the condition
					// mentions the index columns, i.e. the column whose filter file the reader opens
					alt.Atoms[i] = c20SkAtom{Col: a.Col, Typ: a.Typ, Op: "!=", Lit: a.Lit}
				}
			}
		}
		cov, _, et := alt.runMulti(env)
		return et == "" && need&^cov == 0
	}
	var sets []int
	for size := 1; size <= len(c20MultiCauses); size++ {
		for set := 1; set < 1<<len(c20MultiCauses); set++ {
			n := 0
			for b := set; b != 0; b &= b - 1 {
				n++
			}
			if n == size && set&^present == 0 {
				sets = append(sets, set)
			}
		}
	}
	for _, set := range sets {
		if try(set) {
			for c := range c20MultiCauses {
				if set&(1<<c) != 0 {
					return c20MultiCauses[c], fmt.Sprintf("with the atoms of cause class(es) %03b treated as unknown the real readers keep every needed block", set)
				}
			}
		}
	}
	return catchAll, "treating the atoms of the known cause classes as unknown does not bring the block back"
}

// c20MultiPlans: the plans of the multi-column part.
func c20MultiPlans(thorough bool) []c20SkPlan {
	S := influx.Field_Type_String
	at := func(col, op, lit string) c20SkAtom { return c20SkAtom{col, S, op, lit} }
	mp := func(col, lit string) c20SkAtom { return at(col, "MATCHPHRASE", lit) }
	dom := func(vals ...string) []*string {
		var out []*string
		for _, v := range vals {
			if v == "\x00" {
				out = append(out, nil)
			} else {
				out = append(out, c20Str(v))
			}
		}
		return out
	}
	// non-indexed string column, value by row position: rows 0, 2 = "A", row 1 = "E"
	n := c20SkCol{Name: "n", Typ: S, Dom: dom("A", "E"), ByPosition: true}
	nAtoms := []c20SkAtom{mp("n", "A"), at("n", "!=", "A")}

	// --- bloom filter over two string columns. Tokens: A in both columns, C only in a (and in b's phrase "C D"),
	// D in b (and in a's phrase "A D"), E nowhere; within a block and across blocks by the enumeration of the records.
	aCol := c20SkCol{Name: "a", Typ: S, Dom: dom("\x00", "A", "C", "A D")}
	bCol := c20SkCol{Name: "b", Typ: S, Dom: dom("A", "D", "C D")}
	aAtoms := []c20SkAtom{mp("a", "A"), mp("a", "C"), mp("a", "D"), mp("a", "E"), mp("a", "A D"), at("a", "=", "A"), at("a", "!=", "A")}
	bAtoms := []c20SkAtom{mp("b", "A"), mp("b", "C"), mp("b", "D"), mp("b", "E"), mp("b", "C D"), at("b", "=", "A"), at("b", "!=", "A")}
	cat := func(l ...[]c20SkAtom) []c20SkAtom {
		var out []c20SkAtom
		for _, x := range l {
			out = append(out, x...)
		}
		return out
	}
	bf2 := c20SkPlan{Index: "bloomfilter2", Cols: []c20SkCol{aCol, bCol, n}, NIdx: 2, Rows: [3]int{2, 2, 0}, Layouts: "all",
		Atoms:   cat(aAtoms, bAtoms, nAtoms),
		Indexes: []c20SkIdx{{"bloomfilter", []string{"a", "b"}}}}
	bf3Atoms3 := []c20SkAtom{mp("a", "A"), mp("a", "D"), at("a", "!=", "A"), mp("b", "A"), mp("b", "D"), at("b", "=", "A"), mp("b", "E"), at("n", "!=", "A")}
	if thorough {
		bf2.Rows = [3]int{3, 2, 2}
		bf2.Atoms3 = bf3Atoms3
	}

	// --- ip bloom filter over two columns (one filter file per column, reader bloomfilter.LineFilterIpReader)
	srcCol := c20SkCol{Name: "src", Typ: S, Dom: dom("\x00", "1.1.1.1", "1.1.2.2", "2.2.2.2")}
	dstCol := c20SkCol{Name: "dst", Typ: S, Dom: dom("1.1.1.1", "2.2.2.2", "3.3.3.3")}
	nIP := c20SkCol{Name: "n", Typ: S, Dom: dom("2.2.2.2", "E"), ByPosition: true}
	ipAtoms := []c20SkAtom{
		at("src", "=", "1.1.1.1"), at("src", "=", "2.2.2.2"), at("src", "!=", "1.1.1.1"),
		at("src", "IPINRANGE", "1.1.0.0/16"), at("src", "IPINRANGE", "2.0.0.0/8"), at("src", "IPINRANGE", "1.1.0.0/20"),
		at("src", "IPINRANGE", "0.0.0.0/0"),
		at("dst", "=", "1.1.1.1"), at("dst", "=", "2.2.2.2"), at("dst", "!=", "2.2.2.2"),
		at("dst", "IPINRANGE", "2.2.0.0/16"), at("dst", "IPINRANGE", "3.0.0.0/8"),
		at("n", "=", "2.2.2.2"), at("n", "!=", "E")}
	ip2 := c20SkPlan{Index: "ip2", Cols: []c20SkCol{srcCol, dstCol, nIP}, NIdx: 2, Rows: [3]int{2, 2, 0}, Layouts: "all",
		Atoms: ipAtoms, Indexes: []c20SkIdx{{"bloomfilter_ip", []string{"src", "dst"}}}}

	// --- full-text bloom filter over two columns (one filter file for all string columns, reader
	// bloomfilter.MultiFiledLineFilterReader, created only when the condition mentions the pseudo column)
	L := c20FullTextCol
	ftAtoms := []c20SkAtom{mp(L, "A"), mp(L, "C"), mp(L, "D"), mp(L, "E"), mp(L, "A D"), mp(L, "C D"),
		mp("a", "A"), mp("b", "D"), at("a", "=", "A"), at("a", "!=", "A"), at("b", "!=", "D"), at("a", ">=", "C"),
		mp("n", "E"), at("n", "!=", "A")}
	ft2 := c20SkPlan{Index: "fulltext2", Cols: []c20SkCol{aCol, bCol, n}, NIdx: 2, Rows: [3]int{2, 2, 0}, Layouts: "all",
		Atoms: ftAtoms, Indexes: []c20SkIdx{{"fulltext", []string{"a", "b"}}}}

	// --- two indexes at once: bloom filter on a, ip bloom filter on ip -> two readers chained by Scan (the second one
	// receives the ranges the first one kept; three blocks so that they can be non-contiguous), both reader orders
	a2 := c20SkCol{Name: "a", Typ: S, Dom: dom("A", "C")}
	ipCol := c20SkCol{Name: "ip", Typ: S, Dom: dom("1.1.1.1", "2.2.2.2")}
	mixAtoms := []c20SkAtom{mp("a", "A"), mp("a", "C"), mp("a", "E"), at("a", "!=", "A"),
		at("ip", "=", "1.1.1.1"), at("ip", "=", "2.2.2.2"), at("ip", "IPINRANGE", "2.2.0.0/16"), at("n", "!=", "A")}
	mix := c20SkPlan{Index: "bloomfilter+ip", Cols: []c20SkCol{a2, ipCol, n}, NIdx: 2, Rows: [3]int{3, 3, 0}, Layouts: "all",
		Atoms: mixAtoms, Indexes: []c20SkIdx{{"bloomfilter", []string{"a"}}, {"bloomfilter_ip", []string{"ip"}}}}

	ps := []c20SkPlan{bf2, ip2, ft2, mix}
	if thorough {
		// records of 3 rows for single atoms, trees of 3 atoms over a reduced alphabet on records of <= 2 rows
		ps[1].Rows, ps[2].Rows = [3]int{3, 2, 2}, [3]int{3, 2, 2}
		ps[1].Atoms3 = []c20SkAtom{at("src", "=", "1.1.1.1"), at("src", "IPINRANGE", "1.1.0.0/16"), at("src", "!=", "1.1.1.1"), at("src", "IPINRANGE", "0.0.0.0/0"),
			at("dst", "=", "2.2.2.2"), at("dst", "IPINRANGE", "2.2.0.0/16"), at("dst", "!=", "2.2.2.2"), at("n", "=", "2.2.2.2")}
		ps[2].Atoms3 = []c20SkAtom{mp(L, "A"), mp(L, "D"), mp(L, "A D"), mp("a", "A"), at("a", "=", "A"), at("a", "!=", "A"), mp("b", "D"), at("n", "!=", "A")}
		// three bloom-indexed columns, trees of <= 3 atoms
		a3 := c20SkCol{Name: "a", Typ: S, Dom: dom("\x00", "A", "A D")}
		b3 := c20SkCol{Name: "b", Typ: S, Dom: dom("A", "D")}
		c3 := c20SkCol{Name: "c", Typ: S, Dom: dom("A", "E")}
		cAtoms := []c20SkAtom{mp("c", "A"), mp("c", "D"), mp("c", "E"), at("c", "!=", "A")}
		ps = append(ps, c20SkPlan{Index: "bloomfilter3", Cols: []c20SkCol{a3, b3, c3, n}, NIdx: 3, Rows: [3]int{2, 2, 2}, Layouts: "all",
			Atoms:   cat(aAtoms, bAtoms, cAtoms, nAtoms),
			Atoms3:  []c20SkAtom{mp("a", "A"), mp("a", "D"), at("a", "!=", "A"), mp("b", "D"), mp("b", "A"), mp("c", "A"), mp("c", "E"), at("n", "!=", "A")},
			Indexes: []c20SkIdx{{"bloomfilter", []string{"a", "b", "c"}}}})
	}
	return ps
}
