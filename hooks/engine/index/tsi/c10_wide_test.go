//go:build verif

package tsi

// C10, wide-row part.
//
// The tag->ids namespace of the index stores, per (measurement, tag key, tag value), rows of at most
// mergeindex.MaxTSIDsPerRow (64) series ids; the rows are built by the flush-/merge-time row merger
// (mergeindex.MergeItems) and the searches have special branches for "wide" rows (seek past the remaining rows
// of a non-matching tag value when the row holds >= limit/2 ids; seek past the remaining rows of a listed tag
// value when the row is full).  With the 8 keys of the history part no tag value is shared inside a measurement,
// so every row holds one id.  This part uses a third measurement in which tag values ARE shared (5 series per
// value) and runs the same oracles on states built and searched with the row limit at 64 (unmodified), 4 and 2
// (c10.py makes the constant settable through the overlay; 64 = the unmodified code).
//
// Keys (27): host x region over {0, a, b, c, absent}^2 (25 keys incl. the series without any tag) + (host=ab,
// region=xa) + (host=xa, region=ab).  For every atom of the grammar, per tag key: "0" is a shared value that matches
// no atom with a value and sorts before every other value; "a" / "b" are shared matching values; "b" / "c" are shared
// values sorting after a matching one ("c" matches nothing); ab / xa are unshared values containing a, between and
// after the shared ones; 5 series lack the tag (absent = ""), so the empty value is "shared" as well.

import (
	"fmt"
	"strings"

	"github.com/openGemini/openGemini/engine/index/mergeindex"
	kit "github.com/openGemini/openGemini/lib/verifkit"
)

const (
	c10WideMst = "ma_0000" // sorts between m_0000 and mm_0000
	c10NWide   = 27
	c10WideM   = 2 // index into c10Msts
)

var c10WideVals = []string{"0", "a", "b", "c", ""}

// neighbours: one series of each of the other two measurements lives in every wide state as well (listing oracle
// on all three measurements; a scan that runs over the end of its measurement or tag key would return their ids)
const (
	c10WideNbr0 = 1 // m_0000 host=b region=a
	c10WideNbr1 = 6 // mm_0000 host=a region=a
)

var (
	c10WideUniv      = (c10Mask(1)<<c10NWide-1)<<c10NHK | 1<<c10WideNbr0 | 1<<c10WideNbr1
	c10WideListMsts  = []int{0, 1, 2}
	c10WideSweepMsts = []int{c10WideM}
)

func c10WideKeys() []c10Key {
	var out []c10Key
	for _, h := range c10WideVals {
		for _, r := range c10WideVals {
			var tags []c10Tag
			if h != "" {
				tags = append(tags, c10Tag{"host", h})
			}
			if r != "" {
				tags = append(tags, c10Tag{"region", r})
			}
			out = append(out, c10Key{c10WideM, tags})
		}
	}
	out = append(out,
		c10Key{c10WideM, []c10Tag{{"host", "ab"}, {"region", "xa"}}},
		c10Key{c10WideM, []c10Tag{{"host", "xa"}, {"region", "ab"}}})
	return out
}

// enter sets the row limit this state lives with; the returned function restores the previous value.
// (The worker is single-threaded and the table's background goroutines are stopped.)
func (st *c10State) enter() func() {
	if st.rowLimit == 0 || !mergeindex.VerifMaxTSIDsPerRowSettable {
		return func() {}
	}
	prev := mergeindex.VerifMaxTSIDsPerRow
	mergeindex.VerifMaxTSIDsPerRow = st.rowLimit
	return func() { mergeindex.VerifMaxTSIDsPerRow = prev }
}

// ---------------------------------------------------------------------------------------------
// layouts

func c10WideIns(ks ...int) []string {
	out := make([]string, len(ks))
	for i, k := range ks {
		out[i] = fmt.Sprintf("ins%d", k)
	}
	return out
}

// c10WideSplit: the wide keys in n groups such that every shared tag value has series in several groups
// (grid position (h, r) goes to group (h+r) mod n; the two unshared keys to the first and the last group).
func c10WideSplit(n int) [][]int {
	g := make([][]int, n)
	for i := 0; i < 25; i++ {
		j := (i/5 + i%5) % n
		g[j] = append(g[j], c10NHK+i)
	}
	g[0] = append(g[0], c10NHK+25)
	g[n-1] = append(g[n-1], c10NHK+26)
	return g
}

func c10Reverse(a []int) []int {
	out := make([]int, len(a))
	for i, v := range a {
		out[len(a)-1-i] = v
	}
	return out
}

type c10WideLayout struct {
	Name  string
	Ops   []string
	Quick bool
}

func c10WideLayouts() []c10WideLayout {
	var all []int
	for i := 0; i < c10NWide; i++ {
		all = append(all, c10NHK+i)
	}
	cat := func(parts ...[]string) []string {
		var out []string
		for _, p := range parts {
			out = append(out, p...)
		}
		return out
	}
	two := c10WideSplit(2)
	twoOps := cat(c10WideIns(c10WideNbr0), c10WideIns(two[0]...), []string{"flush"},
		c10WideIns(c10Reverse(two[1])...), c10WideIns(c10WideNbr1), []string{"flush"})
	five := c10WideSplit(5)
	var fiveOps []string
	for i, g := range five {
		if i%2 == 1 {
			g = c10Reverse(g)
		}
		fiveOps = cat(fiveOps, c10WideIns(g...), []string{"flush"})
	}
	three := c10WideSplit(3)
	return []c10WideLayout{
		// every row of a tag value built by one run of the row merger
		{"one_part", cat(c10WideIns(c10WideNbr0), c10WideIns(all...), c10WideIns(c10WideNbr1), []string{"flush"}), true},
		// rows of one tag value in two parts (3+2 / 2+3 ids), interleaved by the table search
		{"two_parts", twoOps, true},
		// one flush at close, parts read back from disk, persisted caches
		{"restarted", cat(c10WideIns(c10WideNbr1), c10WideIns(c10Reverse(all)...), c10WideIns(c10WideNbr0), []string{"restart"}), true},
		// two parts whose rows go through the row merger a second time when the table is closed
		{"two_parts_restarted", cat(twoOps, []string{"restart"}), true},
		// thorough only
		{"five_parts_cold", cat(c10WideIns(c10WideNbr0, c10WideNbr1), fiveOps, []string{"clear"}), false},
		{"three_parts_reopened_between", cat(c10WideIns(three[0]...), []string{"flush", "reopen"}, c10WideIns(c10WideNbr1), c10WideIns(three[1]...),
			[]string{"flush", "reopen"}, c10WideIns(c10Reverse(three[2])...), c10WideIns(c10WideNbr0), []string{"flush"}), false},
		// the second half only as raw items (visible or not is the index's business: the oracle follows the listing)
		{"half_unflushed", cat(c10WideIns(c10WideNbr0), c10WideIns(two[1]...), []string{"flush"}, c10WideIns(two[0]...), c10WideIns(c10WideNbr1)), false},
	}
}

var c10WideLimitsQuick = []int{64, 4, 2}
var c10WideLimitsThorough = []int{64, 4, 2, 3, 5, 8}

// c10AllScenarios: the 5 original states + layouts x limits of the wide-row part.
func c10AllScenarios(thorough bool) []c10Scenario {
	out := append([]c10Scenario(nil), c10Scenarios...)
	limits := c10WideLimitsQuick
	if thorough {
		limits = c10WideLimitsThorough
	}
	for _, l := range c10WideLayouts() {
		if !l.Quick && !thorough {
			continue
		}
		for _, lim := range limits {
			quickState := l.Quick && (lim == 64 || lim == 4 || lim == 2)
			out = append(out, c10Scenario{Name: fmt.Sprintf("wide_%s_limit%d", l.Name, lim), Ops: l.Ops,
				Wide: true, Layout: l.Name, Limit: lim, Deep: quickState})
		}
	}
	return out
}

// ---------------------------------------------------------------------------------------------
// differential oracle across row limits

// c10RowLimitDifferential: states of one layout differ only in the row limit, which is a storage/search
// optimisation parameter: every one-atom predicate must get the same answer on all of them, through both paths.
// (This also covers the atoms whose absolute answer is excused by the known regex finding.)
func c10RowLimitDifferential(rep *kit.Report, states []*c10State, scs []c10Scenario) {
	base := map[string]int{}
	for i, sc := range scs {
		if !sc.Wide || !states[i].atomObsOK {
			continue
		}
		b, ok := base[sc.Layout]
		if !ok {
			base[sc.Layout] = i
			continue
		}
		st, ref := states[i], states[b]
		if st.visible != ref.visible {
			// cannot happen with stopped background flushers; counted, not judged
			rep.Count("row_limit_differential_skipped_visibility_differs", 1)
			continue
		}
		for p := 0; p < c10NPaths; p++ {
			for a := range c10AtomList {
				rep.Eval(1)
				got, want := st.atomObs[p][a], ref.atomObs[p][a]
				if got == want {
					continue
				}
				path := "show path"
				if p == c10PathSel {
					path = "select path"
				}
				text := c10AtomList[a].Text
				st.kinds = append(st.kinds, "row_limit_changes_answer")
				rep.Violation("row_limit_changes_answer", st.label+" :: "+path+"|"+text,
					fmt.Sprintf("%s on %s: with MaxTSIDsPerRow=%d the index answers %s, with MaxTSIDsPerRow=%d (%s) it answers %s; same series, same layout of flushes\n  missing %s extra %s",
						text, c10WideMst, scs[i].Limit, c10MaskString(got), scs[b].Limit, scs[b].Name, c10MaskString(want),
						c10MaskString(want&^got), c10MaskString(got&^want)),
					c10Case{Kind: "scenario", Scenario: scs[i].Name, Versus: scs[b].Name, Tree: text})
			}
		}
	}
}

func c10WideNote(rep *kit.Report) {
	var vals []string
	for _, v := range c10WideVals {
		if v == "" {
			v = "(absent)"
		}
		vals = append(vals, v)
	}
	rep.Note("wide-row part: measurement %s, 27 keys = host x region over {%s} + (ab,xa) + (xa,ab); MaxTSIDsPerRow settable=%v",
		c10WideMst, strings.Join(vals, ","), mergeindex.VerifMaxTSIDsPerRowSettable)
}

// close closes the state's index with the state's row limit in force (the close flushes and merges).
func (st *c10State) close() {
	defer st.enter()()
	st.x.close()
}

// natoms: the one-atom sweep of a wide-row state includes the wide-only atoms.
func (st *c10State) natoms() int {
	if st.wideTag != "" {
		return len(c10AtomList)
	}
	return c10NBaseAtoms
}

// c10WideExtTexts: every two-atom tree in which at least one atom is a wide-only atom (both orders, AND/OR).
func c10WideExtTexts(f func(text string)) {
	seen := map[string]bool{}
	for w := c10NBaseAtoms; w < len(c10AtomList); w++ {
		for x := range c10AtomList {
			for _, o := range c10Connectives {
				for _, t := range []string{
					c10AtomList[w].Text + " " + o + " " + c10AtomList[x].Text,
					c10AtomList[x].Text + " " + o + " " + c10AtomList[w].Text,
				} {
					if !seen[t] {
						seen[t] = true
						f(t)
					}
				}
			}
		}
	}
}
