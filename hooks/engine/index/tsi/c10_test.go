//go:build verif

package tsi

import (
	"fmt"
	"os"
	"path/filepath"
	"sort"
	"testing"
	"time"

	"github.com/openGemini/openGemini/lib/config"
	"github.com/openGemini/openGemini/lib/index"
	"github.com/openGemini/openGemini/lib/util/lifted/influx/meta"
	"github.com/openGemini/openGemini/lib/util/lifted/influx/query"
	"github.com/openGemini/openGemini/lib/util/lifted/vm/protoparser/influx"
	kit "github.com/openGemini/openGemini/lib/verifkit"
	"github.com/savsgio/dictpool"
)

type c10Tag struct{ K, V string }

type c10Key struct {
	Mst  string
	Tags []c10Tag // sorted by key
}

type c10Index struct {
	path    string
	clock   uint64
	seq     *uint64
	builder *IndexBuilder
	idx     *MergeSetIndex
}

func c10Open(path string, clock uint64, seq *uint64) *c10Index {
	lockPath := ""
	ident := &meta.IndexIdentifier{OwnerDb: "db0", OwnerPt: 1, Policy: "rp0"}
	ident.Index = &meta.IndexDescriptor{IndexID: 2, IndexGroupID: 3, TimeRange: meta.TimeRangeInfo{}}
	opts := new(Options).
		Path(path).
		Ident(ident).
		IndexType(index.MergeSet).
		EngineType(config.TSSTORE).
		StartTime(time.Now()).
		EndTime(time.Now().Add(time.Hour)).
		Duration(time.Hour).
		LogicalClock(clock).
		SequenceId(seq).
		Lock(&lockPath)
	b := NewIndexBuilder(opts)
	pi, err := NewIndex(opts)
	if err != nil {
		panic(err)
	}
	pi.SetIndexBuilder(b)
	rel, err := NewIndexRelation(opts, pi, b)
	if err != nil {
		panic(err)
	}
	b.Relations[uint32(index.MergeSet)] = rel
	if err := b.Open(); err != nil {
		panic(err)
	}
	m := pi.(*MergeSetIndex)
	return &c10Index{path: path, clock: clock, seq: seq, builder: b, idx: m}
}

func (k c10Key) row() influx.Row {
	r := influx.Row{Name: k.Mst}
	r.Tags = make(influx.PointTags, len(k.Tags))
	for i, t := range k.Tags {
		r.Tags[i].Key, r.Tags[i].Value = t.K, t.V
	}
	sort.Sort(&r.Tags)
	r.Timestamp = 1
	r.UnmarshalIndexKeys(nil)
	r.ShardKey = r.IndexKey
	return r
}

func (x *c10Index) insert(k c10Key) (uint64, error) {
	rows := []influx.Row{k.row()}
	d := &dictpool.Dict{}
	d.Set(k.Mst, &rows)
	if err := x.builder.CreateIndexIfNotExists(d, false); err != nil {
		return 0, err
	}
	return rows[0].SeriesId, nil
}

func TestVerifC10Probe(t *testing.T) {
	rep := kit.NewReport("C10")
	defer rep.Save()
	dir := filepath.Join(kit.Scratch(), "probe")
	os.MkdirAll(dir, 0o755)
	seq := uint64(1000)
	t0 := time.Now()
	x := c10Open(dir, 1, &seq)
	fmt.Println("open", time.Since(t0))
	keys := []c10Key{
		{"m_0000", []c10Tag{{"host", "a"}, {"region", "b"}}},
		{"m_0000", []c10Tag{{"host", "b"}, {"region", "a"}}},
		{"m_0000", []c10Tag{{"host", "ab"}}},
		{"m_0000", []c10Tag{{"region", "a"}}},
		{"m_0000", []c10Tag{{"host", "xa"}, {"region", "ba"}}},
		{"m_0000", []c10Tag{{"host", "a1"}, {"region", "é"}}},
		{"m_0000", []c10Tag{{"host", "a b,c=d\x00\x01\x02"}, {"region", ""}}},
	}
	for _, k := range keys {
		id, err := x.insert(k)
		fmt.Printf("insert %v -> %x %v\n", k, id, err)
	}
	id, err := x.insert(keys[0])
	fmt.Printf("reinsert -> %x %v\n", id, err)
	x.idx.ClearCache()
	id, err = x.insert(keys[0])
	fmt.Printf("reinsert after clear (unflushed) -> %x %v\n", id, err)
	t0 = time.Now()
	x.idx.DebugFlush()
	fmt.Println("flush", time.Since(t0))
	for _, c := range []string{`host='a'`, `host!='a'`, `host=''`, `host!=''`, `host=~/a/`, `host=~/^a$/`, `host=~/a|b/`, `host=~/[ab]/`, `host=~/a.*/`, `host=~/.*/`, `host=~/^$/`,
		`host!~/a/`, `host!~/^a$/`, `host!~/a|b/`, `host!~/[ab]/`, `host!~/a.*/`, `host!~/.*/`, `host!~/^$/`, `host=~/a[0-9]/`, `host=~/^a/`, `host=~/a$/`, `region=~/^$/`, `region=''`} {
		e := MustParseExpr(c)
		t0 = time.Now()
		s, err := x.idx.SearchSeriesKeys(nil, []byte("m_0000"), e)
		d1 := time.Since(t0)
		var ss []string
		for _, b := range s {
			ss = append(ss, string(b))
		}
		sort.Strings(ss)
		opt := &query.ProcessorOptions{Condition: e}
		t0 = time.Now()
		itr, err2 := x.idx.SearchSeriesIterator(nil, []byte("m_0000"), opt)
		d2 := time.Since(t0)
		n := -1
		if itr != nil {
			n = int(itr.Ids().Len())
		}
		tv, err3 := x.idx.SearchTagValues([]byte("m_0000"), [][]byte{[]byte("host"), []byte("region")}, e)
		fmt.Printf("%-20s %v %v %q\n    itr n=%d %v %v  tv=%q %v\n", c, d1, err, ss, n, err2, d2, tv, err3)
	}
	t0 = time.Now()
	x.builder.Close()
	fmt.Println("close", time.Since(t0))
	t0 = time.Now()
	x = c10Open(dir, 1, &seq)
	fmt.Println("reopen", time.Since(t0))
	id, err = x.insert(keys[0])
	fmt.Printf("reinsert after reopen -> %x %v\n", id, err)
	x.builder.Close()
}
