//go:build verif

package tsi

// C10 — series index is exact: one stable id per series, predicates match precisely.
//
// In-package harness (overlaid as engine/index/tsi/zz_verif_c10_test.go).  Two parts:
//
//  1. bounded history exploration on a real IndexBuilder/MergeSetIndex (fresh directory per
//     sequence): ops {insert k in K, flush, clear caches, restart (close + new objects, logical
//     clock+1), reopen (Close/Open of the same objects)}; after EVERY step the id oracle and the
//     listing oracle run; on the final state of every maximal sequence the one-atom predicate
//     sweep runs through all search entry points.
//  2. predicate sweeps: every predicate tree with <= 2 (quick) / <= 3 (thorough) atoms over a set
//     of fixed rich index states ("scenarios").
//
// Oracle: brute force over the series the index itself lists as visible (flushed <= visible <=
// inserted), Go regexp unanchored, absent tag = "".

import (
	"fmt"
	"os"
	"path/filepath"
	"regexp"
	"regexp/syntax"
	"sort"
	"strings"
	"testing"
	"time"

	"github.com/openGemini/openGemini/engine/index/mergeindex"
	"github.com/openGemini/openGemini/lib/config"
	"github.com/openGemini/openGemini/lib/index"
	"github.com/openGemini/openGemini/lib/logger"
	"github.com/openGemini/openGemini/lib/util/lifted/influx/influxql"
	"github.com/openGemini/openGemini/lib/util/lifted/influx/meta"
	"github.com/openGemini/openGemini/lib/util/lifted/influx/query"
	"github.com/openGemini/openGemini/lib/util/lifted/vm/protoparser/influx"
	kit "github.com/openGemini/openGemini/lib/verifkit"
	"github.com/savsgio/dictpool"
)

// ---------------------------------------------------------------------------------------------
// series keys

type c10Tag struct{ K, V string }

type c10Key struct {
	Mst  int // index into c10Msts
	Tags []c10Tag
}

var c10Msts = []string{"m_0000", "mm_0000", c10WideMst}

// c10Mask is a set of series keys (bit k = c10Keys[k]).
type c10Mask = uint64

const c10Special = "a b,c=d\x00\x01\x02"

// K = 8 series keys over 2 measurements (names share a prefix), tag keys sharing a prefix
// (host/hosts), values sharing prefixes (a/ab/xa), values with ',' '=' ' ', the mergeset separator
// bytes 0x00-0x02, 'é', series lacking host, lacking region, lacking every tag.
// (A tag with an empty value cannot be written: the line-protocol parser drops it, see c10WritePathNote.)
var c10Keys = []c10Key{
	{0, []c10Tag{{"host", "a"}, {"region", "b"}}},
	{0, []c10Tag{{"host", "b"}, {"region", "a"}}},
	{0, []c10Tag{{"host", "ab"}, {"hosts", "b"}}},
	{0, []c10Tag{{"region", "ab"}}},
	{0, []c10Tag{{"host", "xa"}, {"region", "é"}}},
	{0, []c10Tag{{"host", c10Special}, {"region", "b=,a"}}},
	{1, []c10Tag{{"host", "a"}, {"region", "a"}}},
	{1, nil},
	// + the 27 wide-row keys of measurement 2, appended by c10InitKeys (see c10_wide_test.go)
}

const (
	c10NHK = 8                // keys of the history exploration and of the 5 original scenarios
	c10NK  = c10NHK + c10NWide // all keys
)

var c10MstMask [3]c10Mask
var c10IndexKeys [c10NK][]byte
var c10Render [c10NK]string
var c10KeyOfRender = map[string]int{}

func (k c10Key) tag(key string) string {
	for _, t := range k.Tags {
		if t.K == key {
			return t.V
		}
	}
	return ""
}

func (k c10Key) row() influx.Row {
	r := influx.Row{Name: c10Msts[k.Mst]}
	r.Tags = make(influx.PointTags, len(k.Tags))
	for i, t := range k.Tags {
		r.Tags[i].Key, r.Tags[i].Value = t.K, t.V
	}
	sort.Sort(&r.Tags)
	r.Timestamp = 1
	r.UnmarshalIndexKeys(nil)
	r.ShardKey = r.IndexKey
	return r
}

// render mirrors influx.Parse2SeriesKey(key, dst, false): name,k=v,k=v without escaping.
func (k c10Key) render() string {
	ts := append([]c10Tag(nil), k.Tags...)
	sort.Slice(ts, func(i, j int) bool { return ts[i].K < ts[j].K })
	s := c10Msts[k.Mst]
	for _, t := range ts {
		s += "," + t.K + "=" + t.V
	}
	return s
}

func c10InitKeys() {
	c10Keys = append(c10Keys[:c10NHK:c10NHK], c10WideKeys()...)
	if len(c10Keys) != c10NK {
		panic("c10: key count")
	}
	seen := map[string]bool{}
	for i, k := range c10Keys {
		c10MstMask[k.Mst] |= 1 << uint(i)
		r := k.row()
		c10IndexKeys[i] = append([]byte(nil), r.IndexKey...)
		c10Render[i] = k.render()
		c10KeyOfRender[c10Render[i]] = i
		if seen[c10Render[i]] {
			panic("c10: rendered keys collide")
		}
		seen[c10Render[i]] = true
	}
}

func c10MaskString(m c10Mask) string {
	var s []string
	for i := 0; i < c10NK; i++ {
		if m&(1<<uint(i)) != 0 {
			s = append(s, fmt.Sprintf("k%d", i))
		}
	}
	return "{" + strings.Join(s, ",") + "}"
}

// ---------------------------------------------------------------------------------------------
// the index under test

const c10SeqSeed = 1000

type c10Index struct {
	path    string
	clock   uint64
	seq     *uint64
	builder *IndexBuilder
	idx     *MergeSetIndex
}

func c10Open(path string, clock uint64, seq *uint64) *c10Index {
	lockPath := ""
	ident := &meta.IndexIdentifier{OwnerDb: "db0", OwnerPt: 1, Policy: "rp0"}
	ident.Index = &meta.IndexDescriptor{IndexID: 2, IndexGroupID: 3, TimeRange: meta.TimeRangeInfo{}}
	opts := new(Options).
		Path(path).
		Ident(ident).
		IndexType(index.MergeSet).
		EngineType(config.TSSTORE).
		StartTime(time.Now()).
		EndTime(time.Now().Add(time.Hour)).
		Duration(time.Hour).
		LogicalClock(clock).
		SequenceId(seq).
		Lock(&lockPath)
	b := NewIndexBuilder(opts)
	pi, err := NewIndex(opts)
	if err != nil {
		panic(err)
	}
	pi.SetIndexBuilder(b)
	rel, err := NewIndexRelation(opts, pi, b)
	if err != nil {
		panic(err)
	}
	b.Relations[uint32(index.MergeSet)] = rel
	x := &c10Index{path: path, clock: clock, seq: seq, builder: b, idx: pi.(*MergeSetIndex)}
	x.open()
	return x
}

// open opens the builder and stops the table's background flusher and part mergers, so that
// visibility and part layout are decided by the explored operations only (determinism).
func (x *c10Index) open() {
	if err := x.builder.Open(); err != nil {
		panic(err)
	}
	x.idx.tb.StopMergeAndFlusher()
}

func (x *c10Index) close() {
	if err := x.builder.Close(); err != nil {
		panic(err)
	}
}

// insert goes through IndexBuilder.CreateIndexIfNotExists (the engine's write path).
func (x *c10Index) insert(k int, direct bool) (uint64, error) {
	rows := []influx.Row{c10Keys[k].row()}
	d := &dictpool.Dict{}
	d.Set(c10Msts[c10Keys[k].Mst], &rows)
	var err error
	if direct {
		err = x.idx.CreateIndexIfNotExists(d)
	} else {
		err = x.builder.CreateIndexIfNotExists(d, false)
	}
	if err != nil {
		return 0, err
	}
	return rows[0].SeriesId, nil
}

// ---------------------------------------------------------------------------------------------
// atoms and predicate trees

const (
	c10ClsExact  = 0 // must be exact everywhere
	c10ClsU      = 1 // regex, not a pure literal, not fully anchored, not trivially match-all
	c10ClsX      = 2 // regex ^literal$ (non-empty literal): exact after the select path's rewrite, raw on the show path
	c10ClsZ      = 3 // regex that matches "" only because of anchors (/^$/): same
	c10NPaths    = 2
	c10PathRaw   = 0 // condition as parsed (SHOW SERIES / SHOW TAG VALUES / cardinality path)
	c10PathSel   = 1 // condition after SelectStatement.RewriteRegexConditions (SELECT path)
	c10Placehold = "C10SPECIALVALUE"
)

type c10Atom struct {
	Key   string
	Op    string // = != =~ !~
	Val   string
	Text  string
	Class int
	// NilNeg: `key !~ /re/` with a regex that matches the empty string.  The index answers such an atom with a
	// nil id set, which the show path's AND treats as "no constraint" (known defect, see c10KindNilNeg).
	NilNeg bool
	True   c10Mask // keys (all measurements) whose tags satisfy the atom
	ident  string
}

var c10AtomList []c10Atom
var c10AtomByIdent = map[string]int{}
var c10NCoreAtoms int
var c10NBaseAtoms int // core + extension atoms; the atoms after these are used on the wide-row states only

func c10RegexClass(src string) int {
	re, err := syntax.Parse(src, syntax.Perl)
	if err != nil {
		panic(err)
	}
	re = re.Simplify()
	if re.Op == syntax.OpLiteral && re.Flags&syntax.FoldCase == 0 {
		return c10ClsExact // pure literal: substring match expected and implemented
	}
	hasAnchor := strings.ContainsAny(src, "^$") || strings.Contains(src, `\b`) || strings.Contains(src, `\A`) || strings.Contains(src, `\z`)
	matchesEmpty := regexp.MustCompile(src).MatchString("")
	if matchesEmpty && !hasAnchor {
		return c10ClsExact // unanchored and matches "": matches every value
	}
	if matchesEmpty {
		return c10ClsZ
	}
	if re.Op == syntax.OpConcat && len(re.Sub) >= 2 &&
		(re.Sub[0].Op == syntax.OpBeginText || re.Sub[0].Op == syntax.OpBeginLine) &&
		(re.Sub[len(re.Sub)-1].Op == syntax.OpEndText || re.Sub[len(re.Sub)-1].Op == syntax.OpEndLine) {
		inner := re.Sub[1 : len(re.Sub)-1]
		if len(inner) == 1 && inner[0].Op == syntax.OpLiteral && inner[0].Flags&syntax.FoldCase == 0 {
			return c10ClsX
		}
		return c10ClsExact // other fully anchored forms: demanded exact
	}
	return c10ClsU
}

func c10AtomIdent(key, op, val string, isRe bool) string {
	return fmt.Sprintf("%s\x00%s\x00%v\x00%s", key, op, isRe, val)
}

func c10InitAtoms() {
	add := func(key, op, val string, isRe bool, text string) {
		a := c10Atom{Key: key, Op: op, Val: val, Text: text, ident: c10AtomIdent(key, op, val, isRe)}
		var re *regexp.Regexp
		if isRe {
			re = regexp.MustCompile(val)
			a.Class = c10RegexClass(val)
			a.NilNeg = op == "!~" && re.MatchString("")
		}
		for i, k := range c10Keys {
			v := k.tag(key) // absent tag behaves as ""
			var ok bool
			switch op {
			case "=":
				ok = v == val
			case "!=":
				ok = v != val
			case "=~":
				ok = re.MatchString(v)
			case "!~":
				ok = !re.MatchString(v)
			}
			if ok {
				a.True |= 1 << uint(i)
			}
		}
		c10AtomByIdent[a.ident] = len(c10AtomList)
		c10AtomList = append(c10AtomList, a)
	}
	strs := []string{"a", "b", ""}
	res := []string{"a", "^a$", "a|b", "[ab]", "a.*", ".*", "^$"}
	for _, key := range []string{"host", "region"} {
		for _, op := range []string{"=", "!="} {
			for _, v := range strs {
				add(key, op, v, false, fmt.Sprintf("%s %s '%s'", key, op, v))
			}
		}
		for _, op := range []string{"=~", "!~"} {
			for _, v := range res {
				add(key, op, v, true, fmt.Sprintf("%s %s /%s/", key, op, v))
			}
		}
	}
	c10NCoreAtoms = len(c10AtomList)
	// extension: equality on the value holding ',', '=', ' ' and the separator bytes, a key that shares a
	// prefix with host, an absent key (used in trees of <= 2 atoms only)
	add("host", "=", c10Special, false, "host = '"+c10Placehold+"'")
	add("host", "!=", c10Special, false, "host != '"+c10Placehold+"'")
	add("hosts", "=", "b", false, "hosts = 'b'")
	add("zone", "!=", "a", false, "zone != 'a'")
	add("region", "=~", "é", true, "region =~ /é/")
	c10NBaseAtoms = len(c10AtomList)
	// wide-row states only: a fully anchored regex with a literal prefix and a non-literal rest (class exact: no known
	// defect applies).  The row scan then runs with a seek prefix that holds a part of the value, and the shared value
	// "a" is a non-matching wide row with that prefix ("ab" matches and sorts after it).
	add("host", "=~", "^a.+$", true, "host =~ /^a.+$/")
	add("host", "!~", "^a.+$", true, "host !~ /^a.+$/")
	add("region", "=~", "^a.+$", true, "region =~ /^a.+$/")
}

type c10Tree struct {
	Text string
	expr [c10NPaths]influxql.Expr
}

func c10Parse(text string) influxql.Expr {
	e := MustParseExpr(text) // the package tests' helper: parses and types every VarRef as a tag
	influxql.WalkFunc(e, func(n influxql.Node) {
		if s, ok := n.(*influxql.StringLiteral); ok && s.Val == c10Placehold {
			s.Val = c10Special
		}
	})
	return e
}

func c10NewTree(text string) *c10Tree {
	t := &c10Tree{Text: text}
	t.expr[c10PathRaw] = c10Parse(text)
	st := &influxql.SelectStatement{Condition: c10Parse(text)}
	st.RewriteRegexConditions(nil) // what query compilation does before a SELECT reaches the index
	t.expr[c10PathSel] = st.Condition
	return t
}

// c10AtomOf identifies a leaf of the raw (un-rewritten) tree.
func c10AtomOf(b *influxql.BinaryExpr) int {
	ref, ok := b.LHS.(*influxql.VarRef)
	if !ok {
		panic("c10: atom without VarRef on the left: " + b.String())
	}
	var op string
	switch b.Op {
	case influxql.EQ:
		op = "="
	case influxql.NEQ:
		op = "!="
	case influxql.EQREGEX:
		op = "=~"
	case influxql.NEQREGEX:
		op = "!~"
	default:
		panic("c10: unexpected operator in " + b.String())
	}
	var id string
	switch v := b.RHS.(type) {
	case *influxql.StringLiteral:
		id = c10AtomIdent(ref.Val, op, v.Val, false)
	case *influxql.RegexLiteral:
		id = c10AtomIdent(ref.Val, op, v.Val.String(), true)
	default:
		panic("c10: unexpected literal in " + b.String())
	}
	i, ok := c10AtomByIdent[id]
	if !ok {
		panic("c10: unknown atom " + b.String())
	}
	return i
}

// c10Eval evaluates the raw tree over key masks; leaf gives the mask of the n-th leaf (atom index a).
func c10Eval(e influxql.Expr, n *int, leaf func(n, a int) c10Mask) c10Mask {
	switch x := e.(type) {
	case *influxql.ParenExpr:
		return c10Eval(x.Expr, n, leaf)
	case *influxql.BinaryExpr:
		switch x.Op {
		case influxql.AND:
			l := c10Eval(x.LHS, n, leaf)
			r := c10Eval(x.RHS, n, leaf)
			return l & r
		case influxql.OR:
			l := c10Eval(x.LHS, n, leaf)
			r := c10Eval(x.RHS, n, leaf)
			return l | r
		default:
			a := c10AtomOf(x)
			m := leaf(*n, a)
			*n++
			return m
		}
	}
	panic(fmt.Sprintf("c10: unexpected node %T", e))
}

func c10Leaves(e influxql.Expr) []int {
	var out []int
	n := 0
	c10Eval(e, &n, func(_ int, a int) c10Mask { out = append(out, a); return 0 })
	return out
}

// ---------------------------------------------------------------------------------------------
// state = real index + reference model

type c10State struct {
	x        *c10Index
	ids      [c10NK]uint64
	inserted c10Mask
	pending  c10Mask // inserted, not yet flushed by an explored operation
	uncached c10Mask // pending and the caches were dropped since the insert
	visible  c10Mask // what the index lists (flushed <= visible <= inserted), refreshed by listing()
	label    string
	replay   func(tree string) any
	// observed one-atom results per path (for the known-defect classification of bigger trees)
	atomObs   [c10NPaths][]c10Mask
	atomObsOK bool
	kinds     []string // kinds of the violations reported on this state, in order
	// universe of this state: the keys the id oracle looks up, the measurements listed, the measurements the
	// predicate sweeps run on; rowLimit != 0: the value of mergeindex.MaxTSIDsPerRow this state is built and searched with
	univ      c10Mask
	listMsts  []int
	sweepMsts []int
	rowLimit  int
	wideTag   string // "" for the original states, layout+limit for the wide-row states (part of the non-triviality hash)
}

const c10HistUniv = c10Mask(1)<<c10NHK - 1

var c10HistMsts = []int{0, 1}

func c10NewState(x *c10Index) *c10State {
	return &c10State{x: x, univ: c10HistUniv, listMsts: c10HistMsts, sweepMsts: c10HistMsts}
}

type c10Case struct {
	Kind     string   `json:"kind"` // "history" | "scenario"
	Ops      []string `json:"ops,omitempty"`
	Scenario string   `json:"scenario,omitempty"`
	Tree     string   `json:"tree,omitempty"`
	Versus   string   `json:"versus,omitempty"` // row-limit differential: the scenario with the reference answer
}

func (st *c10State) idToKey(id uint64) int {
	for i := 0; i < c10NK; i++ {
		if st.ids[i] == id && id != 0 {
			return i
		}
	}
	return -1
}

func (st *c10State) maskOfIDs(ids []uint64) (c10Mask, error) {
	var m c10Mask
	seen := map[uint64]bool{}
	for _, id := range ids {
		if seen[id] {
			return 0, fmt.Errorf("id %x returned twice", id)
		}
		seen[id] = true
		k := st.idToKey(id)
		if k < 0 {
			return 0, fmt.Errorf("unknown id %x returned", id)
		}
		m |= 1 << uint(k)
	}
	return m, nil
}

func (st *c10State) maskOfTexts(keys [][]byte) (c10Mask, error) {
	var m c10Mask
	for _, b := range keys {
		k, known := c10KeyOfRender[string(b)]
		if !known {
			return 0, fmt.Errorf("unknown series key %q returned", b)
		}
		if m&(1<<uint(k)) != 0 {
			return 0, fmt.Errorf("series key %q returned twice", b)
		}
		m |= 1 << uint(k)
	}
	return m, nil
}

func (st *c10State) violation(rep *kit.Report, kind, what, detail, tree string) {
	st.kinds = append(st.kinds, kind)
	rep.Violation(kind, st.label+" :: "+what, detail, st.replay(tree))
}

// idOracle: id(k) defined <=> inserted, unchanged since first assignment (a pending series whose
// cache entry was dropped may be reported as not found: visibility, DESIGN §3a).
func (st *c10State) idOracle(rep *kit.Report) {
	defer st.enter()()
	for k := 0; k < c10NK; k++ {
		if st.univ&(1<<uint(k)) == 0 {
			continue
		}
		rep.Eval(1)
		id, err := st.x.idx.GetSeriesIdBySeriesKey(c10IndexKeys[k])
		bit := c10Mask(1) << uint(k)
		switch {
		case err != nil:
			st.violation(rep, "id_lookup_error", fmt.Sprintf("lookup k%d", k), err.Error(), "")
		case st.inserted&bit == 0:
			if id != 0 {
				st.violation(rep, "id_for_uninserted_key", fmt.Sprintf("lookup k%d", k), fmt.Sprintf("key %q never inserted, lookup returned id %x", c10Render[k], id), "")
			}
		case id == st.ids[k]:
		case id == 0 && st.uncached&bit != 0:
			rep.Count("lookup_miss_pending_uncached", 1)
		case id == 0:
			st.violation(rep, "id_lost", fmt.Sprintf("lookup k%d", k), fmt.Sprintf("key %q has id %x but lookup finds nothing (pending=%v)", c10Render[k], st.ids[k], st.pending&bit != 0), "")
		default:
			st.violation(rep, "id_changed", fmt.Sprintf("lookup k%d", k), fmt.Sprintf("key %q: first id %x, lookup now returns %x", c10Render[k], st.ids[k], id), "")
		}
	}
}

// listing: unconditional listings per measurement; establishes the visible set.
func (st *c10State) listing(rep *kit.Report) bool {
	defer st.enter()()
	ok := true
	st.visible = 0
	for _, m := range st.listMsts {
		name := c10Msts[m]
		rep.Eval(1)
		ids, err := st.x.idx.SearchSeriesByTableAndCond([]byte(name), nil, DefaultTR)
		if err != nil {
			st.violation(rep, "listing_error", name, err.Error(), "")
			return false
		}
		vis, err := st.maskOfIDs(ids)
		flushed := st.inserted &^ st.pending & c10MstMask[m]
		switch {
		case err != nil:
			st.violation(rep, "listing_wrong_ids", name, err.Error(), "")
			ok = false
		case vis&^c10MstMask[m] != 0:
			st.violation(rep, "listing_foreign_series", name, "ids of another measurement listed: "+c10MaskString(vis&^c10MstMask[m]), "")
			ok = false
		case flushed&^vis != 0:
			st.violation(rep, "listing_missing_flushed_series", name, "flushed series not listed: "+c10MaskString(flushed&^vis), "")
			ok = false
		}
		if !ok {
			return false
		}
		st.visible |= vis
		// the same listing as series keys, and each series read back by id
		keys, err := st.x.idx.SearchSeriesKeys(nil, []byte(name), nil)
		if err != nil {
			st.violation(rep, "listing_error", name, err.Error(), "")
			return false
		}
		tm, err := st.maskOfTexts(keys)
		if err != nil || tm != vis {
			st.violation(rep, "listing_keys_mismatch", name, fmt.Sprintf("ids list %s, keys list %s (%v)", c10MaskString(vis), c10MaskString(tm), err), "")
			ok = false
		}
		for k := 0; k < c10NK; k++ {
			if vis&(1<<uint(k)) == 0 {
				continue
			}
			var got []string
			err := st.x.idx.GetSeries(st.ids[k], nil, nil, func(sk *influx.SeriesKey) {
				s := string(sk.Measurement)
				for _, t := range sk.TagSet {
					s += "," + string(t.Key) + "=" + string(t.Value)
				}
				got = append(got, s)
			})
			if err != nil || len(got) != 1 || got[0] != c10Render[k] {
				st.violation(rep, "series_readback_mismatch", fmt.Sprintf("k%d", k), fmt.Sprintf("id %x: want %q got %q err %v", st.ids[k], c10Render[k], got, err), "")
				ok = false
			}
		}
		// series count and tag-key / tag-value listings without a condition
		n, err := st.x.idx.SeriesCardinality([]byte(name), nil, DefaultTR)
		if err != nil || int(n) != c10Pop(vis) {
			st.violation(rep, "cardinality_mismatch", name, fmt.Sprintf("want %d got %d err %v", c10Pop(vis), n, err), "")
			ok = false
		}
		tkeys := []string{"host", "hosts", "region", "zone"}
		bk := make([][]byte, len(tkeys))
		for i := range tkeys {
			bk[i] = []byte(tkeys[i])
		}
		tv, err := st.x.idx.SearchTagValues([]byte(name), bk, nil)
		if err != nil {
			st.violation(rep, "listing_error", name, err.Error(), "")
			return false
		}
		for i, tk := range tkeys {
			want := c10TagValues(vis, tk)
			var got []string
			if tv != nil {
				got = append(got, tv[i]...)
				sort.Strings(got)
			}
			if strings.Join(got, "\x1f") != strings.Join(want, "\x1f") {
				st.violation(rep, "tag_values_listing_mismatch", name+" key "+tk, fmt.Sprintf("visible %s: want %q got %q", c10MaskString(vis), want, got), "")
				ok = false
			}
			c, err := st.x.idx.SearchTagValuesCardinality([]byte(name), []byte(tk))
			if err != nil || int(c) != len(want) {
				st.violation(rep, "tag_values_listing_mismatch", name+" key "+tk+" cardinality", fmt.Sprintf("want %d got %d err %v", len(want), c, err), "")
				ok = false
			}
		}
	}
	if st.visible&^st.inserted != 0 {
		panic("c10: visible not within inserted")
	}
	return ok
}

func c10Pop(m c10Mask) int {
	n := 0
	for ; m != 0; m &= m - 1 {
		n++
	}
	return n
}

func c10TagValues(mask c10Mask, key string) []string {
	set := map[string]bool{}
	for k := 0; k < c10NK; k++ {
		if mask&(1<<uint(k)) == 0 {
			continue
		}
		for _, t := range c10Keys[k].Tags {
			if t.K == key {
				set[t.V] = true
			}
		}
	}
	out := make([]string, 0, len(set))
	for v := range set {
		out = append(out, v)
	}
	sort.Strings(out)
	return out
}

// ---------------------------------------------------------------------------------------------
// predicate checking

const c10KindNilNeg = "never_matching_regex_ignored_under_and_on_show_path"

var c10KindOfClass = map[int]string{
	c10ClsU: "unanchored_nonliteral_regex",
	c10ClsX: "anchored_literal_regex_as_substring_on_show_path",
	c10ClsZ: "empty_anchored_regex_as_match_all_on_show_path",
}

// classify decides whether an observed result that differs from brute force is completely explained
// by the known per-atom regex defects: every affected leaf may take either its true mask or the mask
// the index returned for that atom alone on the same state and path; every other leaf and every
// AND/OR/parenthesis must be exact.  Returns the known kind or "".
func (st *c10State) classify(t *c10Tree, path int, scope c10Mask, single int, matches func(hyp c10Mask) bool) string {
	if single >= 0 {
		// a one-atom tree: the atom itself is the unit of the known defects
		cls := c10AtomList[single].Class
		if cls == c10ClsU || (path == c10PathRaw && (cls == c10ClsX || cls == c10ClsZ)) {
			return c10KindOfClass[cls]
		}
		return ""
	}
	if !st.atomObsOK {
		return ""
	}
	leaves := c10Leaves(t.expr[c10PathRaw])
	// alternatives per affected leaf: 1 = what the index answers for the atom alone, 2 = "every series"
	type alt struct{ n, how int }
	var aff []alt
	for n, a := range leaves {
		at := &c10AtomList[a]
		if at.Class == c10ClsU || (path == c10PathRaw && (at.Class == c10ClsX || at.Class == c10ClsZ)) {
			aff = append(aff, alt{n, 1})
		}
		if path == c10PathRaw && at.NilNeg {
			aff = append(aff, alt{n, 2})
		}
	}
	if len(aff) == 0 || len(aff) > 8 {
		return ""
	}
	best := ""
	bestN := 1 << 30
	for combo := 1; combo < 1<<uint(len(aff)); combo++ {
		use := map[int]int{}
		clash := false
		for i, al := range aff {
			if combo&(1<<uint(i)) != 0 {
				if use[al.n] != 0 {
					clash = true
				}
				use[al.n] = al.how
			}
		}
		if clash {
			continue
		}
		n := 0
		hyp := c10Eval(t.expr[c10PathRaw], &n, func(n, a int) c10Mask {
			switch use[n] {
			case 1:
				return st.atomObs[path][a]
			case 2:
				return ^c10Mask(0)
			}
			return c10AtomList[a].True
		}) & scope
		if !matches(hyp) {
			continue
		}
		// prefer an explanation that needs no "nil set = no constraint" substitution (the other substitutions are
		// answers the index was SEEN to give for the atom alone on this very state; the nil-set one is a hypothesis
		// about AND, and entry points that are compared by count or by tag values only admit coincidences: a
		// cardinality explained by two observed regex answers was once attributed to one nil-set substitution);
		// among those the fewest substituted leaves; among those the lowest defect class
		cls := 99
		nilneg := 0
		for n, how := range use {
			if how == 2 {
				nilneg = 1
			} else if c := c10AtomList[leaves[n]].Class; c < cls {
				cls = c
			}
		}
		score := nilneg*10000 + c10Pop(c10Mask(combo))*100 + cls%10
		if score < bestN {
			bestN = score
			if nilneg == 1 {
				best = c10KindNilNeg
			} else {
				best = c10KindOfClass[cls]
			}
		}
	}
	return best
}

func (st *c10State) report(rep *kit.Report, t *c10Tree, path int, api, name string, scope, want c10Mask, got string, gotMask c10Mask, hasMask bool, single int, matches func(c10Mask) bool) {
	kind := st.classify(t, path, scope, single, matches)
	if kind == "" {
		kind = "predicate_mismatch"
	}
	d := fmt.Sprintf("%s on %s, condition %s (as sent: %s)\n  visible %s\n  want %s\n  got  %s", api, name, t.Text, t.expr[path].String(), c10MaskString(scope), c10MaskString(want), got)
	if hasMask {
		d += fmt.Sprintf("\n  missing %s extra %s", c10MaskString(want&^gotMask), c10MaskString(gotMask&^want))
	}
	st.violation(rep, kind, api+"|"+name+"|"+t.Text, d, t.Text)
}

// checkTree runs one tree through every search entry point on both measurements.
// full=false skips the text/cardinality variants (used for the 3-atom sweep).
func (st *c10State) checkTree(rep *kit.Report, t *c10Tree, full bool, single int) {
	defer st.enter()()
	leafTrue := func(_ int, a int) c10Mask { return c10AtomList[a].True }
	for _, m := range st.sweepMsts {
		name := c10Msts[m]
		scope := st.visible & c10MstMask[m]
		n := 0
		want := c10Eval(t.expr[c10PathRaw], &n, leafTrue) & scope
		bname := []byte(name)
		rep.Eval(1)
		if scope != 0 && want != 0 && want != scope {
			h := kit.Hash("P", fmt.Sprint(scope), t.Text)
			if st.wideTag != "" {
				h = kit.Hash("PW", st.wideTag, fmt.Sprint(scope), t.Text)
			}
			if rep.DistinctNontrivial(h) && single < 0 {
				rep.Sample(3, map[string]string{"state": st.label, "measurement": name, "predicate": t.Text,
					"visible": c10MaskString(scope), "expected": c10MaskString(want)})
			}
		}

		// (1) show path, ids
		ids, err := st.x.idx.SearchSeriesByTableAndCond(bname, t.expr[c10PathRaw], DefaultTR)
		got, merr := st.maskOfIDs(ids)
		if single >= 0 {
			st.atomObs[c10PathRaw][single] |= got
		}
		if err != nil || merr != nil {
			st.violation(rep, "search_error", "SearchSeriesByTableAndCond|"+name+"|"+t.Text, fmt.Sprintf("%v %v", err, merr), t.Text)
		} else if got != want {
			g := got
			st.report(rep, t, c10PathRaw, "SearchSeriesByTableAndCond", name, scope, want, c10MaskString(got), got, true, single, func(h c10Mask) bool { return h == g })
		}

		// (2) select path, ids (tag-filter cache, all-AND fast path)
		itr, err := st.x.idx.SearchSeriesIterator(nil, bname, &query.ProcessorOptions{Condition: t.expr[c10PathSel]})
		var sids []uint64
		if itr != nil && err == nil {
			sids = itr.Ids().AppendTo(nil)
		}
		sgot, merr := st.maskOfIDs(sids)
		if single >= 0 {
			st.atomObs[c10PathSel][single] |= sgot
		}
		if err != nil || merr != nil {
			st.violation(rep, "search_error", "SearchSeriesIterator|"+name+"|"+t.Text, fmt.Sprintf("%v %v", err, merr), t.Text)
		} else if sgot != want {
			g := sgot
			st.report(rep, t, c10PathSel, "SearchSeriesIterator", name, scope, want, c10MaskString(sgot), sgot, true, single, func(h c10Mask) bool { return h == g })
		} else {
			// the same predicate again, twice: the select path learns from the first evaluation (cost of a filter) and may
			// take another strategy (evaluate the series keys directly instead of intersecting id sets) from the second on
			for again := 2; again <= 3; again++ {
				// evaluation 3 runs with the pruning threshold at 0: whenever a cost is known for a filter the series keys are
				// evaluated directly ("prune") instead of intersecting id sets - in production that needs a measurement with more
				// than 10x the series the other filters select; both strategies must give the same answer
				savedThreshold := pruneThreshold
				if again == 3 {
					pruneThreshold = 0
				}
				// the cached result of the first evaluation must not answer the repeat (the cost learned by it stays)
				invalidateTagCache()
				itr2, err2 := st.x.idx.SearchSeriesIterator(nil, bname, &query.ProcessorOptions{Condition: t.expr[c10PathSel]})
				pruneThreshold = savedThreshold
				var sids2 []uint64
				if itr2 != nil && err2 == nil {
					sids2 = itr2.Ids().AppendTo(nil)
				}
				g2, merr2 := st.maskOfIDs(sids2)
				if err2 != nil || merr2 != nil {
					st.violation(rep, "search_error", fmt.Sprintf("SearchSeriesIterator(evaluation %d)|%s|%s", again, name, t.Text), fmt.Sprintf("%v %v", err2, merr2), t.Text)
					break
				}
				if g2 != want {
					g := g2
					st.report(rep, t, c10PathSel, fmt.Sprintf("SearchSeriesIterator(evaluation %d)", again), name, scope, want, c10MaskString(g2), g2, true, single, func(h c10Mask) bool { return h == g })
					break
				}
			}
		}

		// (3) show tag values with the condition
		tv, err := st.x.idx.SearchTagValues(bname, [][]byte{[]byte("host"), []byte("region")}, t.expr[c10PathRaw])
		if err != nil {
			st.violation(rep, "search_error", "SearchTagValues|"+name+"|"+t.Text, err.Error(), t.Text)
		} else {
			for i, tk := range []string{"host", "region"} {
				var gotv []string
				if tv != nil {
					gotv = append(gotv, tv[i]...)
					sort.Strings(gotv)
				}
				gs := strings.Join(gotv, "\x1f")
				if gs != strings.Join(c10TagValues(want, tk), "\x1f") {
					key := tk
					st.report(rep, t, c10PathRaw, "SearchTagValues("+tk+")", name, scope, want, fmt.Sprintf("%q, want values %q", gotv, c10TagValues(want, tk)), 0, false, single,
						func(h c10Mask) bool { return strings.Join(c10TagValues(h, key), "\x1f") == gs })
				}
			}
		}
		if !full {
			continue
		}

		// (4) show series (keys as text) and (5) series cardinality with the condition
		keys, err := st.x.idx.SearchSeriesKeys(nil, bname, t.expr[c10PathRaw])
		kgot, merr := st.maskOfTexts(keys)
		for _, b := range keys {
			influx.PutBytesBuffer(b)
		}
		if err != nil || merr != nil {
			st.violation(rep, "search_error", "SearchSeriesKeys|"+name+"|"+t.Text, fmt.Sprintf("%v %v", err, merr), t.Text)
		} else if kgot != want {
			g := kgot
			st.report(rep, t, c10PathRaw, "SearchSeriesKeys", name, scope, want, c10MaskString(kgot), kgot, true, single, func(h c10Mask) bool { return h == g })
		}
		c, err := st.x.idx.SeriesCardinality(bname, t.expr[c10PathRaw], DefaultTR)
		if err != nil {
			st.violation(rep, "search_error", "SeriesCardinality|"+name+"|"+t.Text, err.Error(), t.Text)
		} else if int(c) != c10Pop(want) {
			cc := int(c)
			st.report(rep, t, c10PathRaw, "SeriesCardinality", name, scope, want, fmt.Sprint(c), 0, false, single, func(h c10Mask) bool { return c10Pop(h) == cc })
		}
	}
}

var c10AtomTrees []*c10Tree

// atomSweep checks every one-atom predicate and records what the index answers for each atom.
func (st *c10State) atomSweep(rep *kit.Report, natoms int) {
	for p := 0; p < c10NPaths; p++ {
		st.atomObs[p] = make([]c10Mask, len(c10AtomList))
	}
	st.atomObsOK = false
	for a := 0; a < natoms; a++ {
		st.checkTree(rep, c10AtomTrees[a], true, a)
	}
	st.atomObsOK = true
}

func (st *c10State) guard(rep *kit.Report, what string, f func()) {
	defer func() {
		if r := recover(); r != nil {
			st.violation(rep, "panic", what, fmt.Sprint(r), "")
		}
	}()
	f()
}

// ---------------------------------------------------------------------------------------------
// history exploration

const (
	c10OpFlush   = c10NK
	c10OpClear   = c10NK + 1
	c10OpRestart = c10NK + 2
	c10OpReopen  = c10NK + 3
	c10NOps      = c10NK + 4
)

func c10OpName(op int) string {
	switch {
	case op < c10NK:
		return fmt.Sprintf("ins%d", op)
	case op == c10OpFlush:
		return "flush"
	case op == c10OpClear:
		return "clear"
	case op == c10OpRestart:
		return "restart"
	case op == c10OpReopen:
		return "reopen"
	}
	panic("op")
}

func c10OpByName(s string) int {
	for op := 0; op < c10NOps; op++ {
		if c10OpName(op) == s {
			return op
		}
	}
	panic("c10: unknown op " + s)
}

func c10OpNames(seq []int) []string {
	out := make([]string, len(seq))
	for i, op := range seq {
		out[i] = c10OpName(op)
	}
	return out
}

// model state used by the enumerator (no index needed)
type c10Model struct {
	inserted, pending, uncached c10Mask
	last                        int // last op, -1 at start
}

func (m c10Model) apply(op int) c10Model {
	n := m
	n.last = op
	switch {
	case op < c10NK:
		b := c10Mask(1) << uint(op)
		if m.inserted&b == 0 {
			n.inserted |= b
			n.pending |= b
		}
	case op == c10OpFlush, op == c10OpRestart, op == c10OpReopen:
		n.pending, n.uncached = 0, 0
	case op == c10OpClear:
		n.uncached = m.pending
	}
	return n
}

// noop: operations that provably leave the real state unchanged (the shorter sequence is explored anyway).
func (m c10Model) noop(op int) bool {
	switch {
	case op < c10NK:
		b := c10Mask(1) << uint(op)
		// re-insert of a series the lookup finds (flushed, or still cached): same lookup the id oracle
		// just did, nothing is written
		return m.inserted&b != 0 && m.uncached&b == 0
	case op == c10OpFlush:
		return m.pending == 0
	case op == c10OpClear:
		// caches were just dropped/recreated and only the (read-only) oracle ran since
		return m.last == -1 || m.last == c10OpClear || m.last == c10OpRestart || m.last == c10OpReopen
	}
	return false
}

// c10Enumerate calls f for every maximal sequence (length depth).
func c10Enumerate(depth int, prune bool, keys []int, f func(seq []int)) {
	ops := append([]int(nil), keys...)
	ops = append(ops, c10OpFlush, c10OpClear, c10OpRestart, c10OpReopen)
	var rec func(m c10Model, seq []int)
	rec = func(m c10Model, seq []int) {
		if len(seq) == depth {
			f(seq)
			return
		}
		for _, op := range ops {
			if prune && m.noop(op) {
				continue
			}
			rec(m.apply(op), append(seq, op))
		}
	}
	rec(c10Model{last: -1}, make([]int, 0, depth))
}

type c10Runner struct {
	rep     *kit.Report
	root    string
	n       int
	recheck map[string]int
	// prefixes at which a history was stopped by a violation that corrupts the state (second id for one
	// series ...): every extension fails at the same step in the same way, so it is run once per worker
	stopped map[string]bool
	skipped bool // the last runHistory call was such an extension and was not executed
}

// runHistory executes one sequence on a fresh index; returns the number of violations it added.
func (r *c10Runner) runHistory(seq []int, sweepEvery bool, tree string) (int64, []string) {
	rep := r.rep
	before := rep.NViolations
	r.skipped = false
	names := c10OpNames(seq)
	if r.stopped != nil {
		for i := 1; i <= len(names); i++ {
			if r.stopped[strings.Join(names[:i], ",")] {
				rep.Count("histories_skipped_extension_of_stopped_prefix", 1)
				r.skipped = true
				return 0, nil
			}
		}
	}
	r.n++
	dir := filepath.Join(r.root, fmt.Sprintf("h%d", r.n))
	if err := os.MkdirAll(dir, 0o755); err != nil {
		panic(err)
	}
	defer os.RemoveAll(dir)
	seqv := uint64(c10SeqSeed)
	st := c10NewState(c10Open(dir, 1, &seqv))
	closed := false
	defer func() {
		if !closed {
			func() {
				defer func() { _ = recover() }()
				st.x.close()
			}()
		}
	}()
	nontrivial := false
	sawInsert := false
	for step, op := range seq {
		st.label = "history " + strings.Join(names[:step+1], ",")
		cur := append([]string(nil), names[:step+1]...)
		st.replay = func(tree string) any { return c10Case{Kind: "history", Ops: cur, Tree: tree} }
		stop := false
		st.guard(rep, "op "+names[step], func() {
			switch {
			case op < c10NK:
				sawInsert = true
				bit := c10Mask(1) << uint(op)
				id, err := st.x.insert(op, false)
				rep.Eval(1)
				if err != nil || id == 0 {
					st.violation(rep, "insert_error", names[step], fmt.Sprintf("id %x err %v", id, err), "")
					stop = true
					return
				}
				if st.inserted&bit != 0 {
					if id != st.ids[op] {
						kind := "id_changed"
						if st.uncached&bit != 0 {
							// the series' items are still raw (unflushed) and the caches were dropped: lookup-before-create
							// sees neither
							kind = "second_id_after_cache_clear_before_flush"
						}
						st.violation(rep, kind, names[step], fmt.Sprintf("series %q had id %x, inserting it again returned %x", c10Render[op], st.ids[op], id), "")
						stop = true // the index now holds two ids for one series; nothing further to learn on this branch
					}
					return
				}
				for k := 0; k < c10NK; k++ {
					if st.ids[k] == id {
						st.violation(rep, "id_shared", names[step], fmt.Sprintf("new series %q got id %x which already belongs to %q", c10Render[op], id, c10Render[k]), "")
						stop = true
					}
				}
				st.ids[op] = id
				st.inserted |= bit
				st.pending |= bit
			case op == c10OpFlush:
				st.x.builder.Flush()
				st.pending, st.uncached = 0, 0
			case op == c10OpClear:
				if err := st.x.builder.ClearCache(); err != nil {
					st.violation(rep, "clear_cache_error", names[step], err.Error(), "")
				}
				st.uncached = st.pending
			case op == c10OpRestart:
				st.x.close()
				nseq := uint64(c10SeqSeed) // a restarted process seeds the counter again; the logical clock moved on
				st.x = c10Open(dir, st.x.clock+1, &nseq)
				st.pending, st.uncached = 0, 0
			case op == c10OpReopen:
				st.x.close()
				st.x.open()
				st.pending, st.uncached = 0, 0
			}
		})
		if op >= c10NK && sawInsert {
			nontrivial = true
		}
		if stop || rep.NViolations-before > 20 {
			if r.stopped != nil {
				r.stopped[strings.Join(names[:step+1], ",")] = true
			}
			break
		}
		rep.Count("transitions", 1)
		st.guard(rep, "oracle", func() {
			st.idOracle(rep)
			if !st.listing(rep) {
				stop = true
				return
			}
			if sweepEvery || step == len(seq)-1 {
				if tree == "" {
					st.atomSweep(rep, c10NBaseAtoms)
				} else if step == len(seq)-1 {
					// replay of one predicate: the per-atom observations are needed for the classification only
					st.atomSweep(kit.NewReport("C10-replay-scratch"), len(c10AtomList))
					st.kinds = nil
					st.checkTree(rep, c10NewTree(tree), true, -1)
				}
			}
		})
		if stop {
			break
		}
	}
	if nontrivial {
		if rep.DistinctNontrivial(kit.Hash("H", strings.Join(names, ","))) {
			rep.Sample(6, map[string]any{"history": names, "ids": fmt.Sprintf("%x", st.ids), "visible_at_end": c10MaskString(st.visible)})
		}
	}
	st.guard(rep, "close", func() { st.x.close() })
	closed = true
	return rep.NViolations - before, st.kinds
}

// ---------------------------------------------------------------------------------------------
// scenarios: fixed rich states for the big predicate sweeps

type c10Scenario struct {
	Name string
	Ops  []string
	// wide-row scenarios (c10_wide_test.go): measurement 2 with shared tag values, built and searched with
	// mergeindex.MaxTSIDsPerRow = Limit; Layout names the op list (states of one layout differ in the limit only)
	Wide   bool
	Layout string
	Limit  int
	Deep   bool // takes part in the three-atom sweep of the thorough tier
}

var c10Scenarios = []c10Scenario{
	{Name: "all_flushed", Ops: []string{"ins0", "ins1", "ins2", "ins3", "ins4", "ins5", "ins6", "ins7", "flush"}},
	{Name: "all_restarted", Ops: []string{"ins0", "ins1", "ins2", "ins3", "ins4", "ins5", "ins6", "ins7", "restart"}},
	{Name: "half_unflushed", Ops: []string{"ins0", "ins3", "ins5", "ins6", "flush", "ins1", "ins2", "ins4", "ins7"}},
	{Name: "part_per_series_cold", Ops: []string{"ins7", "flush", "ins5", "flush", "ins3", "flush", "ins1", "flush", "ins6", "flush", "ins4", "flush", "ins2", "flush", "ins0", "flush", "clear"}},
	{Name: "two_parts_reopened", Ops: []string{"ins1", "ins2", "ins6", "flush", "reopen", "ins0", "ins4", "ins3", "flush"}},
}

// buildScenario builds one fixed state.  With rep != nil a wide-row scenario runs the id and listing oracle after
// every flush/clear/restart/reopen of its op list (ids distinct and stable while rows are merged and split).
func (r *c10Runner) buildScenario(sc c10Scenario, rep *kit.Report) *c10State {
	dir := filepath.Join(r.root, "sc_"+sc.Name)
	_ = os.RemoveAll(dir)
	if err := os.MkdirAll(dir, 0o755); err != nil {
		panic(err)
	}
	seqv := new(uint64)
	*seqv = c10SeqSeed
	st := c10NewState(nil)
	st.label = "scenario " + sc.Name
	if sc.Wide {
		st.univ, st.listMsts, st.sweepMsts = c10WideUniv, c10WideListMsts, c10WideSweepMsts
		st.rowLimit, st.wideTag = sc.Limit, fmt.Sprintf("%s/%d", sc.Layout, sc.Limit)
	}
	defer st.enter()()
	st.x = c10Open(dir, 1, seqv)
	name := sc.Name
	st.replay = func(tree string) any { return c10Case{Kind: "scenario", Scenario: name, Tree: tree} }
	for i, o := range sc.Ops {
		op := c10OpByName(o)
		if op < c10NK && st.univ&(1<<uint(op)) == 0 {
			panic("c10: scenario " + sc.Name + " inserts a key outside its universe: " + o)
		}
		switch {
		case op < c10NK:
			id, err := st.x.insert(op, i%2 == 1) // alternate the two insert entry points
			if err != nil || id == 0 {
				panic(fmt.Sprintf("c10: scenario insert failed: %v", err))
			}
			for k := 0; k < c10NK; k++ {
				if st.ids[k] == id {
					if rep == nil {
						panic(fmt.Sprintf("c10: scenario %s: %s got the id of k%d", sc.Name, o, k))
					}
					st.violation(rep, "id_shared", o, fmt.Sprintf("new series %q got id %x which already belongs to %q", c10Render[op], id, c10Render[k]), "")
				}
			}
			st.ids[op] = id
			st.inserted |= 1 << uint(op)
			st.pending |= 1 << uint(op)
		case op == c10OpFlush:
			st.x.builder.Flush()
			st.pending = 0
		case op == c10OpClear:
			_ = st.x.builder.ClearCache()
		case op == c10OpRestart:
			st.x.close()
			nseq := uint64(c10SeqSeed)
			st.x = c10Open(dir, st.x.clock+1, &nseq)
			st.pending = 0
		case op == c10OpReopen:
			st.x.close()
			st.x.open()
			st.pending = 0
		}
		if sc.Wide && rep != nil && op >= c10NK && i < len(sc.Ops)-1 {
			// intermediate state of a wide-row scenario (the final state is checked by the caller)
			st.label = fmt.Sprintf("scenario %s after step %d (%s)", sc.Name, i+1, o)
			st.guard(rep, "scenario oracle", func() {
				st.idOracle(rep)
				st.listing(rep)
			})
			st.label = "scenario " + sc.Name
		}
	}
	return st
}

var c10Connectives = []string{"AND", "OR"}

// c10TwoAtomTexts: a o b, and the parenthesised spellings for a subset (parser/ParenExpr handling).
func c10TwoAtomTexts(f func(text string)) {
	for i := range c10AtomList[:c10NBaseAtoms] {
		for j := range c10AtomList[:c10NBaseAtoms] {
			for _, o := range c10Connectives {
				a, b := c10AtomList[i].Text, c10AtomList[j].Text
				f(a + " " + o + " " + b)
				if i < c10NCoreAtoms && j < c10NCoreAtoms && (i+j)%7 == 0 {
					f("(" + a + ") " + o + " (" + b + ")")
					f("(" + a + " " + o + " " + b + ")")
				}
			}
		}
	}
}

func c10ThreeAtomTexts(f func(text string) bool) {
	n := c10NCoreAtoms
	for i := 0; i < n; i++ {
		for j := 0; j < n; j++ {
			for k := 0; k < n; k++ {
				a, b, c := c10AtomList[i].Text, c10AtomList[j].Text, c10AtomList[k].Text
				for _, o1 := range c10Connectives {
					for _, o2 := range c10Connectives {
						if !f(a+" "+o1+" "+b+" "+o2+" "+c) || // precedence decided by the parser
							!f("("+a+" "+o1+" "+b+") "+o2+" "+c) ||
							!f(a+" "+o1+" ("+b+" "+o2+" "+c+")") {
							return
						}
					}
				}
			}
		}
	}
}

// ---------------------------------------------------------------------------------------------

func c10WritePathNote(rep *kit.Report) {
	var rs influx.PointRows
	err := rs.Unmarshal("m,host=,region=a f=1 1", false)
	kept := false
	if err == nil && len(rs.Rows) == 1 {
		for _, t := range rs.Rows[0].Tags {
			if t.Key == "host" {
				kept = true
			}
		}
	}
	rep.Note("write path: line protocol 'm,host=,region=a f=1' parsed with err=%v, empty-valued tag kept=%v (dropped => equals the series lacking the tag, which K contains)", err, kept)
}

func TestVerifC10(t *testing.T) {
	rep := kit.NewReport("C10")
	defer rep.Save()
	_ = logger.SetLevel("error")
	// Only the cache *sizes* are configured (32 MB each instead of a fraction of the machine's memory, which
	// costs milliseconds per open); everything else is the default configuration GetIndexConfig() returns.
	config.SetIndexConfig(&config.Index{TSIDCacheSize: 32 << 20, SKeyCacheSize: 32 << 20, TagCacheSize: 32 << 20,
		TagFilterCostCacheSize: 32 << 20, CacheCompressEnable: true})
	c10InitKeys()
	c10InitAtoms()
	for _, a := range c10AtomList {
		c10AtomTrees = append(c10AtomTrees, c10NewTree(a.Text))
	}
	r := &c10Runner{rep: rep, root: filepath.Join(kit.Scratch(), "c10"), recheck: map[string]int{}, stopped: map[string]bool{}}
	if err := os.MkdirAll(r.root, 0o755); err != nil {
		t.Fatal(err)
	}

	if kit.ReplayPath() != "" {
		var c c10Case
		if err := kit.LoadReplay(&c); err != nil {
			t.Fatal(err)
		}
		switch c.Kind {
		case "history":
			seq := make([]int, len(c.Ops))
			for i, o := range c.Ops {
				seq[i] = c10OpByName(o)
			}
			// a history recorded without a predicate failed in an operation or in the id/listing oracle
			r.stopped = nil
			if c.Tree == "" {
				c.Tree = "host = 'a'"
			}
			r.runHistory(seq, false, c.Tree)
		case "scenario":
			var sts []*c10State
			var scs []c10Scenario
			for _, want := range []string{c.Versus, c.Scenario} {
				for _, sc := range c10AllScenarios(true) {
					if sc.Name != want {
						continue
					}
					st := r.buildScenario(sc, rep)
					st.idOracle(rep)
					st.listing(rep)
					if c.Tree == "" {
						st.atomSweep(rep, st.natoms())
					} else {
						st.atomSweep(kit.NewReport("C10-replay-scratch"), len(c10AtomList))
						st.checkTree(rep, c10NewTree(c.Tree), true, -1)
					}
					sts, scs = append(sts, st), append(scs, sc)
				}
			}
			if c.Versus != "" {
				c10RowLimitDifferential(rep, sts, scs)
			}
			for _, st := range sts {
				st.close()
			}
		default:
			t.Fatalf("unknown replay kind %q", c.Kind)
		}
		return
	}

	if kit.Shard() == 0 {
		c10WritePathNote(rep)
		c10WideNote(rep)
	}
	phase := os.Getenv("VERIF_C10_PHASE") // debugging aid: "hist" or "pred" runs one part only
	if phase != "hist" {
		c10RunPredicates(r, rep, kit.Thorough())
	}
	if phase != "pred" {
		c10RunHistories(r, rep, kit.Thorough())
	}
}

// c10RunPredicates: part 2, predicate sweeps on the scenarios (trees sharded over the workers; every
// worker builds its own copy of every scenario).
func c10RunPredicates(r *c10Runner, rep *kit.Report, thorough bool) {
	var states []*c10State
	var scs []c10Scenario
	nwide := int64(0)
	for _, sc := range c10AllScenarios(thorough) {
		if sc.Wide && sc.Limit != mergeindex.MaxTSIDsPerRow && !mergeindex.VerifMaxTSIDsPerRowSettable {
			rep.Max("max_row_limit_not_settable", 1) // c10.py did not find the constant: these states would equal the limit-64 ones
			continue
		}
		st := r.buildScenario(sc, rep)
		st.guard(rep, "scenario oracle", func() {
			st.idOracle(rep)
			st.listing(rep)
			st.atomSweep(rep, st.natoms()) // every worker needs the per-atom observations
		})
		if sc.Wide {
			nwide++
		}
		states, scs = append(states, st), append(scs, sc)
	}
	rep.Max("max_scenario_states", int64(len(states)))
	rep.Max("max_wide_row_states", nwide)
	c10RowLimitDifferential(rep, states, scs)
	idx := 0
	ntrees := int64(0)
	c10TwoAtomTexts(func(text string) {
		mine := kit.Mine(idx)
		idx++
		if !mine {
			return
		}
		ntrees++
		tr := c10NewTree(text)
		for _, st := range states {
			st.guard(rep, "tree "+text, func() { st.checkTree(rep, tr, true, -1) })
		}
	})
	rep.Count("trees_2_atoms", ntrees)
	rep.Max("max_trees_1_atom", int64(c10NBaseAtoms))
	// two-atom trees with a wide-only atom, on the wide-row states
	nw := int64(0)
	c10WideExtTexts(func(text string) {
		mine := kit.Mine(idx)
		idx++
		if !mine {
			return
		}
		nw++
		tr := c10NewTree(text)
		for i, st := range states {
			if scs[i].Wide {
				st.guard(rep, "tree "+text, func() { st.checkTree(rep, tr, true, -1) })
			}
		}
	})
	rep.Count("trees_2_atoms_wide_only", nw)
	rep.Max("max_trees_1_atom_wide_states", int64(len(c10AtomList)))
	if thorough {
		n3 := int64(0)
		cut := false
		c10ThreeAtomTexts(func(text string) bool {
			mine := kit.Mine(idx)
			idx++
			if !mine {
				return true
			}
			if n3%512 == 0 && rep.Expired() {
				cut = true
				return false
			}
			n3++
			tr := c10NewTree(text)
			for i, st := range states {
				if scs[i].Wide && !scs[i].Deep {
					continue
				}
				st.guard(rep, "tree "+text, func() { st.checkTree(rep, tr, true, -1) })
			}
			return true
		})
		rep.Count("trees_3_atoms", n3)
		if cut {
			rep.Cut("3-atom sweep cut by the deadline")
		}
	}
	for _, st := range states {
		st.guard(rep, "close scenario", func() { st.close() })
	}
}

type c10Plan struct {
	Keys  []int
	Depth int
}

// c10RunHistories: part 1.
func c10RunHistories(r *c10Runner, rep *kit.Report, thorough bool) {
	all := []int{0, 1, 2, 3, 4, 5, 6, 7}
	plans := []c10Plan{{all, 4}}
	if thorough {
		plans = []c10Plan{{all, 5}, {[]int{0, 3, 5, 6, 7}, 6}}
	}
	if v := os.Getenv("VERIF_C10_DEPTH"); v != "" { // debugging aid
		var d int
		fmt.Sscan(v, &d)
		plans = []c10Plan{{all, d}}
	}
	i := 0
	done := int64(0)
	for _, pl := range plans {
		rep.Max("max_history_depth", int64(pl.Depth))
		c10Enumerate(pl.Depth, true, pl.Keys, func(seq []int) {
			mine := kit.Mine(i)
			i++
			if !mine || rep.Expired() {
				return
			}
			s := append([]int(nil), seq...)
			nv, kinds := r.runHistory(s, !thorough, "")
			if r.skipped {
				return
			}
			done++
			if nv > 0 && len(kinds) > 0 && r.recheck[kinds[0]] < 3 {
				// determinism rule: a failing history must fail the same way when re-executed from scratch
				r.recheck[kinds[0]]++
				rr := &c10Runner{rep: kit.NewReport("C10-recheck"), root: r.root, n: 1 << 20}
				nv2, kinds2 := rr.runHistory(s, !thorough, "")
				if nv2 != nv || strings.Join(kinds, ",") != strings.Join(kinds2, ",") {
					panic(fmt.Sprintf("c10: history %v is not deterministic: %d %v then %d %v", c10OpNames(s), nv, kinds, nv2, kinds2))
				}
				rep.Count("violating_histories_reexecuted_same_verdict", 1)
			}
		})
	}
	rep.Count("histories", done)
	rep.Count("states", done) // final states of maximal histories; intermediate states are counted as transitions
	if rep.Expired() {
		rep.Cut("history exploration cut by the deadline")
	}
}
