//go:build verif

package engine

import (
	"context"
	"fmt"
	"os"
	"runtime"
	"sort"
	"strings"
	"sync"
	"sync/atomic"
	"testing"
	"testing/synctest"
	"time"

	"github.com/openGemini/openGemini/engine/immutable"
	"github.com/openGemini/openGemini/engine/index/tsi"
	"github.com/openGemini/openGemini/lib/cpu"
	"github.com/openGemini/openGemini/lib/util/lifted/vm/protoparser/influx"
	kit "github.com/openGemini/openGemini/lib/verifkit"
	"github.com/openGemini/openGemini/lib/verifkit/crashfs"
	"github.com/openGemini/openGemini/lib/verifkit/sched"
	"github.com/savsgio/dictpool"
)

// C04: concurrent writes, flushes, compactions, queries. Real goroutines under the controlled
// scheduler (lock acquisitions of engine, engine/immutable, engine/mutable, lib/scheduler are
// scheduling points); all schedules up to a preemption bound.

type c04Write struct {
	ID         int
	Pts        []vPoint
	Start, Ack int // logical event numbers; Ack = 0 while in flight, -1 if the write returned an error
}

type c04Dump struct {
	Start, End int
	Got        map[vKey]map[string]vVal
	Shape      []string
	Err        string
}

// c04Log is the per-execution observation log. Threads run one at a time (scheduler token), so a
// plain counter orders the events.
type c04Log struct {
	mu     sync.Mutex // only contended in the free-running race pass
	ev     int
	writes []*c04Write
	dumps  []*c04Dump
	drops  []*c04Drop
	notes  []string
}

// c04Drop is one DropMeasurement call of a scenario thread (logical event numbers; End = 0 while in flight).
type c04Drop struct {
	Mst        string
	Start, End int
	Err        string
}

func (l *c04Log) drop(v *vShard, mst string) {
	d := &c04Drop{Mst: mst, Start: l.tick()}
	l.mu.Lock()
	l.drops = append(l.drops, d)
	l.mu.Unlock()
	if err := v.sh.DropMeasurement(context.Background(), mst); err != nil {
		d.Err = err.Error()
	}
	d.End = l.tick()
}

// dropStartedBefore: some drop of measurement mst began before logical time at. From that moment on the
// statement allows rows of that measurement to be absent ("never see a point disappear" speaks of points that
// were not dropped), so the oracle stops demanding presence and monotonicity; it keeps demanding that whatever
// IS returned was written (no invented, torn or superseded value, no duplicate).
func (l *c04Log) dropStartedBefore(mst string, at int) bool {
	for _, d := range l.drops {
		if d.Mst == mst && d.Start < at {
			return true
		}
	}
	return false
}

func (l *c04Log) tick() int {
	l.mu.Lock()
	defer l.mu.Unlock()
	l.ev++
	return l.ev
}

func (l *c04Log) write(v *vShard, id int, pts []vPoint) {
	w := &c04Write{ID: id, Pts: pts, Start: l.tick()}
	l.mu.Lock()
	l.writes = append(l.writes, w)
	l.mu.Unlock()
	if err := v.Write(pts); err != nil {
		w.Ack = -1
		l.tick()
		l.mu.Lock()
		l.notes = append(l.notes, fmt.Sprintf("write %d failed: %v", id, err))
		l.mu.Unlock()
		return
	}
	w.Ack = l.tick()
}

func (l *c04Log) preload(id int, pts []vPoint) {
	l.writes = append(l.writes, &c04Write{ID: id, Pts: pts, Start: 0, Ack: 0})
}

func (l *c04Log) dump(v *vShard) {
	d := &c04Dump{Start: l.tick()}
	l.mu.Lock()
	l.dumps = append(l.dumps, d)
	l.mu.Unlock()
	got := map[vKey]map[string]vVal{}
	for _, mst := range []string{"m"} {
		g, shape, err := v.Dump(vFullDumpQuery(mst))
		if err != nil {
			d.Err = err.Error()
			break
		}
		d.Shape = append(d.Shape, shape...)
		for k, fs := range g {
			got[k] = fs
		}
	}
	d.Got = got
	d.End = l.tick()
}

// definitelyBefore: a returned before b started.
func c04Before(a, b *c04Write) bool {
	return a.Ack >= 0 && a.Start != a.Ack && a.Ack < b.Start || (a.Start == 0 && a.Ack == 0 && b.Start > 0)
}

// c04Check evaluates the oracle of DESIGN.md C04 on the log. closing = the shard was being closed
// concurrently (reads may fail; writes may fail).
func (l *c04Log) check(closing bool) []string {
	var bad []string
	// candidates per key/field: writes carrying it
	type wv struct {
		w *c04Write
		v vVal
	}
	cands := map[vKey]map[string][]wv{}
	for _, w := range l.writes {
		if w.Ack == -1 {
			continue
		}
		for _, p := range w.Pts {
			if cands[p.K] == nil {
				cands[p.K] = map[string][]wv{}
			}
			for n, v := range p.V {
				cands[p.K][n] = append(cands[p.K][n], wv{w, v})
			}
		}
	}
	acked := func(w *c04Write, at int) bool { return w.Ack >= 0 && (w.Start == 0 || (w.Ack != 0 && w.Ack < at)) }
	started := func(w *c04Write, at int) bool { return w.Start < at }
	for di, d := range l.dumps {
		if d.Err != "" {
			// a query that overlaps a drop of its measurement may be refused ("tssp file closed"): the statement asks
			// that dropping with operations in flight "neither deadlocks nor crashes", not that those operations succeed
			if !closing && !l.dropStartedBefore("m", d.End) {
				bad = append(bad, fmt.Sprintf("dump %d failed: %s", di, d.Err))
			}
			continue
		}
		if d.End == 0 {
			continue // never finished (panic elsewhere)
		}
		if len(d.Shape) > 0 {
			bad = append(bad, fmt.Sprintf("dump %d: %s", di, strings.Join(d.Shape, "; ")))
		}
		for k, fields := range cands {
			if k.Mst != "m" {
				continue
			}
			for n, ws := range fields {
				gv, present := d.Got[k][n]
				// must be present if some write carrying it was acked before the dump started
				must := false
				for _, c := range ws {
					if acked(c.w, d.Start) {
						must = true
					}
				}
				if !present {
					if must && !closing && !l.dropStartedBefore(k.Mst, d.End) {
						bad = append(bad, fmt.Sprintf("dump %d [%d,%d]: %v.%s missing although acknowledged before the dump started", di, d.Start, d.End, k, n))
					}
					continue
				}
				ok := false
				for _, c := range ws {
					if c.v != gv || !started(c.w, d.End) {
						continue
					}
					// not superseded: no other write to the key/field that began after c returned and was acked before the dump started
					superseded := false
					for _, o := range ws {
						if o.w != c.w && c04Before(c.w, o.w) && acked(o.w, d.Start) {
							superseded = true
						}
					}
					if !superseded {
						ok = true
					}
				}
				if !ok {
					bad = append(bad, fmt.Sprintf("dump %d [%d,%d]: %v.%s = %v is not an admissible value (%s)", di, d.Start, d.End, k, n, gv, c04Cands(ws)))
				}
			}
		}
		for k, fs := range d.Got {
			for n, gv := range fs {
				if _, okk := cands[k][n]; !okk {
					bad = append(bad, fmt.Sprintf("dump %d: %v.%s = %v was never written", di, k, n, gv))
				}
			}
		}
		// monotonic reads of one client
		if !closing && di > 0 && l.dumps[di-1].Err == "" && l.dumps[di-1].End != 0 {
			for k := range l.dumps[di-1].Got {
				if _, still := d.Got[k]; !still && !l.dropStartedBefore(k.Mst, d.End) {
					bad = append(bad, fmt.Sprintf("dump %d: row %v seen by the previous dump disappeared", di, k))
				}
			}
		}
	}
	sort.Strings(bad)
	return bad
}

func c04Cands[T any](ws []T) string { return fmt.Sprintf("%d candidate writes", len(ws)) }

// ---- scenarios ----------------------------------------------------------------------------------

type c04Scenario struct {
	Name    string
	Preload []string // ops applied serially before the concurrent phase (write ids 1..)
	Threads func(v *vShard, l *c04Log) map[string]func()
	Closing bool
	// Setup runs after the preload and before the threads are created; the function it returns runs right after
	// the concurrent phase (before the final dump and Close).
	Setup func(v *vShard) func()
	// Seam != nil: delay-bounded exploration of a seam (see c04Seam). nil: every lock acquisition of the four
	// rewritten packages is a preemption point and non-preemptive switches are unbounded.
	Seam *c04Seam
}

// c04Seam restricts the exploration of a scenario whose schedule space is too large for "every schedule with <= b
// preemptions" (two flushes with their helper goroutines give > 1000 schedules WITHOUT any preemption):
//   - the deterministic scheduler that choice 0 follows is family-first (an operation and the goroutines it
//     spawned run to the end before another operation continues);
//   - a switch at a point where the running thread blocked or finished (not a preemption) to a thread other than
//     the one the deterministic scheduler would take is a "free deviation"; at most Free[tier] of them per
//     execution (delay bounding);
//   - preemptions are offered only where the thread to be pre-empted is about to acquire a lock inside one of
//     the functions Funcs (suffix match on the function name of the call site of Lock/RLock);
//   - Timers explicit "a timer fires now" choices (0 for the snapshot scenarios; timers still fire when nothing is
//     enabled).
//
// Inside these limits the enumeration is complete when the scenario reports its bound as completed; nothing
// outside them is claimed.
type c04Seam struct {
	Funcs     []string // nil: preemptions everywhere
	FreeQuick int
	FreeDeep  int
	Timers    int // explicit "a timer fires now" choices per execution (each costs one preemption)
	siteCache map[uintptr]bool
}

func (sm *c04Seam) accepts(pc uintptr) bool {
	if v, ok := sm.siteCache[pc]; ok {
		return v
	}
	fn := sched.SiteFunc(pc)
	ok := false
	for _, f := range sm.Funcs {
		if strings.HasSuffix(fn, f) {
			ok = true
		}
	}
	if sm.siteCache == nil {
		sm.siteCache = map[uintptr]bool{}
	}
	sm.siteCache[pc] = ok
	return ok
}

func c04NewExplorer(sc c04Scenario, share, nshare int) *sched.Explorer {
	e := &sched.Explorer{Share: share, NShare: nshare, TimeChoices: 1}
	if sm := sc.Seam; sm != nil {
		e.TimeChoices = sm.Timers
		e.FamilyFirst = true
		e.FreeLimited = true
		e.FreeBound = sm.FreeQuick
		if kit.Thorough() {
			e.FreeBound = sm.FreeDeep
		}
		if f := kit.Getenv("VERIF_FREE", ""); f != "" {
			fmt.Sscanf(f, "%d", &e.FreeBound)
		}
		if e.FreeBound < 0 {
			e.FreeLimited = false // every switch at blocking/finishing points
		}
		if len(sm.Funcs) > 0 {
			e.PreemptSite = sm.accepts
		}
	}
	return e
}

func c04Gen(name string, id int) []vPoint { return vWriteMenu[vWriteIndex(name)].Gen(id) }

var c04Scenarios = []c04Scenario{
	{Name: "S1_write_flush_read", Preload: []string{"We"},
		Seam: &c04Seam{FreeQuick: 1, FreeDeep: -1, Timers: 1},
		Threads: func(v *vShard, l *c04Log) map[string]func() {
			return map[string]func(){
				"1writer": func() { l.write(v, 10, c04Gen("Wa", 10)); l.write(v, 11, c04Gen("Wc", 11)) },
				"2flush":  func() { v.Flush() },
				"3reader": func() { l.dump(v); l.dump(v) },
			}
		}},
	{Name: "S2_read_compact_flush", Preload: []string{"Wa", "F", "We", "F", "Wd"},
		Seam: &c04Seam{FreeQuick: 1, FreeDeep: 2, Timers: 1}, // unbounded free switches: > 165 k executions at one preemption
		Threads: func(v *vShard, l *c04Log) map[string]func() {
			return map[string]func(){
				"1compact": func() { _ = v.LevelCompact() },
				"2flush":   func() { v.Flush() },
				"3reader":  func() { l.dump(v); l.dump(v) },
			}
		}},
	{Name: "S3_read_merge_write", Preload: []string{"We", "F", "Wd", "F"},
		Seam: &c04Seam{FreeQuick: 1, FreeDeep: -1, Timers: 1},
		Threads: func(v *vShard, l *c04Log) map[string]func() {
			return map[string]func(){
				"1merge":  func() { _ = v.MergeOOO(true) },
				"2writer": func() { l.write(v, 10, c04Gen("Wd", 10)) },
				"3reader": func() { l.dump(v); l.dump(v) },
			}
		}},
	{Name: "S5_two_writers_read", Preload: []string{"We"},
		Threads: func(v *vShard, l *c04Log) map[string]func() {
			return map[string]func(){
				"1writerA": func() { l.write(v, 10, c04Gen("Wa", 10)) },
				"2writerB": func() { l.write(v, 20, c04Gen("Wc", 20)) },
				"3reader":  func() { l.dump(v); l.dump(v) },
			}
		}},
	{Name: "S4a_write_close", Preload: []string{"We"}, Closing: true,
		Threads: func(v *vShard, l *c04Log) map[string]func() {
			return map[string]func(){
				"1writer": func() { l.write(v, 10, c04Gen("Wa", 10)) },
				"2close":  func() { _ = v.sh.Close() },
			}
		}},
	{Name: "S4b_read_close", Preload: []string{"We", "F", "Wa"}, Closing: true,
		Threads: func(v *vShard, l *c04Log) map[string]func() {
			return map[string]func(){
				"1reader": func() { l.dump(v) },
				"2close":  func() { _ = v.sh.Close() },
			}
		}},
	{Name: "S4c_flush_close", Preload: []string{"We", "F", "Wa"}, Closing: true,
		Seam: &c04Seam{FreeQuick: 1, FreeDeep: -1, Timers: 1},
		Threads: func(v *vShard, l *c04Log) map[string]func() {
			return map[string]func(){
				"1flush": func() { v.Flush() },
				"2close": func() { _ = v.sh.Close() },
			}
		}},
	{Name: "S4d_drop_close", Preload: []string{"We", "F", "Wa"}, Closing: true,
		Seam: &c04Seam{FreeQuick: 1, FreeDeep: -1, Timers: 1},
		Threads: func(v *vShard, l *c04Log) map[string]func() {
			return map[string]func(){
				"1drop":  func() { _ = v.sh.DropMeasurement(context.Background(), "m") },
				"2close": func() { _ = v.sh.Close() },
			}
		}},
}

type c04Case struct {
	Scenario string `json:"scenario"`
	Choices  []int  `json:"choices"`
	Schedule string `json:"schedule"`
}

var c04Progress atomic.Int64

// c04FileGC is the goroutine id of the in-bubble file collector service (see c04Main).
var c04FileGC int64

// c04Body runs one execution of a scenario under x; returns violations (kind, detail).
var c04ExecSeq int

// c04AfterPreload: diagnostic hook of the determinism probe.
var c04AfterPreload func(v *vShard)
var c04KeepDir bool

func c04Body(sc c04Scenario, baseDir string, x *sched.Exec) (kind, detail string, fatal bool) {
	// no state may flow from one execution into the next: forget the files the collector still has queued
	defer immutable.VerifDrainTableGC()
	if sched.Trace {
		fmt.Printf("SCHED-TRACE ==== execution %d\n", c04ExecSeq+1)
	}
	// a fresh path per execution: process-global caches keyed by file path (chunk meta, readers) must not
	// carry state from one execution into the next (executions must be replayable)
	c04ExecSeq++
	vClock = 0 // same series ids in every execution (bloom filters and id-ordered iteration depend on them)
	dir := fmt.Sprintf("%s-%d", baseDir, c04ExecSeq)
	if !c04KeepDir {
		defer os.RemoveAll(dir)
	}
	v, err := vOpenShard(dir)
	if err != nil {
		return "harness_open_error", err.Error(), true
	}
	if err := c04PrecreateSeries(v); err != nil {
		return "harness_preload_error", err.Error(), true
	}
	m := vModel{}
	l := &c04Log{}
	for i, op := range sc.Preload {
		if err := vApply(v, m, op, i+1); err != nil {
			return "harness_preload_error", err.Error(), true
		}
		if wi := vWriteIndex(op); wi >= 0 {
			l.preload(i+1, vWriteMenu[wi].Gen(i+1))
		}
	}
	if c04AfterPreload != nil {
		c04AfterPreload(v)
	}
	teardown := func() {}
	if sc.Setup != nil {
		td := sc.Setup(v)
		done := false
		teardown = func() {
			if !done {
				done = true
				td()
			}
		}
	}
	defer teardown()
	ths := sc.Threads(v, l)
	names := make([]string, 0, len(ths))
	for n := range ths {
		names = append(names, n)
	}
	sort.Strings(names)
	for _, n := range names {
		x.Thread(n, ths[n])
	}
	x.Adopt(c04FileGC, "filegc")
	x.Run()
	teardown()
	c04Progress.Add(1)
	if len(x.Panics) > 0 {
		return "panic_in_concurrent_phase", x.Panics[0], true
	}
	if x.Deadlock != "" {
		return "deadlock", x.Deadlock, true
	}
	if strings.HasPrefix(x.Err, "replay diverged") {
		_ = v.Close()
		return "", "", false // handled by the explorer (counted, subtree skipped)
	}
	if x.Err != "" {
		return "harness_scheduler_error", x.Err, true
	}
	if bad := l.check(sc.Closing); len(bad) > 0 {
		_ = v.Close()
		return c04Classify(bad), strings.Join(bad, "; "), false
	}
	if !sc.Closing {
		// after all threads joined: one more dump must satisfy the same oracle with every write acked
		l.dump(v)
		if bad := l.check(false); len(bad) > 0 {
			_ = v.Close()
			return "final_state_" + c04Classify(bad), strings.Join(bad, "; "), false
		}
		if err := v.Close(); err != nil {
			return "close_error", err.Error(), false
		}
	} else {
		_ = v.sh.indexBuilder.Close()
		v.sh = nil
	}
	return "", "", false
}

// c04PrecreateSeries creates the series of the scenario alphabet in the index one at a time, in a fixed order,
// before the preload. Without it the first batch that carries two new series (We: host=a and host=b) hands them to
// two different queue goroutines of the mergeset index (engine/index/tsi, hash-partitioned, not under the
// scheduler), which race for the next sequence number: in 1.5-10 % of the executions the two series ids came out
// swapped. Series ids order the chunks inside every TSSP file, so a merge then walks the series in the other order
// (WriteOriginal for b before/after the column-wise merge of a) and a recorded prefix of choices no longer meets
// the same points - the "replay divergence" of S3. A series that exists in the index before its first point is an
// ordinary state (all points expired or dropped); no scenario thread creates a series concurrently (every
// concurrent write goes to host=a, which every preload has written).
func c04PrecreateSeries(v *vShard) error {
	for _, h := range vHosts {
		rows := []influx.Row{vRow(vPoint{K: vKey{"m", h, vT(1)}, V: map[string]vVal{"f": vFloat(0)}})}
		var d dictpool.Dict
		d.Set("m", &rows)
		if err := v.sh.indexBuilder.CreateIndexIfNotExists(&d, true); err != nil {
			return err
		}
	}
	v.IndexBarrier()
	return nil
}

func c04Classify(bad []string) string {
	all := strings.Join(bad, ";")
	switch {
	case strings.Contains(all, "missing although acknowledged"):
		return "acked_point_not_returned"
	case strings.Contains(all, "disappeared"):
		return "point_disappeared_between_reads"
	case strings.Contains(all, "duplicate timestamp") || strings.Contains(all, "returned twice"):
		return "duplicate_row"
	case strings.Contains(all, "never written") || strings.Contains(all, "not an admissible value"):
		return "torn_or_stale_value"
	case strings.Contains(all, "failed"):
		return "read_failed"
	}
	return "concurrent_read_mismatch"
}

func TestVerifC04(t *testing.T) {
	rep := kit.NewReport("C04")
	// real-time watchdog outside the bubble: a scheduling step that does not settle is a tool error
	go func() {
		last, lastT := int64(-1), time.Now()
		for {
			time.Sleep(5 * time.Second)
			if p := c04Progress.Load(); p != last {
				last, lastT = p, time.Now()
				continue
			}
			if time.Since(lastT) > 180*time.Second {
				buf := make([]byte, 1<<20)
				buf = buf[:runtime.Stack(buf, true)]
				fmt.Fprintf(os.Stderr, "WATCHDOG: no progress for 180s\n%s\n", buf)
				os.Exit(3)
			}
		}
	}()
	synctest.Test(t, func(t *testing.T) {
		c04Main(t, rep)
		rep.Save()
		os.Exit(0) // background goroutines of closed shards may still sit in the bubble
	})
}

func c04Main(t *testing.T, rep *kit.Report) {
	vSetupEngineKnobs()
	immutable.VerifNoRateLimits()
	c04FileGC = sched.SpawnService(immutable.VerifNewTableGC())
	vWalSyncInline = true
	cpu.SetCpuNum(2, 1) // 2 WAL partitions: fewer switch goroutines, same code paths
	sched.Debug = kit.Getenv("VERIF_SCHED_DEBUG", "") != ""
	sched.Trace = kit.Getenv("VERIF_SCHED_TRACE", "") != ""
	scratch := kit.Scratch()
	dir := vMkdir(scratch, "sh")
	if kit.ReplayPath() != "" {
		var c c04Case
		if err := kit.LoadReplay(&c); err != nil {
			t.Fatal(err)
		}
		for _, sc := range c04Scenarios {
			if sc.Name != c.Scenario {
				continue
			}
			e := c04NewExplorer(sc, 0, 1)
			x := e.Replay(c.Choices, func(x *sched.Exec) {
				if kind, detail, _ := c04Body(sc, dir, x); kind != "" {
					rep.Violation(kind, sc.Name+" "+x.Schedule(), detail, c)
				}
			})
			rep.Eval(1)
			rep.Note("replayed %d points, schedule %s", len(x.Points), x.Schedule())
		}
		return
	}
	if n := kit.Getenv("VERIF_DETERMINISM_PROBE", ""); n != "" {
		// run the default schedule of one scenario N times and compare the point signatures
		var cnt int
		fmt.Sscanf(n, "%d", &cnt)
		for _, sc := range c04Scenarios {
			if sc.Name != kit.Getenv("VERIF_SCENARIO", "S3_read_merge_write") {
				continue
			}
			var base []string
			baseListing := ""
			c04AfterPreload = func(v *vShard) {
				idx, _ := v.sh.indexBuilder.GetPrimaryIndex().(*tsi.MergeSetIndex)
				out := ""
				for _, h := range vHosts {
					r := vRow(vPoint{K: vKey{"m", h, vT(1)}, V: map[string]vVal{"f": vFloat(1)}})
					sid, err := idx.GetSeriesIdBySeriesKey(r.IndexKey)
					out += fmt.Sprintf(" %s=%d(%v)", h, sid, err)
				}
				fmt.Printf("PROBE exec %d sids:%s layout %s\n", c04ExecSeq, out, v.Layout())
			}
			for i := 0; i < cnt; i++ {
				e := c04NewExplorer(sc, 0, 1)
				c04KeepDir = true
				x := e.Replay(nil, func(x *sched.Exec) { c04Body(sc, dir, x) })
				listing := strings.Join(crashfs.Listing(fmt.Sprintf("%s-%d/data", dir, c04ExecSeq)), " ")
				_ = os.RemoveAll(fmt.Sprintf("%s-%d", dir, c04ExecSeq))
				if i == 0 {
					fmt.Printf("PROBE base listing: %s\n", listing)
					baseListing = listing
				} else if listing != baseListing {
					fmt.Printf("PROBE run %d listing differs: %s\n", i, listing)
				}
				sigs := make([]string, len(x.Points))
				for j := range x.Points {
					sigs[j] = x.Points[j].Sig
				}
				if base == nil {
					base = sigs
					continue
				}
				for j := range sigs {
					if j >= len(base) || sigs[j] != base[j] {
						fmt.Printf("PROBE run %d differs from run 0 at point %d (exec %d):\n  base %s\n  this %s\n", i, j, c04ExecSeq, base[j], sigs[j])
						break
					}
				}
			}
		}
		return
	}
	bound := 1
	if kit.Thorough() {
		bound = 2
	}
	if b := kit.Getenv("VERIF_BOUND", ""); b != "" {
		fmt.Sscanf(b, "%d", &bound)
	}
	only := kit.Getenv("VERIF_SCENARIO", "")
	// Work distribution: every worker explores every scenario; the level-1 subtrees (first deviation from the
	// default schedule) of each scenario are dealt round-robin to the workers. Bounds are iterated over all
	// scenarios (all at bound 0, then all at bound 1, ...) and at the last bound every scenario gets an equal
	// share of the remaining time, so that a cut run has looked at every scenario.
	var scs []c04Scenario
	for _, sc := range c04Scenarios {
		if only == "" || sc.Name == only {
			scs = append(scs, sc)
		}
	}
	exps := make([]*sched.Explorer, len(scs))
	for i := range scs {
		exps[i] = c04NewExplorer(scs[i], kit.Shard(), kit.NShard())
	}
	// Time budget per bound (cumulative fractions of the deadline at which the pass over all scenarios at that bound ends):
	// without it the last scenario of a pass, which has no successor to leave time for, can consume the whole run at a
	// low bound (thorough: S2 at bound 1 with unbounded free switches ran 165 k executions and bound 2 never started).
	passEnd := func(b int) float64 {
		dl := float64(rep.DeadlineSeconds())
		switch {
		case b >= bound:
			return dl
		case b == 0:
			return dl * 0.08
		default:
			return dl * (0.08 + 0.42*float64(b)/float64(bound-1))
		}
	}
	for b := 0; b <= bound; b++ {
		for i, sc := range scs {
			var until float64
			if dl := rep.DeadlineSeconds(); dl > 0 {
				left := passEnd(b) - rep.RealSeconds()
				until = rep.RealSeconds() + left/float64(len(scs)-i)
			}
			exps[i].Restart()
			c04Explore(rep, sc, dir, exps[i], b, until)
			if rep.NViolations > 0 {
				rep.Cut("stopped at the first violation of this worker (the instance may be poisoned)")
				return
			}
		}
	}
	// Scenarios whose time slice ended before their share of the last bound did are continued, in order, with the time the
	// others did not use (the depth-first search is resumed where it stopped, nothing is executed twice).
	for round := 0; round < 8 && !rep.Expired(); round++ {
		var todo []int
		for i := range scs {
			if exps[i].Resumable() {
				todo = append(todo, i)
			}
		}
		if len(todo) == 0 {
			break
		}
		for k, i := range todo {
			var until float64
			if dl := rep.DeadlineSeconds(); dl > 0 {
				left := float64(dl) - rep.RealSeconds()
				until = rep.RealSeconds() + left/float64(len(todo)-k)
			}
			c04Explore(rep, scs[i], dir, exps[i], bound, until)
			if rep.NViolations > 0 {
				rep.Cut("stopped at the first violation of this worker (the instance may be poisoned)")
				return
			}
		}
	}
	for i := range scs {
		if exps[i].Resumable() {
			rep.Cut(fmt.Sprintf("%s: exploration at bound %d cut", scs[i].Name, bound))
		}
	}
}

func c04Explore(rep *kit.Report, sc c04Scenario, dir string, e *sched.Explorer, b int, until float64) {
	{
		e.Stop = func() bool { return rep.Expired() || (until > 0 && rep.RealSeconds() > until) }
		resumed := e.Resumable()
		e.Bound, e.FilterShared, e.Executions, e.MaxExec, e.Capped = b, b >= 2, 0, 0, false
		first := !resumed
		nth := 0
		stop := false
		e.Explore(func(x *sched.Exec) {
			if stop {
				return
			}
			kind, detail, fatal := c04Body(sc, dir, x)
			nth++
			if sched.Debug && nth%25 == 0 {
				var ms runtime.MemStats
				runtime.GC()
				runtime.ReadMemStats(&ms)
				fmt.Printf("SCHED-DEBUG exec %d heap=%dMB sys=%dMB goroutines=%d\n", nth, ms.HeapAlloc>>20, ms.Sys>>20, runtime.NumGoroutine())
			}
			rep.Eval(1)
			rep.Count("executions_"+sc.Name, 1)
			rep.Max("max_points_"+sc.Name, int64(len(x.Points)))
			rep.Max("max_preemptions_done", int64(x.Preemptions()))
			outcome := ""
			if kind != "" {
				outcome = kind
			}
			if rep.DistinctNontrivial(kit.Hash(sc.Name, x.Schedule())) && x.Preemptions() > 0 {
				rep.Count("schedules_with_preemption", 1)
			}
			rep.DistinctNontrivial(kit.Hash(sc.Name, "outcome", outcome))
			if first {
				first = false
				rep.Sample(12, map[string]any{"scenario": sc.Name, "bound": b, "points": len(x.Points), "schedule": x.Schedule(), "time_steps": x.TimeAdv})
			}
			if kind != "" {
				rep.Violation(kind, sc.Name+" "+x.Schedule(), detail, c04Case{Scenario: sc.Name, Choices: x.Choices, Schedule: x.Schedule()})
				if fatal {
					stop = true
					e.MaxExec = e.Executions // end exploration
				}
			}
		})
		rep.Count(fmt.Sprintf("bound%d_executions", b), int64(e.Executions))
		rep.Max("max_shared_lock_sites", int64(e.SharedSites()))
		if e.Divergences > 0 {
			rep.Count("replay_divergences_"+sc.Name, int64(e.Divergences))
			rep.Cut(fmt.Sprintf("%s: %d executions diverged while replaying a prefix (subtrees not expanded), e.g. %s", sc.Name, e.Divergences, e.Diverged))
			e.Divergences = 0
		}
		if e.Capped || stop {
			if stop || !e.Resumable() {
				rep.Cut(fmt.Sprintf("%s: exploration at bound %d cut", sc.Name, b))
			}
			// otherwise the caller may resume it; c04Main records the cut if it is still unfinished at the end
			return
		}
	}
	rep.Count(fmt.Sprintf("scenario_bounds_completed_%s", sc.Name), 1)
}

// TestVerifC04Race is the auxiliary free-running pass (DESIGN.md §2.3): the same scenario bodies run as plain
// goroutines, many times, in a binary built with -race and WITHOUT the sync shim. The cooperative scheduler's
// hand-offs are happens-before edges that blind the race detector, so unsynchronised accesses are looked for
// here. Race reports go to stderr (counted by the front end) and are a caveat on the sequential-consistency
// assumption, not a verdict; the history oracle is evaluated too (sampling, not the deciding step).
func TestVerifC04Race(t *testing.T) {
	rep := kit.NewReport("C04")
	defer rep.Save()
	vSetupEngineKnobs()
	scratch := kit.Scratch()
	reps := 40
	if n := kit.Getenv("VERIF_RACE_REPS", ""); n != "" {
		fmt.Sscanf(n, "%d", &reps)
	}
	for si, sc := range c04Scenarios {
		if !kit.Mine(si) {
			continue
		}
		if sc.Setup != nil {
			// S6/S7 install a gate by assigning shard.storage and lower a global limit while the shard's own ticker
			// goroutine reads both: the detector would report the harness itself. Their window is a matter of one
			// specific interleaving, which free running does not reach anyway.
			continue
		}
		for r := 0; r < reps; r++ {
			if rep.Expired() {
				return
			}
			dir := vMkdir(scratch, fmt.Sprintf("race-%d", si))
			v, err := vOpenShard(dir)
			if err != nil {
				t.Fatal(err)
			}
			m := vModel{}
			l := &c04Log{}
			for i, op := range sc.Preload {
				if err := vApply(v, m, op, i+1); err != nil {
					t.Fatal(err)
				}
				if wi := vWriteIndex(op); wi >= 0 {
					l.preload(i+1, vWriteMenu[wi].Gen(i+1))
				}
			}
			var wg sync.WaitGroup
			for _, fn := range sc.Threads(v, l) {
				wg.Add(1)
				go func(f func()) { defer wg.Done(); f() }(fn)
			}
			wg.Wait()
			rep.Eval(1)
			rep.Count("race_pass_executions", 1)
			if bad := l.check(sc.Closing); len(bad) > 0 {
				rep.Violation("free_running_"+c04Classify(bad), sc.Name, strings.Join(bad, "; "), c04Case{Scenario: sc.Name})
			}
			if sc.Closing {
				_ = v.sh.indexBuilder.Close()
				v.sh = nil
			} else {
				_ = v.Close()
			}
			_ = os.RemoveAll(dir)
		}
	}
}
