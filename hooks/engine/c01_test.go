//go:build verif

package engine

import (
	"context"
	"fmt"
	"os"
	"strings"
	"testing"
	"time"

	"github.com/openGemini/openGemini/lib/cpu"
	"github.com/openGemini/openGemini/lib/fileops"
	kit "github.com/openGemini/openGemini/lib/verifkit"
	"github.com/openGemini/openGemini/lib/verifkit/crashfs"
)

// ---- C01 ------------------------------------------------------------------------------------

type c01Case struct {
	Ops        []string `json:"ops"`
	Partitions int      `json:"partitions"`
	Depth2     bool     `json:"depth2"`
	// SplitImages: every worker runs the history and recovers only its share of the crash images (long histories)
	SplitImages bool `json:"split_images"`
	Rotation    bool `json:"rotation"` // needs the binary built with the tiny WAL file size (see c01.py)
	// HoldTxn: the index's asynchronous transaction-file remover never gets to run before the crash (its Remove calls are
	// deferred for good), so crash images hold every transaction file of the history, not only the newest
	HoldTxn bool `json:"hold_txn,omitempty"`
}

func (c c01Case) key() string {
	k := fmt.Sprintf("N=%d %s", c.Partitions, strings.Join(c.Ops, " "))
	if c.HoldTxn {
		k += " [transaction files not yet removed]"
	}
	return k
}

// c01Apply executes one op; DM drops measurement m through the shard's drop path.
func c01Apply(v *vShard, m vModel, op string, id int) error {
	if op == "DM" {
		if err := v.sh.DropMeasurement(context.Background(), "m"); err != nil {
			return err
		}
		m.DropMeasurement("m")
		return nil
	}
	return vApply(v, m, op, id)
}

var c01DirSeq int

// c01History runs one history under the recorder and recovers every crash image.
func c01History(rep *kit.Report, scratch string, c c01Case) {
	cpu.SetCpuNum(c.Partitions, 1)
	// Recovery must run at the SAME absolute path as the live shard: the index's transaction files
	// record absolute paths, so an image moved elsewhere is not an image the process could have left.
	// a directory of its own per history: process-global caches of the engine are keyed by file path and file names restart at
	// 00000001 in a new shard (all crash images of ONE history are still recovered at this one path, as they must be)
	c01DirSeq++
	root := vMkdir(scratch, fmt.Sprintf("live%d", c01DirSeq)) + "/"
	imgRoot := vMkdir(scratch, "img")
	work := strings.TrimSuffix(root, "/")
	defer func() {
		_ = os.RemoveAll(root)
		_ = os.RemoveAll(imgRoot)
	}()
	tLive := time.Now()
	v, err := vOpenShard(strings.TrimSuffix(root, "/"))
	if err != nil {
		rep.Violation("harness_open_error", c.key(), err.Error(), c)
		return
	}
	defer func() { _ = v.Close() }()
	rec := &vRecorder{root: root, imgRoot: imgRoot, seen: map[string]bool{}}
	vRec = rec
	if c.HoldTxn {
		fileops.VerifDeferRemove = func(p string) bool { return strings.HasPrefix(p, root) && strings.Contains(p, "/txn/") }
		defer func() { fileops.VerifDeferRemove = nil }()
	}
	// models[i] = reference after i acknowledged ops (pinned by a read right after the ack)
	models := []vModel{{}}
	opKinds := []string{}
	m := vModel{}
	failed := false
	rec.on = true
	for i, op := range c.Ops {
		rec.inFlight = true
		err := c01Apply(v, m, op, i+1)
		rec.inFlight = false
		if err != nil {
			rec.on = false
			rep.Violation("op_error", c.key(), fmt.Sprintf("op %d %s: %v", i+1, op, err), c)
			failed = true
			break
		}
		rec.acked = i + 1
		fileops.VerifAck(op)
		// pin candidate sets with a read (reads do not mutate the tree)
		rec.on = false
		got, err := vFullDump(v)
		if err != nil {
			rep.Violation("read_error", c.key(), err.Error(), c)
			failed = true
			break
		}
		if diffs := vCompareFull(m, got); len(diffs) > 0 {
			rep.Violation("live_mismatch", c.key(), fmt.Sprintf("before any crash, after op %d: %s", i+1, strings.Join(diffs, "; ")), c)
			failed = true
			break
		}
		rec.on = true
		models = append(models, m.Clone())
		opKinds = append(opKinds, op)
	}
	rec.on = false
	vRec = nil
	fileops.VerifDeferRemove = nil // recoveries run with the real remover
	// the live shard is closed only after the images were frozen; closing is not part of the history
	_ = v.Close()
	rep.Count("ns_live", int64(time.Since(tLive)))
	if rec.err != nil {
		rep.Violation("harness_freeze_error", c.key(), rec.err.Error(), c)
		return
	}
	if failed {
		return
	}
	rep.Count("histories", 1)
	rep.Count("mutations", int64(rec.nMut))
	rep.Count("torn_points", int64(rec.nTorn))
	rep.Count("duplicate_images_skipped", int64(rec.nDup))
	for i, im := range rec.images {
		if rep.Expired() {
			return
		}
		if c.SplitImages && kit.ReplayPath() == "" && !kit.Mine(i) {
			continue
		}
		c01Recover(rep, c, im, models, opKinds, work, 1)
	}
}

// c01Recover opens a copy of the image with the real recovery path and compares the dump with the
// reference as of the last acknowledged op, allowing the in-flight op its latitude (DESIGN §3a).
func c01Recover(rep *kit.Report, c c01Case, im vImage, models []vModel, ops []string, work string, depth int) {
	t0 := time.Now()
	_ = os.RemoveAll(work)
	if _, err := crashfs.CopyTree(im.Dir, work); err != nil {
		rep.Violation("harness_copy_error", c.key(), err.Error(), c)
		return
	}
	var rec2 *vRecorder
	if c.Depth2 && depth == 1 {
		rec2 = &vRecorder{root: work + "/", imgRoot: work + ".img2", seen: map[string]bool{}, on: true}
		rec2.seen[vTreeDigest(im.Dir)] = true // the image itself was already recovered at depth 1
		_ = os.RemoveAll(rec2.imgRoot)
		vRec = rec2
	}
	t1 := time.Now()
	v, err := vOpenShard(work)
	if rec2 != nil {
		rec2.on = false
		vRec = nil
	}
	rep.Count("ns_copy", int64(t1.Sub(t0)))
	rep.Count("ns_open", int64(time.Since(t1)))
	rep.Eval(1)
	rep.Count(fmt.Sprintf("recoveries_depth%d", depth), 1)
	where := im.String()
	if err != nil {
		rep.Violation("recovery_fails", c.key(), fmt.Sprintf("crash %s: reopen failed: %v", where, err), c)
		return
	}
	t2 := time.Now()
	got, err := vFullDump(v)
	t3 := time.Now()
	_ = v.Close()
	rep.Count("ns_dump", int64(t3.Sub(t2)))
	rep.Count("ns_close", int64(time.Since(t3)))
	if err != nil {
		rep.Violation("recovery_read_error", c.key(), fmt.Sprintf("crash %s: %v", where, err), c)
		return
	}
	// acceptable references
	base := models[im.Acked].Clone()
	diffs := vCompareFull(base, got)
	ok := len(diffs) == 0
	nontrivial := len(got) > 0 || im.InFlight
	if !ok && im.InFlight && im.Acked < len(ops) {
		op := ops[im.Acked]
		switch {
		case op == "DM":
			// an unacknowledged drop may have removed any subset of measurement m, nothing else
			ok = c01SubsetOfMeasurement(models[im.Acked], got, "m")
		case vWriteIndex(op) >= 0:
			next := models[im.Acked+1].Clone()
			if d2 := vCompareFull(next, got); len(d2) == 0 {
				ok = true
			}
		}
	}
	if nontrivial {
		rep.DistinctNontrivial(kit.Hash(c.key(), im.Dir))
	}
	rep.Sample(6, map[string]any{"history": c.Ops, "partitions": c.Partitions, "crash": where, "recovered_rows": len(got)})
	if !ok {
		rep.Violation(c01Classify(c, im, models, got, diffs), c.key(), fmt.Sprintf("crash %s: %s", where, strings.Join(diffs, "; ")), c)
	}
	if rec2 != nil {
		if rec2.err != nil {
			rep.Violation("harness_freeze_error", c.key(), rec2.err.Error(), c)
		}
		rep.Count("depth2_images", int64(len(rec2.images)))
		for _, im2 := range rec2.images {
			im2.Acked, im2.InFlight = im.Acked, im.InFlight
			im2.Kind = "recovery:" + im2.Kind
			c01Recover(rep, c, im2, models, ops, work, 2)
		}
		_ = os.RemoveAll(rec2.imgRoot)
	}
}

func c01SubsetOfMeasurement(m vModel, got map[vKey]map[string]vVal, mst string) bool {
	mm := m.Clone()
	// rows of other measurements must be exactly as in the model; rows of mst must each equal the model row
	other := map[vKey]map[string]vVal{}
	for k, fs := range got {
		if k.Mst != mst {
			other[k] = fs
		}
	}
	for _, ms := range vMsts {
		if ms == mst {
			continue
		}
		sub := map[vKey]map[string]vVal{}
		for k, fs := range other {
			if k.Mst == ms {
				sub[k] = fs
			}
		}
		if len(mm.Compare(vFullDumpQuery(ms), sub)) > 0 {
			return false
		}
	}
	for k, fs := range got {
		if k.Mst != mst {
			continue
		}
		exp, okk := mm[k]
		if !okk {
			return false
		}
		for n, gv := range fs {
			hit := false
			for _, cnd := range exp[n] {
				if cnd == gv {
					hit = true
				}
			}
			if !hit {
				return false
			}
		}
	}
	return true
}

// c01Classify: the known WAL-order defect has a precise signature — the recovered value of a key is an
// OLDER ACKNOWLEDGED value of the same key and field (never lost, never invented), with more than one
// WAL partition.
func c01Classify(c c01Case, im vImage, models []vModel, got map[vKey]map[string]vVal, diffs []string) string {
	all := strings.Join(diffs, ";")
	if strings.Contains(all, "missing row") || strings.Contains(all, "missing (") {
		return "acknowledged_point_lost"
	}
	if strings.Contains(all, "unexpected row") || strings.Contains(all, "unexpected field") {
		for _, op := range c.Ops[:im.Acked] {
			if op == "DM" {
				return "dropped_or_unwritten_point_returned"
			}
		}
		return "unwritten_point_returned"
	}
	// only wrong values: is each wrong value an older acknowledged value of the same key/field?
	older := true
	cur := models[im.Acked]
	for k, fs := range got {
		for n, gv := range fs {
			match := false
			for _, cnd := range cur[k][n] {
				if cnd == gv {
					match = true
				}
			}
			if match {
				continue
			}
			wasOld := false
			for j := 0; j < im.Acked; j++ {
				for _, cnd := range models[j][k][n] {
					if cnd == gv {
						wasOld = true
					}
				}
			}
			if !wasOld {
				older = false
			}
		}
	}
	if older && c.Partitions > 1 {
		return "overwrite_reverted_to_older_acked_value_multi_partition_wal"
	}
	if older {
		return "overwrite_reverted_to_older_acked_value"
	}
	return "wrong_value_after_recovery"
}

func c01Alphabet() []string {
	ops := []string{}
	for _, w := range vWriteMenu {
		ops = append(ops, w.Name)
	}
	return append(ops, "F", "DM")
}

func TestVerifC01(t *testing.T) {
	rep := kit.NewReport("C01")
	defer rep.Save()
	vSetupEngineKnobs()
	vInstallRecorder()
	scratch := kit.Scratch()
	if kit.ReplayPath() != "" {
		var c c01Case
		if err := kit.LoadReplay(&c); err != nil {
			t.Fatal(err)
		}
		c01History(rep, scratch, c)
		return
	}
	ops := c01Alphabet()
	if kit.Getenv("VERIF_C01_MODE", "") == "rotation" {
		// The binary was built with DefaultFileSize shrunk to a few bytes: every WAL record starts a new log file, so
		// a partition holds many live files (1.wal ... 22.wal) without any flush - the roll-over and restore-order paths.
		if DefaultFileSize > 1024 {
			t.Fatalf("rotation mode needs the shrunk DefaultFileSize, have %d", DefaultFileSize)
		}
		long := func(n int) []string {
			h := make([]string, n)
			for i := range h {
				h[i] = []string{"Wa", "Wc"}[i%2]
			}
			return h
		}
		jobs := []c01Case{
			{Ops: long(22), Partitions: 1, SplitImages: true, Rotation: true},
			{Ops: append(append(long(11), "F"), long(11)...), Partitions: 1, SplitImages: true, Rotation: true},
		}
		if kit.Thorough() {
			jobs = append(jobs, c01Case{Ops: long(24), Partitions: 2, SplitImages: true, Rotation: true},
				c01Case{Ops: append(append(long(3), "We", "Wd"), long(20)...), Partitions: 1, SplitImages: true, Rotation: true})
		}
		rep.Note("rotation mode: DefaultFileSize=%d, %d long histories, crash images split over the workers", DefaultFileSize, len(jobs))
		for _, c := range jobs {
			if rep.Expired() {
				return
			}
			c01History(rep, scratch, c)
		}
		return
	}
	var jobs []c01Case
	add := func(names []string, n int, d2 bool) {
		jobs = append(jobs, c01Case{Ops: append([]string(nil), names...), Partitions: n, Depth2: d2})
	}
	maxLen := 2
	parts := []int{1, 2}
	if kit.Thorough() {
		maxLen = 3
		parts = []int{1, 2, 3}
	}
	for l := 1; l <= maxLen; l++ {
		kit.Sequences(len(ops), l, func(seq []int) bool {
			names := make([]string, l)
			for i, o := range seq {
				names[i] = ops[o]
			}
			if names[0] == "F" || names[0] == "DM" {
				return true // no-op prefix; the shorter history is explored
			}
			for _, n := range parts {
				// crash during recovery (depth 2): quick = one representative history, thorough = all of length <= 2
				d2 := (kit.Thorough() && l <= 2) || (l == 1 && names[0] == "We" && n == 2)
				add(names, n, d2)
			}
			if l == maxLen {
				// the same history with the index's transaction-file remover pending until the crash (one partition count:
				// the index does not depend on it); shorter histories are prefixes of these
				jobs = append(jobs, c01Case{Ops: append([]string(nil), names...), Partitions: 1, HoldTxn: true})
			}
			return true
		})
	}
	// longer histories around a flush: W^a F W^b with an overwrite menu, all partition counts
	longW := []string{"Wa", "Wd"}
	maxA, maxB := 2, 2
	longParts := []int{2, 3}
	if kit.Thorough() {
		longW = []string{"Wa", "Wc", "Wd"}
		maxA, maxB = 3, 3
		longParts = []int{1, 2, 3, 16}
	}
	for a := 1; a <= maxA; a++ {
		for b := 1; b <= maxB; b++ {
			if a+1+b <= maxLen {
				continue
			}
			kit.Sequences(len(longW), a+b, func(seq []int) bool {
				names := []string{}
				for i, o := range seq {
					if i == a {
						names = append(names, "F")
					}
					names = append(names, longW[o])
				}
				for _, n := range longParts {
					add(names, n, false)
				}
				return true
			})
		}
	}
	rep.Note("alphabet=%v histories=%d partitions=%v", ops, len(jobs), parts)
	for i, c := range jobs {
		if !kit.Mine(i) {
			continue
		}
		if rep.Expired() {
			return
		}
		c01History(rep, scratch, c)
	}
}
