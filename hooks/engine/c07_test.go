//go:build verif && c07

package engine

// C07 seam 5: WAL record framing. Images are written by the real WAL.Write (writeBinary -> LogWriter),
// read back through WAL.replayPhysicRecord exactly as replayWalFile drives it, for the whole image and for
// every byte prefix of it (torn tail after a crash).

import (
	"bufio"
	"bytes"
	"fmt"
	"io"
	"math"
	"os"
	"path/filepath"
	"runtime/debug"
	"strings"
	"testing"

	"github.com/openGemini/openGemini/lib/errno"
	"github.com/openGemini/openGemini/lib/logger"
	"github.com/openGemini/openGemini/lib/record"
	"github.com/openGemini/openGemini/lib/util/lifted/vm/protoparser/influx"
	kit "github.com/openGemini/openGemini/lib/verifkit"
	"go.uber.org/zap"
)

type c07Case struct {
	Seam    string `json:"seam"`
	Records []int  `json:"records"` // template indices, in write order
	Dirty   int    `json:"dirty"`   // -1: replay starts with a fresh buffer; k: the buffer last held the compressed body of template k (recycled from the pool)
	Cut     int    `json:"cut"`     // replay only: -1 all cuts, otherwise this one
}

func (c *c07Case) key() string { return fmt.Sprintf("wal/records%v/dirty%d", c.Records, c.Dirty) }

type c07Tmpl struct {
	name string
	typ  WalRecordType
	bin  []byte // what the write path hands to WAL.Write
	want string // what a replay must deliver
}

func c07RowsCanon(rows []influx.Row) string {
	var b strings.Builder
	for i := range rows {
		r := &rows[i]
		fmt.Fprintf(&b, "{%q ts=%d sk=%q tags[", r.Name, r.Timestamp, r.ShardKey)
		for _, t := range r.Tags {
			fmt.Fprintf(&b, "%q=%q ", t.Key, t.Value)
		}
		b.WriteString("] fields[")
		for _, f := range r.Fields {
			if f.Type == influx.Field_Type_String {
				fmt.Fprintf(&b, "%q:%d:%q ", f.Key, f.Type, f.StrValue)
			} else {
				fmt.Fprintf(&b, "%q:%d:%016x ", f.Key, f.Type, math.Float64bits(f.NumValue))
			}
		}
		b.WriteString("] idx[")
		for _, o := range r.IndexOptions {
			fmt.Fprintf(&b, "%d:%v ", o.Oid, o.IndexList)
		}
		b.WriteString("]}")
	}
	return b.String()
}

func c07Templates() []c07Tmpl {
	mk := func(name string, rows []influx.Row) c07Tmpl {
		bin, err := influx.FastMarshalMultiRows(nil, rows)
		if err != nil {
			panic(err)
		}
		return c07Tmpl{name: name, typ: WriteWalLineProtocol, bin: bin, want: "rows:" + c07RowsCanon(rows)}
	}
	intRow := func(v float64, ts int64, host string) influx.Row {
		return influx.Row{Name: "cpu_0000", Timestamp: ts, Tags: influx.PointTags{{Key: "host", Value: host}},
			Fields: influx.Fields{{Key: "v", Type: influx.Field_Type_Int, NumValue: v}}}
	}
	long := strings.Repeat("payload-", 40)
	var t []c07Tmpl
	t = append(t, mk("one-int-row", []influx.Row{intRow(1, 1000, "a")}))
	t = append(t, mk("one-int-row-same-size", []influx.Row{intRow(2, 2000, "b")}))
	t = append(t, mk("two-string-rows", []influx.Row{
		{Name: "log_0000", Timestamp: math.MaxInt64, Fields: influx.Fields{{Key: "msg", Type: influx.Field_Type_String, StrValue: long}}},
		{Name: "log_0000", Timestamp: math.MinInt64, Tags: influx.PointTags{{Key: "k", Value: "\xff\x00"}},
			Fields: influx.Fields{{Key: "msg", Type: influx.Field_Type_String, StrValue: ""}, {Key: "ok", Type: influx.Field_Type_Boolean, NumValue: 1}}},
	}))
	t = append(t, mk("three-mixed-rows-with-index-options", []influx.Row{
		intRow(-1, 0, "a"),
		{Name: "m_0000", Timestamp: 5, ShardKey: []byte("m,host=a"), Tags: influx.PointTags{{Key: "host", Value: "a"}, {Key: "z", Value: ""}},
			Fields:       influx.Fields{{Key: "f", Type: influx.Field_Type_Float, NumValue: math.Float64frombits(0xfff4dead0000beef)}, {Key: "g", Type: influx.Field_Type_Float, NumValue: math.Inf(-1)}},
			IndexOptions: influx.IndexOptions{{Oid: 7, IndexList: []uint16{0, 1, 2}}}},
		intRow(9007199254740992, -7, ""),
	}))
	// column batches (arrow flight records): the WAL carries them as opaque bytes
	rec := func(v int64) []byte {
		r := record.NewRecordBuilder(record.Schemas{{Name: "v", Type: influx.Field_Type_Int}, {Name: record.TimeField, Type: influx.Field_Type_Int}})
		r.ColVals[0].AppendIntegers(v, v+1)
		r.ColVals[0].AppendIntegerNull()
		r.ColVals[1].AppendIntegers(1, 2, 3)
		return r.Marshal(nil)
	}
	b1, b2 := rec(1<<40), rec(-(1 << 41))
	t = append(t, c07Tmpl{name: "column-batch", typ: WriteWalArrowFlight, bin: b1, want: "bin:" + string(b1)})
	t = append(t, c07Tmpl{name: "column-batch-same-size", typ: WriteWalArrowFlight, bin: b2, want: "bin:" + string(b2)})
	return t
}

func c07Stack() string {
	s := string(debug.Stack())
	if len(s) > 1800 {
		s = s[:1800]
	}
	return s
}

type c07Runner struct {
	rep  *kit.Report
	dir  string
	seq  int
	tmpl []c07Tmpl
	// frames[k] = the bytes WAL.Write produced for template k alone (header + snappy body)
	frames [][]byte
	images map[string][]byte
	fr     *bufio.Reader
}

// the torn-tail messages of 5*10^5 replays are not wanted in the shared log file
func (r *c07Runner) walLog() *logger.Logger {
	return logger.NewLogger(errno.ModuleWal).SetZapLogger(zap.NewNop())
}

// c07WriteImage writes the records through the real WAL and returns the bytes of the WAL file.
func (r *c07Runner) writeImage(records []int) ([]byte, error) {
	r.seq++
	dir := filepath.Join(r.dir, fmt.Sprintf("wal%d", r.seq))
	defer os.RemoveAll(dir)
	lockPath := ""
	w := NewWAL(dir, &lockPath, 1, 0, true, false, 1, 0)
	for _, k := range records {
		if err := w.Write(r.tmpl[k].bin, r.tmpl[k].typ, 0); err != nil {
			return nil, err
		}
	}
	if err := w.Close(); err != nil {
		return nil, err
	}
	files, err := filepath.Glob(filepath.Join(dir, "0", "*."+WALFileSuffixes))
	if err != nil || len(files) != 1 {
		return nil, fmt.Errorf("expected one wal file, found %v (%v)", files, err)
	}
	return os.ReadFile(files[0])
}

// c07Replay drives replayPhysicRecord the way replayWalFile does and returns what the callback received.
func (r *c07Runner) replay(w *WAL, image []byte, buf []byte) (delivered []string, pan string) {
	defer func() {
		if p := recover(); p != nil {
			pan = fmt.Sprintf("%v\n%s", p, c07Stack())
		}
	}()
	if r.fr == nil {
		r.fr = bufio.NewReaderSize(bytes.NewReader(nil), 256*1024) // replayWalFile uses a reader of at least 256 KiB
	}
	fr := r.fr
	fr.Reset(bytes.NewReader(image))
	cb := func(wr *walRecord) error {
		if wr.writeWalType == WriteWalLineProtocol {
			delivered = append(delivered, "rows:"+c07RowsCanon(wr.rowsObjs.rows))
		} else {
			delivered = append(delivered, "bin:"+string(wr.binary))
		}
		return nil
	}
	for i := 0; i < 1000; i++ {
		var err error
		buf, err = w.replayPhysicRecord(fr, "verif.wal", buf, cb)
		if err != nil {
			if err != io.EOF {
				delivered = append(delivered, "error:"+err.Error())
			}
			return
		}
	}
	delivered = append(delivered, "error: replay did not terminate")
	return
}

func (r *c07Runner) run(c *c07Case) {
	rep := r.rep
	rep.Count("wal_images", 1)
	ik := fmt.Sprint(c.Records)
	image, ok := r.images[ik]
	if !ok {
		var err error
		image, err = r.writeImage(c.Records)
		if err != nil {
			rep.Violation("wal_write_error", c.key(), err.Error(), c)
			return
		}
		r.images = map[string][]byte{ik: image} // the image depends on the records only; keep the latest
	}
	// record boundaries from the templates' own frames; the image must be their concatenation
	var ends []int
	var cat []byte
	for _, k := range c.Records {
		cat = append(cat, r.frames[k]...)
		ends = append(ends, len(cat))
	}
	if !bytes.Equal(cat, image) {
		rep.Violation("wal_image_not_concatenation_of_records", c.key(), fmt.Sprintf("image %d bytes, records %d bytes", len(image), len(cat)), c)
		return
	}
	var want []string
	for _, k := range c.Records {
		want = append(want, r.tmpl[k].want)
	}
	lockPath := ""
	w := &WAL{log: r.walLog(), lock: &lockPath, shardID: 1}
	cuts := make([]int, 0, len(image)+1)
	if c.Cut >= 0 {
		cuts = append(cuts, c.Cut)
	} else {
		for cut := 0; cut <= len(image); cut++ {
			cuts = append(cuts, cut)
		}
	}
	for _, cut := range cuts {
		complete := 0
		for _, e := range ends {
			if e <= cut {
				complete++
			}
		}
		var buf []byte
		if c.Dirty >= 0 {
			body := r.frames[c.Dirty][WalRecordHeadSize:]
			buf = append(make([]byte, 0, 64*1024), body...) // a recycled buffer still holding an earlier compressed record
		}
		delivered, pan := r.replay(w, image[:cut:cut], buf)
		rep.Eval(1) // one evaluation = one replay of one prefix (the whole image is the last prefix)
		rep.Count("wal_prefixes_replayed", 1)
		key := fmt.Sprintf("%s/cut%d", c.key(), cut)
		cc := *c
		cc.Cut = cut
		if pan != "" {
			rep.Violation("wal_replay_panic", key, pan, &cc)
			return
		}
		if len(delivered) < complete {
			rep.Violation("wal_complete_record_not_replayed", key, fmt.Sprintf("%d complete records in the first %d bytes, %d delivered", complete, cut, len(delivered)), &cc)
			return
		}
		for i := 0; i < complete; i++ {
			if delivered[i] != want[i] {
				rep.Violation("wal_record_mismatch", key, fmt.Sprintf("record %d:\n wrote %.300s\n read  %.300s", i, want[i], delivered[i]), &cc)
				return
			}
		}
		if len(delivered) > complete {
			extra := delivered[complete]
			kind := "wal_torn_record_decoded_into_fabricated_rows"
			detail := fmt.Sprintf("the first %d of %d bytes hold %d complete records, but %d were delivered; the extra one: %.300s", cut, len(image), complete, len(delivered), extra)
			stale := false
			for i := 0; i < complete; i++ {
				stale = stale || extra == want[i]
			}
			if c.Dirty >= 0 && extra == r.tmpl[c.Dirty].want {
				stale = true
			}
			if stale {
				kind = "wal_torn_record_replayed_from_stale_buffer"
				detail += "\n(the torn record has only its 5-byte header on disk; the body was taken from the reused read buffer, which still held an earlier record)"
			}
			rep.Violation(kind, key, detail, &cc)
			return
		}
		rep.DistinctNontrivial(kit.Hash("wal", string(image), fmt.Sprint(cut), fmt.Sprint(c.Dirty)))
	}
	rep.Sample(3, map[string]any{"seam": "engine WAL", "case": c.key(), "image_bytes": len(image), "cuts": len(cuts)})
}

func TestVerifC07Wal(t *testing.T) {
	rep := kit.NewReport("C07")
	defer rep.Save()
	r := &c07Runner{rep: rep, dir: kit.Scratch(), tmpl: c07Templates()}
	for k := range r.tmpl {
		f, err := r.writeImage([]int{k})
		if err != nil {
			t.Fatal(err)
		}
		r.frames = append(r.frames, f)
	}
	eq := 0
	for a := range r.frames {
		for b := a + 1; b < len(r.frames); b++ {
			if len(r.frames[a]) == len(r.frames[b]) {
				eq++
			}
		}
	}
	rep.Max("max_wal_template_pairs_of_equal_frame_length", int64(eq))
	if kit.ReplayPath() != "" {
		var c c07Case
		if err := kit.LoadReplay(&c); err != nil {
			t.Fatal(err)
		}
		if c.Seam == "wal" {
			r.run(&c)
		}
		return
	}
	maxRecs := 3
	if kit.Thorough() {
		maxRecs = 4
	}
	item := 0
	for l := 1; l <= maxRecs; l++ {
		kit.Sequences(len(r.tmpl), l, func(seq []int) bool {
			item++
			if !kit.Mine(item) {
				return true
			}
			for dirty := -1; dirty < len(r.tmpl); dirty++ {
				r.run(&c07Case{Seam: "wal", Records: append([]int(nil), seq...), Dirty: dirty, Cut: -1})
			}
			return !rep.Expired()
		})
	}
}
