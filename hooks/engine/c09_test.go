//go:build verif

package engine

// C09 - aggregates served from stored statistics equal aggregates over the rows.
//
// (A) every aggregate statement is executed through the real statement path of a single-process server:
//     yacc parser -> query.Prepare / Compile -> executor.Select (template or heuristic planner, aggregate
//     push-down rules) -> pipeline executor -> IndexScanTransform -> shard.CreateLogicalPlan /
//     shard.CreateCursor -> ChunkReader (+ pre-aggregation shortcut) -> aggregate transforms -> HTTP row sender.
//     Only the cluster catalogue is replaced: a one-node / one-partition / one-shard shard mapper (c09Mapper,
//     c09Group: a copy of the ts-store branch of coordinator.ClusterShardMapping.CreateLogicalPlan) and a storage
//     facade (c09Store) that hands out the shard under test.
// (B) the same function applied by the harness to the rows the plain cursor (vShard.Dump) returns for the same
//     time range; for the field-filter variants to the rows of the engine's own plain statement with the same filter.
// Layouts: all histories over the C09 alphabet up to the depth bound (c02-style explorer, no-op pruning).

import (
	"context"
	"fmt"
	"math"
	"os"
	"regexp"
	"runtime/debug"
	"sort"
	"strconv"
	"strings"
	"testing"
	"time"

	"github.com/openGemini/openGemini/engine/executor"
	"github.com/openGemini/openGemini/engine/hybridqp"
	"github.com/openGemini/openGemini/engine/immutable"
	"github.com/openGemini/openGemini/lib/fileops"
	"github.com/openGemini/openGemini/lib/logger"
	"github.com/openGemini/openGemini/lib/statisticsPusher/statistics"
	"github.com/openGemini/openGemini/lib/util"
	"github.com/openGemini/openGemini/lib/util/lifted/influx/influxql"
	"github.com/openGemini/openGemini/lib/util/lifted/influx/query"
	"github.com/openGemini/openGemini/lib/util/lifted/vm/protoparser/influx"
	kit "github.com/openGemini/openGemini/lib/verifkit"
)

// ---- the statement path: executor.Select on a one-shard "cluster" ---------------------------------

// c09Store is the storage the index-scan operator asks for cursors (hybridqp.StoreEngine): exactly one
// shard, delegating to shard.CreateLogicalPlan like EngineImpl.CreateLogicalPlanOneShard does.
type c09Store struct{ v *vShard }

func (s *c09Store) ReportLoad() {}
func (s *c09Store) CreateLogicPlan(ctx context.Context, db string, ptId uint32, shardID []uint64, sources influxql.Sources, schema hybridqp.Catalog) (hybridqp.QueryNode, error) {
	return s.v.sh.CreateLogicalPlan(ctx, sources, schema.(*executor.QuerySchema))
}
func (s *c09Store) ScanWithSparseIndex(ctx context.Context, db string, ptId uint32, shardIDS []uint64, schema hybridqp.Catalog) (hybridqp.IShardsFragments, error) {
	return nil, nil
}
func (s *c09Store) GetIndexInfo(db string, ptId uint32, shardID uint64, schema hybridqp.Catalog) (interface{}, error) {
	return nil, nil
}
func (s *c09Store) RowCount(db string, ptId uint32, shardIDS []uint64, schema hybridqp.Catalog) (int64, error) {
	return 0, nil
}
func (s *c09Store) UnrefEngineDbPt(db string, ptId uint32)                             {}
func (s *c09Store) GetShardDownSampleLevel(db string, ptId uint32, shardID uint64) int { return 0 }

var c09TheStore = &c09Store{}

// c09Mapper / c09Group stand in for the coordinator's ClusterShardMapper: one node, one partition, one shard.
type c09Mapper struct{ v *vShard }

func (m *c09Mapper) MapShards(stmt *influxql.SelectStatement, t influxql.TimeRange, opt query.SelectOptions, condition influxql.Expr) (query.ShardGroup, error) {
	return &c09Group{v: m.v}, nil
}
func (m *c09Mapper) Close() error { return nil }

type c09Group struct{ v *vShard }

func (g *c09Group) FieldDimensions(m *influxql.Measurement) (map[string]influxql.DataType, map[string]struct{}, *influxql.Schema, error) {
	fields := map[string]influxql.DataType{}
	for _, f := range vFields {
		fields[f.Val] = f.Type
	}
	return fields, map[string]struct{}{"host": {}}, &influxql.Schema{}, nil
}
func (g *c09Group) MapType(m *influxql.Measurement, field string) influxql.DataType {
	for _, f := range vFields {
		if f.Val == field {
			return f.Type
		}
	}
	if field == "host" {
		return influxql.Tag
	}
	return influxql.Unknown
}
func (g *c09Group) MapTypeBatch(m *influxql.Measurement, fields map[string]*influxql.FieldNameSpace, schema *influxql.Schema) error {
	for k := range fields {
		fields[k].DataType = g.MapType(m, k)
	}
	return nil
}
func (g *c09Group) Close() error { return nil }
func (g *c09Group) LogicalPlanCost(source *influxql.Measurement, opt query.ProcessorOptions) (hybridqp.LogicalPlanCost, error) {
	return hybridqp.LogicalPlanCost{}, nil
}
func (g *c09Group) GetSources(sources influxql.Sources) influxql.Sources { return sources }
func (g *c09Group) GetSeriesKey() []byte                                 { return nil }
func (g *c09Group) GetTagKeys(stmt *influxql.ShowTagValuesStatement) (map[string]map[string]struct{}, error) {
	return nil, nil
}
func (g *c09Group) GetTagVals(nodeID uint64, stmt *influxql.ShowTagValuesStatement, pts []uint32, tagKeys map[string]map[string]struct{}, exact bool) (influxql.TablesTagSets, error) {
	return nil, nil
}
func (g *c09Group) QueryNodePtsMap(database string) (map[uint64][]uint32, error) { return nil, nil }
func (g *c09Group) CheckDatabaseExists(name string) error                        { return nil }

// GetETraits: one remote query for (node 1, pt defaultPtId, the shard) - coordinator.makeRemoteQuery.
func (g *c09Group) GetETraits(ctx context.Context, sources influxql.Sources, schema hybridqp.Catalog) ([]hybridqp.Trait, error) {
	opts := schema.Options().(*query.ProcessorOptions)
	opt := *opts
	opt.Sources = sources
	rq := &executor.RemoteQuery{Database: defaultDb, PtID: defaultPtId, NodeID: 1, ShardIDs: []uint64{g.v.sh.GetID()}, Opt: opt}
	opts.Sources = sources
	return []hybridqp.Trait{rq}, nil
}

// CreateLogicalPlan: the ts-store branch of coordinator.ClusterShardMapping.CreateLogicalPlan.
func (g *c09Group) CreateLogicalPlan(ctx context.Context, sources influxql.Sources, schema hybridqp.Catalog) (hybridqp.QueryNode, error) {
	eTraits, err := g.GetETraits(ctx, sources, schema)
	if len(eTraits) == 0 || err != nil {
		return nil, err
	}
	builder := executor.NewLogicalPlanBuilderImpl(schema)
	plan, err := builder.CreateSeriesPlan()
	if err != nil {
		return nil, err
	}
	if plan, err = builder.CreateMeasurementPlan(plan); err != nil {
		return nil, err
	}
	if plan, err = builder.CreateScanPlan(plan); err != nil {
		return nil, err
	}
	if plan, err = builder.CreateShardPlan(plan); err != nil {
		return nil, err
	}
	if plan.Schema().Options().CanQueryPushDown() {
		nodeTraits, ok := ctx.Value(hybridqp.NodeTrait).(*[]hybridqp.Trait)
		if !ok {
			return nil, fmt.Errorf("no node traits")
		}
		*nodeTraits = append(*nodeTraits, eTraits...)
		return plan, nil
	}
	return builder.CreateNodePlan(plan, eTraits)
}

// c09Parse: the parser entry of the HTTP handler (lib/util/lifted/influx/httpd/handler.go getSqlQuery).
func c09Parse(q string) (*influxql.SelectStatement, error) {
	p := influxql.NewParser(strings.NewReader(q))
	defer p.Release()
	yy := influxql.NewYyParser(p.GetScanner(), p.GetPara())
	yy.ParseTokens()
	qr, err := yy.GetQuery()
	if err != nil {
		return nil, err
	}
	if len(qr.Statements) != 1 {
		return nil, fmt.Errorf("%d statements", len(qr.Statements))
	}
	s, ok := qr.Statements[0].(*influxql.SelectStatement)
	if !ok {
		return nil, fmt.Errorf("not a select")
	}
	return s, nil
}

type c09Series struct {
	Host    string
	Columns []string
	Values  [][]interface{}
}

// c09Select runs one statement the way StatementExecutor.executeSelectStatement does on a single-process server.
func c09Select(v *vShard, q string) (rows []*c09Series, err error) {
	defer func() {
		if r := recover(); r != nil {
			err = fmt.Errorf("panic: %v", r)
		}
	}()
	stmt, err := c09Parse(q)
	if err != nil {
		return nil, err
	}
	stmt.OmitTime = true
	rc := make(chan query.RowsChan)
	sopt := query.SelectOptions{ChunkSize: 1024, ChunkedSize: 10000, RowsChan: rc, MaxQueryParallel: 1}
	ctx := context.WithValue(context.Background(), query.QueryDurationKey, (*statistics.SQLSlowQueryStatistics)(nil))
	ex, err := executor.Select(ctx, stmt, &c09Mapper{v: v}, sopt)
	if err != nil {
		return nil, err
	}
	if ex == nil {
		return nil, nil
	}
	pe := ex.(*executor.PipelineExecutor)
	ec := make(chan error, 1)
	go func() {
		ec <- pe.ExecuteExecutor(context.Background())
		close(rc)
	}()
	for r := range rc {
		for _, row := range r.Rows {
			s := &c09Series{Host: row.Tags["host"], Columns: append([]string(nil), row.Columns...)}
			for _, vals := range row.Values {
				s.Values = append(s.Values, append([]interface{}(nil), vals...))
			}
			rows = append(rows, s)
		}
	}
	if err := <-ec; err != nil {
		return rows, err
	}
	return rows, nil
}

// ---- alphabet --------------------------------------------------------------------------------------

// Values of the C09 batches: distinct per row, mixed signs, not monotone in time (so that first != min,
// last != max, and a 0-initialised min/max is visible); all exactly representable (sums are order-free).
var c09PF = map[int]float64{1: 3, 2: -1, 3: 4, 4: -2}
var c09PI = map[int]int64{1: -2, 2: 4, 3: -1, 4: 3}

func c09F(id, host, j int) vVal {
	return vVal{Typ: influx.Field_Type_Float, F: c09PF[j]*float64(100*id+50*host+j) + 0.5}
}
func c09I(id, host, j int) vVal {
	return vVal{Typ: influx.Field_Type_Int, I: c09PI[j] * int64(100*id+50*host+j)}
}
func c09S(id, host, j int) vVal {
	return vVal{Typ: influx.Field_Type_String, S: fmt.Sprintf("w%d.%d.%d", id, host, (j*7)%5)}
}

func c09Pt(id int, host string, j int, fields string) vPoint {
	h := 0
	if host == "b" {
		h = 1
	}
	p := vPoint{K: vKey{"m", host, vT(j)}, V: map[string]vVal{}}
	for _, c := range fields {
		switch c {
		case 'f':
			p.V["f"] = c09F(id, h, j)
		case 'i':
			p.V["i"] = c09I(id, h, j)
		case 's':
			p.V["s"] = c09S(id, h, j)
		}
	}
	return p
}

var c09WriteMenu = []struct {
	Name string
	Gen  func(id int) []vPoint
}{
	{"W4", func(id int) []vPoint { // both series, t1..t4: two 2-row segments per series once flushed
		return []vPoint{
			c09Pt(id, "a", 1, "fi"), c09Pt(id, "a", 2, "fi"), c09Pt(id, "a", 3, "fi"), c09Pt(id, "a", 4, "fi"),
			c09Pt(id, "b", 1, "fs"), c09Pt(id, "b", 2, "fs"), c09Pt(id, "b", 3, "fs"), c09Pt(id, "b", 4, "fs"),
		}
	}},
	{"WN", func(id int) []vPoint { // null-heavy columns
		return []vPoint{
			c09Pt(id, "a", 1, "f"), c09Pt(id, "a", 2, "i"), c09Pt(id, "a", 3, "s"), c09Pt(id, "a", 4, "fis"),
			c09Pt(id, "b", 1, "s"), c09Pt(id, "b", 4, "f"),
		}
	}},
	{"WL", func(id int) []vPoint { // left half
		return []vPoint{c09Pt(id, "a", 1, "fi"), c09Pt(id, "a", 2, "fi"), c09Pt(id, "b", 1, "f")}
	}},
	{"WR", func(id int) []vPoint { // right half (disjoint from WL: ordered / out-of-order files without duplicate keys)
		return []vPoint{c09Pt(id, "a", 3, "fi"), c09Pt(id, "a", 4, "fi"), c09Pt(id, "b", 4, "f")}
	}},
	{"WB", func(id int) []vPoint { // middle of series b only (disjoint from WN, WL, WR: b's rows interleave across files)
		return []vPoint{c09Pt(id, "b", 2, "fs"), c09Pt(id, "b", 3, "fs")}
	}},
	{"WO", func(id int) []vPoint { // odd timestamps
		return []vPoint{c09Pt(id, "a", 1, "fi"), c09Pt(id, "a", 3, "fi"), c09Pt(id, "b", 1, "fs"), c09Pt(id, "b", 3, "fs")}
	}},
	{"WE", func(id int) []vPoint { // even timestamps (disjoint from WO: files interleaved in time without duplicate keys)
		return []vPoint{c09Pt(id, "a", 2, "fi"), c09Pt(id, "a", 4, "fi"), c09Pt(id, "b", 2, "fs"), c09Pt(id, "b", 4, "fs")}
	}},
	// one timestamp per batch (both series): histories over G1F..G4F put one series into up to three out-of-order files
	// (flush generations going backwards in time) without writing any key twice
	{"G1", func(id int) []vPoint { return []vPoint{c09Pt(id, "a", 1, "fi"), c09Pt(id, "b", 1, "fs")} }},
	{"G2", func(id int) []vPoint { return []vPoint{c09Pt(id, "a", 2, "fi"), c09Pt(id, "b", 2, "fs")} }},
	{"G3", func(id int) []vPoint { return []vPoint{c09Pt(id, "a", 3, "fi"), c09Pt(id, "b", 3, "fs")} }},
	{"G4", func(id int) []vPoint { return []vPoint{c09Pt(id, "a", 4, "fi"), c09Pt(id, "b", 4, "fs")} }},
}

// c09GenerationOps: alphabet of the "generations" pass (every order of the four single-timestamp flushes, repetitions included)
var c09GenerationOps = []string{"G1F", "G2F", "G3F", "G4F"}

func c09WriteIndex(name string) int {
	for i := range c09WriteMenu {
		if c09WriteMenu[i].Name == name {
			return i
		}
	}
	return -1
}

// c09Base splits a macro op "<write>F" (write the batch, then flush) into the write name and the flush flag.
func c09Base(op string) (string, bool) {
	if len(op) > 2 && strings.HasSuffix(op, "F") {
		b := op[:len(op)-1]
		if c09WriteIndex(b) >= 0 || vWriteIndex(b) >= 0 {
			return b, true
		}
	}
	return op, false
}

func c09Batch(op string, id int) []vPoint {
	op, _ = c09Base(op)
	if wi := c09WriteIndex(op); wi >= 0 {
		return c09WriteMenu[wi].Gen(id)
	}
	if wi := vWriteIndex(op); wi >= 0 {
		return vWriteMenu[wi].Gen(id)
	}
	return nil
}

// c09Ops: the alphabet. Writes come plain (into the memtable) and as macro ops "<write>F" = write + flush, so that a
// history of length 3 reaches two files + reorganisation, file + out-of-order file + merge, two files + memtable;
// a bare flush is then redundant ("X Y F" = "X YF"). RO = clean close + reopen (flushes the memtable, reloads files).
func c09Ops(big bool) []string {
	if !big {
		return []string{"WR", "WE", "WNF", "WLF", "WRF", "WOF", "WEF", "WBF", "LC", "LCs", "MO", "RO"}
	}
	return []string{"W4", "WN", "WL", "WR", "WO", "WE", "WB", "Wc", "We", "Wh", "W4F", "WNF", "WLF", "WRF", "WOF", "WEF", "WBF", "WcF",
		"LC", "LCs", "FC", "FCs", "MO", "MF", "RO"}
}

// c09SegRows: rows per segment of every file the histories write (see TestVerifC09).
const c09SegRows = 2

// c09Apply executes one op on the shard and on the model (writes of the C09 menu here, everything else by vApply).
func c09Apply(v *vShard, m vModel, op string, id int) error {
	base, flush := c09Base(op)
	if pts := c09Batch(base, id); pts != nil {
		if err := v.Write(pts); err != nil {
			return err
		}
		m.ApplyBatch(pts)
		if flush {
			v.Flush()
		}
		return nil
	}
	if op == "LCs" || op == "FCs" {
		// level / full compaction forced onto the streaming path (StreamIterators: statistics of the source chunks are
		// merged, not recomputed); with the default "auto" setting the tiny files of this universe always take the
		// record-based path (statistics recomputed from the rows by the table builder).
		old := immutable.GetMergeFlag4TsStore()
		immutable.SetMergeFlag4TsStore(util.StreamingCompact)
		defer immutable.SetMergeFlag4TsStore(old)
		return vApply(v, m, op[:2], id)
	}
	if op == "RO" {
		// Flush explicitly before the clean close: whether the rows a closing shard flushes land in an ordered or an
		// out-of-order file is decided differently from run to run ("WBF WR RO" gives LL+0u or L+1u); both are legal
		// layouts, but the set of explored layouts should not depend on the run.
		v.Flush()
	}
	if op == "MO" || op == "MF" {
		// The out-of-order merge's column writer (merge_performer.go columnWriter.write -> ColVal.AppendTimes on a
		// split remainder whose BitMapOffset != 0) panics in a background goroutine when the segment row limit is not
		// a multiple of 8; unreachable with the default limit (1000), reachable with the 2-row segments of
		// vSetupEngineKnobs as soon as one series merges more than 2 rows in two steps (minimal: "WB WEF WNF MO").
		// Not this property (reported to the lead); the merge itself runs with 8-row segments here.
		immutable.SetMaxRowsPerSegment4TsStore(8)
		defer immutable.SetMaxRowsPerSegment4TsStore(c09SegRows)
	}
	return vApply(v, m, op, id)
}

// ---- physical layout: segments ---------------------------------------------------------------------

type c09Seg struct {
	File     string
	Order    bool
	Sid      uint64
	Min, Max int64
}

// c09Segments lists every stored segment (per series chunk) of measurement mst with its time range.
func c09Segments(v *vShard, mst string) ([]c09Seg, error) {
	order, unorder, _ := v.sh.immTables.GetBothFilesRef(mst, false, util.TimeRange{Min: math.MinInt64, Max: math.MaxInt64}, nil)
	defer immutable.UnrefFiles(order...)
	defer immutable.UnrefFiles(unorder...)
	var out []c09Seg
	for pass, files := range [][]immutable.TSSPFile{order, unorder} {
		for _, f := range files {
			n := int(f.MetaIndexItemNum())
			for i := 0; i < n; i++ {
				mi, err := f.MetaIndexAt(i)
				if err != nil {
					return nil, err
				}
				cms, err := f.ReadChunkMetaData(i, mi, nil, fileops.IO_PRIORITY_LOW_READ)
				if err != nil {
					return nil, err
				}
				for ci := range cms {
					cm := &cms[ci]
					for s := 0; s < cm.SegmentCount(); s++ {
						r := cm.GetTimeRangeBy(s)
						out = append(out, c09Seg{File: f.Path(), Order: pass == 0, Sid: cm.GetSid(), Min: r[0], Max: r[1]})
					}
				}
			}
		}
	}
	return out, nil
}

func c09TIdx(t int64) string {
	switch {
	case t <= influxql.MinTime:
		return "-inf"
	case t >= influxql.MaxTime:
		return "+inf"
	}
	return strconv.Itoa(int((t - vBase) / int64(time.Second)))
}

// c09Chunk is one series chunk of one file (the unit that carries the statistics the shortcut trusts).
type c09Chunk struct {
	File     string
	Order    bool
	Spans    string // "[1-2][3-4]"
	Min, Max int64
}

// c09Chunks groups the segments into chunks, files in storage order, the chunks of a file in canonical order (by
// their spans: series ids are handed out in scheduling order when one batch creates two series, so the order of the
// chunks inside a file is not a property of the history).
func c09Chunks(segs []c09Seg) []c09Chunk {
	var out []c09Chunk
	fileStart := 0
	for i := 0; i < len(segs); {
		j := i
		c := c09Chunk{File: segs[i].File, Order: segs[i].Order, Min: segs[i].Min, Max: segs[i].Max}
		for j < len(segs) && segs[j].File == segs[i].File && segs[j].Sid == segs[i].Sid {
			if segs[j].Min < c.Min {
				c.Min = segs[j].Min
			}
			if segs[j].Max > c.Max {
				c.Max = segs[j].Max
			}
			c.Spans += fmt.Sprintf("[%s-%s]", c09TIdx(segs[j].Min), c09TIdx(segs[j].Max))
			j++
		}
		if len(out) > 0 && out[len(out)-1].File != c.File {
			fileStart = len(out)
		}
		out = append(out, c)
		f := out[fileStart:]
		sort.SliceStable(f, func(x, y int) bool { return f[x].Spans < f[y].Spans })
		i = j
	}
	return out
}

// c09SegShape: per file the segment spans of each series chunk, e.g. "o{[1-2][3-4]|[1-2]}u{[1-1]}".
func c09SegShape(chunks []c09Chunk) string {
	var b strings.Builder
	for i, c := range chunks {
		if i == 0 || chunks[i-1].File != c.File {
			if i > 0 {
				b.WriteString("}")
			}
			if c.Order {
				b.WriteString("o{")
			} else {
				b.WriteString("u{")
			}
		} else {
			b.WriteString("|")
		}
		b.WriteString(c.Spans)
	}
	if len(chunks) > 0 {
		b.WriteString("}")
	}
	return b.String()
}

// c09Coverage classifies every stored chunk against [start,end]: F fully covered (ChunkMeta.allRowsInRange: its
// statistics may be used), P partially covered (data must be read, segments outside the range skipped), N disjoint.
func c09Coverage(chunks []c09Chunk, start, end int64) (pattern string, full, partial int) {
	var b strings.Builder
	for _, c := range chunks {
		switch {
		case c.Max < start || c.Min > end:
			b.WriteByte('N')
		case start <= c.Min && c.Max <= end:
			b.WriteByte('F')
			full++
		default:
			b.WriteByte('P')
			partial++
		}
	}
	return b.String(), full, partial
}

// ---- queries ---------------------------------------------------------------------------------------

type c09Variant struct {
	Name   string
	Hint   bool
	Filter bool // where f > 0
	ByHost bool
	Bucket int // seconds; 0 = none
	Desc   bool
	Multi  bool // all calls of a field in one statement
}

func (va c09Variant) lenient() bool { return !va.Hint && !va.Filter && va.Bucket == 0 }

type c09Range struct{ A, B int } // vT(A)..vT(B); A < 0 = unbounded

func (r c09Range) bounds() (int64, int64) {
	if r.A < 0 {
		return influxql.MinTime, influxql.MaxTime
	}
	return vT(r.A), vT(r.B)
}

func (r c09Range) String() string {
	if r.A < 0 {
		return "all"
	}
	return fmt.Sprintf("[t%d,t%d]", r.A, r.B)
}

type c09AggField struct {
	Agg   string
	Field string
}

var c09AggFields = func() []c09AggField {
	var out []c09AggField
	for _, f := range []string{"f", "i"} {
		for _, a := range []string{"count", "sum", "mean", "min", "max", "first", "last"} {
			out = append(out, c09AggField{a, f})
		}
	}
	for _, a := range []string{"count", "first", "last"} {
		out = append(out, c09AggField{a, "s"})
	}
	return out
}()

// Query-set levels: 0 = light (layouts without any file: nothing stored, no statistics), 1 = reduced, 2 = full.
func c09Variants(level int) []c09Variant {
	if level == 0 {
		return []c09Variant{{Name: "plain"}, {Name: "hint", Hint: true}, {Name: "byhost", ByHost: true}, {Name: "bucket2s", Bucket: 2}}
	}
	full := level >= 2
	vs := []c09Variant{
		{Name: "plain"},
		{Name: "plain_desc", Desc: true},
		{Name: "hint", Hint: true},
		{Name: "filter", Filter: true},
		{Name: "byhost", ByHost: true},
		{Name: "bucket2s", Bucket: 2},
		{Name: "multi", Multi: true},
		{Name: "byhost_desc", ByHost: true, Desc: true},
		{Name: "filter_byhost", Filter: true, ByHost: true},
		{Name: "bucket2s_desc", Bucket: 2, Desc: true},
		{Name: "filter_bucket2s", Filter: true, Bucket: 2},
	}
	if full {
		vs = append(vs,
			c09Variant{Name: "hint_desc", Hint: true, Desc: true},
			c09Variant{Name: "filter_desc", Filter: true, Desc: true},
			c09Variant{Name: "bucket1s", Bucket: 1},
			c09Variant{Name: "bucket3s", Bucket: 3},
			c09Variant{Name: "hint_byhost", Hint: true, ByHost: true},
			c09Variant{Name: "hint_byhost_desc", Hint: true, ByHost: true, Desc: true},
			c09Variant{Name: "bucket2s_byhost", Bucket: 2, ByHost: true},
			c09Variant{Name: "hint_filter_bucket2s", Hint: true, Filter: true, Bucket: 2},
			c09Variant{Name: "multi_hint", Multi: true, Hint: true},
			c09Variant{Name: "multi_desc", Multi: true, Desc: true},
		)
	}
	return vs
}

func c09Ranges(level int) []c09Range {
	if level == 0 {
		return []c09Range{{-1, -1}, {1, 4}, {2, 3}}
	}
	full := level >= 2
	rs := []c09Range{{-1, -1}}
	lo, hi := 1, 4
	if full {
		lo, hi = 0, 5
	}
	for a := lo; a <= hi; a++ {
		for b := a; b <= hi; b++ {
			rs = append(rs, c09Range{a, b})
		}
	}
	return rs
}

func c09QueryText(va c09Variant, r c09Range, calls []c09AggField) string {
	var b strings.Builder
	b.WriteString("select ")
	if va.Hint {
		b.WriteString("/*+ exact_statistic_query */ ")
	}
	for i, c := range calls {
		if i > 0 {
			b.WriteString(", ")
		}
		fmt.Fprintf(&b, "%s(%s)", c.Agg, c.Field)
	}
	if calls == nil {
		b.WriteString("f, i, s")
	}
	b.WriteString(" from m")
	var conds []string
	if r.A >= 0 {
		conds = append(conds, fmt.Sprintf("time >= %d and time <= %d", vT(r.A), vT(r.B)))
	}
	if va.Filter {
		conds = append(conds, "f > 0")
	}
	if len(conds) > 0 {
		b.WriteString(" where " + strings.Join(conds, " and "))
	}
	var dims []string
	if va.ByHost {
		dims = append(dims, "host")
	}
	if va.Bucket > 0 {
		dims = append(dims, fmt.Sprintf("time(%ds)", va.Bucket))
	}
	if len(dims) > 0 {
		b.WriteString(" group by " + strings.Join(dims, ", "))
	}
	if va.Desc {
		b.WriteString(" order by time desc")
	}
	return b.String()
}

// ---- reference: the function applied to the rows -------------------------------------------------

type c09Row struct {
	Host string
	T    int64
	V    map[string]vVal
}

// c09Rows: the rows of the plain cursor for the range (all three fields selected), sorted by (time, host).
func c09Rows(v *vShard, r c09Range) ([]c09Row, error) {
	start, end := r.bounds()
	got, shapeErrs, err := v.Dump(vQuery{Mst: "m", Fields: vFields, Ascending: true, Start: start, End: end})
	if err != nil {
		return nil, err
	}
	if len(shapeErrs) > 0 {
		return nil, fmt.Errorf("plain cursor stream shape: %s", strings.Join(shapeErrs, "; "))
	}
	rows := make([]c09Row, 0, len(got))
	for k, fs := range got {
		rows = append(rows, c09Row{Host: k.Host, T: k.T, V: fs})
	}
	sort.Slice(rows, func(i, j int) bool {
		if rows[i].T != rows[j].T {
			return rows[i].T < rows[j].T
		}
		return rows[i].Host < rows[j].Host
	})
	return rows, nil
}

// c09StmtRows: the rows the corresponding plain statement returns (select f, i, s ... group by host) for the same
// time range and, if asked, the same field filter. Used as the reference rows of the field-filter variants (how a
// filter treats rows whose fields live in different files / the memtable is the plain select's business - C02/C08 -
// not this property's: the statement compares the aggregate with the plain select *for the same filter*), and as a
// cross-check of the cursor-level dump otherwise.
func c09StmtRows(v *vShard, r c09Range, filter bool) ([]c09Row, error) {
	q := c09QueryText(c09Variant{Filter: filter, ByHost: true}, r, nil)
	series, err := c09Select(v, q)
	if err != nil {
		return nil, fmt.Errorf("%s: %v", q, err)
	}
	var rows []c09Row
	for _, s := range series {
		if len(s.Columns) != 4 || s.Columns[1] != "f" || s.Columns[2] != "i" || s.Columns[3] != "s" {
			return nil, fmt.Errorf("%s: unexpected columns %v", q, s.Columns)
		}
		for _, vals := range s.Values {
			tm, ok := vals[0].(time.Time)
			if !ok {
				return nil, fmt.Errorf("%s: time column has type %T", q, vals[0])
			}
			row := c09Row{Host: s.Host, T: tm.UnixNano(), V: map[string]vVal{}}
			for ci, name := range []string{"f", "i", "s"} {
				if vals[ci+1] == nil {
					continue
				}
				val, ok := c09ValOf(vals[ci+1])
				if !ok {
					return nil, fmt.Errorf("%s: value type %T", q, vals[ci+1])
				}
				row.V[name] = val
			}
			if len(row.V) > 0 {
				rows = append(rows, row)
			}
		}
	}
	sort.Slice(rows, func(i, j int) bool {
		if rows[i].T != rows[j].T {
			return rows[i].T < rows[j].T
		}
		return rows[i].Host < rows[j].Host
	})
	return rows, nil
}

// c09HarnessFilter: f > 0 applied to the merged rows (last write wins first, filter second).
func c09HarnessFilter(rows []c09Row) []c09Row {
	var out []c09Row
	for _, r := range rows {
		if f, ok := r.V["f"]; ok && f.F > 0 {
			out = append(out, r)
		}
	}
	return out
}

func c09SameRows(a, b []c09Row) bool {
	return c09FmtRows(a) == c09FmtRows(b)
}

// c09Window: start of the time bucket of t (InfluxQL: buckets aligned to the epoch).
func c09Window(t int64, bucketS int) int64 {
	w := int64(bucketS) * int64(time.Second)
	s := t - t%w
	if t%w < 0 {
		s -= w
	}
	return s
}

type c09GroupKey struct {
	Host   string
	Bucket int64
}

func (g c09GroupKey) String() string {
	s := "host=" + g.Host
	if g.Host == "" {
		s = "all"
	}
	if g.Bucket != 0 {
		s += fmt.Sprintf("@bucket(%d)", (g.Bucket-vBase)/int64(time.Second))
	}
	return s
}

// c09Expected applies agg to the non-null values of field within every group. A result is a set of admissible
// values (more than one only for first/last when several series tie on the extreme timestamp).
func c09Expected(rows []c09Row, va c09Variant, c c09AggField) map[c09GroupKey][]vVal {
	type acc struct {
		n      int64
		sumF   float64
		sumI   int64
		min    vVal
		max    vVal
		firstT int64
		lastT  int64
		first  []vVal
		last   []vVal
		typ    int32
	}
	groups := map[c09GroupKey]*acc{}
	for _, r := range rows {
		val, ok := r.V[c.Field]
		if !ok {
			continue
		}
		k := c09GroupKey{}
		if va.ByHost {
			k.Host = r.Host
		}
		if va.Bucket > 0 {
			k.Bucket = c09Window(r.T, va.Bucket)
		}
		a := groups[k]
		if a == nil {
			a = &acc{min: val, max: val, firstT: r.T, lastT: r.T, typ: val.Typ}
			groups[k] = a
			a.n, a.sumF, a.sumI = 1, val.F, val.I
			a.first, a.last = []vVal{val}, []vVal{val}
			continue
		}
		a.n++
		a.sumF += val.F
		a.sumI += val.I
		if c09Less(val, a.min) {
			a.min = val
		}
		if c09Less(a.max, val) {
			a.max = val
		}
		switch {
		case r.T < a.firstT:
			a.firstT, a.first = r.T, []vVal{val}
		case r.T == a.firstT:
			a.first = append(a.first, val)
		}
		switch {
		case r.T > a.lastT:
			a.lastT, a.last = r.T, []vVal{val}
		case r.T == a.lastT:
			a.last = append(a.last, val)
		}
	}
	out := map[c09GroupKey][]vVal{}
	for k, a := range groups {
		switch c.Agg {
		case "count":
			out[k] = []vVal{{Typ: influx.Field_Type_Int, I: a.n}}
		case "sum":
			if a.typ == influx.Field_Type_Float {
				out[k] = []vVal{{Typ: influx.Field_Type_Float, F: a.sumF}}
			} else {
				out[k] = []vVal{{Typ: influx.Field_Type_Int, I: a.sumI}}
			}
		case "mean":
			if a.typ == influx.Field_Type_Float {
				out[k] = []vVal{{Typ: influx.Field_Type_Float, F: a.sumF / float64(a.n)}}
			} else {
				out[k] = []vVal{{Typ: influx.Field_Type_Float, F: float64(a.sumI) / float64(a.n)}}
			}
		case "min":
			out[k] = []vVal{a.min}
		case "max":
			out[k] = []vVal{a.max}
		case "first":
			out[k] = a.first
		case "last":
			out[k] = a.last
		}
	}
	return out
}

func c09Less(a, b vVal) bool {
	switch a.Typ {
	case influx.Field_Type_Float:
		return a.F < b.F
	case influx.Field_Type_Int:
		return a.I < b.I
	}
	return a.S < b.S
}

func c09ValOf(x interface{}) (vVal, bool) {
	switch t := x.(type) {
	case int64:
		return vVal{Typ: influx.Field_Type_Int, I: t}, true
	case int:
		return vVal{Typ: influx.Field_Type_Int, I: int64(t)}, true
	case uint64:
		return vVal{Typ: influx.Field_Type_Int, I: int64(t)}, true
	case float64:
		return vVal{Typ: influx.Field_Type_Float, F: t}, true
	case string:
		return vVal{Typ: influx.Field_Type_String, S: t}, true
	}
	return vVal{}, false
}

func c09SameVal(a, b vVal) bool {
	if a.Typ != b.Typ {
		return false
	}
	switch a.Typ {
	case influx.Field_Type_Float:
		if a.F == b.F {
			return true
		}
		d := math.Abs(a.F - b.F)
		return d <= 1e-12*math.Max(math.Abs(a.F), math.Abs(b.F))
	case influx.Field_Type_Int:
		return a.I == b.I
	}
	return a.S == b.S
}

// c09Observed turns the statement's answer into group -> value for column col (1-based after time).
// Null values and zero counts stand for "no rows in the group" (fill(null) / count's fill(0) on empty buckets).
func c09Observed(series []*c09Series, va c09Variant, col int, isCount bool) (map[c09GroupKey]vVal, []string) {
	out := map[c09GroupKey]vVal{}
	var errs []string
	for _, s := range series {
		if va.Bucket == 0 && len(s.Values) > 1 {
			errs = append(errs, fmt.Sprintf("%d result rows for one group (host=%q)", len(s.Values), s.Host))
		}
		for _, row := range s.Values {
			if col >= len(row) {
				errs = append(errs, fmt.Sprintf("result row has %d columns", len(row)))
				continue
			}
			if row[col] == nil {
				continue
			}
			val, ok := c09ValOf(row[col])
			if !ok {
				errs = append(errs, fmt.Sprintf("unexpected value type %T", row[col]))
				continue
			}
			if isCount && val.I == 0 {
				continue
			}
			k := c09GroupKey{}
			if va.ByHost {
				k.Host = s.Host
			}
			if va.Bucket > 0 {
				tm, ok := row[0].(time.Time)
				if !ok {
					errs = append(errs, fmt.Sprintf("time column has type %T", row[0]))
					continue
				}
				k.Bucket = tm.UnixNano()
			}
			if old, dup := out[k]; dup {
				errs = append(errs, fmt.Sprintf("group %v returned twice (%v and %v)", k, old, val))
			}
			out[k] = val
		}
	}
	return out, errs
}

func c09Diff(exp map[c09GroupKey][]vVal, got map[c09GroupKey]vVal) []string {
	var diffs []string
	for k, cands := range exp {
		g, ok := got[k]
		if !ok {
			diffs = append(diffs, fmt.Sprintf("%v: no value, rows give %v", k, cands))
			continue
		}
		hit := false
		for _, c := range cands {
			if c09SameVal(c, g) {
				hit = true
			}
		}
		if !hit {
			diffs = append(diffs, fmt.Sprintf("%v: statement %v, rows give %v", k, g, cands))
		}
	}
	for k, g := range got {
		if _, ok := exp[k]; !ok {
			diffs = append(diffs, fmt.Sprintf("%v: statement %v, rows give nothing", k, g))
		}
	}
	sort.Strings(diffs)
	return diffs
}

// ---- per-state oracle ------------------------------------------------------------------------------

// c09LogViolation: development aid (VERIF_C09_VIOLOG=<path prefix>): every catch-all violation (kind *_mismatch; every
// violation with VERIF_C09_VIOLOG_ALL) of a worker is appended to <prefix>.<shard>, uncapped (the report keeps 8 per
// kind and worker).
func c09LogViolation(kind, key string, diffs []string) {
	prefix := os.Getenv("VERIF_C09_VIOLOG")
	if prefix == "" || (!strings.HasSuffix(kind, "_mismatch") && os.Getenv("VERIF_C09_VIOLOG_ALL") == "") {
		return
	}
	f, err := os.OpenFile(prefix+"."+kit.Getenv("VERIF_SHARD", "0"), os.O_APPEND|os.O_CREATE|os.O_WRONLY, 0o644)
	if err != nil {
		return
	}
	defer f.Close()
	fmt.Fprintf(f, "%s\t%s\t%s\n", kind, key, strings.Join(diffs, "; "))
}

// c09DevPrint: development aid (C09_DEV_OPS without C09_DEV_Q): print every mismatch of one state instead of recording it.
var c09DevPrint func(variant, rng string, c c09AggField, diffs []string)

type c09Case struct {
	Ops   []string `json:"ops"`
	Query string   `json:"query,omitempty"`
	Level int      `json:"level"` // query-set level of the state check (a replay runs the same statements in the same order)
}

type c09State struct {
	hist     []string
	crossGen bool
	layout   string
	level    int // query-set level
	// descExposed: the state has at least two ordered files and rows outside them (an out-of-order file or memtable
	// rows) - the layouts in which a descending scan hands those rows out at the wrong position (see c09Kind)
	descExposed bool
}

// c09Kind classifies a mismatch. Six defect classes have their own kind (the classification uses only the
// statement's shape, facts of the state - cross-generation flag, file layout - and the two answers):
//
//	<call>_value_of_wrong_series            first/last over several series answered with the first/last value of the
//	                                        wrong series (per-series candidates compared on wrong timestamps)
//	first_last_under_order_by_time_desc     first/last of a statement with ORDER BY time DESC
//	duplicate_rows_under_order_by_time_desc count/sum/mean/min/max of a statement with ORDER BY time DESC in a state with
//	                                        two or more ordered files plus out-of-order/memtable rows whose history overwrote
//	                                        a key across flush generations
//	rows_in_wrong_bucket_under_order_by_time_desc
//	                                        the same layouts without a cross-generation overwrite, GROUP BY time + ORDER BY
//	                                        time DESC: rows are counted in the bucket of another row (count/sum: the total over
//	                                        the buckets is that of the rows; min/max: every value is a bucket's value of the rows)
//	sum_at_time_of_earlier_null_row         sum(x) with a field filter and GROUP BY time, x null in a row the filter passes:
//	                                        the total over the buckets is that of the rows, but sums are reported in (or added
//	                                        to) other buckets
//	group_missing_after_filter_group_by_tag field filter + GROUP BY tag: groups are missing from the answer, the groups that
//	                                        are present agree
//
// everything else: <call>_<preagg_path|rows_path>_mismatch.
func c09Kind(va c09Variant, c c09AggField, st c09State, rows []c09Row, exp map[c09GroupKey][]vVal, got map[c09GroupKey]vVal) string {
	crossGen := st.crossGen
	path := "rows_path"
	if va.lenient() {
		path = "preagg_path"
	}
	admissible := func(k c09GroupKey, g vVal) bool {
		for _, cv := range exp[k] {
			if c09SameVal(cv, g) {
				return true
			}
		}
		return false
	}
	isFL := c.Agg == "first" || c.Agg == "last"
	if c.Agg == "sum" && va.Filter && va.Bucket > 0 && !va.Multi && c09NullInRows(rows, c.Field) && c09Regrouped(c, exp, got) {
		return "sum_at_time_of_earlier_null_row"
	}
	switch {
	case va.Desc && isFL:
		return "first_last_under_order_by_time_desc"
	case va.Desc && st.descExposed && crossGen:
		return "duplicate_rows_under_order_by_time_desc"
	case va.Desc && st.descExposed && va.Bucket > 0 && c09Regrouped(c, exp, got):
		return "rows_in_wrong_bucket_under_order_by_time_desc"
	}
	if va.Filter && va.ByHost && len(got) < len(exp) {
		subset := true
		for k, g := range got {
			subset = subset && admissible(k, g)
		}
		if subset {
			return "group_missing_after_filter_group_by_tag"
		}
	}
	if isFL && !va.ByHost && len(got) == len(exp) {
		perHost := va
		perHost.ByHost = true
		hostVals := c09Expected(rows, perHost, c)
		other := true
		for k, g := range got {
			if _, ok := exp[k]; !ok {
				other = false
				break
			}
			if admissible(k, g) {
				continue
			}
			found := false
			for hk, hv := range hostVals {
				if hk.Bucket != k.Bucket {
					continue
				}
				for _, cv := range hv {
					found = found || c09SameVal(cv, g)
				}
			}
			other = other && found
		}
		if other {
			return fmt.Sprintf("%s_%s_value_of_wrong_series", c.Agg, path)
		}
	}
	return fmt.Sprintf("%s_%s_mismatch", c.Agg, path)
}

// c09NullInRows: some row lacks the field (the column is null there).
func c09NullInRows(rows []c09Row, field string) bool {
	for _, r := range rows {
		if _, ok := r.V[field]; !ok {
			return true
		}
	}
	return false
}

// c09Regrouped: the answer is what the function gives when the rows of a tag group are distributed over the buckets
// differently: count/sum - the total over the buckets is preserved; min/max - every reported value is the value the
// rows give for some bucket of the same tag group; mean - not checkable from the answers.
func c09Regrouped(c c09AggField, exp map[c09GroupKey][]vVal, got map[c09GroupKey]vVal) bool {
	switch c.Agg {
	case "count", "sum":
		type tot struct {
			f float64
			i int64
		}
		te, tg := map[string]tot{}, map[string]tot{}
		for k, cands := range exp {
			if len(cands) != 1 {
				return false
			}
			t := te[k.Host]
			te[k.Host] = tot{t.f + cands[0].F, t.i + cands[0].I}
		}
		for k, v := range got {
			t := tg[k.Host]
			tg[k.Host] = tot{t.f + v.F, t.i + v.I}
		}
		if len(te) != len(tg) {
			return false
		}
		for h, t := range te {
			if g, ok := tg[h]; !ok || g != t {
				return false
			}
		}
		return true
	case "min", "max":
		for k, v := range got {
			found := false
			for ek, cands := range exp {
				if ek.Host != k.Host {
					continue
				}
				for _, cv := range cands {
					found = found || c09SameVal(cv, v)
				}
			}
			if !found {
				return false
			}
		}
		return true
	}
	return c.Agg == "mean"
}

func c09CheckState(rep *kit.Report, v *vShard, st c09State) (failed bool) {
	key := strings.Join(st.hist, " ")
	segs, err := c09Segments(v, "m")
	if err != nil {
		rep.Violation("harness_segments_error", key, err.Error(), c09Case{Ops: st.hist})
		return true
	}
	mem := strings.HasSuffix(st.layout, "mem")
	chunks := c09Chunks(segs)
	orderedFiles, unorderedFiles := map[string]bool{}, map[string]bool{}
	for _, ch := range chunks {
		if ch.Order {
			orderedFiles[ch.File] = true
		} else {
			unorderedFiles[ch.File] = true
		}
	}
	st.descExposed = len(orderedFiles) >= 2 && (len(unorderedFiles) > 0 || mem)
	shape := vLayoutShape(st.layout) + " " + c09SegShape(chunks)
	if kit.Getenv("C09_SHAPES", "") != "" { // development aid: print the physical shape of every state
		fmt.Printf("S %s | %s | %s\n", key, shape, st.layout)
		return false
	}
	level := st.level
	if len(segs) == 0 {
		level = 0
		rep.Count("states_memtable_only", 1)
	}
	variants := c09Variants(level)
	ranges := c09Ranges(level)
	rep.Count("states_checked", 1)
	if st.crossGen {
		rep.Count("states_cross_generation", 1)
	}
	nViol := 0
	for _, r := range ranges {
		rows, err := c09Rows(v, r)
		if err != nil {
			rep.Violation("plain_read_error", key, fmt.Sprintf("range %v: %v", r, err), c09Case{Ops: st.hist})
			return true
		}
		start, end := r.bounds()
		pattern, nFull, nPartial := c09Coverage(chunks, start, end)
		nontrivial := nFull > 0 && (nPartial > 0 || mem)
		stmtRows, err := c09StmtRows(v, r, false)
		if err != nil {
			rep.Violation("plain_statement_error", key, err.Error(), c09Case{Ops: st.hist})
			return true
		}
		if !c09SameRows(rows, stmtRows) {
			// the two plain read paths disagree without any filter: the reference itself is in doubt
			rep.Violation("plain_statement_differs_from_cursor_dump", key, fmt.Sprintf("range %v: cursor %s; statement %s; layout %s", r, c09FmtRows(rows), c09FmtRows(stmtRows), shape), c09Case{Ops: st.hist})
			return true
		}
		var filtered []c09Row
		if level > 0 {
			if filtered, err = c09StmtRows(v, r, true); err != nil {
				rep.Violation("plain_statement_error", key, err.Error(), c09Case{Ops: st.hist})
				return true
			}
			if c09FmtRows(filtered) != c09FmtRows(c09HarnessFilter(rows)) {
				rep.Count("filter_rows_differ_from_filtered_merge", 1) // not this property: see c09StmtRows
			}
		}
		for _, va := range variants {
			if va.Bucket > 0 && r.A < 0 {
				continue // group by time needs explicit bounds
			}
			if va.lenient() && st.crossGen {
				rep.Count("excluded_cross_generation", int64(len(c09AggFields)))
				continue
			}
			use := rows
			if va.Filter {
				use = filtered
			}
			var stmts [][]c09AggField
			if va.Multi {
				for _, f := range []string{"f", "i", "s"} {
					var calls []c09AggField
					for _, c := range c09AggFields {
						if c.Field == f && c.Agg != "mean" {
							calls = append(calls, c)
						}
					}
					stmts = append(stmts, calls)
				}
			} else {
				for _, c := range c09AggFields {
					stmts = append(stmts, []c09AggField{c})
				}
			}
			for _, calls := range stmts {
				q := c09QueryText(va, r, calls)
				series, err := c09Select(v, q)
				rep.Count("statements", 1)
				if err != nil {
					rep.Violation("query_error", key+" | "+q, err.Error(), c09Case{Ops: st.hist, Query: q, Level: st.level})
					nViol++
					continue
				}
				for ci, c := range calls {
					rep.Eval(1)
					exp := c09Expected(use, va, c)
					got, shapeErrs := c09Observed(series, va, ci+1, c.Agg == "count")
					diffs := c09Diff(exp, got)
					diffs = append(diffs, shapeErrs...)
					if nontrivial {
						rep.DistinctNontrivial(kit.Hash(shape, pattern, c.Agg, c.Field, va.Name, fmt.Sprint(mem)))
					}
					if len(diffs) > 0 && c09DevPrint != nil {
						c09DevPrint(va.Name, r.String(), c, diffs)
						continue
					}
					if len(diffs) > 0 {
						nViol++
						kind := c09Kind(va, c, st, use, exp, got)
						c09LogViolation(kind, key+" | "+q, diffs)
						rep.Violation(kind, key+" | "+q,
							fmt.Sprintf("%s(%s): %s; layout %s; chunks covered %s mem=%v; rows %s", c.Agg, c.Field,
								strings.Join(diffs, "; "), shape, pattern, mem, c09FmtRows(use)),
							c09Case{Ops: st.hist, Query: q, Level: st.level})
					}
				}
			}
		}
		if nontrivial {
			rep.Sample(8, map[string]any{"history": key, "layout": shape, "range": r.String(), "coverage": pattern, "mem": mem, "rows": len(rows)})
		}
	}
	return nViol > 0
}

func c09FmtRows(rows []c09Row) string {
	var b strings.Builder
	for _, r := range rows {
		fmt.Fprintf(&b, "(%s,t%s", r.Host, c09TIdx(r.T))
		for _, f := range []string{"f", "i", "s"} {
			if v, ok := r.V[f]; ok {
				fmt.Fprintf(&b, " %s=%v", f, v)
			}
		}
		b.WriteString(")")
	}
	return b.String()
}

// ---- history runner ----------------------------------------------------------------------------------

// c09RunHistory runs ops on a fresh shard. The oracle is evaluated after step i iff check(i) (second result:
// with the full query set). Returns the index of the first no-op step (or -1).
// c09DirSeq: every execution gets a directory of its own - process-global caches of the engine are keyed by file path, and
// file names restart at 00000001 in a new shard, so a directory reused by the next history can serve stale metadata
var c09DirSeq int

func c09RunHistory(rep *kit.Report, dir string, ops []string, check func(i int) (bool, int)) (noopAt int, failed bool) {
	noopAt = -1
	c09DirSeq++
	dir = fmt.Sprintf("%s-%d", dir, c09DirSeq)
	_ = os.RemoveAll(dir)
	v, err := vOpenShard(dir)
	if err != nil {
		rep.Violation("harness_open_error", strings.Join(ops, " "), err.Error(), c09Case{Ops: ops})
		return -1, true
	}
	c09TheStore.v = v // (a reopen replaces v.sh, not v)
	defer func() {
		c09TheStore.v = nil
		if err := v.Close(); err != nil {
			rep.Violation("close_error", strings.Join(ops, " "), err.Error(), c09Case{Ops: ops})
		}
		_ = os.RemoveAll(dir)
	}()
	m := vModel{}
	gen := 0
	gens := map[vKey]map[int]bool{}
	crossGen := false
	prevLayout := v.Layout()
	for i, op := range ops {
		before := m.Digest()
		if err := c09Apply(v, m, op, i+1); err != nil {
			rep.Violation("op_error", strings.Join(ops[:i+1], " "), fmt.Sprintf("op %s failed: %v", op, err), c09Case{Ops: ops[:i+1]})
			return -1, true
		}
		layout := v.Layout()
		if m.Digest() == before && layout == prevLayout {
			return i, false
		}
		// flush generations: a key is tagged with the generation of the memtable it was written into; the
		// generation ends when that memtable reaches the disk (observed, whatever op caused it).
		for _, p := range c09Batch(op, i+1) {
			if gens[p.K] == nil {
				gens[p.K] = map[int]bool{}
			}
			gens[p.K][gen] = true
			if len(gens[p.K]) > 1 {
				crossGen = true
			}
		}
		hadMem := strings.HasSuffix(prevLayout, "mem") || len(c09Batch(op, i+1)) > 0
		if hadMem && !strings.HasSuffix(layout, "mem") {
			gen++
		}
		prevLayout = layout
		rep.Count("steps", 1)
		if do, level := check(i); do {
			if c09CheckState(rep, v, c09State{hist: append([]string(nil), ops[:i+1]...), crossGen: crossGen, layout: layout, level: level}) {
				failed = true
			}
		}
	}
	return -1, failed
}

func TestVerifC09(t *testing.T) {
	rep := kit.NewReport("C09")
	defer rep.Save()
	vSetupEngineKnobs()
	// 2-row segments: with 4 timestamps per series this is what makes chunks of two segments (and query ranges that
	// cover one segment and cut the other) reachable. Set here and restored after every out-of-order merge, so that the
	// layout of a history does not depend on what the worker ran before (a replay sees the layout the explorer saw).
	immutable.SetMaxRowsPerSegment4TsStore(c09SegRows)
	_ = logger.SetLevel("error")
	debug.SetGCPercent(400)
	executor.EnableFileCursor(true)
	executor.SetLocalStorageForQuery(c09TheStore)
	executor.InitLocalStoreTemplatePlan()
	scratch := kit.Scratch()
	thorough := kit.Thorough()
	if kit.ReplayPath() != "" {
		var c c09Case
		if err := kit.LoadReplay(&c); err != nil {
			t.Fatal(err)
		}
		last := len(c.Ops) - 1
		c09RunHistory(rep, vMkdir(scratch, "replay"), c.Ops, func(i int) (bool, int) { return i == last, c.Level })
		return
	}
	if dev := kit.Getenv("C09_DEV_OPS", ""); dev != "" { // development aid: print the answers of statements on one layout
		if kit.Getenv("C09_DEV_Q", "") == "" {
			c09DevPrint = func(variant, rng string, c c09AggField, diffs []string) {
				fmt.Printf("DEV %-22s %-8s %s(%s): %s\n", variant, rng, c.Agg, c.Field, strings.Join(diffs, "; "))
			}
			last := len(strings.Fields(dev)) - 1
			c09RunHistory(rep, vMkdir(scratch, "dev"), strings.Fields(dev), func(i int) (bool, int) { return i == last, 2 })
			return
		}
		c09RunHistory(rep, vMkdir(scratch, "dev"), strings.Fields(dev), func(i int) (bool, int) {
			if i == len(strings.Fields(dev))-1 {
				for _, q := range strings.Split(kit.Getenv("C09_DEV_Q", ""), ";") {
					series, err := c09Select(c09TheStore.v, strings.TrimSpace(q))
					fmt.Printf("DEV %s\n    err=%v\n", q, err)
					for _, s := range series {
						fmt.Printf("    host=%q %v %v\n", s.Host, s.Columns, s.Values)
					}
				}
			}
			return false, 0
		})
		return
	}
	// quick: the small alphabet to depth 3, reduced query set.
	// thorough: (A) the big alphabet to depth 3 - full query set on states of length <= 2, reduced set on length 3;
	//           (B) the small alphabet (a subset of the big one) to depth 4 - only the states of length 4 are new.
	type pass struct {
		big       bool
		depth     int
		fullDepth int // states of length <= fullDepth get the full query set
		fromLen   int // states shorter than this were evaluated by an earlier pass
	}
	passes := []pass{{false, 3, 0, 1}}
	if thorough {
		passes = []pass{{true, 3, 2, 1}, {false, 4, 0, 4}}
	}
	if d := kit.Getenv("VERIF_DEPTH", ""); d != "" { // development aid
		var depth int
		fmt.Sscanf(d, "%d", &depth)
		passes = []pass{{kit.Getenv("VERIF_BIG", "") != "", depth, 0, 1}}
	}
	rep.Note("agg_fields=%d variants(light/reduced/full)=%d/%d/%d ranges(light/reduced/full)=%d/%d/%d",
		len(c09AggFields), len(c09Variants(0)), len(c09Variants(1)), len(c09Variants(2)), len(c09Ranges(0)), len(c09Ranges(1)), len(c09Ranges(2)))
	for pi, p := range passes {
		ops := c09Ops(p.big)
		rep.Note("pass %d: alphabet=%v depth=%d full_query_set_up_to_length=%d states_evaluated_from_length=%d", pi, ops, p.depth, p.fullDepth, p.fromLen)
		c09Explore(rep, scratch, ops, p.depth, p.fullDepth, p.fromLen)
	}
	if kit.Getenv("VERIF_DEPTH", "") == "" {
		// generations pass: all sequences of the four single-timestamp "write + flush" ops up to length 4: one series spread
		// over an ordered file and up to three out-of-order files (the statistics of several out-of-order files are combined)
		rep.Note("generations pass: alphabet=%v depth=4", c09GenerationOps)
		c09Explore(rep, scratch, c09GenerationOps, 4, 0, 1)
	}
}

// c09Explore enumerates every op sequence of length depth in lexicographic order (c02Explore); a state (prefix)
// is evaluated the first time it is reached; prefixes shorter than the sharding level are evaluated by one owner.
func c09Explore(rep *kit.Report, scratch string, ops []string, depth, fullDepth, fromLen int) {
	n := len(ops)
	seq := make([]int, depth)
	var prev []int
	dir := vMkdir(scratch, "sh")
	names := make([]string, depth)
	var only *regexp.Regexp // development aid: VERIF_C09_ONLY=<regexp> runs only the histories it matches ("^WRF WNF ")
	if rx := os.Getenv("VERIF_C09_ONLY"); rx != "" {
		only = regexp.MustCompile(rx)
		rep.Cut("VERIF_C09_ONLY=" + rx)
	}
	for {
		sub := 0
		for i := 0; i < depth && i < 2; i++ {
			sub = sub*n + seq[i]
		}
		bump := depth - 1
		for i, o := range seq {
			names[i] = ops[o]
		}
		if kit.Mine(sub) && (only == nil || only.MatchString(strings.Join(names, " "))) {
			if rep.Expired() {
				return
			}
			common := 0
			for prev != nil && common < depth && prev[common] == seq[common] {
				common++
			}
			cur := append([]int(nil), seq...)
			rep.Count("histories", 1)
			fmt.Println("H", strings.Join(names, " "))     // the worker's log names the running history if the process dies
			noQuery := kit.Getenv("C09_NOQUERY", "") != "" // development aid: run the histories only
			var noopAt int
			var failed bool
			rep.RunConfirmed(func() {
				noopAt, failed = c09RunHistory(rep, dir, names, func(i int) (bool, int) {
					if i+1 < fromLen || noQuery {
						return false, 0 // evaluated by an earlier pass
					}
					if prev != nil && i < common {
						return false, 0 // this prefix was evaluated by an earlier sequence of this worker
					}
					if i == 0 && depth > 1 && !kit.Mine(cur[0]*n) {
						return false, 0 // length-1 prefixes are shared by several workers: one owner
					}
					if i < fullDepth {
						return true, 2
					}
					return true, 1
				})
			})
			prev = cur
			if failed {
				rep.Count("failed_histories", 1)
			}
			if noopAt >= 0 {
				rep.Count("noop_pruned", 1)
				bump = noopAt
			}
		}
		i := bump
		for ; i >= 0; i-- {
			seq[i]++
			if seq[i] < n {
				break
			}
			seq[i] = 0
		}
		if i < 0 {
			return
		}
		for j := i + 1; j < depth; j++ {
			seq[j] = 0
		}
	}
}
