//go:build verif

package engine

import (
	"context"
	"fmt"
	"strings"
	"testing"
	"time"

	"github.com/openGemini/openGemini/engine/executor"
	"github.com/openGemini/openGemini/engine/hybridqp"
	"github.com/openGemini/openGemini/lib/statisticsPusher/statistics"
	"github.com/openGemini/openGemini/lib/util/lifted/influx/influxql"
	"github.com/openGemini/openGemini/lib/util/lifted/influx/query"
	kit "github.com/openGemini/openGemini/lib/verifkit"
)

// ---- the statement path: executor.Select on a one-shard "cluster" ---------------------------------

// c09Store is the storage the index-scan operator asks for cursors (hybridqp.StoreEngine): exactly one
// shard, delegating to shard.CreateLogicalPlan like EngineImpl.CreateLogicalPlanOneShard does.
type c09Store struct{ v *vShard }

func (s *c09Store) ReportLoad() {}
func (s *c09Store) CreateLogicPlan(ctx context.Context, db string, ptId uint32, shardID []uint64, sources influxql.Sources, schema hybridqp.Catalog) (hybridqp.QueryNode, error) {
	return s.v.sh.CreateLogicalPlan(ctx, sources, schema.(*executor.QuerySchema))
}
func (s *c09Store) ScanWithSparseIndex(ctx context.Context, db string, ptId uint32, shardIDS []uint64, schema hybridqp.Catalog) (hybridqp.IShardsFragments, error) {
	return nil, nil
}
func (s *c09Store) GetIndexInfo(db string, ptId uint32, shardID uint64, schema hybridqp.Catalog) (interface{}, error) {
	return nil, nil
}
func (s *c09Store) RowCount(db string, ptId uint32, shardIDS []uint64, schema hybridqp.Catalog) (int64, error) {
	return 0, nil
}
func (s *c09Store) UnrefEngineDbPt(db string, ptId uint32)                              {}
func (s *c09Store) GetShardDownSampleLevel(db string, ptId uint32, shardID uint64) int { return 0 }

// c09Mapper / c09Group stand in for the coordinator's ClusterShardMapper: one node, one partition, one shard.
type c09Mapper struct{ v *vShard }

func (m *c09Mapper) MapShards(stmt *influxql.SelectStatement, t influxql.TimeRange, opt query.SelectOptions, condition influxql.Expr) (query.ShardGroup, error) {
	return &c09Group{v: m.v}, nil
}
func (m *c09Mapper) Close() error { return nil }

type c09Group struct{ v *vShard }

func (g *c09Group) FieldDimensions(m *influxql.Measurement) (map[string]influxql.DataType, map[string]struct{}, *influxql.Schema, error) {
	fields := map[string]influxql.DataType{}
	for _, f := range vFields {
		fields[f.Val] = f.Type
	}
	return fields, map[string]struct{}{"host": {}}, &influxql.Schema{}, nil
}
func (g *c09Group) MapType(m *influxql.Measurement, field string) influxql.DataType {
	for _, f := range vFields {
		if f.Val == field {
			return f.Type
		}
	}
	if field == "host" {
		return influxql.Tag
	}
	return influxql.Unknown
}
func (g *c09Group) MapTypeBatch(m *influxql.Measurement, fields map[string]*influxql.FieldNameSpace, schema *influxql.Schema) error {
	for k := range fields {
		fields[k].DataType = g.MapType(m, k)
	}
	return nil
}
func (g *c09Group) Close() error { return nil }
func (g *c09Group) LogicalPlanCost(source *influxql.Measurement, opt query.ProcessorOptions) (hybridqp.LogicalPlanCost, error) {
	return hybridqp.LogicalPlanCost{}, nil
}
func (g *c09Group) GetSources(sources influxql.Sources) influxql.Sources { return sources }
func (g *c09Group) GetSeriesKey() []byte                                   { return nil }
func (g *c09Group) GetTagKeys(stmt *influxql.ShowTagValuesStatement) (map[string]map[string]struct{}, error) {
	return nil, nil
}
func (g *c09Group) GetTagVals(nodeID uint64, stmt *influxql.ShowTagValuesStatement, pts []uint32, tagKeys map[string]map[string]struct{}, exact bool) (influxql.TablesTagSets, error) {
	return nil, nil
}
func (g *c09Group) QueryNodePtsMap(database string) (map[uint64][]uint32, error) { return nil, nil }
func (g *c09Group) CheckDatabaseExists(name string) error                          { return nil }

// GetETraits: one remote query for (node 1, pt defaultPtId, the shard) - coordinator.makeRemoteQuery.
func (g *c09Group) GetETraits(ctx context.Context, sources influxql.Sources, schema hybridqp.Catalog) ([]hybridqp.Trait, error) {
	opts := schema.Options().(*query.ProcessorOptions)
	opt := *opts
	opt.Sources = sources
	rq := &executor.RemoteQuery{Database: defaultDb, PtID: defaultPtId, NodeID: 1, ShardIDs: []uint64{g.v.sh.GetID()}, Opt: opt}
	opts.Sources = sources
	return []hybridqp.Trait{rq}, nil
}

// CreateLogicalPlan: the ts-store branch of coordinator.ClusterShardMapping.CreateLogicalPlan.
func (g *c09Group) CreateLogicalPlan(ctx context.Context, sources influxql.Sources, schema hybridqp.Catalog) (hybridqp.QueryNode, error) {
	eTraits, err := g.GetETraits(ctx, sources, schema)
	if len(eTraits) == 0 || err != nil {
		return nil, err
	}
	builder := executor.NewLogicalPlanBuilderImpl(schema)
	plan, err := builder.CreateSeriesPlan()
	if err != nil {
		return nil, err
	}
	if plan, err = builder.CreateMeasurementPlan(plan); err != nil {
		return nil, err
	}
	if plan, err = builder.CreateScanPlan(plan); err != nil {
		return nil, err
	}
	if plan, err = builder.CreateShardPlan(plan); err != nil {
		return nil, err
	}
	if plan.Schema().Options().CanQueryPushDown() {
		nodeTraits, ok := ctx.Value(hybridqp.NodeTrait).(*[]hybridqp.Trait)
		if !ok {
			return nil, fmt.Errorf("no node traits")
		}
		*nodeTraits = append(*nodeTraits, eTraits...)
		return plan, nil
	}
	return builder.CreateNodePlan(plan, eTraits)
}

func c09Parse(q string) (*influxql.SelectStatement, error) {
	p := influxql.NewParser(strings.NewReader(q))
	defer p.Release()
	yy := influxql.NewYyParser(p.GetScanner(), p.GetPara())
	yy.ParseTokens()
	qr, err := yy.GetQuery()
	if err != nil {
		return nil, err
	}
	if len(qr.Statements) != 1 {
		return nil, fmt.Errorf("%d statements", len(qr.Statements))
	}
	s, ok := qr.Statements[0].(*influxql.SelectStatement)
	if !ok {
		return nil, fmt.Errorf("not a select")
	}
	return s, nil
}

// c09Select runs one statement the way the coordinator of a single-process server does (executeSelectStatement).
func c09Select(v *vShard, q string) (rows []*c09Series, err error) {
	stmt, err := c09Parse(q)
	if err != nil {
		return nil, err
	}
	stmt.OmitTime = true
	rc := make(chan query.RowsChan)
	sopt := query.SelectOptions{ChunkSize: 1024, ChunkedSize: 10000, RowsChan: rc, MaxQueryParallel: 1}
	ctx := context.WithValue(context.Background(), query.QueryDurationKey, (*statistics.SQLSlowQueryStatistics)(nil))
	ex, err := executor.Select(ctx, stmt, &c09Mapper{v: v}, sopt)
	if err != nil {
		return nil, err
	}
	if ex == nil {
		return nil, nil
	}
	pe := ex.(*executor.PipelineExecutor)
	ec := make(chan error, 1)
	go func() {
		ec <- pe.ExecuteExecutor(context.Background())
		close(rc)
	}()
	for r := range rc {
		for _, row := range r.Rows {
			s := &c09Series{Name: row.Name, Tags: row.Tags, Columns: row.Columns}
			for _, vals := range row.Values {
				s.Values = append(s.Values, append([]interface{}(nil), vals...))
			}
			rows = append(rows, s)
		}
	}
	if err := <-ec; err != nil {
		return rows, err
	}
	return rows, nil
}

type c09Series struct {
	Name    string
	Tags    map[string]string
	Columns []string
	Values  [][]interface{}
}

func (s *c09Series) String() string {
	return fmt.Sprintf("%s%v %v %v", s.Name, s.Tags, s.Columns, s.Values)
}

func TestVerifC09(t *testing.T) {
	rep := kit.NewReport("C09")
	defer rep.Save()
	vSetupEngineKnobs()
	scratch := kit.Scratch()
	dir := vMkdir(scratch, "sh")
	v, err := vOpenShard(dir)
	if err != nil {
		t.Fatal(err)
	}
	defer v.Close()
	executor.SetLocalStorageForQuery(&c09Store{v: v})
	executor.InitLocalStoreTemplatePlan()
	m := vModel{}
	for i, op := range []string{"Wc", "We", "F", "Wd", "Wh"} {
		if err := vApply(v, m, op, i+1); err != nil {
			t.Fatal(err)
		}
	}
	t0 := time.Now()
	for _, q := range []string{
		"select count(f) from m",
		"select /*+ exact_statistic_query */ count(f) from m",
		"select sum(f), min(i), last(s) from m",
		"select count(f) from m group by host",
		"select mean(f) from m where f > 0",
		fmt.Sprintf("select count(f) from m where time >= %d and time <= %d group by time(2s)", vT(1), vT(4)),
		fmt.Sprintf("select first(i) from m where time >= %d and time <= %d order by time desc", vT(1), vT(4)),
	} {
		rows, err := c09Select(v, q)
		fmt.Printf("%s\n   err=%v\n", q, err)
		for _, r := range rows {
			fmt.Printf("   %v\n", r)
		}
	}
	fmt.Println("elapsed", time.Since(t0))
}
