//go:build verif

package engine

// Crash recorder shared by the fault-enumeration checks (C01, C03): freezes a crash image of the
// shard tree before every lib/fileops mutation and after every torn write prefix (DESIGN.md §2.2).

import (
	"fmt"
	"os"
	"path/filepath"
	"sort"
	"strings"

	"github.com/openGemini/openGemini/lib/fileops"
	"github.com/openGemini/openGemini/lib/verifkit/crashfs"
)

// ---- crash recorder ---------------------------------------------------------------------------

type vImage struct {
	Dir      string
	Seq      int    // number of the mutation that was about to happen (or was torn)
	Kind     string // mutation kind
	File     string // path relative to the shard root
	Torn     string // "" or "k/n bytes"
	Acked    int    // number of history ops that had returned
	InFlight bool   // an op was executing
}

func (im vImage) String() string {
	s := fmt.Sprintf("before mutation #%d %s %s", im.Seq, im.Kind, im.File)
	if im.Torn != "" {
		s = fmt.Sprintf("inside mutation #%d %s %s torn %s", im.Seq, im.Kind, im.File, im.Torn)
	}
	return fmt.Sprintf("%s (ops acked=%d, in flight=%v)", s, im.Acked, im.InFlight)
}

type vRecorder struct {
	root     string
	imgRoot  string
	on       bool
	seq      int
	acked    int
	inFlight bool
	images   []vImage
	seen     map[string]bool
	nMut     int
	nTorn    int
	nDup     int
	err      error
}

var vRec *vRecorder

func vInstallRecorder() {
	fileops.VerifInstall()
	fileops.VerifHook = func(m *fileops.VerifMutation) {
		if r := vRec; r != nil && r.on {
			r.onMutation(m)
		}
	}
	fileops.VerifTornCuts = func(path string, n int) []int {
		r := vRec
		if r == nil || !r.on || !strings.HasPrefix(path, r.root) || n < 2 {
			return nil
		}
		var cuts []int
		add := func(c int) {
			if c > 0 && c < n {
				cuts = append(cuts, c)
			}
		}
		base := filepath.Base(path)
		if strings.Contains(path, "/wal/") || strings.Contains(base, "compact") || strings.HasSuffix(base, ".log") {
			for _, c := range []int{1, WalRecordHeadSize - 1, WalRecordHeadSize, WalRecordHeadSize + 1, n / 2, n - 1} {
				add(c)
			}
		} else {
			add(n / 2)
		}
		sort.Ints(cuts)
		out := cuts[:0]
		for i, c := range cuts {
			if i == 0 || c != cuts[i-1] {
				out = append(out, c)
			}
		}
		return out
	}
}

func (r *vRecorder) onMutation(m *fileops.VerifMutation) {
	if m.Kind == "sync" {
		return
	}
	if m.Kind != "ack" && !strings.HasPrefix(m.Path, r.root) && !strings.HasPrefix(m.Path2, r.root) {
		return
	}
	if m.Kind != "ack" && m.Torn < 0 {
		r.seq++
		r.nMut++
	}
	if m.Torn > 0 {
		r.nTorn++
	}
	dir := filepath.Join(r.imgRoot, fmt.Sprintf("i%05d", len(r.images)))
	digest, err := crashfs.CopyTree(r.root, dir)
	if err != nil {
		r.err = err
		return
	}
	if r.seen[digest] {
		r.nDup++
		_ = os.RemoveAll(dir)
		return
	}
	r.seen[digest] = true
	rel := strings.TrimPrefix(m.Path, r.root)
	torn := ""
	if m.Torn > 0 {
		torn = fmt.Sprintf("%d/%d bytes", m.Torn, m.Len)
	}
	r.images = append(r.images, vImage{Dir: dir, Seq: r.seq, Kind: m.Kind, File: rel, Torn: torn, Acked: r.acked, InFlight: r.inFlight})
}

func vTreeDigest(dir string) string {
	tmp := dir + ".digest"
	d, _ := crashfs.CopyTree(dir, tmp)
	_ = os.RemoveAll(tmp)
	return d
}

// vFullDump reads everything (both measurements, all fields, full range).
func vFullDump(v *vShard) (map[vKey]map[string]vVal, error) {
	all := map[vKey]map[string]vVal{}
	for _, mst := range vMsts {
		got, shapeErrs, err := v.Dump(vFullDumpQuery(mst))
		if err != nil {
			return nil, err
		}
		if len(shapeErrs) > 0 {
			return nil, fmt.Errorf("stream shape: %s", strings.Join(shapeErrs, "; "))
		}
		for k, fs := range got {
			all[k] = fs
		}
	}
	return all, nil
}

func vCompareFull(m vModel, got map[vKey]map[string]vVal) []string {
	var diffs []string
	for _, mst := range vMsts {
		sub := map[vKey]map[string]vVal{}
		for k, fs := range got {
			if k.Mst == mst {
				sub[k] = fs
			}
		}
		diffs = append(diffs, m.Compare(vFullDumpQuery(mst), sub)...)
	}
	return diffs
}
